//! T1 — translator of truc_runtime/src/{data,convert}.rs into the facts the Coq models branch on.
//!
//! The sources are parsed with `syn`; the body of each function of interest is walked in evaluation
//! order, calls of private helper functions / methods of the same file and of `let`-bound closures are
//! inlined, statements guarded by `#[cfg(truc_verif)]` are skipped, `std::` / `core::` prefixes are
//! dropped.  The facts are read off the resulting event sequence, so renaming locals, extracting helpers,
//! method-call vs function-call forms of the pointer primitives do not disturb them.  A shape that is not
//! recognised yields `Unknown` / `0` and a `note` line: the `*_current` obligation then fails (a broken
//! tie), it is never guessed.
//!
//! Output (stdout), one fact per line:
//!   data <fn> origin=<Unique|SharedRO|Unknown> access=<Aligned|Unaligned|Reference|Unknown>
//!   convert guard_size=<0|1> guard_align=.. inc_before_call=.. free_on_failure=.. same_payload=..
//!   note <text>

use std::collections::HashMap;

use quote::ToTokens;
use syn::{visit::Visit, Block, Expr, ImplItem, Item, Pat, Stmt};

#[derive(Debug, Clone, PartialEq)]
enum Ev {
    Method(String, String),
    Call(String, String),
    Macro(String, String),
    AddAssign(String),
    Return,
    Try,
    Ref(bool),
    Enter(String),
}

fn squeeze(s: &str) -> String {
    s.chars().filter(|c| !c.is_whitespace()).collect()
}

fn is_verif_cfg(attrs: &[syn::Attribute]) -> bool {
    attrs.iter().any(|a| a.path().is_ident("cfg") && squeeze(&a.to_token_stream().to_string()).contains("truc_verif"))
}

fn expr_attrs(e: &Expr) -> &[syn::Attribute] {
    match e {
        Expr::Call(x) => &x.attrs,
        Expr::MethodCall(x) => &x.attrs,
        Expr::Macro(x) => &x.attrs,
        Expr::Block(x) => &x.attrs,
        Expr::Unsafe(x) => &x.attrs,
        Expr::If(x) => &x.attrs,
        Expr::Assign(x) => &x.attrs,
        Expr::Binary(x) => &x.attrs,
        Expr::Path(x) => &x.attrs,
        _ => &[],
    }
}

/// last two segments of a path, `std` / `core` / `crate` / `self` prefixes dropped
fn path_name(p: &syn::Path) -> String {
    let segs: Vec<String> = p.segments.iter().map(|s| s.ident.to_string()).filter(|s| s != "std" && s != "core" && s != "alloc").collect();
    let n = segs.len();
    if n >= 2 {
        format!("{}::{}", segs[n - 2], segs[n - 1])
    } else {
        segs.join("::")
    }
}

struct Collector<'a> {
    fns: &'a HashMap<String, Block>,
    closures: HashMap<String, Expr>,
    events: Vec<Ev>,
    depth: usize,
}

impl<'a> Collector<'a> {
    fn new(fns: &'a HashMap<String, Block>) -> Self {
        Collector { fns, closures: HashMap::new(), events: Vec::new(), depth: 0 }
    }
    fn inline_fn(&mut self, name: &str) -> bool {
        if self.depth >= 4 {
            return false;
        }
        if let Some(c) = self.closures.get(name).cloned() {
            self.events.push(Ev::Enter(name.to_owned()));
            self.depth += 1;
            if let Expr::Closure(cl) = &c {
                self.visit_expr(&cl.body);
            }
            self.depth -= 1;
            return true;
        }
        if let Some(b) = self.fns.get(name) {
            self.events.push(Ev::Enter(name.to_owned()));
            self.depth += 1;
            let b = b.clone();
            self.visit_block(&b);
            self.depth -= 1;
            return true;
        }
        false
    }
}

impl<'a, 'ast> Visit<'ast> for Collector<'a> {
    fn visit_stmt(&mut self, s: &'ast Stmt) {
        match s {
            Stmt::Local(l) => {
                if is_verif_cfg(&l.attrs) {
                    return;
                }
                if let (Pat::Ident(pi), Some(init)) = (&l.pat, &l.init) {
                    if let Expr::Closure(_) = &*init.expr {
                        self.closures.insert(pi.ident.to_string(), (*init.expr).clone());
                        return;
                    }
                }
                syn::visit::visit_local(self, l);
            }
            Stmt::Macro(m) => {
                if is_verif_cfg(&m.attrs) {
                    return;
                }
                self.events.push(Ev::Macro(path_name(&m.mac.path), squeeze(&m.mac.tokens.to_string())));
            }
            Stmt::Expr(e, _) => self.visit_expr(e),
            Stmt::Item(_) => {}
        }
    }

    fn visit_expr(&mut self, e: &'ast Expr) {
        if is_verif_cfg(expr_attrs(e)) {
            return;
        }
        match e {
            Expr::MethodCall(m) => {
                self.visit_expr(&m.receiver);
                for a in &m.args {
                    self.visit_expr(a);
                }
                let name = m.method.to_string();
                let on_self = squeeze(&m.receiver.to_token_stream().to_string()) == "self";
                if on_self && self.inline_fn(&name) {
                    return;
                }
                let args = squeeze(&m.args.to_token_stream().to_string());
                self.events.push(Ev::Method(name, args));
            }
            Expr::Call(c) => {
                for a in &c.args {
                    self.visit_expr(a);
                }
                let args = squeeze(&c.args.to_token_stream().to_string());
                if let Expr::Path(p) = &*c.func {
                    let name = path_name(&p.path);
                    if p.path.segments.len() == 1 && self.inline_fn(&name) {
                        return;
                    }
                    if p.path.segments.len() == 2 && p.path.segments[0].ident == "Self" && self.inline_fn(&p.path.segments[1].ident.to_string()) {
                        return;
                    }
                    self.events.push(Ev::Call(name, args));
                } else {
                    self.visit_expr(&c.func);
                    self.events.push(Ev::Call("?".to_owned(), args));
                }
            }
            Expr::Macro(m) => {
                self.events.push(Ev::Macro(path_name(&m.mac.path), squeeze(&m.mac.tokens.to_string())));
            }
            Expr::Binary(b) => {
                self.visit_expr(&b.left);
                self.visit_expr(&b.right);
                if let syn::BinOp::AddAssign(_) = b.op {
                    self.events.push(Ev::AddAssign(squeeze(&b.left.to_token_stream().to_string())));
                }
            }
            Expr::Return(r) => {
                if let Some(x) = &r.expr {
                    self.visit_expr(x);
                }
                self.events.push(Ev::Return);
            }
            Expr::Try(t) => {
                self.visit_expr(&t.expr);
                self.events.push(Ev::Try);
            }
            Expr::Reference(r) => {
                if let Expr::Unary(u) = &*r.expr {
                    if let syn::UnOp::Deref(_) = u.op {
                        self.visit_expr(&u.expr);
                        self.events.push(Ev::Ref(r.mutability.is_some()));
                        return;
                    }
                }
                self.visit_expr(&r.expr);
            }
            Expr::Closure(c) => {
                // a closure met as an argument is run by its callee (catch_unwind)
                self.visit_expr(&c.body);
            }
            _ => syn::visit::visit_expr(self, e),
        }
    }
}

fn collect_fns(file: &syn::File) -> HashMap<String, Block> {
    let mut m = HashMap::new();
    for it in &file.items {
        match it {
            Item::Fn(f) => {
                m.insert(f.sig.ident.to_string(), (*f.block).clone());
            }
            Item::Impl(i) if i.trait_.is_none() => {
                for ii in &i.items {
                    if let ImplItem::Fn(f) = ii {
                        m.insert(f.sig.ident.to_string(), f.block.clone());
                    }
                }
            }
            _ => {}
        }
    }
    m
}

fn events_of(fns: &HashMap<String, Block>, name: &str) -> Option<Vec<Ev>> {
    let b = fns.get(name)?;
    // the function itself must not be inlined into itself
    let mut c = Collector::new(fns);
    c.visit_block(b);
    Some(c.events)
}

fn scan_data(src: &str) {
    let file = match syn::parse_file(src) {
        Ok(f) => f,
        Err(e) => {
            println!("note data.rs does not parse: {}", e);
            for n in ["read", "write", "get", "get_mut"] {
                println!("data {} origin=Unknown access=Unknown", n);
            }
            return;
        }
    };
    let fns = collect_fns(&file);
    for n in ["read", "write", "get", "get_mut"] {
        let ev = events_of(&fns, n).unwrap_or_default();
        let has_m = |k: &str| ev.iter().any(|e| matches!(e, Ev::Method(m, _) if m == k));
        let has_c = |k: &str| ev.iter().any(|e| matches!(e, Ev::Call(m, _) if m == k));
        let origin = if has_m("as_mut_ptr") {
            "Unique"
        } else if has_m("as_ptr") {
            "SharedRO"
        } else {
            "Unknown"
        };
        let access = match n {
            "read" => {
                if has_c("ptr::read_unaligned") || has_m("read_unaligned") {
                    "Unaligned"
                } else if has_c("ptr::read") || has_m("read") {
                    "Aligned"
                } else {
                    "Unknown"
                }
            }
            "write" => {
                if has_c("ptr::write_unaligned") || has_m("write_unaligned") {
                    "Unaligned"
                } else if has_c("ptr::write") || has_m("write") {
                    "Aligned"
                } else {
                    "Unknown"
                }
            }
            "get" => {
                if ev.iter().any(|e| matches!(e, Ev::Ref(false))) {
                    "Reference"
                } else {
                    "Unknown"
                }
            }
            _ => {
                if ev.iter().any(|e| matches!(e, Ev::Ref(true))) {
                    "Reference"
                } else {
                    "Unknown"
                }
            }
        };
        if origin == "Unknown" || access == "Unknown" {
            println!("note primitive {} not recognised: {:?}", n, ev);
        }
        println!("data {} origin={} access={}", n, origin, access);
    }
}

fn is_guard(ev: &Ev, kind: &str) -> bool {
    match ev {
        Ev::Macro(name, toks) => {
            (name == "assert_eq" || name == "assert") && toks.contains(&format!("{}::<T>()", kind)) && toks.contains(&format!("{}::<U>()", kind))
        }
        _ => false,
    }
}

fn pat_str(p: &Pat) -> String {
    squeeze(&p.to_token_stream().to_string())
}

fn scan_convert(src: &str) {
    let mut facts = [("guard_size", false), ("guard_align", false), ("inc_before_call", false), ("free_on_failure", false), ("same_payload", false)];
    let mut notes: Vec<String> = Vec::new();
    'scan: {
        let file = match syn::parse_file(src) {
            Ok(f) => f,
            Err(e) => {
                notes.push(format!("convert.rs does not parse: {}", e));
                break 'scan;
            }
        };
        let fns = collect_fns(&file);
        let item = file.items.iter().find_map(|it| match it {
            Item::Fn(f) if f.sig.ident == "try_convert_vec_in_place" => Some(f),
            _ => None,
        });
        let f = match item {
            Some(f) => f,
            None => {
                notes.push("fn try_convert_vec_in_place not found".to_owned());
                break 'scan;
            }
        };
        let params: Vec<String> = f
            .sig
            .inputs
            .iter()
            .filter_map(|a| match a {
                syn::FnArg::Typed(t) => Some(pat_str(&t.pat).trim_start_matches("mut").to_owned()),
                _ => None,
            })
            .collect();
        if params.len() != 2 {
            notes.push("unexpected signature".to_owned());
            break 'scan;
        }
        let conv = params[1].clone();
        // ---- (a) what precedes taking ownership of the vector: only the two assertions
        let mut others_before = Vec::new();
        let mut seen_size = false;
        let mut seen_align = false;
        let mut own_found = false;
        for st in &f.block.stmts {
            let mut c = Collector::new(&fns);
            c.visit_stmt(st);
            if c.events.iter().any(|e| matches!(e, Ev::Call(n, _) if n == "ManuallyDrop::new")) {
                own_found = true;
                break;
            }
            if c.events.len() == 1 && is_guard(&c.events[0], "size_of") {
                seen_size = true;
            } else if c.events.len() == 1 && is_guard(&c.events[0], "align_of") {
                seen_align = true;
            } else if seen_size && seen_align {
                // after both assertions: not a guard matter (the behaviour is E4's to compare)
            } else {
                others_before.push(squeeze(&st.to_token_stream().to_string()).chars().take(80).collect::<String>());
            }
        }
        if !own_found {
            notes.push("no ManuallyDrop::new(..) statement at the top level of the function".to_owned());
        }
        if !others_before.is_empty() {
            notes.push(format!("code other than the two assertions precedes an assertion: {}", others_before.join(" | ")));
        }
        facts[0].1 = own_found && seen_size && others_before.is_empty();
        facts[1].1 = own_found && seen_align && others_before.is_empty();
        if !seen_size {
            notes.push("no assert on size_of::<T>() / size_of::<U>() before the take-over".to_owned());
        }
        if !seen_align {
            notes.push("no assert on align_of::<T>() / align_of::<U>() before the take-over".to_owned());
        }
        // ---- (b) the loop: the input cursor is advanced before the converter is called.
        // The loop is the innermost `while` / `loop` / `for` whose body calls the converter; the input cursor is the
        // incremented variable that the loop condition (or a `break` test) compares, or that indexes the element
        // copied out of the vector.
        struct FindLoop<'f> {
            fns: &'f HashMap<String, Block>,
            conv: String,
            found: Option<(Block, String)>, // body, condition text ("" for loop / for)
        }
        impl<'f, 'ast> Visit<'ast> for FindLoop<'f> {
            fn visit_expr(&mut self, e: &'ast Expr) {
                syn::visit::visit_expr(self, e); // innermost first
                if self.found.is_some() {
                    return;
                }
                let (body, cond) = match e {
                    Expr::While(w) => (w.body.clone(), squeeze(&w.cond.to_token_stream().to_string())),
                    Expr::Loop(l) => (l.body.clone(), String::new()),
                    Expr::ForLoop(l) => (l.body.clone(), String::new()),
                    _ => return,
                };
                let mut c = Collector::new(self.fns);
                c.visit_block(&body);
                if c.events.iter().any(|ev| matches!(ev, Ev::Call(n, _) if *n == self.conv)) {
                    self.found = Some((body, cond));
                }
            }
        }
        let mut fl = FindLoop { fns: &fns, conv: conv.clone(), found: None };
        fl.visit_block(&f.block);
        match fl.found {
            Some((body, cond)) => {
                let mut c = Collector::new(&fns);
                c.visit_block(&body);
                let call = c.events.iter().position(|e| matches!(e, Ev::Call(n, _) if *n == conv));
                let incs: Vec<(usize, String)> = c.events.iter().enumerate().filter_map(|(k, e)| match e {
                    Ev::AddAssign(v) => Some((k, v.clone())),
                    _ => None,
                }).collect();
                // texts in which the input cursor must occur: the loop condition, the tests guarding a `break`,
                // the source of the element copy
                let body_txt = squeeze(&body.to_token_stream().to_string());
                let mut hints: Vec<String> = vec![cond];
                for part in body_txt.split("if").skip(1) {
                    if let Some(p) = part.find("{break") {
                        hints.push(part[..p].to_owned());
                    }
                }
                for ev in &c.events {
                    if let Ev::Call(n, a) = ev {
                        if n == "ptr::copy_nonoverlapping" || n == "ptr::read" {
                            hints.push(a.split(',').next().unwrap_or("").to_owned());
                        }
                    }
                }
                let is_word = |hay: &str, w: &str| {
                    hay.match_indices(w).any(|(p, _)| {
                        let before = hay[..p].chars().last();
                        let after = hay[p + w.len()..].chars().next();
                        !before.map_or(false, |c| c.is_alphanumeric() || c == '_') && !after.map_or(false, |c| c.is_alphanumeric() || c == '_')
                    })
                };
                let cursor = incs.iter().map(|(_, v)| v.clone()).find(|v| hints.iter().any(|h| is_word(h, v)));
                match (cursor, call) {
                    (Some(cur), Some(k)) => {
                        let i = incs.iter().find(|(_, v)| *v == cur).map(|(i, _)| *i).unwrap();
                        facts[2].1 = i < k;
                        if i >= k {
                            notes.push(format!("`{} += 1` does not precede the call of `{}`", cur, conv));
                        }
                    }
                    _ => notes.push(format!("loop body not recognised (converter `{}`): {:?}", conv, c.events)),
                }
            }
            None => notes.push("no loop calling the converter found".to_owned()),
        }
        // ---- (c) the failure arms of the final match
        struct FindMatch {
            found: Option<syn::ExprMatch>,
        }
        impl<'ast> Visit<'ast> for FindMatch {
            fn visit_expr_match(&mut self, m: &'ast syn::ExprMatch) {
                let pats: Vec<String> = m.arms.iter().map(|a| pat_str(&a.pat)).collect();
                if pats.iter().any(|p| p == "Ok(Ok(()))") {
                    self.found = Some(m.clone());
                }
                syn::visit::visit_expr_match(self, m);
            }
        }
        let mut fm = FindMatch { found: None };
        fm.visit_block(&f.block);
        let m = match fm.found {
            Some(m) => m,
            None => {
                notes.push("final match on the caught result not found".to_owned());
                break 'scan;
            }
        };
        // closures bound at the top level of the function (clean_on_error)
        let mut top = Collector::new(&fns);
        for st in &f.block.stmts {
            if let Stmt::Local(l) = st {
                if let (Pat::Ident(pi), Some(init)) = (&l.pat, &l.init) {
                    if let Expr::Closure(_) = &*init.expr {
                        top.closures.insert(pi.ident.to_string(), (*init.expr).clone());
                    }
                }
            }
        }
        let binding = |p: &str, pre: &str| -> Option<String> {
            let inner = p.strip_prefix(pre)?.strip_suffix(&")".repeat(pre.matches('(').count()))?;
            if !inner.is_empty() && inner.chars().all(|c| c.is_alphanumeric() || c == '_') {
                Some(inner.to_owned())
            } else {
                None
            }
        };
        let mut free = true;
        let mut same = true;
        let mut seen_err = false;
        let mut seen_panic = false;
        for arm in &m.arms {
            let p = pat_str(&arm.pat);
            let (is_err, b) = if let Some(b) = binding(&p, "Ok(Err(") {
                (true, b)
            } else if p.starts_with("Err(") {
                match binding(&p, "Err(") {
                    Some(b) => (false, b),
                    None => continue,
                }
            } else {
                continue;
            };
            let mut c = Collector::new(&fns);
            c.closures = top.closures.clone();
            c.visit_expr(&arm.body);
            let ev = &c.events;
            let clean = ev.iter().position(|e| matches!(e, Ev::Enter(_)));
            let setlen = ev.iter().position(|e| matches!(e, Ev::Method(n, a) if n == "set_len" && a == "0"));
            let drop = ev.iter().position(|e| matches!(e, Ev::Call(n, _) if n == "ManuallyDrop::drop"));
            let ok_free = matches!((clean, setlen, drop), (Some(c0), Some(s), Some(d)) if c0 < s && s < d);
            if !ok_free {
                free = false;
                notes.push(format!("failure arm `{}` does not clean up and then release the buffer: {:?}", p, ev));
            }
            if is_err {
                seen_err = true;
                // the arm's value is Err(<binding>)
                let tail = match &*arm.body {
                    Expr::Block(b) => b.block.stmts.last().map(|s| squeeze(&s.to_token_stream().to_string())),
                    e => Some(squeeze(&e.to_token_stream().to_string())),
                };
                let t = tail.clone().unwrap_or_default();
                let t = t.trim_end_matches(';').trim_start_matches("return").to_owned();
                if t != format!("Err({})", b) {
                    same = false;
                    notes.push(format!("error arm does not end with Err({}): {:?}", b, tail));
                }
            } else {
                seen_panic = true;
                let resumed = ev.iter().any(|e| matches!(e, Ev::Call(n, a) if (n == "panic::resume_unwind" || n == "resume_unwind") && *a == b));
                let panics = ev.iter().any(|e| matches!(e, Ev::Macro(n, _) if n == "panic" || n == "unreachable" || n == "todo"));
                if !resumed || panics {
                    same = false;
                    notes.push(format!("panic arm does not resume_unwind({}): {:?}", b, ev));
                }
            }
        }
        if !seen_err || !seen_panic {
            notes.push("failure arms not recognised".to_owned());
            free = false;
            same = false;
        }
        facts[3].1 = free;
        facts[4].1 = same;
    }
    for n in notes {
        println!("note {}", n.replace('\n', " "));
    }
    println!("convert {}", facts.iter().map(|(k, v)| format!("{}={}", k, *v as u8)).collect::<Vec<_>>().join(" "));
}

/// convert_vec_in_place (the infallible wrapper): the first thing that touches the input vector is its hand-over, as the
/// first argument, to try_convert_vec_in_place, and nothing returns before that
fn scan_wrapper(src: &str) {
    let mut delegates = false;
    let mut notes: Vec<String> = Vec::new();
    'scan: {
        let file = match syn::parse_file(src) {
            Ok(f) => f,
            Err(_) => break 'scan,
        };
        let f = match file.items.iter().find_map(|it| match it {
            Item::Fn(f) if f.sig.ident == "convert_vec_in_place" => Some(f),
            _ => None,
        }) {
            Some(f) => f,
            None => {
                notes.push("fn convert_vec_in_place not found".to_owned());
                break 'scan;
            }
        };
        let param = match f.sig.inputs.first() {
            Some(syn::FnArg::Typed(t)) => pat_str(&t.pat).trim_start_matches("mut").to_owned(),
            _ => {
                notes.push("convert_vec_in_place: unexpected signature".to_owned());
                break 'scan;
            }
        };
        // identifiers and single punctuation characters of a statement, in source order
        let lex = |txt: &str| -> Vec<String> {
            let mut out = Vec::new();
            let mut cur = String::new();
            for ch in txt.chars() {
                if ch.is_alphanumeric() || ch == '_' {
                    cur.push(ch);
                } else {
                    if !cur.is_empty() {
                        out.push(std::mem::take(&mut cur));
                    }
                    if !ch.is_whitespace() {
                        out.push(ch.to_string());
                    }
                }
            }
            if !cur.is_empty() {
                out.push(cur);
            }
            out
        };
        for st in &f.block.stmts {
            let toks = lex(&st.to_token_stream().to_string());
            match toks.iter().position(|t| *t == param) {
                None => {
                    if toks.iter().any(|t| t == "return") {
                        notes.push("convert_vec_in_place returns before handing its input over".to_owned());
                        break 'scan;
                    }
                }
                Some(p) => {
                    // the tokens in front of the first mention end with `try_convert_vec_in_place (` (or with a turbofish);
                    // the call may be the scrutinee of a `match` (no arm `=>` before it), not inside a branch or a loop
                    let callee = "try_convert_vec_in_place";
                    let ok = match toks[..p].iter().rposition(|t| t == callee) {
                        Some(c) => {
                            let between = &toks[c + 1..p];
                            let plain = between.len() == 1 && between[0] == "(";
                            let fish = between.len() >= 5 && between[0] == ":" && between[1] == ":" && between[2] == "<" && between[between.len() - 2] == ">" && between[between.len() - 1] == "(" && !between[..between.len() - 1].iter().any(|t| t == "(");
                            (plain || fish) && toks.get(p + 1).map_or(false, |t| t == ",") && !toks[..c].iter().any(|t| t == "return" || t == "if" || t == "while" || t == "loop" || t == "for") && !(toks[..c].iter().any(|t| t == "match") && toks[..c].windows(2).any(|w| w[0] == "=" && w[1] == ">"))
                        }
                        None => false,
                    };
                    if !ok {
                        notes.push(format!("convert_vec_in_place: the first use of `{}` is not its hand-over to try_convert_vec_in_place: {}", param, squeeze(&st.to_token_stream().to_string()).chars().take(120).collect::<String>()));
                    }
                    delegates = ok;
                    break 'scan;
                }
            }
        }
        notes.push("convert_vec_in_place never uses its input".to_owned());
    }
    for n in notes {
        println!("note {}", n.replace('\n', " "));
    }
    println!("wrapper delegates={}", delegates as u8);
}

fn main() {
    let args: Vec<String> = std::env::args().collect();
    let root = args.get(1).cloned().unwrap_or_else(|| "/repo".to_owned());
    let data = std::fs::read_to_string(format!("{}/truc_runtime/src/data.rs", root)).unwrap_or_default();
    let conv = std::fs::read_to_string(format!("{}/truc_runtime/src/convert.rs", root)).unwrap_or_default();
    scan_data(&data);
    scan_convert(&conv);
    scan_wrapper(&conv);
}
