//! E1 — builder differential.
//!
//! Runs request histories on the real `NativeRecordDefinitionBuilder` (under a synthetic type
//! resolver whose answers never coincide with the host's), encodes what it observes as flat number
//! lists (same encoding as coq/Model/Observe.v), writes `cases_<k>.v` files in which the Coq model is
//! evaluated on the same histories and compared, and evaluates the property oracles of
//! C01 C02 C03 C12 C13 C18 C20 directly on the implementation's own output.

use std::{
    collections::{BTreeMap, BTreeSet},
    fmt::Write as _,
    fs,
    panic::{catch_unwind, AssertUnwindSafe},
};

use truc::record::{
    definition::{
        builder::{
            generic::{variant as gvariant, GenericRecordDefinitionBuilder},
            native::{variant, DatumDefinitionOverride, NativeRecordDefinitionBuilder},
        },
        convert::convert_record_definition,
        DatumDefinition, DatumId, NativeDatumDetails, RecordDefinition, RecordVariantId,
    },
    type_resolver::{DynamicTypeInfo, TypeInfo, TypeResolver},
};
use vharness::synth::*;
use vharness::{arg_value, coq_list, coq_nlist, Rng};

// ------------------------------------------------------------------ observation of the implementation

#[derive(Clone, Debug, PartialEq)]
struct DefObs {
    name: u64,
    ty: u64,
    size: u64,
    align: u64,
    uninit: bool,
    off: u64,
}

#[derive(Clone, Debug, PartialEq, Default)]
struct Snap {
    defs: Vec<DefObs>,
    variants: Vec<Vec<u64>>,
}

fn obs_def(d: &DatumDefinition<NativeDatumDetails>) -> DefObs {
    let name = d.name().strip_prefix('f').and_then(|x| x.parse().ok()).unwrap_or(u64::MAX);
    // a recorded type name the synthetic resolver never answered (C18) shows as type code u64::MAX
    let ty = parse_shape_opt(d.details().type_name()).map_or(u64::MAX, |(s, a, _)| ty_code(s as u64, a as u64));
    DefObs {
        name,
        ty,
        size: d.details().size() as u64,
        align: d.details().type_align() as u64,
        uninit: d.details().allow_uninit(),
        off: d.details().offset() as u64,
    }
}

trait Observable {
    fn datum(&self, i: usize) -> Option<DefObs>;
    fn variant(&self, v: usize) -> Option<Vec<u64>>;
    fn snap(&self) -> Snap {
        let mut s = Snap::default();
        while let Some(d) = self.datum(s.defs.len()) {
            s.defs.push(d);
        }
        while let Some(v) = self.variant(s.variants.len()) {
            s.variants.push(v);
        }
        s
    }
}

impl<'a> Observable for NB<'a> {
    fn datum(&self, i: usize) -> Option<DefObs> {
        catch_unwind(AssertUnwindSafe(|| obs_def(&self[DatumId::from(i)]))).ok()
    }
    fn variant(&self, v: usize) -> Option<Vec<u64>> {
        catch_unwind(AssertUnwindSafe(|| self[RecordVariantId::from(v)].data().map(did).collect())).ok()
    }
}
impl Observable for GenericRecordDefinitionBuilder<NativeDatumDetails> {
    fn datum(&self, i: usize) -> Option<DefObs> {
        self.get_datum_definition(DatumId::from(i)).map(obs_def)
    }
    fn variant(&self, v: usize) -> Option<Vec<u64>> {
        self.get_variant(RecordVariantId::from(v)).map(|x| x.data().map(did).collect())
    }
}
impl Observable for RecordDefinition<NativeDatumDetails> {
    fn datum(&self, i: usize) -> Option<DefObs> {
        self.get_datum_definition(DatumId::from(i)).map(obs_def)
    }
    fn variant(&self, v: usize) -> Option<Vec<u64>> {
        self.get_variant(RecordVariantId::from(v)).map(|x| x.data().map(did).collect())
    }
}

fn enc_ids(l: &[u64], out: &mut Vec<u64>) {
    out.push(l.len() as u64);
    out.extend_from_slice(l);
}
fn enc_snapshot(s: &Snap, out: &mut Vec<u64>) {
    out.push(s.defs.len() as u64);
    for d in &s.defs {
        out.extend_from_slice(&[d.name, d.ty, d.size, d.align, d.uninit as u64, d.off]);
    }
    out.push(s.variants.len() as u64);
    for v in &s.variants {
        enc_ids(v, out);
    }
}

/// parse the Display output of a definition into the model's item encoding
fn enc_display(text: &str) -> Vec<u64> {
    let mut out = vec![1, text.lines().count() as u64];
    for line in text.lines() {
        let inner = &line[line.find('[').unwrap() + 1..line.rfind(']').unwrap()];
        let mut items: Vec<u64> = Vec::new();
        let mut n = 0u64;
        // items are separated by ", " at depth 0
        let mut depth = 0;
        let mut cur = String::new();
        let mut parts = Vec::new();
        for c in inner.chars() {
            match c {
                '(' => {
                    depth += 1;
                    cur.push(c)
                }
                ')' => {
                    depth -= 1;
                    cur.push(c)
                }
                ',' if depth == 0 => {
                    parts.push(cur.trim().to_owned());
                    cur.clear()
                }
                _ => cur.push(c),
            }
        }
        if !cur.trim().is_empty() {
            parts.push(cur.trim().to_owned());
        }
        for p in parts {
            if let Some(v) = p.strip_prefix("(void, ") {
                items.extend_from_slice(&[0, v.trim_end_matches(')').parse().unwrap()]);
            } else {
                let id: u64 = p[..p.find(':').unwrap()].parse().unwrap();
                items.extend_from_slice(&[1, id]);
            }
            n += 1;
        }
        out.push(n);
        out.extend(items);
    }
    out
}

struct ConvOut {
    enc: Vec<u64>,
    map: Option<Vec<(u64, u64)>>,
    target: Option<Snap>,
}

fn convert_native(def: &RecordDefinition<NativeDatumDetails>, res: &SynthResolver, s: u8) -> ConvOut {
    let mut tb = NativeRecordDefinitionBuilder::new(res);
    let r = catch_unwind(AssertUnwindSafe(|| {
        convert_record_definition(
            def,
            |b: &mut NB, d| b.copy_datum(d),
            |b: &mut NB, i| b.remove_datum(i),
            |b: &mut NB| close_with(b, s),
            &mut tb,
        )
    }));
    conv_out(r, || tb.snap())
}

/// C20 / C18 probe run once per invocation: type names in spellings that a normaliser would rewrite must survive
/// copy_datum and a replay verbatim, with the size, alignment and flag they were registered with
fn name_fidelity_probe() -> Vec<(String, String)> {
    use truc::record::definition::builder::native::DatumDefinitionOverride;
    let res = SynthResolver;
    let names = ["Vec<u8>", "alloc::string::String", "Option < u32 >", "(u8,u16)", "[u8;4]", "my_crate::string::String", "Box<dyn Fn()>"];
    let mut fails = Vec::new();
    let r = catch_unwind(AssertUnwindSafe(|| {
        let mut sb = NativeRecordDefinitionBuilder::new(&res);
        for (k, n) in names.iter().enumerate() {
            sb.add_datum_override::<(), _>(
                format!("f{}", k),
                DatumDefinitionOverride { type_name: Some((*n).to_owned()), size: Some(k + 1), align: Some(1 << (k % 4)), allow_uninit: Some(k % 2 == 0) },
            )
            .unwrap();
            if k == 3 {
                sb.close_record_variant_with(variant::simple);
            }
        }
        sb.close_record_variant_with(variant::simple);
        let def = sb.build();
        for s in 0..4u8 {
            let mut tb = NativeRecordDefinitionBuilder::new(&res);
            let m = convert_record_definition(&def, |b: &mut NB, d| b.copy_datum(d), |b: &mut NB, i| b.remove_datum(i), |b: &mut NB| close_with(b, s), &mut tb);
            if m.is_err() {
                fails.push(("C20".to_owned(), format!("replay of the type-name probe definition with strategy {} failed: {:?}", s, m)));
                continue;
            }
            let t = tb.build();
            for (k, n) in names.iter().enumerate() {
                let found = t.datum_definitions().find(|d| d.name() == format!("f{}", k));
                match found {
                    None => fails.push(("C20".to_owned(), format!("replayed definition has no datum f{}", k))),
                    Some(d) => {
                        let got = (d.details().type_name().to_owned(), d.details().size(), d.details().type_align(), d.details().allow_uninit());
                        let want = ((*n).to_owned(), k + 1, 1usize << (k % 4), k % 2 == 0);
                        if got != want {
                            fails.push(("C20".to_owned(), format!("copy_datum / replay changed the type information of a datum: registered {:?}, target has {:?}", want, got)));
                        }
                    }
                }
            }
        }
    }));
    if r.is_err() {
        fails.push(("C20".to_owned(), "the type-name probe panicked".to_owned()));
    }
    fails.sort();
    fails.dedup();
    fails
}

fn convert_generic(def: &RecordDefinition<NativeDatumDetails>, rev: bool) -> ConvOut {
    type GB = GenericRecordDefinitionBuilder<NativeDatumDetails>;
    let mut tb = GB::new();
    let r = catch_unwind(AssertUnwindSafe(|| {
        convert_record_definition(
            def,
            |b: &mut GB, d| {
                b.add_datum(
                    d.name(),
                    NativeDatumDetails::new(usize::MAX, d.details().type_info().clone(), d.details().allow_uninit()),
                )
            },
            |b: &mut GB, i| b.remove_datum(i),
            |b: &mut GB| {
                if rev {
                    b.close_record_variant_with(gvariant::append_data_reverse)
                } else {
                    b.close_record_variant_with(gvariant::append_data)
                }
            },
            &mut tb,
        )
    }));
    conv_out(r, || tb.snap())
}

fn conv_out(
    r: std::thread::Result<Result<BTreeMap<RecordVariantId, RecordVariantId>, String>>,
    snap: impl FnOnce() -> Snap,
) -> ConvOut {
    match r {
        Err(_) => ConvOut { enc: vec![2], map: None, target: None },
        Ok(Err(e)) => ConvOut { enc: vec![1, err_code(&e)], map: None, target: None },
        Ok(Ok(m)) => {
            let pairs: Vec<(u64, u64)> = m.iter().map(|(a, b)| (vid(*a), vid(*b))).collect();
            let t = snap();
            let mut enc = vec![0, pairs.len() as u64];
            for (a, b) in &pairs {
                enc.push(*a);
                enc.push(*b);
            }
            enc_snapshot(&t, &mut enc);
            ConvOut { enc, map: Some(pairs), target: Some(t) }
        }
    }
}

// ------------------------------------------------------------------ property oracles (on the implementation alone)

#[derive(Default)]
struct Oracle {
    fails: Vec<(String, String)>, // (property, what)
}

impl Oracle {
    fn fail(&mut self, p: &str, what: String) {
        if self.fails.iter().any(|(q, w)| q == p && *w == what) {
            return;
        }
        if self.fails.len() < 8 {
            self.fails.push((p.to_owned(), what));
        }
    }

    /// C01 + C02(order, alignment) on every variant of a snapshot
    fn layout(&mut self, s: &Snap, at: usize) {
        let at = if at >= 1_000_000 { format!("replay of the final definition into native builder #{}", at - 1_000_000) } else { format!("step {}", at) };
        for (i, d) in s.defs.iter().enumerate() {
            if d.ty == u64::MAX {
                self.fail("C18", format!("{}: datum {} records a type name that is not the one the resolver answered (size {} align {})", at, i, d.size, d.align));
            }
        }
        for (vi, v) in s.variants.iter().enumerate() {
            let ds: Vec<&DefObs> = v.iter().filter_map(|&i| s.defs.get(i as usize)).collect();
            if ds.len() != v.len() {
                self.fail("C12", format!("{}: variant {} lists an unknown datum id {:?}", at, vi, v));
                continue;
            }
            for a in 0..ds.len() {
                let x = ds[a];
                if x.off == u64::MAX {
                    self.fail("C02", format!("{}: variant {} datum {} was never placed", at, vi, v[a]));
                    continue;
                }
                if x.align > 0 && x.off % x.align != 0 {
                    self.fail("C02", format!("{}: variant {} datum {} offset {} not a multiple of align {}", at, vi, v[a], x.off, x.align));
                }
                for b in (a + 1)..ds.len() {
                    let y = ds[b];
                    if x.size > 0 && y.size > 0 && x.off < y.off.saturating_add(y.size) && y.off < x.off.saturating_add(x.size) {
                        self.fail("C01", format!("{}: variant {}: data {} [{}..{}) and {} [{}..{}) overlap", at, vi, v[a], x.off, x.off + x.size, v[b], y.off, y.off + y.size));
                    }
                }
            }
            let nz: Vec<(u64, u64)> = v.iter().zip(ds.iter()).filter(|(_, d)| d.size > 0).map(|(i, d)| (*i, d.off)).collect();
            for w in nz.windows(2) {
                if w[0].1 >= w[1].1 {
                    self.fail("C02", format!("{}: variant {} lists datum {}@{} before datum {}@{}", at, vi, w[0].0, w[0].1, w[1].0, w[1].1));
                }
            }
        }
    }

    /// C03a: offsets of data placed in an earlier snapshot never change; C12: variants are append-only
    fn stable(&mut self, before: &Snap, after: &Snap, at: usize) {
        let placed: BTreeSet<u64> = before.variants.iter().flatten().cloned().collect();
        for &i in &placed {
            if let (Some(a), Some(b)) = (before.defs.get(i as usize), after.defs.get(i as usize)) {
                if a.off != b.off {
                    self.fail("C03", format!("step {}: datum {} moved from offset {} to {}", at, i, a.off, b.off));
                }
            }
        }
        for (i, (a, b)) in before.defs.iter().zip(after.defs.iter()).enumerate() {
            if (a.name, a.ty, a.size, a.align, a.uninit) != (b.name, b.ty, b.size, b.align, b.uninit) {
                self.fail("C12", format!("step {}: definition of datum {} changed", at, i));
            }
        }
        if after.defs.len() < before.defs.len() {
            self.fail("C12", format!("step {}: datum definitions shrank", at));
        }
        if after.variants.len() < before.variants.len() || after.variants[..before.variants.len()] != before.variants[..] {
            self.fail("C12", format!("step {}: an already closed variant changed", at));
        }
    }

    /// C12: names unique within each variant, no id twice
    fn names(&mut self, s: &Snap, at: usize) {
        for (vi, v) in s.variants.iter().enumerate() {
            let mut ids = BTreeSet::new();
            let mut names = BTreeSet::new();
            for &i in v {
                if !ids.insert(i) {
                    self.fail("C12", format!("step {}: variant {} lists datum {} twice", at, vi, i));
                }
                if let Some(d) = s.defs.get(i as usize) {
                    if !names.insert(d.name) {
                        self.fail("C12", format!("step {}: variant {} has two data named f{}", at, vi, d.name));
                    }
                }
            }
        }
    }
}

// ------------------------------------------------------------------ running one history

struct RunOut {
    obs: Vec<Vec<u64>>,
    oracle: Oracle,
    executed: usize,
    stats: HStats,
}

#[derive(Default, Clone)]
struct HStats {
    variants: usize,
    adds: usize,
    zst: usize,
    errs: usize,
    strategies: BTreeSet<u8>,
    removed_pending: bool,
    built: bool,
    gap_fill: bool,
}

/// the set-level spec of C12 (current data = predecessor - removals + additions, names unique among the current data,
/// identifiers never reused), maintained from the requests and the responses only; used for both builders
#[allow(clippy::too_many_arguments)]
fn spec_step(r: &Req, resp: &[u64], snap: &Snap, cur: &[u64], spec_cur: &mut Vec<u64>, ever: &mut BTreeSet<u64>, last_snap: &Snap, st: &mut HStats, oracle: &mut Oracle, k: usize) {
    // maintain the spec from requests + responses, and check responses against it
    match (r, resp[0]) {
        (Req::Add { name, size, .. }, 0) => {
            st.adds += 1;
            if *size == 0 {
                st.zst += 1;
            }
            let i = resp[1];
            if !ever.insert(i) {
                oracle.fail("C12", format!("step {}: datum id {} was handed out twice", k, i));
            }
            if spec_cur.iter().any(|&j| snap.defs.get(j as usize).map_or(false, |d| d.name == *name as u64)) {
                oracle.fail("C12", format!("step {}: add of f{} accepted although a current datum has that name", k, name));
            }
            spec_cur.push(i);
        }
        (Req::Add { name, .. }, 3) => {
            if !spec_cur.iter().any(|&j| snap.defs.get(j as usize).map_or(false, |d| d.name == *name as u64)) {
                oracle.fail("C12", format!("step {}: add of fresh name f{} rejected", k, name));
            }
        }
        (Req::Remove(i), 1) => {
            if !spec_cur.contains(i) {
                oracle.fail("C12", format!("step {}: removal of datum {} accepted although it is not in the current variant", k, i));
            }
            if !last_snap.variants.last().map_or(false, |v| v.contains(i)) {
                st.removed_pending = true;
            }
            spec_cur.retain(|j| j != i);
        }
        (Req::Remove(i), 3) => {
            if spec_cur.contains(i) {
                oracle.fail("C12", format!("step {}: removal of current datum {} rejected", k, i));
            }
        }
        _ => {}
    }
    {
        let a: BTreeSet<u64> = cur.iter().cloned().collect();
        let w: BTreeSet<u64> = spec_cur.iter().cloned().collect();
        if a != w || a.len() != cur.len() {
            oracle.fail("C12", format!("step {}: current data {:?} differ from predecessor - removals + additions {:?}", k, cur, spec_cur));
        }
    }
}

/// a history whose closes use strategies 4 / 5 is a history of GenericRecordDefinitionBuilder (its own two
/// strategies, no offsets): same request layer, same observations, `build` as the only final observation
fn is_generic(h: &[Req]) -> bool {
    h.iter().any(|r| matches!(r, Req::Close(s) if *s >= 4))
}

fn run_history_generic(h: &[Req]) -> RunOut {
    use truc::record::type_resolver::TypeInfo;
    type GB = GenericRecordDefinitionBuilder<NativeDatumDetails>;
    let mut b = GB::new();
    let mut obs = Vec::new();
    let mut oracle = Oracle::default();
    let mut st = HStats::default();
    let mut last_snap = Snap::default();
    let mut spec_cur: Vec<u64> = Vec::new();
    let mut ever: BTreeSet<u64> = BTreeSet::new();
    let mut executed = 0;
    let mut panicked = false;
    for (k, r) in h.iter().enumerate() {
        let before_cur: Vec<u64> = b.get_current_data().map(did).collect();
        let before = b.snap();
        let out = catch_unwind(AssertUnwindSafe(|| match r {
            Req::Add { name, size, align, uninit, .. } => {
                let info = TypeInfo { name: format!("S{}A{}", size, align), size: *size as usize, align: *align as usize };
                match b.add_datum(format!("f{}", name), NativeDatumDetails::new(usize::MAX, info, *uninit)) {
                    Ok(i) => vec![0, did(i)],
                    Err(e) => vec![3, err_code(&e)],
                }
            }
            Req::Remove(i) => match b.remove_datum(DatumId::from(*i as usize)) {
                Ok(()) => vec![1],
                Err(e) => vec![3, err_code(&e)],
            },
            Req::Close(s) => vec![2, vid(if *s % 2 == 0 { b.close_record_variant_with(gvariant::append_data) } else { b.close_record_variant_with(gvariant::append_data_reverse) })],
            Req::LookupCur(n) => match b.get_current_datum_definition_by_name(&format!("f{}", n)) {
                None => vec![4],
                Some(d) => vec![5, did(d.id())],
            },
            Req::LookupVar(v, n) => match b.get_variant_datum_definition_by_name(RecordVariantId::from(*v as usize), &format!("f{}", n)) {
                None => vec![4],
                Some(d) => vec![5, did(d.id())],
            },
        }));
        executed = k + 1;
        let mut o = match out {
            Ok(o) => o,
            Err(_) => {
                obs.push(vec![9]);
                oracle.fail("C13", format!("step {}: request {} panicked (generic builder)", k, r.text()));
                panicked = true;
                break;
            }
        };
        let resp = o.clone();
        let cur: Vec<u64> = b.get_current_data().map(did).collect();
        enc_ids(&cur, &mut o);
        let snap = b.snap();
        match r {
            Req::Close(_) => {
                enc_snapshot(&snap, &mut o);
                st.variants = snap.variants.len();
                // C12 on the generic builder: names, earlier variants untouched, the closed variant is the current data
                oracle.names(&snap, k);
                oracle.stable(&last_snap, &snap, k);
                let lastv: BTreeSet<u64> = snap.variants.last().cloned().unwrap_or_default().into_iter().collect();
                let want: BTreeSet<u64> = spec_cur.iter().cloned().collect();
                if lastv != want || snap.variants.last().map_or(0, |v| v.len()) != want.len() {
                    oracle.fail("C12", format!("step {}: closed variant {:?} of the generic builder is not predecessor - removals + additions {:?}", k, snap.variants.last(), want));
                }
                if resp[0] == 2 && resp[1] as usize != snap.variants.len() - 1 {
                    oracle.fail("C12", format!("step {}: close returned variant {} but {} variants exist (generic builder)", k, resp[1], snap.variants.len()));
                }
                if snap.variants.len() > last_snap.variants.len() + 1 {
                    oracle.fail("C12", format!("step {}: one close created several variants (generic builder)", k));
                }
                last_snap = snap.clone();
            }
            _ => {
                o.push(snap.defs.len() as u64);
                o.push(snap.variants.len() as u64);
                if (resp[0] == 3 || resp[0] == 4 || resp[0] == 5) && (before != snap || before_cur != cur) {
                    oracle.fail("C12", format!("step {}: a rejected request or a lookup changed the observable state of the generic builder", k));
                }
                if resp[0] == 3 {
                    st.errs += 1;
                }
                if resp[0] == 0 || resp[0] == 1 {
                    oracle.stable(&before, &snap, k);
                }
            }
        }
        spec_step(r, &resp, &snap, &cur, &mut spec_cur, &mut ever, &last_snap, &mut st, &mut oracle, k);
        obs.push(o);
    }
    if !panicked {
        let built = catch_unwind(AssertUnwindSafe(move || b.build())).is_ok();
        obs.push(vec![built as u64]);
        st.built = built;
    }
    RunOut { obs, oracle, executed, stats: st }
}

fn run_history(h: &[Req]) -> RunOut {
    if is_generic(h) {
        return run_history_generic(h);
    }
    let res = SynthResolver;
    let scratch = SynthResolver;
    let mut b = NativeRecordDefinitionBuilder::new(&res);
    let mut obs = Vec::new();
    let mut oracle = Oracle::default();
    let mut st = HStats::default();
    let mut last_snap = Snap::default();
    // the set-level spec of C12, maintained from the *requests and responses* only
    let mut spec_cur: Vec<u64> = Vec::new();
    let mut ever: BTreeSet<u64> = BTreeSet::new();
    let mut executed = 0;
    let mut panicked = false;
    for (k, r) in h.iter().enumerate() {
        let before_cur: Vec<u64> = b.get_current_data().map(did).collect();
        let before = if matches!(r, Req::Close(_)) { None } else { Some(b.snap()) };
        let out = catch_unwind(AssertUnwindSafe(|| apply(&mut b, &scratch, r)));
        executed = k + 1;
        let mut o = match out {
            Ok(o) => o,
            Err(_) => {
                obs.push(vec![9]);
                oracle.fail("C13", format!("step {}: request {} panicked", k, r.text()));
                panicked = true;
                break;
            }
        };
        let cur: Vec<u64> = b.get_current_data().map(did).collect();
        let resp = o.clone();
        enc_ids(&cur, &mut o);
        let snap = b.snap();
        match r {
            Req::Close(s) => {
                enc_snapshot(&snap, &mut o);
                st.strategies.insert(*s);
                oracle.layout(&snap, k);
                oracle.names(&snap, k);
                oracle.stable(&last_snap, &snap, k);
                // C12: the new (or last) variant is exactly the current data, as a set
                let lastv: BTreeSet<u64> = snap.variants.last().cloned().unwrap_or_default().into_iter().collect();
                let want: BTreeSet<u64> = spec_cur.iter().cloned().collect();
                if lastv != want {
                    oracle.fail("C12", format!("step {}: closed variant {:?} is not predecessor - removals + additions {:?}", k, lastv, want));
                }
                if resp[0] == 2 && resp[1] as usize != snap.variants.len() - 1 {
                    oracle.fail("C12", format!("step {}: close returned variant {} but {} variants exist", k, resp[1], snap.variants.len()));
                }
                let unchanged = last_snap.variants.last().map(|v| v.iter().cloned().collect::<BTreeSet<_>>()) == Some(want.clone());
                if unchanged && !last_snap.variants.is_empty() && before_cur.iter().cloned().collect::<BTreeSet<_>>() == want {
                    // no pending change: no new variant may appear
                    if snap.variants.len() != last_snap.variants.len() && before_cur == last_snap.variants.last().cloned().unwrap() {
                        oracle.fail("C12", format!("step {}: close without pending change created a variant", k));
                    }
                }
                if snap.variants.len() > last_snap.variants.len() + 1 {
                    oracle.fail("C12", format!("step {}: one close created several variants", k));
                }
                // gap statistics: a datum placed below the previous end
                if let (Some(prev), Some(newv)) = (last_snap.variants.last(), snap.variants.last()) {
                    let prev_end = prev.iter().filter_map(|&i| snap.defs.get(i as usize)).map(|d| d.off.saturating_add(d.size)).max().unwrap_or(0);
                    if newv.iter().any(|i| !prev.contains(i) && snap.defs.get(*i as usize).map_or(false, |d| d.off < prev_end)) {
                        st.gap_fill = true;
                    }
                }
                last_snap = snap.clone();
            }
            _ => {
                o.push(snap.defs.len() as u64);
                o.push(snap.variants.len() as u64);
                let before = before.unwrap();
                if resp[0] == 3 || resp[0] == 4 || resp[0] == 5 {
                    // rejected request or lookup: the whole observable state must be unchanged
                    if resp[0] == 3 {
                        st.errs += 1;
                    }
                    if before != snap || before_cur != cur {
                        oracle.fail("C12", format!("step {}: request {} answered {:?} but changed the builder's state", k, r.text(), resp));
                    }
                } else {
                    oracle.stable(&before, &snap, k);
                }
            }
        }
        spec_step(r, &resp, &snap, &cur, &mut spec_cur, &mut ever, &last_snap, &mut st, &mut oracle, k);
        obs.push(o);
    }
    st.variants = last_snap.variants.len();

    // ---- final: build, capacity, alignment, display, conversions
    if !panicked {
        let pending = {
            let cur: BTreeSet<u64> = b.get_current_data().map(did).collect();
            let lastv: BTreeSet<u64> = last_snap.variants.last().cloned().unwrap_or_default().into_iter().collect();
            cur != lastv || b.get_current_data().count() != last_snap.variants.last().map_or(0, |v| v.len())
        };
        let snap_before_build = b.snap();
        match catch_unwind(AssertUnwindSafe(move || b.build())) {
            Err(_) => {
                obs.push(vec![0]);
                if !pending {
                    oracle.fail("C12", "build() panicked although no change is pending".to_owned());
                }
            }
            Ok(def) => {
                st.built = true;
                // NB: a datum added and removed again while pending leaves cur == last variant: build must succeed.
                obs.push(vec![1]);
                let dsnap = def.snap();
                if dsnap != snap_before_build {
                    oracle.fail("C12", "build() changed data or variants".to_owned());
                }
                let ms = catch_unwind(AssertUnwindSafe(|| def.max_size())).ok();
                let ma = catch_unwind(AssertUnwindSafe(|| def.max_type_align())).ok();
                let ds = catch_unwind(AssertUnwindSafe(|| def.to_string())).ok();
                obs.push(match ms {
                    Some(x) => vec![1, x as u64],
                    None => vec![0],
                });
                obs.push(vec![ma.map_or(u64::MAX, |x| x as u64)]);
                obs.push(match &ds {
                    Some(t) => enc_display(t),
                    None => vec![0],
                });
                if ms.is_none() {
                    oracle.fail("C13", "max_size() panicked".to_owned());
                }
                if ma.is_none() {
                    oracle.fail("C13", "max_type_align() panicked".to_owned());
                }
                if ds.is_none() {
                    oracle.fail("C13", "Display panicked".to_owned());
                }
                // C02: capacity and record alignment
                if let (Some(ms), Some(ma)) = (ms, ma) {
                    for v in &dsnap.variants {
                        for &i in v {
                            let d = &dsnap.defs[i as usize];
                            if d.off.checked_add(d.size).map_or(true, |e| e > ms as u64) {
                                oracle.fail("C02", format!("datum {} ends at {}+{} beyond the capacity {}", i, d.off, d.size, ms));
                            }
                            // the property quantifies over power-of-two alignments (Rust's); with
                            // other alignments (overrides) the maximum need not be a common multiple
                            let all_pow2 = dsnap.defs.iter().all(|x| x.align.is_power_of_two());
                            if all_pow2 && (ma as u64) % d.align != 0 {
                                oracle.fail("C02", format!("record alignment {} is not a multiple of the alignment {} of datum {}", ma, d.align, i));
                            }
                        }
                    }
                }
                // C20: replay into other builders
                let mut convs: Vec<ConvOut> = (0..4).map(|s| convert_native(&def, &res, s)).collect();
                convs.push(convert_generic(&def, false));
                convs.push(convert_generic(&def, true));
                // C19: the same replay made twice in one process gives the same definition (an iteration order that
                // depends on per-instance hashing differs from one call to the next)
                for (ci, again) in [(1usize, convert_native(&def, &res, 1)), (5usize, convert_generic(&def, true))] {
                    if again.enc != convs[ci].enc {
                        oracle.fail("C19", format!("conversion #{}: replaying the same definition twice in one process gives two different definitions", ci));
                    }
                }
                for (ci, c) in convs.iter().enumerate() {
                    obs.push(c.enc.clone());
                    match (&c.map, &c.target) {
                        (Some(m), Some(t)) => c20_oracle(&mut oracle, ci, &dsnap, m, t),
                        _ => oracle.fail("C20", format!("conversion #{} failed: {:?}", ci, c.enc)),
                    }
                    if let Some(t) = &c.target {
                        if ci < 4 {
                            oracle.layout(t, 1_000_000 + ci);
                        }
                    }
                }
            }
        }
    }
    RunOut { obs, oracle, executed, stats: st }
}

fn c20_oracle(o: &mut Oracle, ci: usize, src: &Snap, map: &[(u64, u64)], tgt: &Snap) {
    if tgt.variants.len() != src.variants.len() {
        o.fail("C20", format!("conversion #{}: {} target variants for {} source variants", ci, tgt.variants.len(), src.variants.len()));
        return;
    }
    let want: Vec<(u64, u64)> = (0..src.variants.len() as u64).map(|i| (i, i)).collect();
    if map != &want[..] {
        // the map must pair each source variant with the target variant created for it
        o.fail("C20", format!("conversion #{}: variant map {:?} does not pair the variants one to one in order", ci, map));
    }
    // datum correspondence: by (name) inside each variant pair, must be a single injective function over all variants
    let mut corr: BTreeMap<u64, u64> = BTreeMap::new();
    let mut back: BTreeMap<u64, u64> = BTreeMap::new();
    for (vi, (sv, tv)) in src.variants.iter().zip(tgt.variants.iter()).enumerate() {
        if sv.len() != tv.len() {
            o.fail("C20", format!("conversion #{}: variant {} has {} data, its image {}", ci, vi, sv.len(), tv.len()));
            continue;
        }
        for &s in sv {
            let sd = &src.defs[s as usize];
            let cands: Vec<u64> = tv.iter().cloned().filter(|&t| tgt.defs.get(t as usize).map_or(false, |td| td.name == sd.name)).collect();
            if cands.len() != 1 {
                o.fail("C20", format!("conversion #{}: variant {}: source datum {} (f{}) has {} images", ci, vi, s, sd.name, cands.len()));
                continue;
            }
            let t = cands[0];
            let td = &tgt.defs[t as usize];
            if (td.ty, td.size, td.align, td.uninit) != (sd.ty, sd.size, sd.align, sd.uninit) {
                o.fail("C20", format!("conversion #{}: datum {} -> {}: type information differs", ci, s, t));
            }
            if let Some(&t0) = corr.get(&s) {
                if t0 != t {
                    o.fail("C20", format!("conversion #{}: source datum {} corresponds to target {} and {}", ci, s, t0, t));
                }
            }
            if let Some(&s0) = back.get(&t) {
                if s0 != s {
                    o.fail("C20", format!("conversion #{}: target datum {} is the image of source {} and {}", ci, t, s0, s));
                }
            }
            corr.insert(s, t);
            back.insert(t, s);
        }
    }
}

// ------------------------------------------------------------------ generation

const PALETTE: [(u64, u64); 16] = [
    (0, 1), (0, 8), (1, 1), (3, 1), (2, 2), (4, 4), (12, 4), (8, 8), (24, 8), (16, 16), (6, 2), (5, 1),
    (8, 4), (4, 2), (32, 16), (16, 8),
];

fn gen_shape(rng: &mut Rng) -> (u64, u64) {
    match rng.below(100) {
        0..=69 => *rng.pick(&PALETTE),
        70..=84 => {
            // size a multiple of a power-of-two alignment
            let a = 1u64 << rng.below(5);
            (a * rng.below(4) as u64, a)
        }
        85..=94 => {
            // size not a multiple of the alignment
            let a = 1u64 << rng.below(5);
            (rng.below(40) as u64, a)
        }
        _ => (rng.below(30) as u64, *rng.pick(&[3u64, 5, 6, 13])), // alignments that are not powers of two
    }
}

/// random history: mostly valid requests plus an invalid stream
fn gen_history(rng: &mut Rng, long: bool) -> Vec<Req> {
    let mut h = Vec::new();
    let nvariants = if long { 1 + rng.below(12) } else { 1 + rng.below(5) };
    let max_adds = if long { 12 } else { 5 };
    let invalid = rng.chance(40);
    // bookkeeping of a plain spec so that the generator knows what is valid
    let mut next_id = 0u64;
    let mut next_name = 0u32;
    let mut cur: Vec<(u64, u32)> = Vec::new(); // (id, name)
    let mut pending: Vec<u64> = Vec::new();
    let mut stale: Vec<(u64, u32)> = Vec::new();
    let mut removed_now: Vec<u64> = Vec::new();
    let mut nclosed = 0u64;
    for v in 0..nvariants {
        // removals first or interleaved
        // now and then a variant that ends up empty: everything live is removed and nothing is added
        // (also as the first variant), followed by other variants like any other
        let empty_out = rng.chance(7);
        let nrm = if v == 0 { 0 } else if empty_out { cur.len() } else { rng.below(1 + cur.len().min(4)) };
        let nadd = if empty_out { 0 } else if v == 0 { 1 + rng.below(max_adds) } else { rng.below(max_adds + 1) };
        let mut ops: Vec<u8> = Vec::new();
        ops.extend(std::iter::repeat(0u8).take(nadd));
        ops.extend(std::iter::repeat(1u8).take(nrm));
        // shuffle
        for i in (1..ops.len()).rev() {
            let j = rng.below(i + 1);
            ops.swap(i, j);
        }
        for op in ops {
            if invalid && rng.chance(20) {
                // one invalid or probing request
                match rng.below(8) {
                    0 if !cur.is_empty() => {
                        // clashing name
                        let (_, n) = *rng.pick(&cur);
                        let (s, a) = gen_shape(rng);
                        h.push(Req::Add { name: n, size: s, align: a, uninit: false, entry: rng.below(4) as u8 });
                    }
                    1 if !stale.is_empty() => h.push(Req::Remove(rng.pick(&stale).0)),
                    2 => h.push(Req::Remove(next_id + rng.below(3) as u64)),
                    3 if !removed_now.is_empty() => h.push(Req::Remove(*rng.pick(&removed_now))),
                    4 => h.push(Req::LookupCur(rng.below(next_name as usize + 2) as u32)),
                    5 => h.push(Req::LookupVar(rng.below(nclosed as usize + 2) as u64, rng.below(next_name as usize + 2) as u32)),
                    6 if !pending.is_empty() => {
                        // remove a pending datum (valid, but unusual)
                        let i = *rng.pick(&pending);
                        h.push(Req::Remove(i));
                        pending.retain(|x| *x != i);
                        let pos = cur.iter().position(|c| c.0 == i).unwrap();
                        stale.push(cur.remove(pos));
                    }
                    _ => {
                        if !pending.is_empty() || !removed_now.is_empty() || nclosed == 0 {
                            // a close in the middle
                            h.push(Req::Close(rng.below(4) as u8));
                            nclosed += 1;
                            pending.clear();
                            removed_now.clear();
                        } else {
                            h.push(Req::Close(rng.below(4) as u8)); // repeated close, no pending change
                        }
                    }
                }
            }
            if op == 0 {
                let (s, a) = gen_shape(rng);
                // a fresh name, or the name of a datum that is gone (valid reuse)
                let name = if !stale.is_empty() && rng.chance(15) {
                    let n = rng.pick(&stale).1;
                    if cur.iter().any(|c| c.1 == n) {
                        next_name += 1;
                        next_name - 1
                    } else {
                        n
                    }
                } else {
                    next_name += 1;
                    next_name - 1
                };
                h.push(Req::Add { name, size: s, align: a, uninit: rng.chance(25), entry: rng.below(5) as u8 });
                cur.push((next_id, name));
                pending.push(next_id);
                next_id += 1;
            } else {
                let live: Vec<(u64, u32)> = cur.iter().cloned().filter(|c| !pending.contains(&c.0)).collect();
                if live.is_empty() {
                    continue;
                }
                let (i, _) = *rng.pick(&live);
                h.push(Req::Remove(i));
                let pos = cur.iter().position(|c| c.0 == i).unwrap();
                stale.push(cur.remove(pos));
                removed_now.push(i);
            }
        }
        if v + 1 < nvariants || rng.chance(85) {
            let had_changes = !pending.is_empty() || !removed_now.is_empty() || nclosed == 0;
            h.push(Req::Close(rng.below(4) as u8));
            if had_changes {
                nclosed += 1;
            }
            pending.clear();
            removed_now.clear();
            if rng.chance(10) {
                h.push(Req::Close(rng.below(4) as u8));
            }
        }
    }
    h
}

/// wide histories: 40 to 80 data in the first variant, then steps that remove 30% to 95% of the live data in a
/// scattered order and add up to 40 more (counts above any small threshold: many gaps in one close, long removal
/// lists); valid requests only, strategies mixed
fn gen_history_wide(rng: &mut Rng) -> Vec<Req> {
    let mut h = Vec::new();
    let mut next_id = 0u64;
    let mut next_name = 0u32;
    let mut cur: Vec<u64> = Vec::new();
    let nvariants = 3 + rng.below(4);
    for v in 0..nvariants {
        let nadd = if v == 0 { 40 + rng.below(121) } else { rng.below(41) };
        let nrm = if v == 0 { 0 } else { cur.len() * (30 + rng.below(66)) / 100 };
        let mut live = cur.clone();
        match rng.below(4) {
            0 => live.reverse(),
            1 => {}
            2 => {
                // every other live datum first: as many separate holes as possible
                let (even, odd): (Vec<(usize, u64)>, Vec<(usize, u64)>) = live.iter().cloned().enumerate().partition(|(k, _)| k % 2 == 0);
                live = even.into_iter().chain(odd).map(|(_, i)| i).collect();
            }
            _ => {
                for i in (1..live.len()).rev() {
                    let j = rng.below(i + 1);
                    live.swap(i, j);
                }
            }
        }
        let rm: Vec<u64> = live.into_iter().take(nrm).collect();
        let adds_first = rng.chance(50);
        let small = rng.chance(50);
        let mut adds = Vec::new();
        for _ in 0..nadd {
            let (s, a) = if small { (1 + rng.below(4) as u64, 1u64 << rng.below(3)) } else { gen_shape(rng) };
            adds.push(Req::Add { name: next_name, size: s, align: a, uninit: rng.chance(25), entry: rng.below(5) as u8 });
            cur.push(next_id);
            next_id += 1;
            next_name += 1;
        }
        let rms: Vec<Req> = rm.iter().map(|i| Req::Remove(*i)).collect();
        cur.retain(|i| !rm.contains(i));
        if adds_first {
            h.extend(adds);
            h.extend(rms);
        } else {
            h.extend(rms);
            h.extend(adds);
        }
        // the gap-filling strategy half of the time
        h.push(Req::Close(if rng.chance(50) { 0 } else { rng.below(4) as u8 }));
    }
    h
}

// ------------------------------------------------------------------ small-scope enumeration

const ENUM_SHAPES: [(u64, u64); 7] = [(0, 1), (1, 1), (3, 1), (2, 2), (4, 4), (12, 4), (8, 8)];

/// All histories of the family: variant 0 = k0 adds (shapes from ENUM_SHAPES, strategy s0);
/// variant 1 = remove subset r of variant 0 + k1 adds (strategy s1); variant 2 = one add (strategy s2).
/// Enumerated lazily by index so that shards can split the space.
fn enum_space(max_adds: usize) -> Vec<(Vec<usize>, u32, Vec<usize>, [u8; 3], usize)> {
    let n = ENUM_SHAPES.len();
    let mut out = Vec::new();
    let mut shapes_lists: Vec<Vec<usize>> = vec![vec![]];
    let mut frontier: Vec<Vec<usize>> = vec![vec![]];
    for _ in 0..max_adds {
        let mut next = Vec::new();
        for f in &frontier {
            for s in 0..n {
                let mut g = f.clone();
                g.push(s);
                next.push(g);
            }
        }
        shapes_lists.extend(next.iter().cloned());
        frontier = next;
    }
    for a0 in shapes_lists.iter().filter(|l| !l.is_empty()) {
        for rmask in 0..(1u32 << a0.len()) {
            for a1 in shapes_lists.iter() {
                if rmask == 0 && a1.is_empty() {
                    continue;
                }
                for s0 in [0u8, 2] {
                    for s1 in 0..2u8 {
                        for last in 0..n {
                            for s2 in 0..2u8 {
                                out.push((a0.clone(), rmask, a1.clone(), [s0, s1, s2], last));
                            }
                        }
                    }
                }
            }
        }
    }
    out
}

fn enum_history(e: &(Vec<usize>, u32, Vec<usize>, [u8; 3], usize)) -> Vec<Req> {
    let (a0, rmask, a1, ss, last) = e;
    let mut h = Vec::new();
    let mut name = 0u32;
    for &s in a0 {
        let (sz, al) = ENUM_SHAPES[s];
        h.push(Req::Add { name, size: sz, align: al, uninit: false, entry: 2 });
        name += 1;
    }
    h.push(Req::Close(ss[0]));
    for i in 0..a0.len() {
        if rmask & (1 << i) != 0 {
            h.push(Req::Remove(i as u64));
        }
    }
    for &s in a1 {
        let (sz, al) = ENUM_SHAPES[s];
        h.push(Req::Add { name, size: sz, align: al, uninit: false, entry: 2 });
        name += 1;
    }
    h.push(Req::Close(ss[1]));
    let (sz, al) = ENUM_SHAPES[*last];
    h.push(Req::Add { name, size: sz, align: al, uninit: false, entry: 2 });
    h.push(Req::Close(ss[2]));
    h
}

// ------------------------------------------------------------------ main

fn json_str(s: &str) -> String {
    serde_json::to_string(s).unwrap()
}

static LAST_PANIC: std::sync::Mutex<String> = std::sync::Mutex::new(String::new());

fn main() {
    // panics of the code under test are caught where they are expected; one that escapes is reported with its message
    std::panic::set_hook(Box::new(|info| {
        if let Ok(mut g) = LAST_PANIC.lock() {
            *g = info.to_string();
        }
    }));
    if catch_unwind(main_inner).is_err() {
        eprintln!("bdiff: uncaught panic: {}", LAST_PANIC.lock().map(|g| g.clone()).unwrap_or_default());
        std::process::exit(101);
    }
}

fn main_inner() {
    let args: Vec<String> = std::env::args().collect();
    let mode = arg_value(&args, "--mode").unwrap_or_else(|| "random".into());
    let seed: u64 = arg_value(&args, "--seed").map_or(1, |s| s.parse().unwrap());
    let count: usize = arg_value(&args, "--count").map_or(100, |s| s.parse().unwrap());
    let shards: usize = arg_value(&args, "--shards").map_or(1, |s| s.parse().unwrap());
    let out_dir = arg_value(&args, "--out").unwrap_or_else(|| ".".into());
    let with_model = !args.iter().any(|a| a == "--no-model");
    let wide: usize = arg_value(&args, "--wide").map_or(0, |s| s.parse().unwrap());

    let mut histories: Vec<Vec<Req>> = Vec::new();
    match mode.as_str() {
        "random" => {
            let mut rng = Rng::new(seed);
            for k in 0..count {
                let mut h = if wide != 0 && k % wide == wide / 2 { gen_history_wide(&mut rng) } else { gen_history(&mut rng, k % 10 == 9) };
                if k % 12 == 5 {
                    // the same requests against the generic builder: its own two strategies
                    for r in h.iter_mut() {
                        if let Req::Close(s) = r {
                            *s = 4 + (*s % 2);
                        }
                    }
                }
                histories.push(h);
            }
        }
        "enum" => {
            // a deterministic slice of the small-scope space: `count` histories starting at seed*count
            let max_adds: usize = arg_value(&args, "--max-adds").map_or(2, |s| s.parse().unwrap());
            let space = enum_space(max_adds);
            let total = space.len();
            let start = (seed as usize).wrapping_mul(count) % total.max(1);
            let n = if count == 0 { total } else { count.min(total) };
            for k in 0..n {
                histories.push(enum_history(&space[(start + k) % total]));
            }
            eprintln!("enum space: {} histories, taking {}", total, n);
        }
        "file" => {
            let f = arg_value(&args, "--file").unwrap();
            for line in fs::read_to_string(&f).unwrap().lines() {
                let line = line.trim();
                if line.is_empty() || line.starts_with('#') {
                    continue;
                }
                histories.push(hist_parse(line));
            }
        }
        _ => panic!("unknown mode"),
    }

    fs::create_dir_all(&out_dir).unwrap();
    let mut hist_txt = String::new();
    let mut oracle_out = String::new();
    let mut obs_out = String::new();
    let per = (histories.len() + shards - 1) / shards.max(1);
    let mut case_files: Vec<String> = vec![String::new(); shards];
    let mut agg = BTreeMap::<&str, u64>::new();
    let mut distinct = BTreeSet::new();
    let mut size_hist = BTreeMap::<usize, u64>::new();
    for (p, what) in name_fidelity_probe() {
        writeln!(oracle_out, "{{\"case\":-1,\"property\":{},\"what\":{},\"history\":{}}}", json_str(&p), json_str(&what), json_str("(probe: type names through copy_datum and a replay)")).unwrap();
    }
    for (k, h) in histories.iter().enumerate() {
        let r = run_history(h);
        let text = hist_text(h);
        writeln!(hist_txt, "{}", text).unwrap();
        writeln!(obs_out, "{}", r.obs.iter().map(|o| o.iter().map(|x| x.to_string()).collect::<Vec<_>>().join(",")).collect::<Vec<_>>().join(" | ")).unwrap();
        // C18: the same history through other entry points (typed / dynamic / override / copy) must give
        // the same observations: the layout depends on the resolver's answers only
        let mut c18 = Vec::new();
        if h.iter().any(|r| matches!(r, Req::Add { .. })) {
            let rot = 1 + (k % 4) as u8;
            let h2: Vec<Req> = h
                .iter()
                .map(|r| match r {
                    Req::Add { name, size, align, uninit, entry } => Req::Add { name: *name, size: *size, align: *align, uninit: *uninit, entry: (*entry + rot) % 5 },
                    x => x.clone(),
                })
                .collect();
            let r2 = run_history(&h2);
            if r2.obs != r.obs {
                let pos = r.obs.iter().zip(r2.obs.iter()).position(|(a, b)| a != b).unwrap_or(r.obs.len().min(r2.obs.len()));
                c18.push(("C18".to_owned(), format!("observation #{} differs when the data are added through other entry points (entry + {}): {:?} vs {:?}", pos, rot, r.obs.get(pos), r2.obs.get(pos))));
            }
        }
        for (p, what) in r.oracle.fails.iter().chain(c18.iter()) {
            writeln!(oracle_out, "{{\"case\":{},\"property\":{},\"what\":{},\"history\":{}}}", k, json_str(p), json_str(what), json_str(&text)).unwrap();
        }
        // the model runs the executed prefix only (a panic stops the history)
        let hexec = &h[..r.executed.min(h.len())];
        let mut expected = r.obs.clone();
        if expected.last() == Some(&vec![9]) {
            // a panic has no counterpart in the model: keep it, the comparison fails on purpose
        }
        let shard = if per == 0 { 0 } else { (k / per).min(shards - 1) };
        let reqs = coq_list(&hexec.iter().map(|r| r.coq()).collect::<Vec<_>>());
        let exp = coq_list(&expected.drain(..).map(|o| coq_nlist(&o)).collect::<Vec<_>>());
        writeln!(case_files[shard], "  ({}%nat, ({},\n    {})) ::", k, reqs, exp).unwrap();
        // statistics
        let s = &r.stats;
        *agg.entry("histories").or_default() += 1;
        *agg.entry("requests").or_default() += r.executed as u64;
        *agg.entry("rejected_requests").or_default() += s.errs as u64;
        *agg.entry("adds").or_default() += s.adds as u64;
        *agg.entry("zero_size_adds").or_default() += s.zst as u64;
        if s.variants >= 3 { *agg.entry("histories_with_3plus_variants").or_default() += 1; }
        if s.strategies.len() >= 2 { *agg.entry("histories_mixing_strategies").or_default() += 1; }
        if s.removed_pending { *agg.entry("histories_removing_a_pending_datum").or_default() += 1; }
        if s.gap_fill { *agg.entry("histories_filling_a_gap").or_default() += 1; }
        if s.built { *agg.entry("histories_built_and_converted").or_default() += 1; }
        if s.errs > 0 { *agg.entry("histories_with_rejected_request").or_default() += 1; }
        *size_hist.entry(h.len() / 5 * 5).or_default() += 1;
        if s.variants >= 2 && s.adds >= 2 {
            distinct.insert(text);
        }
    }
    fs::write(format!("{}/histories.txt", out_dir), hist_txt).unwrap();
    fs::write(format!("{}/observations.txt", out_dir), obs_out).unwrap();
    fs::write(format!("{}/oracle.jsonl", out_dir), oracle_out).unwrap();
    if with_model {
        for (i, body) in case_files.iter().enumerate() {
            let mut f = String::new();
            f.push_str("From Coq Require Import List NArith.\nFrom Truc.Model Require Import Layout Builder Observe.\nImport ListNotations.\n");
            f.push_str("Open Scope N_scope.\n");
            f.push_str("Definition cases : list (nat * case) :=\n");
            f.push_str(body);
            f.push_str("  [].\n");
            f.push_str("Definition bad := map fst (filter (fun c => negb (check_case (snd c))) cases).\n");
            f.push_str("Eval vm_compute in (length cases, bad).\n");
            fs::write(format!("{}/cases_{}.v", out_dir, i), f).unwrap();
        }
    }
    let mut stats = String::from("{");
    for (k, v) in &agg {
        write!(stats, "{}:{},", json_str(k), v).unwrap();
    }
    write!(stats, "\"distinct_nontrivial\":{},", distinct.len()).unwrap();
    write!(stats, "\"history_length_histogram\":{{{}}}", size_hist.iter().map(|(k, v)| format!("\"{}-{}\":{}", k, k + 4, v)).collect::<Vec<_>>().join(",")).unwrap();
    stats.push('}');
    fs::write(format!("{}/stats.json", out_dir), stats).unwrap();
    println!("bdiff: {} histories written to {}", histories.len(), out_dir);
}
