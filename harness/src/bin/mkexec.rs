//! E3 — writes a crate that executes real generated code.
//!
//! For each definition (built with the real builder under `HostTypeResolver` from a palette of
//! instrumented field types) it writes the text `truc::generator::generate` produces (all fragments) as
//! module `m<k>` and a driver `d<k>` that performs the operation sequences of C03b..C07, C15, C16 on it
//! and reports every oracle failure as a line `FAIL <module> <property> <message>`.

use std::{fmt::Write as _, fs};

use truc::generator::{
    config::GeneratorConfig,
    fragment::{clone::CloneImplGenerator, serde::SerdeImplGenerator, FragmentGenerator},
    generate,
};
use truc::record::{
    definition::{
        builder::native::{variant, NativeRecordDefinitionBuilder},
        DatumId, NativeDatumDetails, RecordDefinition,
    },
    type_resolver::HostTypeResolver,
};
use vharness::{arg_value, vt::*, Rng};

/// (type expression, Copy, has a token, owns a ledger entry)
const PALETTE: [(&str, bool, bool); 15] = [
    ("u8", true, true),
    ("u16", true, true),
    ("u32", true, true),
    ("u64", true, true),
    ("[u8; 3]", true, true),
    ("vharness::vt::Led", false, true),
    ("vharness::vt::LedZ", false, false),
    ("vharness::vt::Over", false, true),
    ("String", false, true),
    ("vharness::vt::Pz", true, false),
    ("vharness::vt::Nc", false, true),
    ("Option<u32>", true, true),
    ("[u64; 0]", true, false), // zero-size, alignment 8
    ("Option<String>", false, true), // owns an allocation or not: clone_from between the two shapes
    ("f64", true, true),
];

fn add(b: &mut NativeRecordDefinitionBuilder<HostTypeResolver>, ty: usize, name: String, uninit: bool) -> Result<DatumId, String> {
    macro_rules! go {
        ($t:ty) => {
            if uninit {
                b.add_datum_allow_uninit::<$t, _>(name)
            } else {
                b.add_datum::<$t, _>(name)
            }
        };
        (nc $t:ty) => {
            b.add_datum::<$t, _>(name)
        };
    }
    match ty {
        0 => go!(u8),
        1 => go!(u16),
        2 => go!(u32),
        3 => go!(u64),
        4 => go!([u8; 3]),
        5 => go!(nc Led),
        6 => go!(nc LedZ),
        7 => go!(nc Over),
        8 => go!(nc String),
        9 => go!(Pz),
        10 => go!(nc Nc),
        11 => go!(Option<u32>),
        12 => go!([u64; 0]),
        13 => go!(nc Option<String>),
        14 => go!(f64),
        _ => unreachable!(),
    }
}

#[derive(Clone)]
struct Field {
    id: usize,
    name: String,
    ty: usize,
    uninit: bool,
}

/// one definition: spec text "A:name:ty:uninit R:id C:strat ..."
struct Def {
    spec: String,
    def: RecordDefinition<NativeDatumDetails>,
    variants: Vec<Vec<Field>>, // in id order
}

fn build(spec: &str) -> Def {
    let mut b = NativeRecordDefinitionBuilder::new(HostTypeResolver);
    let mut info: Vec<Field> = Vec::new();
    let mut idmap: Vec<usize> = Vec::new(); // identifier the spec counts on -> identifier the builder gave
    for t in spec.split_whitespace() {
        let p: Vec<&str> = t.split(':').collect();
        match p[0] {
            "A" => {
                let ty: usize = p[2].parse().unwrap();
                let uninit = p[3] != "0" && PALETTE[ty].1;
                let name = format!("f{}", p[1]);
                let id = add(&mut b, ty, name.clone(), uninit).unwrap();
                let idn: usize = format!("{}", id).parse().unwrap();
                assert_eq!(idn, info.len());
                idmap.push(idn);
                info.push(Field { id: idn, name, ty, uninit });
            }
            // an add the builder must refuse (the name is live); if it is accepted the datum is part of the
            // definition from then on and whatever the generator makes of it is compiled like everything else
            "D" => {
                let ty: usize = p[2].parse().unwrap();
                let name = format!("f{}", p[1]);
                if let Ok(id) = add(&mut b, ty, name.clone(), false) {
                    let idn: usize = format!("{}", id).parse().unwrap();
                    assert_eq!(idn, info.len());
                    info.push(Field { id: idn, name, ty, uninit: false });
                }
            }
            "R" => b.remove_datum(DatumId::from(idmap[p[1].parse::<usize>().unwrap()])).unwrap(),
            "C" => {
                match p[1] {
                    "0" => b.close_record_variant_with(variant::simple),
                    "1" => b.close_record_variant_with(variant::basic),
                    "2" => b.close_record_variant_with(variant::append_data),
                    _ => b.close_record_variant_with(variant::append_data_reverse),
                };
            }
            _ => panic!("bad spec {}", t),
        }
    }
    let def = b.build();
    let variants = def
        .variants()
        .map(|v| v.data_sorted().map(|d| info[format!("{}", d).parse::<usize>().unwrap()].clone()).collect())
        .collect();
    Def { spec: spec.to_owned(), def, variants }
}

fn gen_spec(rng: &mut Rng) -> String {
    let nv = 1 + rng.below(4);
    // one definition in five holds plain data only: all of it allowed to stay uninitialised, or none of it
    let flavor = rng.below(10);
    let mut s = String::new();
    let mut next_id = 0usize;
    let mut next_name = 0usize;
    let mut cur: Vec<(usize, usize)> = Vec::new(); // (id, name)
    let mut gone: Vec<usize> = Vec::new();
    for v in 0..nv {
        let mut removed_names = Vec::new();
        if v > 0 {
            // one step in ten removes everything that is live (the variant is empty unless something is added)
            let nrm = if rng.chance(10) { cur.len() } else { rng.below(1 + cur.len().min(3)) };
            for _ in 0..nrm {
                if cur.is_empty() {
                    break;
                }
                let i = rng.below(cur.len());
                let (id, name) = cur.remove(i);
                write!(s, "R:{} ", id).unwrap();
                removed_names.push(name);
                gone.push(name);
            }
        }
        let nadd = if v > 0 && cur.is_empty() && rng.chance(60) { 0 } else if v == 0 { rng.below(6) } else { rng.below(4) };
        for _ in 0..nadd {
            // sometimes the name of a datum removed in this very step (a type change)
            let mut reused = false;
            let name = if !removed_names.is_empty() && rng.chance(35) {
                reused = true;
                removed_names.pop().unwrap()
            } else {
                next_name += 1;
                next_name - 1
            };
            let mut ty = rng.below(PALETTE.len());
            if flavor < 2 {
                const PLAIN: [usize; 9] = [0, 1, 2, 3, 4, 9, 11, 12, 14];
                ty = PLAIN[rng.below(PLAIN.len())];
            }
            let uninit = PALETTE[ty].1 && match flavor {
                0 => true,
                1 => false,
                _ => rng.chance(50),
            };
            write!(s, "A:{}:{}:{} ", name, ty, uninit as u8).unwrap();
            cur.push((next_id, name));
            next_id += 1;
            // now and then a second add under a live name, which the builder refuses (C12)
            if reused && rng.chance(40) {
                // ... in particular under the name of a datum being replaced in this very step
                write!(s, "D:{}:{} ", name, rng.below(PALETTE.len())).unwrap();
            } else if rng.chance(12) {
                let (_, live) = cur[rng.below(cur.len())];
                write!(s, "D:{}:{} ", live, rng.below(PALETTE.len())).unwrap();
            }
        }
        write!(s, "C:{} ", rng.below(4)).unwrap();
    }
    s.trim().to_owned()
}

// ------------------------------------------------------------------ driver generation

fn tyx(f: &Field) -> &'static str {
    PALETTE[f.ty].0
}
fn has_tok(f: &Field) -> bool {
    PALETTE[f.ty].2
}

fn driver(k: usize, d: &Def, with_andout: bool) -> String {
    let mut o = String::new();
    let m = format!("crate::m{}", k);
    let nv = d.variants.len();
    writeln!(o, "// driver for: {}", d.spec).unwrap();
    writeln!(o, "#![allow(unused_variables, unused_mut, unused_imports, clippy::all)]").unwrap();
    writeln!(o, "use vharness::vt::*;\nuse crate::support::*;\nuse std::panic::{{catch_unwind, AssertUnwindSafe}};").unwrap();
    writeln!(o, "const M: usize = {};", k).unwrap();
    // expected token of datum `id` for a scenario base
    writeln!(o, "fn tk(base: u32, id: u32) -> u32 {{ base + 3 * id + 1 }}").unwrap();
    for (v, fs) in d.variants.iter().enumerate() {
        // constructors of the unpacked structs
        writeln!(o, "fn mk_u{v}(base: u32) -> {m}::UnpackedRecord{v} {{ {m}::UnpackedRecord{v} {{ {} }} }}",
            fs.iter().map(|f| format!("{}: <{} as Vt>::mk(tk(base, {}))", f.name, tyx(f), f.id)).collect::<Vec<_>>().join(", ")).unwrap();
        writeln!(o, "fn mk_uu{v}(base: u32) -> {m}::UnpackedUninitRecord{v} {{ {m}::UnpackedUninitRecord{v} {{ {} }} }}",
            fs.iter().filter(|f| !f.uninit).map(|f| format!("{}: <{} as Vt>::mk(tk(base, {}))", f.name, tyx(f), f.id)).collect::<Vec<_>>().join(", ")).unwrap();
        // checker of a record: every accessor returns the expected token, every reference is aligned
        writeln!(o, "fn chk_r{v}<const CAP: usize>(r: &{m}::CappedRecord{v}<CAP>, base: u32, only_mandatory: bool, out: &mut Vec<String>, ctx: &str) {{").unwrap();
        writeln!(o, "    aligned(r as *const _ as usize, std::mem::align_of::<{m}::CappedRecord{v}<CAP>>(), out, M, ctx, \"record\");").unwrap();
        for f in fs {
            writeln!(o, "    aligned(r.{n}() as *const {t} as usize, std::mem::align_of::<{t}>(), out, M, ctx, \"{n}\");", n = f.name, t = tyx(f)).unwrap();
            if has_tok(f) {
                let guard = if f.uninit { "!only_mandatory && " } else { "" };
                writeln!(o, "    if {guard}r.{n}().tok() != tk(base, {id}) {{ out.push(format!(\"FAIL {{}} {{}} {{}}: field {n} of variant {v} holds token {{}} instead of {{}}\", M, prop_of(ctx), ctx, r.{n}().tok(), tk(base, {id}))); }}",
                    n = f.name, id = f.id).unwrap();
            }
        }
        writeln!(o, "}}").unwrap();
        writeln!(o, "fn chk_u{v}(u: {m}::UnpackedRecord{v}, base: u32, out: &mut Vec<String>, ctx: &str) {{").unwrap();
        for f in fs.iter().filter(|f| has_tok(f)) {
            writeln!(o, "    if u.{n}.tok() != tk(base, {id}) {{ out.push(format!(\"FAIL {{}} C04 {{}}: unpacked field {n} of variant {v} holds token {{}} instead of {{}}\", M, ctx, u.{n}.tok(), tk(base, {id}))); }}", n = f.name, id = f.id).unwrap();
        }
        writeln!(o, "}}").unwrap();
        // fill the may-be-uninitialised fields through the mutable accessors
        writeln!(o, "fn fill_uninit{v}<const CAP: usize>(r: &mut {m}::CappedRecord{v}<CAP>, base: u32, which: &[u32]) {{").unwrap();
        for f in fs.iter().filter(|f| f.uninit) {
            writeln!(o, "    if which.contains(&{id}) {{ *r.{n}_mut() = <{t} as Vt>::mk(tk(base, {id})); }}", n = f.name, id = f.id, t = tyx(f)).unwrap();
        }
        writeln!(o, "}}").unwrap();
    }
    writeln!(o, "pub fn run(out: &mut Vec<String>) {{").unwrap();
    writeln!(o, "    let mut n = 0u64;").unwrap();
    // C03b: sizes and alignments of all record types
    writeln!(o, "    {{").unwrap();
    for extra in [0usize, 1, 7, 64] {
        let sizes: Vec<String> = (0..nv)
            .map(|v| format!("(std::mem::size_of::<{m}::CappedRecord{v}<{{ {m}::MAX_SIZE + {extra} }}>>(), std::mem::align_of::<{m}::CappedRecord{v}<{{ {m}::MAX_SIZE + {extra} }}>>())"))
            .collect();
        writeln!(o, "        let s: Vec<(usize, usize)> = vec![{}, (std::mem::size_of::<{m}::RecordUninitialized<{{ {m}::MAX_SIZE + {extra} }}>>(), std::mem::align_of::<{m}::RecordUninitialized<{{ {m}::MAX_SIZE + {extra} }}>>())];", sizes.join(", ")).unwrap();
        writeln!(o, "        if s.iter().any(|x| *x != s[0]) {{ out.push(format!(\"FAIL {{}} C03 record types of one definition differ in (size, align) at capacity MAX_SIZE+{extra}: {{:?}}\", M, s)); }}").unwrap();
        writeln!(o, "        if s[0].0 < {m}::MAX_SIZE + {extra} {{ out.push(format!(\"FAIL {{}} C02 a record type is smaller ({{}}) than its capacity\", M, s[0].0)); }}").unwrap();
        writeln!(o, "        n += 1;").unwrap();
    }
    // C02: the alignment of every record type is a multiple of the alignment of every datum of every variant
    {
        let mut tys: Vec<&'static str> = d.variants.iter().flatten().map(|f| tyx(f)).collect();
        tys.sort();
        tys.dedup();
        for v in 0..nv {
            for t in &tys {
                writeln!(o, "        if std::mem::align_of::<{m}::Record{v}>() % std::mem::align_of::<{t}>() != 0 {{ out.push(format!(\"FAIL {{}} C02 the alignment {{}} of Record{v} is not a multiple of the alignment {{}} of the field type {t} stored by a variant of this definition\", M, std::mem::align_of::<{m}::Record{v}>(), std::mem::align_of::<{t}>())); }}").unwrap();
            }
        }
        writeln!(o, "        n += 1;").unwrap();
    }
    writeln!(o, "    }}").unwrap();
    for (v, fs) in d.variants.iter().enumerate() {
        let uninit_ids: Vec<String> = fs.iter().filter(|f| f.uninit).map(|f| f.id.to_string()).collect();
        writeln!(o, "    // ---------------- variant {v}").unwrap();
        // A: new / accessors / unpack at three placements
        writeln!(o, "    {{ let r = {m}::Record{v}::new(mk_u{v}(10)); chk_r{v}(&r, 10, false, out, \"new+get on the stack\"); chk_u{v}(r.unpack(), 10, out, \"new+unpack\"); checkpoint(out, M, \"new, read, unpack (variant {v})\"); n += 1; }}").unwrap();
        writeln!(o, "    {{ let b = Box::new({m}::Record{v}::new(mk_u{v}(20))); chk_r{v}(&b, 20, false, out, \"new+get in a Box\"); let r = *b; chk_u{v}(r.unpack(), 20, out, \"Box+unpack\"); checkpoint(out, M, \"boxed record (variant {v})\"); n += 1; }}").unwrap();
        writeln!(o, "    {{ let mut vec = Vec::new(); for i in 0..3u32 {{ vec.push({m}::Record{v}::new(mk_u{v}(30 + i))); }} for (i, r) in vec.iter().enumerate() {{ chk_r{v}(r, 30 + i as u32, false, out, \"new+get in a Vec\"); }} drop(vec); checkpoint(out, M, \"records in a Vec dropped (variant {v})\"); n += 1; }}").unwrap();
        // larger capacity
        writeln!(o, "    {{ let r = {m}::CappedRecord{v}::<{{ {m}::MAX_SIZE + 7 }}>::new(mk_u{v}(40)); chk_r{v}(&r, 40, false, out, \"capacity MAX_SIZE+7\"); let mut vec = vec![r]; vec.push({m}::CappedRecord{v}::<{{ {m}::MAX_SIZE + 7 }}>::from(mk_u{v}(41))); chk_r{v}(&vec[1], 41, false, out, \"capacity MAX_SIZE+7 in a Vec\"); drop(vec); checkpoint(out, M, \"larger capacity (variant {v})\"); n += 1; }}").unwrap();
        // C: frame of mutable accessors
        for f in fs {
            writeln!(o, "    {{ let mut r = {m}::Record{v}::new(mk_u{v}(50)); r.{n}_mut().bump(2);", n = f.name).unwrap();
            for g in fs.iter().filter(|g| has_tok(g)) {
                let want = if g.id == f.id { format!("tk(50, {}) + 2", g.id) } else { format!("tk(50, {})", g.id) };
                writeln!(o, "      if r.{gn}().tok() != {want} {{ out.push(format!(\"FAIL {{}} C04 after a write through {n}_mut() (variant {v}) field {gn} holds {{}} instead of {{}}\", M, r.{gn}().tok(), {want})); }}", gn = g.name, n = f.name).unwrap();
            }
            writeln!(o, "      drop(r); checkpoint(out, M, \"write through {n}_mut then drop (variant {v})\"); n += 1; }}", n = f.name).unwrap();
        }
        // C': the record is passed by value, rebound mutably, written through a mutable accessor and moved on
        for f in fs.iter().filter(|f| has_tok(f)) {
            writeln!(o, "    {{ #[inline(never)] fn bump(r: {m}::Record{v}) -> {m}::Record{v} {{ let mut r = r; r.{n}_mut().bump(4); r }} let r = bump({m}::Record{v}::new(mk_u{v}(55))); if r.{n}().tok() != tk(55, {id}) + 4 {{ out.push(format!(\"FAIL {{}} C04 a write through {n}_mut() on a record passed by value (variant {v}) was lost: {{}} instead of {{}}\", M, r.{n}().tok(), tk(55, {id}) + 4)); }} let u = bump(r).unpack(); if u.{n}.tok() != tk(55, {id}) + 8 {{ out.push(format!(\"FAIL {{}} C04 unpack after two writes through {n}_mut() (variant {v}) gives {{}} instead of {{}}\", M, u.{n}.tok(), tk(55, {id}) + 8)); }} drop(u); checkpoint(out, M, \"by-value write through {n}_mut (variant {v})\"); n += 1; }}", n = f.name, id = f.id).unwrap();
        }
        // D: new_uninit
        writeln!(o, "    {{ let mut r = {m}::Record{v}::new_uninit(mk_uu{v}(60)); chk_r{v}(&r, 60, true, out, \"new_uninit: mandatory fields\"); fill_uninit{v}(&mut r, 60, &[{ids}]); chk_r{v}(&r, 60, false, out, \"new_uninit then writes of the uninitialised fields\"); let r2: {m}::Record{v} = mk_uu{v}(61).into(); chk_r{v}(&r2, 61, true, out, \"From<UnpackedUninitRecord>\"); drop(r); drop(r2); checkpoint(out, M, \"new_uninit (variant {v})\"); n += 1; }}", ids = uninit_ids.join(", ")).unwrap();
        // H: clone
        let nled = fs.iter().filter(|f| [5usize, 6, 7].contains(&f.ty) && !f.uninit).count();
        writeln!(o, "    {{ let mut r = {m}::Record{v}::new(mk_u{v}(70)); let c = r.clone(); chk_r{v}(&c, 70, false, out, \"clone equals its source\");").unwrap();
        for f in fs.iter().filter(|f| has_tok(f)) {
            writeln!(o, "      r.{n}_mut().bump(1);", n = f.name).unwrap();
        }
        writeln!(o, "      chk_r{v}(&c, 70, false, out, \"clone unaffected by writes to its source\"); drop(r); chk_r{v}(&c, 70, false, out, \"clone intact after its source is dropped\");").unwrap();
        writeln!(o, "      let mut t = {m}::Record{v}::new(mk_u{v}(80)); t.clone_from(&c); chk_r{v}(&t, 70, false, out, \"clone_from makes the target equal to the source\"); chk_r{v}(&c, 70, false, out, \"clone_from leaves the source intact\"); drop(c); chk_r{v}(&t, 70, false, out, \"clone_from target independent of the source\"); drop(t); checkpoint(out, M, \"clone / clone_from (variant {v})\"); n += 1; }}").unwrap();
        // H2: clone_from between values of different shapes (None / empty against Some / non-empty): a source whose
        // fields were all emptied onto a full target, then a full source onto that emptied record
        writeln!(o, "    {{ let mut c = {m}::Record{v}::new(mk_u{v}(72)); let mut t = {m}::Record{v}::new(mk_u{v}(82));").unwrap();
        for f in fs.iter() {
            writeln!(o, "      c.{n}_mut().hollow();", n = f.name).unwrap();
        }
        writeln!(o, "      t.clone_from(&c);").unwrap();
        for f in fs.iter() {
            writeln!(o, "      if <{ty} as Vt>::HOLLOW && !t.{n}().is_hollow() {{ out.push(format!(\"FAIL {{}} C16 clone_from (variant {v}): field {n} of the target keeps its previous value although the source's is empty\", M)); }}", n = f.name, ty = tyx(f)).unwrap();
        }
        writeln!(o, "      let full = {m}::Record{v}::new(mk_u{v}(73)); c.clone_from(&full); chk_r{v}(&c, 73, false, out, \"clone_from of a full source onto an emptied target\"); chk_r{v}(&full, 73, false, out, \"clone_from leaves the source intact\"); drop(full); drop(c); drop(t); checkpoint(out, M, \"clone_from between empty and full values (variant {v})\"); n += 1; }}").unwrap();
        for kpanic in 1..=(nled + 1) {
            writeln!(o, "    {{ let r = {m}::Record{v}::new(mk_u{v}(90)); CLONE_PANIC_IN.with(|c| c.set({kpanic})); let res = catch_unwind(AssertUnwindSafe(|| r.clone())); CLONE_PANIC_IN.with(|c| c.set(0)); chk_r{v}(&r, 90, false, out, \"source intact after a panicking clone\"); drop(res); drop(r); checkpoint(out, M, \"clone panicking at the {kpanic}-th tracked field (variant {v})\"); n += 1; }}").unwrap();
            writeln!(o, "    {{ let r = {m}::Record{v}::new(mk_u{v}(91)); let mut t = {m}::Record{v}::new(mk_u{v}(92)); CLONE_PANIC_IN.with(|c| c.set({kpanic})); let res = catch_unwind(AssertUnwindSafe(|| t.clone_from(&r))); CLONE_PANIC_IN.with(|c| c.set(0)); drop(res); drop(r); drop(t); checkpoint(out, M, \"clone_from panicking at the {kpanic}-th tracked field (variant {v})\"); n += 1; }}").unwrap();
        }
        // I: serde
        let nfields = fs.len();
        writeln!(o, "    {{ let r = {m}::Record{v}::new(mk_u{v}(100));").unwrap();
        writeln!(o, "      let json = serde_json::to_string(&r).unwrap(); match serde_json::from_str::<{m}::Record{v}>(&json) {{ Ok(r2) => chk_r{v}(&r2, 100, false, out, \"JSON round trip\"), Err(e) => out.push(format!(\"FAIL {{}} C15 JSON round trip of variant {v} failed: {{}} on {{}}\", M, e, json)) }}").unwrap();
        writeln!(o, "      let bytes = bincode::serialize(&r).unwrap(); match bincode::deserialize::<{m}::Record{v}>(&bytes) {{ Ok(r2) => chk_r{v}(&r2, 100, false, out, \"bincode round trip\"), Err(e) => out.push(format!(\"FAIL {{}} C15 bincode round trip of variant {v} failed: {{}}\", M, e)) }}").unwrap();
        writeln!(o, "      let val: serde_json::Value = serde_json::from_str(&json).unwrap(); let arr = val.as_array().cloned().unwrap_or_default();").unwrap();
        writeln!(o, "      if arr.len() != {nfields} {{ out.push(format!(\"FAIL {{}} C15 variant {v} serialises {{}} elements for {nfields} fields\", M, arr.len())); }}").unwrap();
        // declaration order: element i is the token of the i-th field
        for (i, f) in fs.iter().enumerate().filter(|(_, f)| has_tok(f) && f.ty != 4 && f.ty != 8 && f.ty < 13) {
            writeln!(o, "      if arr.get({i}).and_then(|x| x.as_u64()) != Some(tk(100, {id}) as u64) {{ out.push(format!(\"FAIL {{}} C15 element {i} of the serialised variant {v} is {{:?}}, not the value of field {n}\", M, arr.get({i}))); }}", id = f.id, n = f.name).unwrap();
        }
        writeln!(o, "      for cut in 0..arr.len() {{ let short = serde_json::Value::Array(arr[..cut].to_vec()).to_string(); if serde_json::from_str::<{m}::Record{v}>(&short).is_ok() {{ out.push(format!(\"FAIL {{}} C15 variant {v}: JSON input with {{}} of {nfields} elements was accepted\", M, cut)); }} if serde_json::from_value::<{m}::Record{v}>(serde_json::Value::Array(arr[..cut].to_vec())).is_ok() {{ out.push(format!(\"FAIL {{}} C15 variant {v}: JSON value with {{}} of {nfields} elements was accepted\", M, cut)); }} }}").unwrap();
        writeln!(o, "      {{ let mut long = arr.clone(); long.push(serde_json::Value::from(1)); if serde_json::from_str::<{m}::Record{v}>(&serde_json::Value::Array(long).to_string()).is_ok() {{ out.push(format!(\"FAIL {{}} C15 variant {v}: JSON input with one element too many was accepted\", M)); }} }}").unwrap();
        writeln!(o, "      for cut in 0..bytes.len() {{ if bincode::deserialize::<{m}::Record{v}>(&bytes[..cut]).is_ok() {{ out.push(format!(\"FAIL {{}} C15 variant {v}: bincode input truncated to {{}} of {{}} bytes was accepted\", M, cut, bytes.len())); break; }} }}").unwrap();
        writeln!(o, "      for pos in 0..arr.len() {{ let mut bad = arr.clone(); bad[pos] = serde_json::Value::Array(vec![serde_json::Value::Null, serde_json::Value::Bool(true)]); if serde_json::from_str::<{m}::Record{v}>(&serde_json::Value::Array(bad).to_string()).is_ok() {{ out.push(format!(\"FAIL {{}} C15 variant {v}: an undecodable element at position {{}} was accepted\", M, pos)); }} }}").unwrap();
        writeln!(o, "      for kfail in 1..={nled} as u32 {{ DE_FAIL_IN.with(|c| c.set(kfail)); let res = serde_json::from_str::<{m}::Record{v}>(&json); DE_FAIL_IN.with(|c| c.set(0)); if res.is_ok() {{ out.push(format!(\"FAIL {{}} C15 variant {v}: a failing element decoder was ignored\", M)); }} drop(res); }}", nled = fs.iter().filter(|f| [5usize, 6, 7, 9, 10].contains(&f.ty)).count()).unwrap();
        writeln!(o, "      drop(r); checkpoint(out, M, \"serde round trips and malformed inputs (variant {v})\"); n += 1; }}").unwrap();
        // F: conversions from the previous variant
        if v > 0 {
            let prev = &d.variants[v - 1];
            let plus: Vec<&Field> = fs.iter().filter(|f| !prev.iter().any(|p| p.id == f.id)).collect();
            let minus: Vec<&Field> = prev.iter().filter(|p| !fs.iter().any(|f| f.id == p.id)).collect();
            let pv = v - 1;
            let plus_full = format!("{m}::UnpackedRecordIn{v} {{ {} }}", plus.iter().map(|f| format!("{}: <{} as Vt>::mk(tk(BASE, {}))", f.name, tyx(f), f.id)).collect::<Vec<_>>().join(", "));
            let plus_uninit = format!("{m}::UnpackedUninitRecordIn{v} {{ {} }}", plus.iter().filter(|f| !f.uninit).map(|f| format!("{}: <{} as Vt>::mk(tk(BASE, {}))", f.name, tyx(f), f.id)).collect::<Vec<_>>().join(", "));
            let plus_uninit_ids: Vec<String> = plus.iter().filter(|f| f.uninit).map(|f| f.id.to_string()).collect();
            let carried_uninit_ids: Vec<String> = fs.iter().filter(|f| f.uninit && !plus.iter().any(|p| p.id == f.id)).map(|f| f.id.to_string()).collect();
            let _ = carried_uninit_ids;
            for form in 0..(if with_andout { 4 } else { 2 }) {
                let uninit = form % 2 == 1;
                let and_out = form >= 2;
                let base = 110 + form as u32;
                let plus_expr = (if uninit { &plus_uninit } else { &plus_full }).replace("BASE", &base.to_string());
                writeln!(o, "    {{ let prev = {m}::Record{pv}::new(mk_u{pv}({base}));").unwrap();
                if and_out {
                    writeln!(o, "      let o: {m}::Record{v}AndUnpackedOut<{{ {m}::MAX_SIZE }}> = (prev, {plus_expr}).into(); let mut r = o.record;").unwrap();
                    for f in minus.iter().filter(|f| has_tok(f)) {
                        writeln!(o, "      if o.{n}.tok() != tk({base}, {id}) {{ out.push(format!(\"FAIL {{}} C05 conversion {pv}->{v} form {form}: removed field {n} handed back with token {{}} instead of {{}}\", M, o.{n}.tok(), tk({base}, {id}))); }}", n = f.name, id = f.id).unwrap();
                    }
                    for f in minus.iter() {
                        writeln!(o, "      drop(o.{n});", n = f.name).unwrap();
                    }
                } else {
                    writeln!(o, "      let mut r: {m}::Record{v} = (prev, {plus_expr}).into();").unwrap();
                }
                writeln!(o, "      chk_r{v}(&r, {base}, {only}, out, \"C05 conversion {pv}->{v} form {form}\");", only = if uninit { "true" } else { "false" }).unwrap();
                if uninit {
                    // carried may-be-uninit fields were initialised in the previous record: check them too
                    for f in fs.iter().filter(|f| f.uninit && has_tok(f) && !plus.iter().any(|p| p.id == f.id)) {
                        writeln!(o, "      if r.{n}().tok() != tk({base}, {id}) {{ out.push(format!(\"FAIL {{}} C05 conversion {pv}->{v} form {form}: carried field {n} holds {{}} instead of {{}}\", M, r.{n}().tok(), tk({base}, {id}))); }}", n = f.name, id = f.id).unwrap();
                    }
                    writeln!(o, "      fill_uninit{v}(&mut r, {base}, &[{}]); chk_r{v}(&r, {base}, false, out, \"C05 conversion {pv}->{v} form {form} then writes of the uninitialised added fields\");", plus_uninit_ids.join(", ")).unwrap();
                }
                writeln!(o, "      drop(r); checkpoint(out, M, \"conversion {pv}->{v} form {form}\"); n += 1; }}").unwrap();
            }
            // F2: the same conversion applied to a whole Vec in place (the library's main use; C05_vec_in_place):
            // three records with their own values, spare capacity, the k-th element gets its own added values
            {
                let plus_vec = plus_full.replace("BASE", "bj");
                writeln!(o, "    {{ let base = 20u32; let mut vin: Vec<{m}::Record{pv}> = Vec::with_capacity(5); for j in 0..3u32 {{ vin.push({m}::Record{pv}::new(mk_u{pv}(base + 40 * j))); }}").unwrap();
                writeln!(o, "      let (ptr, cap) = (vin.as_ptr() as usize, vin.capacity()); let ctr = std::sync::atomic::AtomicU32::new(0);").unwrap();
                writeln!(o, "      let vout: Vec<{m}::Record{v}> = truc_runtime::convert::convert_vec_in_place(vin, |rec: {m}::Record{pv}, _| {{ let bj = base + 40 * ctr.fetch_add(1, std::sync::atomic::Ordering::SeqCst); let _ = bj; truc_runtime::convert::VecElementConversionResult::Converted((rec, {plus_vec}).into()) }});").unwrap();
                writeln!(o, "      if vout.len() != 3 {{ out.push(format!(\"FAIL {{}} C05 conversion {pv}->{v} of a Vec in place: {{}} records instead of 3\", M, vout.len())); }}").unwrap();
                writeln!(o, "      if vout.as_ptr() as usize != ptr || vout.capacity() != cap {{ out.push(format!(\"FAIL {{}} C03 conversion {pv}->{v} of a Vec in place: the vector of the next variant is not the input's allocation\", M)); }}").unwrap();
                writeln!(o, "      for (j, r) in vout.iter().enumerate() {{ chk_r{v}(r, base + 40 * j as u32, false, out, \"C05 conversion {pv}->{v} of a Vec in place\"); }}").unwrap();
                writeln!(o, "      drop(vout); checkpoint(out, M, \"conversion {pv}->{v} of a Vec in place\"); n += 1; }}").unwrap();
                // ... with the uninit + returning form as converter (C05_vec_in_place_forms): the converter fills the fields
                // left out and keeps the removed data it was handed, which are checked and dropped afterwards
                if with_andout {
                    let plus_vec_u = plus_uninit.replace("BASE", "bj");
                    writeln!(o, "    {{ let base = 22u32; let mut vin: Vec<{m}::Record{pv}> = Vec::with_capacity(3); for j in 0..3u32 {{ vin.push({m}::Record{pv}::new(mk_u{pv}(base + 40 * j))); }}").unwrap();
                    writeln!(o, "      let ctr = std::sync::atomic::AtomicU32::new(0); let kept = std::sync::Mutex::new(Vec::new());").unwrap();
                    writeln!(o, "      let vout: Vec<{m}::Record{v}> = truc_runtime::convert::convert_vec_in_place(vin, |rec: {m}::Record{pv}, _| {{ let bj = base + 40 * ctr.fetch_add(1, std::sync::atomic::Ordering::SeqCst); let _ = bj; let o: {m}::Record{v}AndUnpackedOut<{{ {m}::MAX_SIZE }}> = (rec, {plus_vec_u}).into(); let mut r = o.record; fill_uninit{v}(&mut r, bj, &[{ids}]); kept.lock().unwrap().push((bj, ({fields}))); truc_runtime::convert::VecElementConversionResult::Converted(r) }});",
                        ids = plus_uninit_ids.join(", "),
                        fields = minus.iter().map(|f| format!("o.{}", f.name)).collect::<Vec<_>>().join(", ") + if minus.len() == 1 { "," } else { "" }).unwrap();
                    writeln!(o, "      for (j, r) in vout.iter().enumerate() {{ chk_r{v}(r, base + 40 * j as u32, false, out, \"C05 conversion {pv}->{v} of a Vec in place with the uninit returning form\"); }}").unwrap();
                    writeln!(o, "      for (bj, t) in kept.into_inner().unwrap() {{ let _ = &t; let _ = bj;").unwrap();
                    for (idx, f) in minus.iter().enumerate().filter(|(_, f)| has_tok(f)) {
                        writeln!(o, "        if t.{idx}.tok() != tk(bj, {id}) {{ out.push(format!(\"FAIL {{}} C05 conversion {pv}->{v} of a Vec in place with the uninit returning form: removed field {n} handed back with token {{}} instead of {{}}\", M, t.{idx}.tok(), tk(bj, {id}))); }}", n = f.name, id = f.id).unwrap();
                    }
                    writeln!(o, "        drop(t); }}").unwrap();
                    writeln!(o, "      drop(vout); checkpoint(out, M, \"conversion {pv}->{v} of a Vec in place with the uninit returning form\"); n += 1; }}").unwrap();
                }
                // ... with a converter that merges the second element into the previous output (one field of that output is
                // overwritten through its mutable accessor) and drops it (C05_vec_in_place_merge)
                if let Some(wfld) = fs.iter().find(|f| has_tok(f)) {
                    writeln!(o, "    {{ let base = 23u32; let mut vin: Vec<{m}::Record{pv}> = Vec::with_capacity(3); for j in 0..3u32 {{ vin.push({m}::Record{pv}::new(mk_u{pv}(base + 40 * j))); }}").unwrap();
                    writeln!(o, "      let ctr = std::sync::atomic::AtomicU32::new(0);").unwrap();
                    writeln!(o, "      let vout: Vec<{m}::Record{v}> = truc_runtime::convert::convert_vec_in_place(vin, |rec: {m}::Record{pv}, prev: Option<&mut {m}::Record{v}>| {{ let j = ctr.fetch_add(1, std::sync::atomic::Ordering::SeqCst); let bj = base + 40 * j; let _ = bj; if j == 1 {{ if let Some(p) = prev {{ *p.{wn}_mut() = <{wty} as Vt>::mk(tk(base, {wid}) + 2); }} drop(rec); return truc_runtime::convert::VecElementConversionResult::Abandonned; }} truc_runtime::convert::VecElementConversionResult::Converted((rec, {plus_vec}).into()) }});", wn = wfld.name, wty = tyx(wfld), wid = wfld.id).unwrap();
                    writeln!(o, "      if vout.len() != 2 {{ out.push(format!(\"FAIL {{}} C05 merging conversion {pv}->{v} of a Vec in place: {{}} records instead of 2\", M, vout.len())); }} else {{").unwrap();
                    for f in fs.iter().filter(|f| has_tok(f)) {
                        let want0 = if f.id == wfld.id { format!("tk(base, {}) + 2", f.id) } else { format!("tk(base, {})", f.id) };
                        writeln!(o, "        if vout[0].{n}().tok() != {want0} {{ out.push(format!(\"FAIL {{}} C05 merging conversion {pv}->{v} of a Vec in place: field {n} of the first output holds {{}} instead of {{}}\", M, vout[0].{n}().tok(), {want0})); }}", n = f.name).unwrap();
                    }
                    writeln!(o, "        chk_r{v}(&vout[1], base + 80, false, out, \"C05 merging conversion {pv}->{v} of a Vec in place, last output\"); }}").unwrap();
                    writeln!(o, "      drop(vout); checkpoint(out, M, \"merging conversion {pv}->{v} of a Vec in place\"); n += 1; }}").unwrap();
                }
                // ... and with a converter that gives up at the second element (it drops it and returns an error)
                writeln!(o, "    {{ let base = 21u32; let mut vin: Vec<{m}::Record{pv}> = Vec::with_capacity(4); for j in 0..3u32 {{ vin.push({m}::Record{pv}::new(mk_u{pv}(base + 40 * j))); }}").unwrap();
                writeln!(o, "      let ctr = std::sync::atomic::AtomicU32::new(0);").unwrap();
                writeln!(o, "      let res: Result<Vec<{m}::Record{v}>, u32> = truc_runtime::convert::try_convert_vec_in_place(vin, |rec: {m}::Record{pv}, _| {{ let j = ctr.fetch_add(1, std::sync::atomic::Ordering::SeqCst); if j == 1 {{ drop(rec); return Err(7u32); }} let bj = base + 40 * j; let _ = bj; Ok(truc_runtime::convert::VecElementConversionResult::Converted((rec, {plus_vec}).into())) }});").unwrap();
                writeln!(o, "      match res {{ Err(7) => {{}} Err(e) => out.push(format!(\"FAIL {{}} C05 failing conversion {pv}->{v} of a Vec in place: error {{}} instead of 7\", M, e)), Ok(v) => {{ out.push(format!(\"FAIL {{}} C05 failing conversion {pv}->{v} of a Vec in place: returned {{}} records although the converter failed\", M, v.len())); drop(v); }} }}").unwrap();
                writeln!(o, "      checkpoint(out, M, \"failing conversion {pv}->{v} of a Vec in place\"); n += 1; }}").unwrap();
            }
        }
    }
    // G: chains from the first to the last variant
    if nv > 1 && with_andout {
        for pat in 0..4usize {
            writeln!(o, "    {{ let base = {}u32; let r0 = {m}::Record0::new(mk_u0(base));", 130 + pat).unwrap();
            for v in 1..nv {
                let prev = &d.variants[v - 1];
                let fs = &d.variants[v];
                let plus: Vec<&Field> = fs.iter().filter(|f| !prev.iter().any(|p| p.id == f.id)).collect();
                let minus: Vec<&Field> = prev.iter().filter(|p| !fs.iter().any(|f| f.id == p.id)).collect();
                let form = (v + pat) % 4;
                let uninit = form % 2 == 1;
                let plus_expr = if uninit {
                    format!("{m}::UnpackedUninitRecordIn{v} {{ {} }}", plus.iter().filter(|f| !f.uninit).map(|f| format!("{}: <{} as Vt>::mk(tk(base, {}))", f.name, tyx(f), f.id)).collect::<Vec<_>>().join(", "))
                } else {
                    format!("{m}::UnpackedRecordIn{v} {{ {} }}", plus.iter().map(|f| format!("{}: <{} as Vt>::mk(tk(base, {}))", f.name, tyx(f), f.id)).collect::<Vec<_>>().join(", "))
                };
                if form >= 2 {
                    writeln!(o, "      let o{v}: {m}::Record{v}AndUnpackedOut<{{ {m}::MAX_SIZE }}> = (r{p}, {plus_expr}).into(); let mut r{v} = o{v}.record;", p = v - 1).unwrap();
                    for f in minus.iter().filter(|f| has_tok(f)) {
                        writeln!(o, "      if o{v}.{n}.tok() != tk(base, {id}) {{ out.push(format!(\"FAIL {{}} C05 chain pattern {pat}: removed field {n} handed back with {{}} at step {v}\", M, o{v}.{n}.tok())); }}", n = f.name, id = f.id).unwrap();
                    }
                    for f in minus.iter() {
                        writeln!(o, "      drop(o{v}.{n});", n = f.name).unwrap();
                    }
                } else {
                    writeln!(o, "      let mut r{v}: {m}::Record{v} = (r{p}, {plus_expr}).into();", p = v - 1).unwrap();
                }
                if uninit {
                    let ids: Vec<String> = plus.iter().filter(|f| f.uninit).map(|f| f.id.to_string()).collect();
                    writeln!(o, "      fill_uninit{v}(&mut r{v}, base, &[{}]);", ids.join(", ")).unwrap();
                }
                writeln!(o, "      chk_r{v}(&r{v}, base, false, out, \"C05 chain pattern {pat} after step {v}\");").unwrap();
            }
            writeln!(o, "      chk_u{l}(r{l}.unpack(), base, out, \"C05 chain then unpack\"); checkpoint(out, M, \"conversion chain pattern {pat} ending in unpack\"); n += 1; }}", l = nv - 1).unwrap();
        }
    }
    writeln!(o, "    out.push(format!(\"DONE {{}} {{}}\", M, n));").unwrap();
    writeln!(o, "}}").unwrap();
    o
}

const SUPPORT: &str = r#"
use vharness::vt::*;
pub fn prop_of(ctx: &str) -> &'static str {
    if ctx.starts_with("C05") { "C05" } else if ctx.contains("clone") { "C16" } else if ctx.contains("round trip") { "C15" } else { "C04" }
}
pub fn aligned(addr: usize, align: usize, out: &mut Vec<String>, m: usize, ctx: &str, what: &str) {
    if addr % align != 0 {
        out.push(format!("FAIL {} C07 {}: the address {:#x} of {} is not a multiple of {}", m, ctx, addr, what, align));
    }
}
/// after a scenario everything has been dropped: no ledger error, nothing live, no hook violation
pub fn checkpoint(out: &mut Vec<String>, m: usize, what: &str) {
    for e in take_errors() {
        out.push(format!("FAIL {} C06 {}: {}", m, what, e));
        // a destructor that ran where no value was stored is an access to a moved-out value (C07); in the
        // clone scenarios it is the clone (or its source) losing a value to the other (C16)
        if e.contains("destroyed twice") || e.contains("more ") {
            out.push(format!("FAIL {} C07 {}: a value was destroyed where none was stored: {}", m, what, e));
            if what.contains("clone") {
                out.push(format!("FAIL {} C16 {}: {}", m, what, e));
            }
            if what.contains("serde") {
                out.push(format!("FAIL {} C15 {}: {}", m, what, e));
            }
        }
        if what.contains("of a Vec in place") {
            out.push(format!("FAIL {} C05 {}: {}", m, what, e));
        }
    }
    let live = take_live();
    if !live.is_empty() {
        out.push(format!("FAIL {} C06 {}: values were never destroyed: {}", m, what, live.join(", ")));
        // a leak while cloning (a clone that panics half-way included) is C16's, while decoding C15's
        if what.contains("clone") {
            out.push(format!("FAIL {} C16 {}: values were never destroyed: {}", m, what, live.join(", ")));
        }
        if what.contains("serde") {
            out.push(format!("FAIL {} C15 {}: values were never destroyed: {}", m, what, live.join(", ")));
        }
        if what.contains("of a Vec in place") {
            out.push(format!("FAIL {} C05 {}: values were never destroyed: {}", m, what, live.join(", ")));
        }
    }
    #[cfg(truc_verif)]
    {
        for v in truc_runtime::verif::take_violations() {
            out.push(format!("FAIL {} C07 {}: {}", m, what, v));
        }
        let write_aligned = crate::WRITE_NEEDS_ALIGNMENT;
        for (kind, offset, size, align, addr_mod, cap) in truc_runtime::verif::take_accesses() {
            if write_aligned && matches!(kind, truc_runtime::verif::Access::Write { .. }) && addr_mod != 0 {
                out.push(format!("FAIL {} C07 {}: an alignment-requiring store of a value of size {} / alignment {} at offset {} hit an address that is {} modulo {} (capacity {})", m, what, size, align, offset, addr_mod, align, cap));
                break;
            }
        }
    }
}
"#;

fn main() {
    let args: Vec<String> = std::env::args().collect();
    let out = arg_value(&args, "--out").expect("--out");
    let seed: u64 = arg_value(&args, "--seed").map_or(1, |s| s.parse().unwrap());
    let count: usize = arg_value(&args, "--count").map_or(8, |s| s.parse().unwrap());
    let write_aligned = arg_value(&args, "--write-needs-alignment").map_or(false, |s| s == "1");
    let list = |key: &str| -> Vec<usize> { arg_value(&args, key).map_or(Vec::new(), |s| s.split(',').filter_map(|x| x.parse().ok()).collect()) };
    let skip_mod = list("--skip-mod");
    let skip_andout = list("--skip-andout");
    let mut specs: Vec<String> = Vec::new();
    if let Some(f) = arg_value(&args, "--file") {
        for line in fs::read_to_string(f).unwrap().lines() {
            let line = line.trim();
            if !line.is_empty() && !line.starts_with('#') {
                specs.push(line.to_owned());
            }
        }
    }
    let mut rng = Rng::new(seed);
    while specs.len() < count {
        specs.push(gen_spec(&mut rng));
    }
    fs::create_dir_all(format!("{}/src", out)).unwrap();
    let cfg = || GeneratorConfig::default_with_custom_generators([Box::new(CloneImplGenerator) as Box<dyn FragmentGenerator>, Box::new(SerdeImplGenerator) as Box<dyn FragmentGenerator>]);
    let mut main = String::from("#![allow(unexpected_cfgs)]\n#[macro_use]\nextern crate static_assertions;\npub mod support;\n");
    writeln!(main, "pub const WRITE_NEEDS_ALIGNMENT: bool = {};", write_aligned).unwrap();
    let mut index = String::new();
    let mut panics = String::new();
    let mut generated: Vec<usize> = Vec::new();
    std::panic::set_hook(Box::new(|_| {}));
    for (k, spec) in specs.iter().enumerate() {
        writeln!(index, "{} {}", k, spec).unwrap();
        if skip_mod.contains(&k) {
            continue;
        }
        // the builder or the generator panicking on a definition is an observation, not a harness failure
        let built = std::panic::catch_unwind(std::panic::AssertUnwindSafe(|| {
            let d = build(spec);
            let text = generate(&d.def, &cfg());
            (d, text)
        }));
        let (d, text) = match built {
            Ok(x) => x,
            Err(e) => {
                let msg = e.downcast_ref::<String>().cloned().or_else(|| e.downcast_ref::<&str>().map(|s| s.to_string())).unwrap_or_else(|| "?".to_owned());
                writeln!(panics, "{} {}", k, msg.replace('\n', " ")).unwrap();
                continue;
            }
        };
        generated.push(k);
        fs::write(format!("{}/src/m{}.rs", out, k), format!("#![allow(dead_code, unused_imports, clippy::all)]\n{}", text)).unwrap();
        fs::write(format!("{}/src/d{}.rs", out, k), driver(k, &d, !skip_andout.contains(&k))).unwrap();
        writeln!(main, "pub mod m{k};\nmod d{k};").unwrap();
    }
    writeln!(main, "fn main() {{\n    std::panic::set_hook(Box::new(|_| {{}}));\n    let only: Option<usize> = std::env::args().nth(1).and_then(|s| s.parse().ok());").unwrap();
    for k in generated.iter().cloned() {
        writeln!(main, "    if only.map_or(true, |o| o == {k}) {{ let mut out = Vec::new(); if std::panic::catch_unwind(std::panic::AssertUnwindSafe(|| d{k}::run(&mut out))).is_err() {{ out.push(\"FAIL {k} C04 the driver panicked\".to_owned()); }} for l in out {{ println!(\"{{}}\", l); }} }}").unwrap();
    }
    writeln!(main, "}}").unwrap();
    fs::write(format!("{}/src/main.rs", out), main).unwrap();
    fs::write(format!("{}/src/support.rs", out), SUPPORT).unwrap();
    fs::write(format!("{}/index.txt", out), index).unwrap();
    fs::write(format!("{}/panics.txt", out), panics).unwrap();
    fs::write(
        format!("{}/Cargo.toml", out),
        r#"[package]
name = "execcrate"
version = "0.0.0"
edition = "2021"

[workspace]

[dependencies]
truc_runtime = { path = "/repo/truc_runtime" }
vharness = { path = "/verif/harness" }
static_assertions = "1"
serde = "1"
serde_json = "1"
bincode = "1"

[profile.dev]
debug = false
codegen-units = 16

[profile.release]
opt-level = 3
codegen-units = 16
debug = false
"#,
    )
    .unwrap();
    println!("mkexec: {} modules written to {}", specs.len(), out);
}
