//! E2 — generator dump.
//!
//! For each request history (E1 text format) builds the definition with the real builder, calls the real
//! `truc::generator::generate` for each fragment selection, parses the generated text with `syn` and
//! prints it item by item in the canonical format of coq/extract/driver.ml (`gen` mode).  Anything that is
//! not recognised is printed verbatim (prefixed by `?`), so that it shows up as a difference.
//! Also: generates twice in-process and compares bytes (C19), and prints a hash of the text.

use std::{
    collections::hash_map::DefaultHasher,
    fs,
    hash::{Hash, Hasher},
    panic::{catch_unwind, AssertUnwindSafe},
};

use quote::ToTokens;
use syn::{Fields, FnArg, ImplItem, Item, Pat, Stmt, Type};
use truc::generator::{
    config::GeneratorConfig,
    fragment::{clone::CloneImplGenerator, serde::SerdeImplGenerator, FragmentGenerator},
    generate,
};
use truc::record::definition::builder::native::NativeRecordDefinitionBuilder;
use vharness::{arg_value, synth::*};

fn ws(s: &str) -> String {
    s.chars().filter(|c| !c.is_whitespace()).collect()
}
fn toks<T: ToTokens>(t: &T) -> String {
    ws(&t.to_token_stream().to_string())
}

fn field_code(name: &str) -> String {
    match name.strip_prefix('f').and_then(|x| x.parse::<u64>().ok()) {
        Some(k) => k.to_string(),
        None => format!("?{}", name),
    }
}
fn ty_of(name: &str) -> String {
    let n = ws(name);
    if let Some(core) = n.strip_prefix('S') {
        let mut it = core.split('A');
        if let (Some(s), Some(a)) = (it.next().and_then(|x| x.parse::<u64>().ok()), it.next().and_then(|x| x.parse::<u64>().ok())) {
            return ty_code(s, a).to_string();
        }
    }
    format!("?{}", n)
}

/// struct name -> canonical struct code
fn sname(name: &str) -> String {
    let n = ws(name);
    for (p, c) in [
        ("UnpackedUninitSafeRecordIn", "USI"),
        ("UnpackedUninitRecordIn", "UUI"),
        ("UnpackedRecordIn", "UI"),
        ("UnpackedUninitSafeRecord", "US"),
        ("UnpackedUninitRecord", "UU"),
        ("UnpackedRecord", "U"),
        ("CappedRecord", "C"),
    ] {
        if let Some(rest) = n.strip_prefix(p) {
            if let Ok(v) = rest.parse::<u64>() {
                return format!("{}{}", c, v);
            }
        }
    }
    if let Some(rest) = n.strip_prefix("Record") {
        if let Some(v) = rest.strip_suffix("AndUnpackedOut") {
            if let Ok(v) = v.parse::<u64>() {
                return format!("AO{}", v);
            }
        }
    }
    format!("?{}", n)
}

fn repr_align(attrs: &[syn::Attribute]) -> String {
    for a in attrs {
        let t = toks(a);
        if let Some(x) = t.strip_prefix("#[repr(align(") {
            return x.trim_end_matches(")]").trim_end_matches(')').to_owned();
        }
    }
    "?".to_owned()
}

fn generics_indices(g: &syn::Generics) -> String {
    // "T0: Copy, T3: Copy" -> "0,3" ; const CAP ignored
    let mut v = Vec::new();
    for p in &g.params {
        let t = toks(p);
        if t == "constCAP:usize" {
            continue;
        }
        if let Some(rest) = t.strip_prefix('T') {
            if let Some(idx) = rest.strip_suffix(":Copy") {
                v.push(idx.to_owned());
                continue;
            }
        }
        v.push(format!("?{}", t));
    }
    v.join(",")
}

fn stmt_code(st: &Stmt) -> String {
    let t = toks(st);
    // let [mut] data = RecordMaybeUninit::new();
    if t == "letmutdata=RecordMaybeUninit::new();" {
        return "newbuf(1)".into();
    }
    if t == "letdata=RecordMaybeUninit::new();" {
        return "newbuf(0)".into();
    }
    if t == "std::mem::forget(self);" {
        return "forget".into();
    }
    if t == "letmanually_drop=std::mem::ManuallyDrop::new(from);" {
        return "mdrop".into();
    }
    if t == "letmutdata=unsafe{std::ptr::read(&manually_drop.data)};" {
        return "copybuf(1)".into();
    }
    if t == "letdata=unsafe{std::ptr::read(&manually_drop.data)};" {
        return "copybuf(0)".into();
    }
    if t == "Self{data}" {
        return "retself".into();
    }
    // unsafe { data.write(OFF, from.NAME); }
    if let Some(x) = t.strip_prefix("unsafe{data.write(") {
        if let Some(x) = x.strip_suffix(");}") {
            let mut it = x.splitn(2, ',');
            let off = it.next().unwrap_or("?");
            let src = it.next().unwrap_or("?");
            let mut s2 = src.splitn(2, '.');
            let who = s2.next().unwrap_or("?");
            let f = s2.next().unwrap_or("?");
            if (who == "from" || who == "plus") && off.parse::<u64>().is_ok() {
                return format!("write({},{},{})", off, who, field_code(f));
            }
        }
    }
    // let [_]NAME: TY = unsafe { X.data.read(OFF) };
    if let Some(x) = t.strip_prefix("let") {
        if let Some(p) = x.find(":") {
            let name = &x[..p];
            let rest = &x[p + 1..];
            if let Some(q) = rest.find("=unsafe{") {
                let tyn = &rest[..q];
                let call = &rest[q + 8..];
                for (who, tag) in [("self.data.read(", "self"), ("from.data.read(", "from")] {
                    if let Some(o) = call.strip_prefix(who) {
                        if let Some(o) = o.strip_suffix(")};") {
                            let (u, n) = match name.strip_prefix('_') {
                                Some(n) => (1, n),
                                None => (0, name),
                            };
                            return format!("read({},{},{},{},{})", u, field_code(n), ty_of(tyn), o, tag);
                        }
                    }
                }
            }
        }
        // let [_]from = Safe::<tys>::from(from);   (or plus)
        for (bind, who, used) in [("from", "from", 1), ("_from", "from", 0), ("plus", "plus", 1), ("_plus", "plus", 0)] {
            if let Some(r) = x.strip_prefix(&format!("{}=", bind)) {
                if let Some(r) = r.strip_suffix(&format!("::from({});", who)) {
                    let (sn, tys) = match r.find("::<") {
                        Some(i) => (&r[..i], r[i + 3..].trim_end_matches('>').split(',').map(ty_of).collect::<Vec<_>>().join(",")),
                        None => (r, String::new()),
                    };
                    return format!("safefrom({},{},{},[{}])", who, used, sname(sn), tys);
                }
            }
        }
        // let record = CappedRecordK { data };
        if let Some(r) = x.strip_prefix("record=") {
            if let Some(r) = r.strip_suffix("{data};") {
                return format!("letrecord({})", sname(r));
            }
        }
    }
    // UnpackedRecordK { a, b }   /   RecordKAndUnpackedOut { record, a }
    if let Some(i) = t.find('{') {
        if t.ends_with('}') && !t.contains(';') && !t.contains('(') {
            let sn = sname(&t[..i]);
            let inner = &t[i + 1..t.len() - 1];
            let fs: Vec<&str> = if inner.is_empty() { vec![] } else { inner.split(',').collect() };
            if sn.starts_with("AO") {
                if fs.first() == Some(&"record") {
                    return format!("retandout({},[{}])", sn, fs[1..].iter().map(|f| field_code(f)).collect::<Vec<_>>().join(","));
                }
            } else if sn.starts_with('U') {
                return format!("retunpacked({},[{}])", sn, fs.iter().map(|f| field_code(f)).collect::<Vec<_>>().join(","));
            }
        }
    }
    format!("?{}", t)
}

fn body_code(block: &syn::Block) -> String {
    block.stmts.iter().map(stmt_code).collect::<Vec<_>>().join(";")
}

fn arg_name(f: &syn::ImplItemFn, idx: usize) -> String {
    match f.sig.inputs.iter().nth(idx) {
        Some(FnArg::Typed(p)) => toks(&p.pat),
        Some(FnArg::Receiver(r)) => toks(r),
        None => "?".into(),
    }
}

fn dump_struct(s: &syn::ItemStruct, out: &mut Vec<String>) {
    let name = s.ident.to_string();
    let public = matches!(s.vis, syn::Visibility::Public(_));
    if name == "RecordUninitialized" {
        let ok = match &s.fields {
            Fields::Named(n) => n.named.len() == 1 && toks(&n.named[0]) == "_data:RecordMaybeUninit<CAP>",
            _ => false,
        };
        out.push(format!("UNINIT {}{}", repr_align(&s.attrs), if ok && public { "" } else { " ?fields" }));
        return;
    }
    let sn = sname(&name);
    let fields: Vec<(String, String)> = match &s.fields {
        Fields::Named(n) => n.named.iter().map(|f| (f.ident.as_ref().unwrap().to_string(), toks(&f.ty))).collect(),
        _ => vec![],
    };
    if sn.starts_with('C') && !sn.starts_with('?') {
        let ok = fields.len() == 1 && fields[0].0 == "data" && fields[0].1 == "RecordMaybeUninit<CAP>" && public && generics_indices(&s.generics).is_empty();
        let extra = if ok { String::new() } else { format!(" ?{}", toks(s)) };
        out.push(format!("RECORD {} {}{}", &sn[1..], repr_align(&s.attrs), extra));
        return;
    }
    if sn.starts_with("AO") {
        let ok = fields.first().map_or(false, |f| f.0 == "record" && f.1.starts_with("CappedRecord") && f.1.ends_with("<CAP>") && sname(f.1.trim_end_matches("<CAP>")) == format!("C{}", &sn[2..])) && public;
        out.push(format!(
            "OUT {} F[{}]{}",
            &sn[2..],
            fields.iter().skip(1).map(|(n, t)| format!("{}:{}", field_code(n), ty_of(t))).collect::<Vec<_>>().join(","),
            if ok { "" } else { " ?record-field" }
        ));
        return;
    }
    let fs = fields
        .iter()
        .map(|(n, t)| {
            if let Some(x) = t.strip_prefix("std::marker::PhantomData<T") {
                format!("{}:H{}", field_code(n), x.trim_end_matches('>'))
            } else {
                format!("{}:P{}", field_code(n), ty_of(t))
            }
        })
        .collect::<Vec<_>>()
        .join(",");
    let all_pub = match &s.fields {
        Fields::Named(n) => n.named.iter().all(|f| matches!(f.vis, syn::Visibility::Public(_))),
        _ => true,
    };
    out.push(format!(
        "STRUCT {} {} G[{}] F[{}]{}",
        sn,
        if public { "pub" } else { "priv" },
        generics_indices(&s.generics),
        fs,
        if all_pub { "" } else { " ?private-field" }
    ));
}

fn dump_impl(im: &syn::ItemImpl, out: &mut Vec<String>) {
    let self_ty = toks(&im.self_ty);
    let self_sn = sname(self_ty.split('<').next().unwrap_or(""));
    let v = self_sn.trim_start_matches(|c: char| c.is_alphabetic()).to_owned();
    let fns: Vec<&syn::ImplItemFn> = im.items.iter().filter_map(|i| if let ImplItem::Fn(f) = i { Some(f) } else { None }).collect();
    let trait_name = im.trait_.as_ref().map(|(_, p, _)| toks(p));
    if im.unsafety.is_some() {
        out.push(format!("?unsafe-impl {}", toks(im)));
        return;
    }
    match trait_name.as_deref() {
        None => {
            // inherent impl of CappedRecordK
            if !self_sn.starts_with('C') {
                out.push(format!("?impl {}", toks(im)));
                return;
            }
            let mut k = 0;
            while k < fns.len() {
                let f = fns[k];
                let name = f.sig.ident.to_string();
                let public = matches!(f.vis, syn::Visibility::Public(_));
                let p = if public { "" } else { " ?private" };
                match name.as_str() {
                    "new" | "new_uninit" => {
                        let a = arg_name(f, 0);
                        let used = if a == "from" { 1 } else if a == "_from" { 0 } else { 9 };
                        out.push(format!("NEW {} uninit={} used={} B[{}]{}", v, (name == "new_uninit") as u8, used, body_code(&f.block), p));
                    }
                    "unpack" => out.push(format!("UNPACK {} B[{}]{}", v, body_code(&f.block), p)),
                    _ => {
                        // accessor:  unsafe { self.data.get::<TY>(OFF) }  /  get_mut
                        let (fname, mutable) = match name.strip_suffix("_mut") {
                            Some(n) => (n.to_owned(), 1),
                            None => (name.clone(), 0),
                        };
                        let b = toks(&f.block);
                        let pre = if mutable == 1 { "{unsafe{self.data.get_mut::<" } else { "{unsafe{self.data.get::<" };
                        let recv = arg_name(f, 0);
                        let ret = match &f.sig.output {
                            syn::ReturnType::Type(_, t) => toks(t),
                            _ => "?".into(),
                        };
                        let mut ok = false;
                        if let Some(x) = b.strip_prefix(pre) {
                            if let Some(x) = x.strip_suffix(")}}") {
                                if let Some(i) = x.rfind(">(") {
                                    let tyn = &x[..i];
                                    let off = &x[i + 2..];
                                    let want_ret = if mutable == 1 { format!("&mut{}", tyn) } else { format!("&{}", tyn) };
                                    let want_recv = if mutable == 1 { "&mutself" } else { "&self" };
                                    if ret == want_ret && recv == want_recv {
                                        out.push(format!("GET {} {} {} {} {}{}", v, field_code(&fname), ty_of(tyn), off, mutable, p));
                                        ok = true;
                                    }
                                }
                            }
                        }
                        if !ok {
                            out.push(format!("?fn {}", toks(f)));
                        }
                    }
                }
                k += 1;
            }
        }
        Some("Drop") => {
            if fns.len() == 1 && fns[0].sig.ident == "drop" && self_sn.starts_with('C') {
                out.push(format!("DROP {} B[{}]", v, body_code(&fns[0].block)));
            } else {
                out.push(format!("?drop {}", toks(im)));
            }
        }
        Some("Clone") => {
            // clone: Self::from(UnpackedRecordK { a: *self.a(), s: self.s().clone(), })
            let mut ok = fns.len() == 2 && fns[0].sig.ident == "clone" && fns[1].sig.ident == "clone_from";
            let mut fields = Vec::new();
            if ok {
                let b = toks(&fns[0].block);
                let pre = format!("{{Self::from(UnpackedRecord{}{{", v);
                if let Some(x) = b.strip_prefix(&pre) {
                    if let Some(x) = x.strip_suffix("})}") {
                        for part in x.split(',').filter(|p| !p.is_empty()) {
                            let mut it = part.splitn(2, ':');
                            let n = it.next().unwrap_or("?");
                            let e = it.next().unwrap_or("?");
                            if e == format!("*self.{}()", n) {
                                fields.push((n.to_owned(), 1));
                            } else if e == format!("self.{}().clone()", n) {
                                fields.push((n.to_owned(), 0));
                            } else {
                                ok = false;
                            }
                        }
                    } else {
                        ok = false;
                    }
                } else {
                    ok = false;
                }
                // clone_from must treat the same fields the same way, in the same order
                let want: String = fields
                    .iter()
                    .map(|(n, c)| if *c == 1 { format!("*self.{}_mut()=*source.{}();", n, n) } else { format!("self.{}_mut().clone_from(source.{}());", n, n) })
                    .collect();
                if toks(&fns[1].block) != format!("{{{}}}", want) {
                    ok = false;
                }
            }
            if ok {
                out.push(format!("CLONE {} F[{}]", v, fields.iter().map(|(n, c)| format!("{}:{}", field_code(n), c)).collect::<Vec<_>>().join(",")));
            } else {
                out.push(format!("?clone {}", toks(im)));
            }
        }
        Some("serde::Serialize") => {
            let mut ok = fns.len() == 1;
            let mut names = Vec::new();
            if ok {
                let st: Vec<String> = fns[0].block.stmts.iter().map(|s| toks(s)).collect();
                let n = st.len().saturating_sub(2);
                let first = if n > 0 { format!("letmuttuple=serializer.serialize_tuple({})?;", n) } else { "lettuple=serializer.serialize_tuple(0)?;".to_owned() };
                ok = st.len() >= 2 && st[0] == first && st[st.len() - 1] == "tuple.end()";
                if ok {
                    for s in &st[1..st.len() - 1] {
                        match s.strip_prefix("tuple.serialize_element(self.").and_then(|x| x.strip_suffix("())?;")) {
                            Some(nm) => names.push(field_code(nm)),
                            None => ok = false,
                        }
                    }
                }
            }
            if ok {
                out.push(format!("SER {} F[{}]", v, names.join(",")));
            } else {
                out.push(format!("?serialize {}", toks(im)));
            }
        }
        Some("serde::Deserialize<'de>") => {
            // recognise the visitor by its statements
            let text = toks(im);
            let mut ok = false;
            let mut fields: Vec<String> = Vec::new();
            if let Some(i) = text.find("fnvisit_seq<A>(self,") {
                let body = &text[i..];
                let n_decl = body.matches("seq.next_element::<").count();
                let pre = format!("ifletSome(size)=seq.size_hint(){{ifsize!={}{{returnErr(A::Error::invalid_length(size,&\"{}\"));}}}}", n_decl, n_decl);
                let arg = if n_decl > 0 { "fnvisit_seq<A>(self,mutseq:A)" } else { "fnvisit_seq<A>(self,seq:A)" };
                if body.starts_with(arg) && body.contains(&pre) {
                    let mut rest = &body[body.find(&pre).unwrap() + pre.len()..];
                    let mut good = true;
                    let mut names = Vec::new();
                    for _ in 0..n_decl {
                        // letNAME=seq.next_element::<TY>()?.ok_or_else(||A::Error::missing_field("NAME"))?;
                        if let Some(r) = rest.strip_prefix("let") {
                            let eq = r.find("=seq.next_element::<").unwrap_or(usize::MAX);
                            if eq == usize::MAX {
                                good = false;
                                break;
                            }
                            let name = &r[..eq];
                            let r2 = &r[eq + 20..];
                            let marker = ">()?.ok_or_else(||A::Error::missing_field(\"";
                            let close = r2.find(marker).unwrap_or(usize::MAX);
                            if close == usize::MAX {
                                good = false;
                                break;
                            }
                            let tyn = &r2[..close];
                            let r3 = &r2[close + marker.len()..];
                            let tail = format!("{}\"))?;", name);
                            if !r3.starts_with(&tail) {
                                good = false;
                                break;
                            }
                            rest = &r3[tail.len()..];
                            fields.push(format!("{}:{}", field_code(name), ty_of(tyn)));
                            names.push(name.to_owned());
                        } else {
                            good = false;
                            break;
                        }
                    }
                    let post = format!(
                        "ifletSome(size)=seq.size_hint(){{assert_eq!(size,0);}}Ok(CappedRecord{}::new(UnpackedRecord{}{{{}}}))}}",
                        v,
                        v,
                        names.join(",")
                    );
                    let last = format!("deserializer.deserialize_tuple({},RecordVisitor::<CAP>)", n_decl);
                    ok = good && rest.starts_with(&post) && text.contains(&last) && text.contains(&format!("typeValue=CappedRecord{}<{{CAP}}>;", v));
                }
            }
            if ok {
                out.push(format!("DE {} F[{}]", v, fields.join(",")));
            } else {
                out.push(format!("?deserialize {}", text));
            }
        }
        Some(t) if t.starts_with("From<") => {
            let from_ty = &t[5..t.len() - 1];
            let f = match fns.first() {
                Some(f) if fns.len() == 1 && f.sig.ident == "from" => *f,
                _ => {
                    out.push(format!("?from {}", toks(im)));
                    return;
                }
            };
            if from_ty.starts_with('(') {
                // conversion from (CappedRecordP<CAP>, UnpackedRecordInK)
                let inner = &from_ty[1..from_ty.len() - 1];
                let mut it = inner.splitn(2, ">,");
                let prev = sname(it.next().unwrap_or("?").trim_end_matches("<CAP"));
                let plus_ty = sname(it.next().unwrap_or("?"));
                let uninit = if plus_ty.starts_with("UUI") { 1 } else if plus_ty.starts_with("UI") { 0 } else { 9 };
                let (and_out, vv) = if self_sn.starts_with("AO") { (1, self_sn[2..].to_owned()) } else { (0, v.clone()) };
                let a = arg_name(f, 0);
                let used = if a == "(from,plus)" { 1 } else if a == "(from,_plus)" { 0 } else { 9 };
                let consistent = plus_ty.trim_start_matches(|c: char| c.is_alphabetic()) == vv;
                out.push(format!(
                    "CONV {} {} uninit={} andout={} plusused={} B[{}]{}",
                    vv,
                    prev.trim_start_matches('C'),
                    uninit,
                    and_out,
                    used,
                    body_code(&f.block),
                    if consistent { "" } else { " ?names" }
                ));
            } else {
                let from_sn = sname(from_ty);
                if self_sn.starts_with("US") {
                    // impl From<UnpackedUninitRecord..> for UnpackedUninitSafeRecord..
                    let a = arg_name(f, 0);
                    let used = if a == "from" { 1 } else if a == "_from" { 0 } else { 9 };
                    let b = toks(&f.block);
                    let mut inits = Vec::new();
                    let mut ok = false;
                    if let Some(x) = b.strip_prefix("{Self{") {
                        if let Some(x) = x.strip_suffix("}}") {
                            ok = true;
                            for part in x.split(',').filter(|p| !p.is_empty()) {
                                let mut it = part.splitn(2, ':');
                                let n = it.next().unwrap_or("?");
                                let e = it.next().unwrap_or("?");
                                if e == format!("from.{}", n) {
                                    inits.push(format!("{}:1", field_code(n)));
                                } else if e == "std::marker::PhantomData" {
                                    inits.push(format!("{}:0", field_code(n)));
                                } else {
                                    ok = false;
                                }
                            }
                        }
                    }
                    if ok {
                        out.push(format!("SAFEFROM {} G[{}] from={} used={} I[{}]", self_sn, generics_indices(&im.generics), from_sn, used, inits.join(",")));
                    } else {
                        out.push(format!("?safefrom {}", toks(im)));
                    }
                } else if self_sn.starts_with('C') {
                    let b = toks(&f.block);
                    let a = arg_name(f, 0);
                    if b == "{Self::new(from)}" && from_sn == format!("U{}", v) && a == "from" {
                        out.push(format!("FROMUNPACKED {} 0", v));
                    } else if b == "{Self::new_uninit(from)}" && from_sn == format!("UU{}", v) && a == "from" {
                        out.push(format!("FROMUNPACKED {} 1", v));
                    } else {
                        out.push(format!("?fromunpacked {}", toks(im)));
                    }
                } else {
                    out.push(format!("?from {}", toks(im)));
                }
            }
        }
        Some(_) => out.push(format!("?impl {}", toks(im))),
    }
}

fn dump(text: &str) -> Vec<String> {
    let file = match syn::parse_file(text) {
        Ok(f) => f,
        Err(e) => return vec![format!("?parse-error {}", e)],
    };
    let mut out = Vec::new();
    let mut asserts: Vec<(u8, String, u64, String)> = Vec::new();
    for item in &file.items {
        match item {
            Item::Use(_) => {}
            Item::Const(c) => {
                let t = format!("{}const{}:{}={};", toks(&c.vis), c.ident, toks(&c.ty), toks(&c.expr));
                match t.strip_prefix("pubconstMAX_SIZE:usize=").and_then(|x| x.strip_suffix(';')) {
                    Some(n) => out.push(format!("MAXSIZE {}", n)),
                    None => out.push(format!("?const {}", t)),
                }
            }
            Item::Struct(s) => dump_struct(s, &mut out),
            Item::Type(t) => {
                let s = format!("{}type{}{}={};", toks(&t.vis), t.ident, toks(&t.generics), toks(&t.ty));
                // pub type RecordK = CappedRecordK<{ MAX_SIZE }>;
                let mut ok = false;
                if let Some(x) = s.strip_prefix("pubtypeRecord") {
                    if let Some(i) = x.find("=CappedRecord") {
                        let v = &x[..i];
                        if x[i + 13..] == format!("{}<{{MAX_SIZE}}>;", v) {
                            out.push(format!("ALIAS {}", v));
                            ok = true;
                        }
                    }
                }
                if !ok {
                    out.push(format!("?type {}", s));
                }
            }
            Item::Impl(im) => dump_impl(im, &mut out),
            Item::Macro(m) => {
                let t = toks(m);
                let mut ok = false;
                for (k, pre) in [(0u8, "const_assert_eq!(std::mem::size_of::<"), (1u8, "const_assert_eq!(std::mem::align_of::<")] {
                    if let Some(x) = t.strip_prefix(pre) {
                        if let Some(i) = x.rfind(">(),") {
                            let tyn = &x[..i];
                            if let Ok(n) = x[i + 4..].trim_end_matches(");").parse::<u64>() {
                                asserts.push((k, ty_of(tyn), n, t.clone()));
                                ok = true;
                            }
                        }
                    }
                }
                if !ok {
                    out.push(format!("?macro {}", t));
                }
            }
            other => out.push(format!("?item {}", toks(other))),
        }
    }
    // the assertion lists are sets: sorted numerically by (kind, type code, value)
    asserts.sort_by(|a, b| (a.0, a.1.parse::<u64>().unwrap_or(u64::MAX), a.2).cmp(&(b.0, b.1.parse::<u64>().unwrap_or(u64::MAX), b.2)));
    for (k, t, n, _) in asserts {
        out.push(format!("{} {} {}", if k == 0 { "ASIZE" } else { "AALIGN" }, t, n));
    }
    out
}

fn config(cfg: &str) -> GeneratorConfig {
    let mut v: Vec<Box<dyn FragmentGenerator>> = Vec::new();
    for c in cfg.chars() {
        match c {
            'c' => v.push(Box::new(CloneImplGenerator)),
            's' => v.push(Box::new(SerdeImplGenerator)),
            _ => {}
        }
    }
    GeneratorConfig::default_with_custom_generators(v)
}

fn main() {
    std::panic::set_hook(Box::new(|_| {}));
    let args: Vec<String> = std::env::args().collect();
    let file = arg_value(&args, "--file").expect("--file");
    let cfgs: Vec<String> = arg_value(&args, "--configs").unwrap_or_else(|| "-,c,s,cs,sc".into()).split(',').map(|s| s.to_owned()).collect();
    let text_dir = arg_value(&args, "--text-dir");
    let hash_only = args.iter().any(|a| a == "--hash-only");
    let first: usize = arg_value(&args, "--first").map_or(0, |s| s.parse().unwrap());
    let res = SynthResolver;
    let mut k = first;
    for line in fs::read_to_string(&file).unwrap().lines() {
        let line = line.trim();
        if line.is_empty() || line.starts_with('#') {
            continue;
        }
        let h = hist_parse(line);
        let mut b = NativeRecordDefinitionBuilder::new(&res);
        let scratch = SynthResolver;
        let mut ok = true;
        for r in &h {
            if catch_unwind(AssertUnwindSafe(|| apply(&mut b, &scratch, r))).is_err() {
                ok = false;
                break;
            }
        }
        let def = if ok { catch_unwind(AssertUnwindSafe(move || b.build())).ok() } else { None };
        for cfg in &cfgs {
            let label = format!("{}/{}", k, cfg);
            match &def {
                None => println!("== {} NODEF", label),
                Some(def) => {
                    let c = config(cfg);
                    match catch_unwind(AssertUnwindSafe(|| generate(def, &c))) {
                        Err(_) => println!("== {} PANIC", label),
                        Ok(text) => {
                            let again = generate(def, &config(cfg));
                            let mut hs = DefaultHasher::new();
                            text.hash(&mut hs);
                            println!("== {} OK hash={:016x} same_in_process={}", label, hs.finish(), (again == text) as u8);
                            if !hash_only {
                                for l in dump(&text) {
                                    println!("{}", l);
                                }
                            }
                            if let Some(d) = &text_dir {
                                fs::create_dir_all(d).unwrap();
                                fs::write(format!("{}/{}_{}.rs", d, k, cfg), &text).unwrap();
                            }
                        }
                    }
                }
            }
        }
        k += 1;
    }
}
