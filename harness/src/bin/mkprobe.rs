//! E5 — compile probes.
//!
//! Writes a crate with one binary target per probe.  Each probe is a generated module plus a `main`;
//! the expected outcome (accepted / rejected by rustc) is recorded in `probes.txt`:
//!   <bin> <property> <expect: ok|reject> <description>
//! Families: C11 (recorded size / alignment perturbed, may-be-uninit flag on non-Copy types),
//! C13 (every fragment selection of a definition compiles), C14 (Send / Sync of record types).

use std::{fmt::Write as _, fs};

use truc::generator::{
    config::GeneratorConfig,
    fragment::{clone::CloneImplGenerator, serde::SerdeImplGenerator, FragmentGenerator},
    generate,
};
use truc::record::{
    definition::builder::native::{variant, DatumDefinitionOverride, NativeRecordDefinitionBuilder},
    type_resolver::HostTypeResolver,
};
use vharness::{arg_value, Rng};

type B = NativeRecordDefinitionBuilder<HostTypeResolver>;

/// (type expression, size, align, Copy, Clone+serde available)
const TYPES: [(&str, usize, usize, bool); 10] = [
    ("u8", 1, 1, true),
    ("u16", 2, 2, true),
    ("u32", 4, 4, true),
    ("u64", 8, 8, true),
    ("[u8; 3]", 3, 1, true),
    ("String", 24, 8, false),
    ("vharness::vt::Led", 24, 8, false),
    ("vharness::vt::Over", 16, 16, false),
    ("Option<u32>", 8, 4, true),
    ("vharness::vt::Nc", 4, 4, false),
];

fn add(b: &mut B, name: &str, ty: usize, size: usize, align: usize, uninit: bool) {
    b.add_datum_override::<(), _>(
        name,
        DatumDefinitionOverride { type_name: Some(TYPES[ty].0.to_owned()), size: Some(size), align: Some(align), allow_uninit: Some(uninit) },
    )
    .unwrap();
}
fn add_named(b: &mut B, name: &str, type_name: &str, size: usize, align: usize) {
    b.add_datum_override::<(), _>(
        name,
        DatumDefinitionOverride { type_name: Some(type_name.to_owned()), size: Some(size), align: Some(align), allow_uninit: Some(false) },
    )
    .unwrap();
}

fn cfg(sel: &str) -> GeneratorConfig {
    let mut v: Vec<Box<dyn FragmentGenerator>> = Vec::new();
    for c in sel.chars() {
        match c {
            'c' => v.push(Box::new(CloneImplGenerator)),
            's' => v.push(Box::new(SerdeImplGenerator)),
            _ => {}
        }
    }
    GeneratorConfig::default_with_custom_generators(v)
}

struct Out {
    dir: String,
    n: usize,
    index: String,
}
impl Out {
    fn probe(&mut self, prop: &str, expect: &str, desc: &str, b: B, sel: &str, main_body: &str) {
        let def = b.build();
        let text = generate(&def, &cfg(sel));
        let name = format!("p{}", self.n);
        let src = format!(
            "#![allow(dead_code, unused_imports, unused_variables, unused_mut)]\n#[macro_use]\nextern crate static_assertions;\nmod m {{\n{}\n}}\nfn needs_send<T: Send>() {{}}\nfn needs_sync<T: Sync>() {{}}\nfn main() {{\n{}\n}}\n",
            text, main_body
        );
        fs::write(format!("{}/src/bin/{}.rs", self.dir, name), src).unwrap();
        writeln!(self.index, "{} {} {} {}", name, prop, expect, desc).unwrap();
        self.n += 1;
    }
}

fn main() {
    let args: Vec<String> = std::env::args().collect();
    let dir = arg_value(&args, "--out").expect("--out");
    let seed: u64 = arg_value(&args, "--seed").map_or(1, |s| s.parse().unwrap());
    let thorough = args.iter().any(|a| a == "--thorough");
    fs::create_dir_all(format!("{}/src/bin", dir)).unwrap();
    let mut out = Out { dir: dir.clone(), n: 0, index: String::new() };
    let mut rng = Rng::new(seed);

    // ------------------------------------------------------------ C11
    // the host's real answers (the table above must agree with them)
    let real: [(usize, usize); 10] = [
        (std::mem::size_of::<u8>(), std::mem::align_of::<u8>()),
        (std::mem::size_of::<u16>(), std::mem::align_of::<u16>()),
        (std::mem::size_of::<u32>(), std::mem::align_of::<u32>()),
        (std::mem::size_of::<u64>(), std::mem::align_of::<u64>()),
        (std::mem::size_of::<[u8; 3]>(), std::mem::align_of::<[u8; 3]>()),
        (std::mem::size_of::<String>(), std::mem::align_of::<String>()),
        (std::mem::size_of::<vharness::vt::Led>(), std::mem::align_of::<vharness::vt::Led>()),
        (std::mem::size_of::<vharness::vt::Over>(), std::mem::align_of::<vharness::vt::Over>()),
        (std::mem::size_of::<Option<u32>>(), std::mem::align_of::<Option<u32>>()),
        (std::mem::size_of::<vharness::vt::Nc>(), std::mem::align_of::<vharness::vt::Nc>()),
    ];
    for (i, t) in TYPES.iter().enumerate() {
        assert_eq!((t.1, t.2), real[i], "palette entry {} is out of date", t.0);
    }
    for (ty, (tn, size, align, copy)) in TYPES.iter().enumerate() {
        for later in [false, true] {
            // in which variant the datum is introduced, and whether it is gone before the last variant
            for gone in [false, true] {
                if gone && !thorough && ty % 3 != (later as usize) {
                    continue;
                }
                let mk = |s: usize, a: usize, u: bool| -> B {
                    let mut b = NativeRecordDefinitionBuilder::new(HostTypeResolver);
                    add(&mut b, "keep", 2, 4, 4, false);
                    if later {
                        b.close_record_variant();
                    }
                    add(&mut b, "x", ty, s, a, u);
                    b.close_record_variant();
                    if gone {
                        b.remove_datum(truc::record::definition::DatumId::from(1)).unwrap();
                        add(&mut b, "other", 1, 2, 2, false);
                        b.close_record_variant_with(variant::simple);
                    }
                    b
                };
                let ctx = format!("type {} introduced in variant {}{}", tn, later as u8, if gone { ", removed before the last variant" } else { "" });
                out.probe("C11", "ok", &format!("unperturbed: {}", ctx), mk(*size, *align, false), "", "");
                if *size > 0 {
                    let smaller = if *size > *align { *size - *align } else { *size / 2 };
                    out.probe("C11", "reject", &format!("recorded size {} instead of {}: {}", smaller, size, ctx), mk(smaller, *align, false), "", "");
                }
                out.probe("C11", "reject", &format!("recorded size {} instead of {}: {}", size + align, size, ctx), mk(size + align, *align, false), "", "");
                if *align > 1 {
                    out.probe("C11", "reject", &format!("recorded alignment {} instead of {}: {}", align / 2, align, ctx), mk(*size, align / 2, false), "", "");
                }
                out.probe("C11", "reject", &format!("recorded alignment {} instead of {}: {}", align * 2, align, ctx), mk(*size, align * 2, false), "", "");
                if !*copy {
                    out.probe("C11", "reject", &format!("may-be-uninitialised flag on a type that is not Copy: {}", ctx), mk(*size, *align, true), "", "");
                } else {
                    out.probe("C11", "ok", &format!("may-be-uninitialised flag on a Copy type: {}", ctx), mk(*size, *align, true), "", "");
                }
            }
        }
        // the same type recorded twice, once correctly and once not - in both orders (an assertion table keyed
        // by type name only keeps one of the two entries)
        for (what, s2, a2) in [("size", if *size > 1 { size / 2 } else { size + 1 }, *align), ("alignment", *size, if *align > 1 { align / 2 } else { 2 })] {
            for second_later in [false, true] {
                for bad_first in [false, true] {
                    let mut b = NativeRecordDefinitionBuilder::new(HostTypeResolver);
                    if bad_first {
                        add(&mut b, "bad", ty, s2, a2, false);
                    } else {
                        add(&mut b, "good", ty, *size, *align, false);
                    }
                    if second_later {
                        b.close_record_variant();
                    }
                    if bad_first {
                        add(&mut b, "good", ty, *size, *align, false);
                    } else {
                        add(&mut b, "bad", ty, s2, a2, false);
                    }
                    b.close_record_variant();
                    out.probe("C11", "reject", &format!("type {} recorded twice, {} with a wrong {} ({} / {}), second datum in variant {}", tn, if bad_first { "the first time" } else { "the second time" }, what, s2, a2, second_later as u8), b, "", "");
                }
            }
        }
        // the may-be-uninitialised flag on one of two data of a type that is not Copy, in both orders
        if !*copy {
            for second_later in [false, true] {
                for flagged_first in [false, true] {
                    let mut b = NativeRecordDefinitionBuilder::new(HostTypeResolver);
                    add(&mut b, "first", ty, *size, *align, flagged_first);
                    if second_later {
                        b.close_record_variant();
                    }
                    add(&mut b, "second", ty, *size, *align, !flagged_first);
                    b.close_record_variant();
                    out.probe("C11", "reject", &format!("type {} (not Copy) recorded twice, the {} datum may stay uninitialised, second datum in variant {}", tn, if flagged_first { "first" } else { "second" }, second_later as u8), b, "", "");
                }
            }
        }
    }

    // two different types whose paths end in the same identifier: each is checked against its own recorded layout
    // (the second recorded with the layout of the first - which is wrong for it - must be refused), in both orders
    {
        let (pa, pb) = ("vharness::pa::Same", "vharness::pb::Same");
        assert_eq!((std::mem::size_of::<vharness::pa::Same>(), std::mem::size_of::<vharness::pb::Same>()), (8, 4));
        for second_later in [false, true] {
            for (first, (fs_, fa), second, (ss, sa), expect, what) in [
                (pa, (8usize, 8usize), pb, (4usize, 4usize), "ok", "both recorded correctly"),
                (pb, (4, 4), pa, (8, 8), "ok", "both recorded correctly"),
                (pa, (8, 8), pb, (8, 8), "reject", "the second recorded with the layout of the first"),
                (pb, (4, 4), pa, (4, 4), "reject", "the second recorded with the layout of the first"),
                (pa, (4, 4), pb, (4, 4), "reject", "the first recorded with the layout of the second"),
                (pa, (8, 8), pb, (8, 4), "reject", "the second recorded with the size of the first"),
                (pa, (8, 8), pb, (4, 8), "reject", "the second recorded with the alignment of the first"),
            ] {
                let mut b = NativeRecordDefinitionBuilder::new(HostTypeResolver);
                add_named(&mut b, "first", first, fs_, fa);
                if second_later {
                    b.close_record_variant();
                }
                add_named(&mut b, "second", second, ss, sa);
                b.close_record_variant();
                out.probe("C11", expect, &format!("types {} and {} (same last path segment), {}, second datum in variant {}", first, second, what, second_later as u8), b, "", "");
            }
        }
    }

    // ------------------------------------------------------------ C13: fragment selections
    let ndefs = if thorough { 24 } else { 6 };
    for d in 0..ndefs {
        let mk = |rng: &mut Rng| -> B {
            let mut b = NativeRecordDefinitionBuilder::new(HostTypeResolver);
            let nv = 1 + rng.below(3);
            let mut next = 0usize;
            let mut live: Vec<usize> = Vec::new();
            for v in 0..nv {
                if v > 0 {
                    for _ in 0..rng.below(3) {
                        if !live.is_empty() {
                            let i = live.remove(rng.below(live.len()));
                            b.remove_datum(truc::record::definition::DatumId::from(i)).unwrap();
                        }
                    }
                }
                for _ in 0..rng.below(4) {
                    let ty = rng.below(TYPES.len());
                    let t = TYPES[ty];
                    add(&mut b, &format!("f{}", next), ty, t.1, t.2, t.3 && rng.chance(50));
                    live.push(next);
                    next += 1;
                }
                b.close_record_variant_with(variant::simple);
            }
            b
        };
        let state = rng.clone();
        for sel in ["", "c", "s", "cs", "sc"] {
            let mut r = state.clone();
            out.probe("C13", "ok", &format!("definition #{} with fragments [{}]", d, sel), mk(&mut r), sel, "");
        }
        let _ = mk(&mut rng);
    }

    // ------------------------------------------------------------ C14: Send / Sync
    // (field type, Send, Sync, size, align)
    let fields: [(&str, bool, bool, usize, usize); 6] = [
        ("u32", true, true, 4, 4),
        ("String", true, true, 24, 8),
        ("std::sync::Arc<String>", true, true, 8, 8),
        ("std::rc::Rc<u8>", false, false, 8, 8),
        ("std::cell::Cell<u8>", true, false, 1, 1),
        ("*const u8", false, false, 8, 8),
    ];
    for (k, (tn, send, sync, size, align)) in fields.iter().enumerate() {
        for later in [false, true] {
            let mk = || -> B {
                let mut b = NativeRecordDefinitionBuilder::new(HostTypeResolver);
                add(&mut b, "plain", 3, 8, 8, false);
                if later {
                    b.close_record_variant();
                }
                add_named(&mut b, "x", tn, *size, *align);
                b.close_record_variant();
                b
            };
            let rec = if later { "Record1" } else { "Record0" };
            out.probe("C14", if *send { "ok" } else { "reject" }, &format!("send:{}:{} record {} with a field of type {} must {}be Send", k, later as u8, rec, tn, if *send { "" } else { "NOT " }), mk(), "", &format!("needs_send::<m::{}>();", rec));
            out.probe("C14", if *sync { "ok" } else { "reject" }, &format!("sync:{}:{} record {} with a field of type {} must {}be Sync", k, later as u8, rec, tn, if *sync { "" } else { "NOT " }), mk(), "", &format!("needs_sync::<m::{}>();", rec));
            if later {
                // the earlier variant does not hold the field: it stays Send + Sync
                out.probe("C14", "ok", &format!("send:{}:prev record Record0 without the {} field must be Send and Sync", k, tn), mk(), "", "needs_send::<m::Record0>(); needs_sync::<m::Record0>();");
            }
        }
    }

    fs::write(format!("{}/probes.txt", dir), &out.index).unwrap();
    fs::write(
        format!("{}/Cargo.toml", dir),
        r#"[package]
name = "probecrate"
version = "0.0.0"
edition = "2021"

[workspace]

[dependencies]
truc_runtime = { path = "/repo/truc_runtime" }
vharness = { path = "/verif/harness" }
static_assertions = "1"
serde = "1"

[profile.dev]
debug = false
"#,
    )
    .unwrap();
    println!("mkprobe: {} probes written to {}", out.n, dir);
}
