//! E4 — in-place vector conversion under scripted converters.
//!
//! Reads cases "<label> <pair> <n> <extra capacity> c0 c1 ..." on stdin, runs
//! `try_convert_vec_in_place` on a vector of `n` ledger-tracked elements with the scripted converter of
//! coq/Model/VecScript.v, and prints "<label> x,y,z,..." in the encoding of `VecScript.run_case`
//! followed by " # " and the verdicts of the implementation-only oracles (ledger balance, buffer).

use std::{
    alloc::{GlobalAlloc, Layout, System},
    cell::{Cell, RefCell},
    io::{BufRead, Write},
    panic::{catch_unwind, AssertUnwindSafe},
    sync::atomic::{AtomicUsize, Ordering},
};

use truc_runtime::convert::{try_convert_vec_in_place, VecElementConversionResult};

// ------------------------------------------------------------------ allocator watch

static WATCH_PTR: AtomicUsize = AtomicUsize::new(0);
static WATCH_FREED: AtomicUsize = AtomicUsize::new(0);
static WATCH_FREED_SIZE: AtomicUsize = AtomicUsize::new(0);

struct Watch;
unsafe impl GlobalAlloc for Watch {
    unsafe fn alloc(&self, l: Layout) -> *mut u8 {
        System.alloc(l)
    }
    unsafe fn dealloc(&self, p: *mut u8, l: Layout) {
        // the first release of the watched buffer ends the watch (the address may be reused afterwards)
        if p as usize != 0 && WATCH_PTR.compare_exchange(p as usize, 0, Ordering::SeqCst, Ordering::SeqCst).is_ok() {
            WATCH_FREED.fetch_add(1, Ordering::SeqCst);
            WATCH_FREED_SIZE.store(l.size() * 1024 + l.align(), Ordering::SeqCst);
            FREE_LOGGED.with(|f| f.set(true));
        }
        System.dealloc(p, l)
    }
    unsafe fn realloc(&self, p: *mut u8, l: Layout, n: usize) -> *mut u8 {
        System.realloc(p, l, n)
    }
}
#[global_allocator]
static A: Watch = Watch;

// ------------------------------------------------------------------ ledger

#[derive(Clone, Debug, PartialEq)]
enum Ev {
    Call(u64, Option<u64>),
    DropT(u64, bool), // (id, inside the converter)
    DropU(u64, bool),
    Free,
}

thread_local! {
    static LOG: RefCell<Vec<Ev>> = RefCell::new(Vec::new());
    static IN_CONV: Cell<bool> = Cell::new(false);
    static FREE_LOGGED: Cell<bool> = Cell::new(false);
    static SCRIPT: RefCell<Vec<u64>> = RefCell::new(Vec::new());
    static CREATED_U: RefCell<Vec<u64>> = RefCell::new(Vec::new());
    static LAST_OUT: Cell<Option<u64>> = Cell::new(None);
    static PREV_ORACLE: RefCell<Vec<String>> = RefCell::new(Vec::new());
}

fn log(e: Ev) {
    // a release of the watched buffer is recorded in order, before the next event
    if FREE_LOGGED.with(|f| f.replace(false)) {
        LOG.with(|l| l.borrow_mut().push(Ev::Free));
    }
    LOG.with(|l| l.borrow_mut().push(e));
}
fn flush_free() {
    if FREE_LOGGED.with(|f| f.replace(false)) {
        LOG.with(|l| l.borrow_mut().push(Ev::Free));
    }
}

/// element types: a token id that can be read and modified, with drops recorded in the ledger
trait Elem: Sized {
    const IS_T: bool;
    const TRACKED: bool; // drops are visible in the ledger
    const HAS_ID: bool; // the id is stored in the value
    fn make(id: u64) -> Self;
    fn id(&self) -> u64;
    fn set_id(&mut self, id: u64);
}

macro_rules! ledger_type {
    ($name:ident, $is_t:expr, $($attr:meta),* ; $($field:ident : $fty:ty = $init:expr),*) => {
        $(#[$attr])*
        struct $name { id: u64, $($field: $fty),* }
        impl Elem for $name {
            const IS_T: bool = $is_t;
            const TRACKED: bool = true;
            const HAS_ID: bool = true;
            fn make(id: u64) -> Self { if !$is_t { CREATED_U.with(|c| c.borrow_mut().push(id)); } $name { id, $($field: $init),* } }
            fn id(&self) -> u64 { self.id }
            fn set_id(&mut self, id: u64) { self.id = id }
        }
        impl Drop for $name {
            fn drop(&mut self) {
                let inc = IN_CONV.with(|c| c.get());
                if $is_t { log(Ev::DropT(self.id, inc)) } else { log(Ev::DropU(self.id, inc)) }
            }
        }
    };
}

// pair "tok": owned heap values, 16 bytes, align 8
ledger_type!(TokT, true, ; heap: Box<u8> = Box::new(1));
ledger_type!(TokU, false, ; heap: Box<u8> = Box::new(2));
// pair "big": 64 bytes, align 32
ledger_type!(BigT, true, repr(align(32)) ; pad: [u8; 40] = [3; 40]);
ledger_type!(BigU, false, repr(align(32)) ; pad: [u8; 40] = [4; 40]);
// C10 matrix: layouts that differ from TokT (16/8)
ledger_type!(U16A16, false, repr(align(16)) ; pad: u64 = 0); // same size 16, larger alignment
ledger_type!(U24A8, false, ; pad: [u64; 2] = [0; 2]); // larger size
ledger_type!(U8A8, false, ;); // smaller size
#[repr(C, packed(4))]
struct U16A4 {
    id: u64,
    pad: u64,
} // same size 16, smaller alignment (no Drop: packed)
impl Elem for U16A4 {
    const IS_T: bool = false;
    const TRACKED: bool = false;
    const HAS_ID: bool = true;
    fn make(id: u64) -> Self {
        U16A4 { id, pad: 0 }
    }
    fn id(&self) -> u64 {
        self.id
    }
    fn set_id(&mut self, id: u64) {
        self.id = id
    }
}

// pair "zst": zero-size elements with drop glue (ids cannot be stored: reported as 0)
struct ZT;
struct ZU;
impl Elem for ZT {
    const IS_T: bool = true;
    const TRACKED: bool = true;
    const HAS_ID: bool = false;
    fn make(_: u64) -> Self {
        ZT
    }
    fn id(&self) -> u64 {
        0
    }
    fn set_id(&mut self, _: u64) {}
}
impl Drop for ZT {
    fn drop(&mut self) {
        log(Ev::DropT(0, IN_CONV.with(|c| c.get())))
    }
}
impl Elem for ZU {
    const IS_T: bool = false;
    const TRACKED: bool = true;
    const HAS_ID: bool = false;
    fn make(_: u64) -> Self {
        CREATED_U.with(|c| c.borrow_mut().push(0));
        ZU
    }
    fn id(&self) -> u64 {
        0
    }
    fn set_id(&mut self, _: u64) {}
}
impl Drop for ZU {
    fn drop(&mut self) {
        log(Ev::DropU(0, IN_CONV.with(|c| c.get())))
    }
}

// pair "u32": plain data, no drop glue
#[derive(Clone, Copy)]
struct PT(u32);
#[derive(Clone, Copy)]
struct PU(u32);
impl Elem for PT {
    const IS_T: bool = true;
    const TRACKED: bool = false;
    const HAS_ID: bool = true;
    fn make(id: u64) -> Self {
        PT(id as u32)
    }
    fn id(&self) -> u64 {
        self.0 as u64
    }
    fn set_id(&mut self, id: u64) {
        self.0 = id as u32
    }
}
impl Elem for PU {
    const IS_T: bool = false;
    const TRACKED: bool = false;
    const HAS_ID: bool = true;
    fn make(id: u64) -> Self {
        PU(id as u32)
    }
    fn id(&self) -> u64 {
        self.0 as u64
    }
    fn set_id(&mut self, id: u64) {
        self.0 = id as u32
    }
}
// mixed pairs: plain data of the layout of the tracked heap values (16 bytes, align 8), so that exactly one side has drop glue
#[derive(Clone, Copy)]
struct P16T {
    id: u64,
    _pad: u64,
}
#[derive(Clone, Copy)]
struct P16U {
    id: u64,
    _pad: u64,
}
impl Elem for P16T {
    const IS_T: bool = true;
    const TRACKED: bool = false;
    const HAS_ID: bool = true;
    fn make(id: u64) -> Self {
        P16T { id, _pad: 7 }
    }
    fn id(&self) -> u64 {
        self.id
    }
    fn set_id(&mut self, id: u64) {
        self.id = id
    }
}
impl Elem for P16U {
    const IS_T: bool = false;
    const TRACKED: bool = false;
    const HAS_ID: bool = true;
    fn make(id: u64) -> Self {
        P16U { id, _pad: 9 }
    }
    fn id(&self) -> u64 {
        self.id
    }
    fn set_id(&mut self, id: u64) {
        self.id = id
    }
}
// C10: u8-sized untracked output for the ZST input, and a ZST output for a sized input
struct B1(u8);
impl Elem for B1 {
    const IS_T: bool = false;
    const TRACKED: bool = false;
    const HAS_ID: bool = false;
    fn make(_: u64) -> Self {
        B1(0)
    }
    fn id(&self) -> u64 {
        self.0 as u64
    }
    fn set_id(&mut self, _: u64) {}
}

// ------------------------------------------------------------------ the scripted converter

struct Guard;
impl Drop for Guard {
    fn drop(&mut self) {
        IN_CONV.with(|c| c.set(false));
    }
}

fn scripted<T: Elem, U: Elem>(t: T, prev: Option<&mut U>) -> Result<VecElementConversionResult<U>, u64> {
    IN_CONV.with(|c| c.set(true));
    let _g = Guard;
    let t = t; // declared after the guard: dropped before it, i.e. still inside the converter
    let code = SCRIPT.with(|s| {
        let mut s = s.borrow_mut();
        if s.is_empty() {
            0
        } else {
            s.remove(0)
        }
    });
    let act = code / 2;
    let md = code % 2 == 1;
    let tid = t.id();
    // the call itself is a function-level event (the converter was entered)
    IN_CONV.with(|c| c.set(false));
    log(Ev::Call(tid, prev.as_ref().map(|u| u.id())));
    IN_CONV.with(|c| c.set(true));
    // C08 oracle: the converter must be given the most recently produced output (or none before the first)
    {
        let want = LAST_OUT.with(|l| l.get());
        let got = prev.as_ref().map(|u| if U::HAS_ID { u.id() } else { 0 });
        if got != want.map(|w| if U::HAS_ID { w } else { 0 }) {
            PREV_ORACLE.with(|o| o.borrow_mut().push(format!("C08: element {} was converted with previous output {:?} but the most recently produced output is {:?}", tid, got, want)));
        }
    }
    if let Some(u) = prev {
        if md {
            let old = u.id();
            u.set_id(old + 100000);
            LAST_OUT.with(|l| l.set(l.get().map(|x| x + 100000)));
        }
    }
    match act {
        0 => {
            drop(t);
            LAST_OUT.with(|l| l.set(Some(1000 + tid)));
            Ok(VecElementConversionResult::Converted(U::make(1000 + tid)))
        }
        1 => Ok(VecElementConversionResult::Abandonned),
        2 => Err(7000 + tid),
        3 => std::panic::panic_any((9000 + tid) as u32),
        4 => {
            let _u = U::make(555000 + tid);
            std::panic::panic_any((9000 + tid) as u32)
        }
        _ => {
            drop(t);
            std::panic::panic_any((9000 + tid) as u32)
        }
    }
}

fn run_case<T: Elem, U: Elem>(n: usize, extra_cap: usize, script: &[u64]) -> (Vec<u64>, Vec<String>) {
    LOG.with(|l| l.borrow_mut().clear());
    CREATED_U.with(|l| l.borrow_mut().clear());
    LAST_OUT.with(|l| l.set(None));
    PREV_ORACLE.with(|o| o.borrow_mut().clear());
    SCRIPT.with(|s| *s.borrow_mut() = script.to_vec());
    FREE_LOGGED.with(|f| f.set(false));
    let mut v: Vec<T> = Vec::with_capacity(n + extra_cap);
    for i in 0..n {
        v.push(T::make(i as u64));
    }
    let in_ptr = v.as_ptr() as usize;
    let in_cap = v.capacity();
    let has_alloc = std::mem::size_of::<T>() != 0 && in_cap != 0;
    WATCH_FREED.store(0, Ordering::SeqCst);
    WATCH_PTR.store(if has_alloc { in_ptr } else { 0 }, Ordering::SeqCst);
    let res = catch_unwind(AssertUnwindSafe(|| try_convert_vec_in_place::<T, U, _, u64>(v, scripted::<T, U>)));
    IN_CONV.with(|c| c.set(false));
    flush_free();
    let mut oracle: Vec<String> = PREV_ORACLE.with(|o| o.borrow().clone());
    oracle.truncate(2);
    let mut enc: Vec<u64> = Vec::new();
    let mut returned_u: Vec<u64> = Vec::new();
    let freed_during = WATCH_FREED.load(Ordering::SeqCst);
    match res {
        Ok(Ok(out)) => {
            enc.push(0);
            enc.push(out.len() as u64);
            for u in &out {
                enc.push(u.id());
                returned_u.push(u.id());
            }
            if has_alloc {
                if out.as_ptr() as usize != in_ptr || out.capacity() != in_cap {
                    oracle.push(format!("C08: the result does not reuse the input's allocation (ptr {:#x} cap {} -> ptr {:#x} cap {})", in_ptr, in_cap, out.as_ptr() as usize, out.capacity()));
                }
                if freed_during != 0 {
                    oracle.push("C08: the input's buffer was released although the conversion succeeded".to_owned());
                }
            } else if std::mem::size_of::<T>() != 0 && out.capacity() != in_cap {
                oracle.push(format!("C08: capacity {} became {}", in_cap, out.capacity()));
            }
            // stop watching before the result is dropped by us
            WATCH_PTR.store(0, Ordering::SeqCst);
            let mark = LOG.with(|l| l.borrow().len());
            drop(out);
            FREE_LOGGED.with(|f| f.set(false));
            LOG.with(|l| l.borrow_mut().truncate(mark));
        }
        Ok(Err(e)) => {
            enc.push(1);
            enc.push(e);
            if has_alloc && freed_during != 1 {
                oracle.push(format!("C09: after an error the vector's buffer was released {} times", freed_during));
            }
        }
        Err(payload) => {
            if let Some(p) = payload.downcast_ref::<u32>() {
                enc.push(2);
                enc.push(*p as u64);
            } else if let Some(s) = payload.downcast_ref::<String>() {
                if s.contains("size_of") || s.contains("align_of") || s.contains("assertion") {
                    enc.push(4);
                } else {
                    enc.push(3);
                    enc.push(s.chars().filter(|c| c.is_ascii_digit()).collect::<String>().parse().unwrap_or(0));
                    oracle.push(format!("C09: the panic payload was replaced by a String ({:?})", s));
                }
            } else if let Some(s) = payload.downcast_ref::<&str>() {
                if s.contains("size_of") || s.contains("align_of") || s.contains("assertion") {
                    enc.push(4);
                } else {
                    enc.push(3);
                    enc.push(0);
                    oracle.push(format!("C09: the panic payload was replaced by {:?}", s));
                }
            } else {
                enc.push(3);
                enc.push(0);
                oracle.push("C09: the panic payload has an unexpected type".to_owned());
            }
            if has_alloc && freed_during != 1 {
                oracle.push(format!("C09/C10: after a panic the vector's buffer was released {} times", freed_during));
            }
        }
    }
    WATCH_PTR.store(0, Ordering::SeqCst);
    enc.push(99);
    let log = LOG.with(|l| l.borrow().clone());
    // ---- oracles on the ledger (implementation only)
    let refused = enc[0] == 4;
    if T::TRACKED {
        for i in 0..n as u64 {
            let id = if T::HAS_ID { i } else { 0 };
            let _ = id;
        }
        let drops: Vec<u64> = log.iter().filter_map(|e| if let Ev::DropT(i, _) = e { Some(*i) } else { None }).collect();
        if T::HAS_ID {
            for i in 0..n as u64 {
                let c = drops.iter().filter(|d| **d == i).count();
                if c != 1 {
                    oracle.push(format!("{}: input element {} was dropped {} times", if refused { "C10" } else if enc[0] == 0 { "C08" } else { "C09" }, i, c));
                }
            }
        } else if drops.len() != n {
            oracle.push(format!("{}: {} input elements, {} drops", if refused { "C10" } else if enc[0] == 0 { "C08" } else { "C09" }, n, drops.len()));
        }
    }
    if U::TRACKED && !refused {
        let created = CREATED_U.with(|c| c.borrow().clone());
        let dropped: Vec<u64> = log.iter().filter_map(|e| if let Ev::DropU(i, _) = e { Some(*i % 100000) } else { None }).collect();
        let mut balance = created.iter().map(|c| c % 100000).collect::<Vec<_>>();
        for r in returned_u.iter().map(|r| r % 100000).chain(dropped.iter().cloned()) {
            if let Some(p) = balance.iter().position(|b| *b == r) {
                balance.remove(p);
            } else {
                oracle.push(format!("{}: output {} was dropped or returned more often than it was created", if enc[0] == 0 { "C08" } else { "C09" }, r));
            }
        }
        if !balance.is_empty() {
            oracle.push(format!("{}: outputs {:?} were neither returned nor dropped", if enc[0] == 0 { "C08" } else { "C09" }, balance));
        }
    }
    let calls = log.iter().filter(|e| matches!(e, Ev::Call(..))).count();
    if refused && calls != 0 {
        oracle.push(format!("C10: the converter was called {} times although the conversion was refused", calls));
    }
    if enc[0] != 0 && !refused {
        // no call after the failing one: the failing call is the last Call, everything after it is clean-up
        let last_call = log.iter().rposition(|e| matches!(e, Ev::Call(..)));
        let script_fail = script.iter().position(|c| c / 2 >= 2);
        if let (Some(_), Some(f)) = (last_call, script_fail) {
            if calls != f + 1 {
                oracle.push(format!("C09: {} converter calls although the call #{} failed", calls, f));
            }
        }
    }
    // ---- the infallible wrapper convert_vec_in_place on the same script (when no item returns Err): same
    // outcome, same outputs, same calls and drops as try_convert_vec_in_place
    if !script.iter().any(|c| c / 2 == 2) {
        let first_log = log.clone();
        LOG.with(|l| l.borrow_mut().clear());
        CREATED_U.with(|l| l.borrow_mut().clear());
        LAST_OUT.with(|l| l.set(None));
        let before_oracle = PREV_ORACLE.with(|o| o.borrow().len());
        SCRIPT.with(|s| *s.borrow_mut() = script.to_vec());
        FREE_LOGGED.with(|f| f.set(false));
        let mut v2: Vec<T> = Vec::with_capacity(n + extra_cap);
        for i in 0..n {
            v2.push(T::make(i as u64));
        }
        let in_ptr2 = v2.as_ptr() as usize;
        let in_cap2 = v2.capacity();
        let mut wrapper_alloc: Option<String> = None;
        let res2 = catch_unwind(AssertUnwindSafe(|| {
            truc_runtime::convert::convert_vec_in_place::<T, U, _>(v2, |t, u| match scripted::<T, U>(t, u) {
                Ok(r) => r,
                Err(_) => unreachable!(),
            })
        }));
        IN_CONV.with(|c| c.set(false));
        FREE_LOGGED.with(|f| f.set(false));
        let enc2: Vec<u64> = match res2 {
            Ok(out) => {
                let mut e = vec![0, out.len() as u64];
                e.extend(out.iter().map(|u| u.id()));
                // the wrapper reuses the input's allocation like the fallible function (also for an empty input
                // with spare capacity)
                if std::mem::size_of::<T>() != 0 && (out.capacity() != in_cap2 || (in_cap2 != 0 && out.as_ptr() as usize != in_ptr2)) {
                    wrapper_alloc = Some(format!("C08: the result of convert_vec_in_place does not reuse the input's allocation (ptr {:#x} cap {} -> ptr {:#x} cap {})", in_ptr2, in_cap2, out.as_ptr() as usize, out.capacity()));
                }
                let mark = LOG.with(|l| l.borrow().len());
                drop(out);
                LOG.with(|l| l.borrow_mut().truncate(mark));
                e
            }
            Err(p) => match p.downcast_ref::<u32>() {
                Some(x) => vec![2, *x as u64],
                None => {
                    let msg = p.downcast_ref::<String>().cloned().or_else(|| p.downcast_ref::<&str>().map(|s| s.to_string())).unwrap_or_default();
                    if msg.contains("size_of") || msg.contains("align_of") || msg.contains("assertion") {
                        vec![4]
                    } else {
                        vec![3, 0]
                    }
                }
            },
        };
        let log2: Vec<Ev> = LOG.with(|l| l.borrow().iter().filter(|e| !matches!(e, Ev::Free)).cloned().collect());
        let log1: Vec<Ev> = first_log.iter().filter(|e| !matches!(e, Ev::Free)).cloned().collect();
        let k = enc.iter().position(|x| *x == 99).unwrap_or(enc.len());
        if let Some(m) = wrapper_alloc {
            oracle.push(m);
        }
        if enc2[..] != enc[..k] {
            oracle.push(format!("{}: convert_vec_in_place gives {:?} where try_convert_vec_in_place gives {:?}", if enc[0] == 0 { "C08" } else if refused { "C10" } else { "C09" }, enc2, &enc[..k]));
        } else if log2 != log1 {
            oracle.push(format!("{}: convert_vec_in_place makes other calls / drops than try_convert_vec_in_place on the same script", if enc[0] == 0 { "C08" } else { "C09" }));
        }
        PREV_ORACLE.with(|o| o.borrow_mut().truncate(before_oracle));
        LOG.with(|l| *l.borrow_mut() = first_log);
    }
    // ---- the same call made from a destructor that runs while another panic is unwinding (only scripts without a
    // panicking item: a second panic there would abort the process): same outcome, same outputs, same calls and
    // drops, same treatment of the allocation as in the plain call
    if !refused && !script.iter().any(|c| c / 2 >= 3) {
        struct InDrop<F: FnMut()>(F);
        impl<F: FnMut()> Drop for InDrop<F> {
            fn drop(&mut self) {
                (self.0)()
            }
        }
        struct Sentinel;
        let first_log = log.clone();
        LOG.with(|l| l.borrow_mut().clear());
        CREATED_U.with(|l| l.borrow_mut().clear());
        LAST_OUT.with(|l| l.set(None));
        let before_oracle = PREV_ORACLE.with(|o| o.borrow().len());
        SCRIPT.with(|s| *s.borrow_mut() = script.to_vec());
        FREE_LOGGED.with(|f| f.set(false));
        let mut v3: Vec<T> = Vec::with_capacity(n + extra_cap);
        for i in 0..n {
            v3.push(T::make(i as u64));
        }
        let in_ptr3 = v3.as_ptr() as usize;
        let in_cap3 = v3.capacity();
        WATCH_FREED.store(0, Ordering::SeqCst);
        WATCH_PTR.store(if has_alloc { in_ptr3 } else { 0 }, Ordering::SeqCst);
        let mut res3: Option<Result<Vec<U>, u64>> = None;
        let mut input3 = Some(v3);
        let outer = catch_unwind(AssertUnwindSafe(|| {
            let _g = InDrop(|| {
                res3 = Some(try_convert_vec_in_place::<T, U, _, u64>(input3.take().unwrap(), scripted::<T, U>));
            });
            std::panic::panic_any(Sentinel);
        }));
        IN_CONV.with(|c| c.set(false));
        let freed3 = WATCH_FREED.load(Ordering::SeqCst);
        WATCH_PTR.store(0, Ordering::SeqCst);
        FREE_LOGGED.with(|f| f.set(false));
        let mut alloc3: Option<String> = None;
        let enc3: Vec<u64> = match res3 {
            Some(Ok(out)) => {
                let mut e = vec![0, out.len() as u64];
                e.extend(out.iter().map(|u| u.id()));
                if has_alloc && (out.as_ptr() as usize != in_ptr3 || out.capacity() != in_cap3 || freed3 != 0) {
                    alloc3 = Some("C08: called while a panic unwinds, the conversion does not reuse the input's allocation".to_owned());
                }
                let mark = LOG.with(|l| l.borrow().len());
                drop(out);
                LOG.with(|l| l.borrow_mut().truncate(mark));
                e
            }
            Some(Err(e)) => {
                if has_alloc && freed3 != 1 {
                    alloc3 = Some(format!("C09: called while a panic unwinds, after an error the vector's buffer was released {} times", freed3));
                }
                vec![1, e]
            }
            None => vec![3, 0],
        };
        let sentinel_ok = matches!(&outer, Err(p) if p.is::<Sentinel>());
        let log3: Vec<Ev> = LOG.with(|l| l.borrow().iter().filter(|e| !matches!(e, Ev::Free)).cloned().collect());
        let log1: Vec<Ev> = first_log.iter().filter(|e| !matches!(e, Ev::Free)).cloned().collect();
        let k = enc.iter().position(|x| *x == 99).unwrap_or(enc.len());
        let pid = if enc[0] == 0 { "C08" } else { "C09" };
        if let Some(m) = alloc3 {
            oracle.push(m);
        }
        if !sentinel_ok {
            oracle.push(format!("{}: a conversion made while a panic unwinds replaced or swallowed that panic", pid));
        }
        if enc3[..] != enc[..k] {
            oracle.push(format!("{}: called while a panic unwinds the conversion gives {:?} where the plain call gives {:?}", pid, enc3, &enc[..k]));
        } else if log3 != log1 {
            oracle.push(format!("{}: called while a panic unwinds the conversion makes other calls / drops than the plain call on the same script", pid));
        }
        PREV_ORACLE.with(|o| o.borrow_mut().truncate(before_oracle));
        LOG.with(|l| *l.borrow_mut() = first_log);
    }
    // ---- function-level events in the model's encoding
    for e in &log {
        match e {
            Ev::Call(t, None) => enc.extend_from_slice(&[10, *t]),
            Ev::Call(t, Some(u)) => enc.extend_from_slice(&[11, *t, *u]),
            Ev::DropT(t, false) => enc.extend_from_slice(&[12, *t]),
            Ev::DropU(u, false) => enc.extend_from_slice(&[13, *u]),
            Ev::Free => enc.push(14),
            _ => {}
        }
    }
    (enc, oracle)
}

fn main() {
    std::panic::set_hook(Box::new(|_| {}));
    let stdin = std::io::stdin();
    let out = std::io::stdout();
    let mut out = out.lock();
    for line in stdin.lock().lines() {
        let line = line.unwrap();
        let p: Vec<&str> = line.split_whitespace().collect();
        if p.len() < 4 {
            continue;
        }
        let (label, pair) = (p[0], p[1]);
        let n: usize = p[2].parse().unwrap();
        let extra: usize = p[3].parse().unwrap();
        let script: Vec<u64> = p[4..].iter().map(|x| x.parse().unwrap()).collect();
        let (enc, oracle) = match pair {
            "tok" => run_case::<TokT, TokU>(n, extra, &script),
            "big" => run_case::<BigT, BigU>(n, extra, &script),
            "zst" => run_case::<ZT, ZU>(n, extra, &script),
            "u32" => run_case::<PT, PU>(n, extra, &script),
            "p2t" => run_case::<P16T, TokU>(n, extra, &script),
            "t2p" => run_case::<TokT, P16U>(n, extra, &script),
            // C10 matrix (T = TokT, 16 bytes / align 8, unless stated)
            "m_align_up" => run_case::<TokT, U16A16>(n, extra, &script),
            "m_align_down" => run_case::<TokT, U16A4>(n, extra, &script),
            "m_size_up" => run_case::<TokT, U24A8>(n, extra, &script),
            "m_size_down" => run_case::<TokT, U8A8>(n, extra, &script),
            "m_to_zst" => run_case::<TokT, ZU>(n, extra, &script),
            "m_from_zst" => run_case::<ZT, B1>(n, extra, &script),
            "m_both" => run_case::<BigT, TokU>(n, extra, &script),
            "m_u32_align" => run_case::<PT, [u16; 2]>(n, extra, &script),
            _ => panic!("unknown pair {}", pair),
        };
        writeln!(out, "{} {} # {}", label, enc.iter().map(|x| x.to_string()).collect::<Vec<_>>().join(","), oracle.join(" ; ")).unwrap();
        out.flush().unwrap();
    }
}

impl Elem for [u16; 2] {
    const IS_T: bool = false;
    const TRACKED: bool = false;
    const HAS_ID: bool = false;
    fn make(_: u64) -> Self {
        [0; 2]
    }
    fn id(&self) -> u64 {
        0
    }
    fn set_id(&mut self, _: u64) {}
}
