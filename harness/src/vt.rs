//! Palette of instrumented field types for executing generated code (E3), with a ledger of live
//! instances: every creation registers a unique instance id, every drop removes it; a drop of an
//! instance that is not live (double drop) and instances still live at a checkpoint (leak) are reported.

use std::{
    cell::{Cell, RefCell},
    collections::BTreeMap,
};

thread_local! {
    static LIVE: RefCell<BTreeMap<u64, (&'static str, u32)>> = RefCell::new(BTreeMap::new());
    static NEXT_UID: Cell<u64> = Cell::new(1);
    static ERRORS: RefCell<Vec<String>> = RefCell::new(Vec::new());
    static ZST_LIVE: RefCell<BTreeMap<&'static str, i64>> = RefCell::new(BTreeMap::new());
    /// the k-th clone of a ledger value from now on panics (0 = never)
    pub static CLONE_PANIC_IN: Cell<u32> = Cell::new(0);
    /// the k-th deserialisation of a ledger value from now on fails (0 = never)
    pub static DE_FAIL_IN: Cell<u32> = Cell::new(0);
}

fn created(kind: &'static str, tok: u32) -> u64 {
    let uid = NEXT_UID.with(|n| {
        let v = n.get();
        n.set(v + 1);
        v
    });
    LIVE.with(|l| l.borrow_mut().insert(uid, (kind, tok)));
    uid
}
fn dropped(kind: &'static str, uid: u64, tok: u32) {
    let ok = LIVE.with(|l| l.borrow_mut().remove(&uid).is_some());
    if !ok {
        ERRORS.with(|e| e.borrow_mut().push(format!("a {} value (token {}) was destroyed twice or was never created (instance {})", kind, tok, uid)));
    }
}
fn zst_created(kind: &'static str) {
    ZST_LIVE.with(|z| *z.borrow_mut().entry(kind).or_insert(0) += 1);
}
fn zst_dropped(kind: &'static str) {
    let n = ZST_LIVE.with(|z| {
        let mut z = z.borrow_mut();
        let e = z.entry(kind).or_insert(0);
        *e -= 1;
        *e
    });
    if n < 0 {
        ERRORS.with(|e| e.borrow_mut().push(format!("more {} values were destroyed than were created", kind)));
        ZST_LIVE.with(|z| *z.borrow_mut().entry(kind).or_insert(0) = 0);
    }
}

/// number of live ledger instances
pub fn live() -> usize {
    LIVE.with(|l| l.borrow().len()) + ZST_LIVE.with(|z| z.borrow().values().map(|v| (*v).max(0) as usize).sum::<usize>())
}
/// describes the live instances (for leak reports) and forgets them
pub fn take_live() -> Vec<String> {
    let mut v: Vec<String> = LIVE.with(|l| l.borrow().values().map(|(k, t)| format!("{}({})", k, t)).collect());
    LIVE.with(|l| l.borrow_mut().clear());
    ZST_LIVE.with(|z| {
        for (k, n) in z.borrow().iter() {
            if *n > 0 {
                v.push(format!("{} x{}", k, n));
            }
        }
        z.borrow_mut().clear();
    });
    v
}
pub fn take_errors() -> Vec<String> {
    ERRORS.with(|e| std::mem::take(&mut *e.borrow_mut()))
}

/// what the drivers need from a field type
pub trait Vt: Sized {
    /// the value carries a token that can be read back
    const HAS_TOK: bool = true;
    fn mk(tok: u32) -> Self;
    fn tok(&self) -> u32;
    /// changes the value in place (through a mutable accessor)
    fn bump(&mut self, by: u32) {
        *self = Self::mk(self.tok() + by);
    }
    /// the type has an "empty" shape that differs from the shape `mk` produces (None, an empty string):
    /// clone_from between values of different shapes takes other paths than between values of one shape
    const HOLLOW: bool = false;
    /// puts the value into its empty shape (no-op for types without one)
    fn hollow(&mut self) {}
    fn is_hollow(&self) -> bool {
        true
    }
}

macro_rules! int_vt {
    ($($t:ty),*) => {$(
        impl Vt for $t {
            fn mk(tok: u32) -> Self { tok as $t }
            fn tok(&self) -> u32 { *self as u32 }
        }
    )*};
}
int_vt!(u8, u16, u32, u64, u128);

impl Vt for Option<u32> {
    fn mk(tok: u32) -> Self {
        Some(tok)
    }
    fn tok(&self) -> u32 {
        self.unwrap_or(u32::MAX)
    }
    const HOLLOW: bool = true;
    fn hollow(&mut self) {
        *self = None
    }
    fn is_hollow(&self) -> bool {
        self.is_none()
    }
}
/// an optional owned value: clone_from may reuse the target's allocation
impl Vt for Option<String> {
    fn mk(tok: u32) -> Self {
        Some(format!("o{}", tok))
    }
    fn tok(&self) -> u32 {
        self.as_ref().and_then(|s| s[1..].parse().ok()).unwrap_or(u32::MAX)
    }
    const HOLLOW: bool = true;
    fn hollow(&mut self) {
        *self = None
    }
    fn is_hollow(&self) -> bool {
        self.is_none()
    }
}
/// a float: formats treat it unlike the integers
impl Vt for f64 {
    fn mk(tok: u32) -> Self {
        tok as f64 + 0.25
    }
    fn tok(&self) -> u32 {
        if self.fract() == 0.25 {
            *self as u32
        } else {
            u32::MAX
        }
    }
}
impl Vt for [u8; 3] {
    fn mk(tok: u32) -> Self {
        [tok as u8, (tok >> 8) as u8, 0xA5]
    }
    fn tok(&self) -> u32 {
        self[0] as u32 | (self[1] as u32) << 8
    }
}
impl Vt for String {
    fn mk(tok: u32) -> Self {
        format!("s{}", tok)
    }
    fn tok(&self) -> u32 {
        self.get(1..).and_then(|x| x.parse().ok()).unwrap_or(u32::MAX)
    }
    const HOLLOW: bool = true;
    fn hollow(&mut self) {
        self.clear()
    }
    fn is_hollow(&self) -> bool {
        self.is_empty()
    }
}

/// owned heap value, 16 bytes / align 8, tracked
pub struct Led {
    uid: u64,
    tok: u32,
    heap: Box<u32>,
}
impl Vt for Led {
    fn mk(tok: u32) -> Self {
        Led { uid: created("Led", tok), tok, heap: Box::new(tok ^ 0x5555) }
    }
    fn tok(&self) -> u32 {
        if *self.heap != self.tok ^ 0x5555 {
            return u32::MAX;
        }
        self.tok
    }
    fn bump(&mut self, by: u32) {
        self.tok += by;
        *self.heap = self.tok ^ 0x5555;
    }
}
impl Drop for Led {
    fn drop(&mut self) {
        dropped("Led", self.uid, self.tok)
    }
}
impl Clone for Led {
    fn clone(&self) -> Self {
        maybe_panic_clone();
        Led::mk(self.tok)
    }
    fn clone_from(&mut self, source: &Self) {
        maybe_panic_clone();
        // the target's previous content is destroyed by the assignment
        *self = Led::mk(source.tok);
    }
}

fn maybe_panic_clone() {
    let fire = CLONE_PANIC_IN.with(|c| {
        let v = c.get();
        if v > 0 {
            c.set(v - 1);
        }
        v == 1
    });
    if fire {
        panic!("scripted clone panic");
    }
}

/// over-aligned tracked value: 16 bytes / align 16
#[repr(align(16))]
pub struct Over {
    uid: u64,
    tok: u32,
}
impl Vt for Over {
    fn mk(tok: u32) -> Self {
        Over { uid: created("Over", tok), tok }
    }
    fn tok(&self) -> u32 {
        self.tok
    }
    fn bump(&mut self, by: u32) {
        self.tok += by;
    }
}
impl Drop for Over {
    fn drop(&mut self) {
        dropped("Over", self.uid, self.tok)
    }
}
impl Clone for Over {
    fn clone(&self) -> Self {
        maybe_panic_clone();
        Over::mk(self.tok)
    }
}

/// zero-size value with a destructor (a permit / token)
pub struct LedZ;
impl Vt for LedZ {
    const HAS_TOK: bool = false;
    fn mk(_: u32) -> Self {
        zst_created("LedZ");
        LedZ
    }
    fn tok(&self) -> u32 {
        0
    }
    fn bump(&mut self, _: u32) {}
}
impl Drop for LedZ {
    fn drop(&mut self) {
        zst_dropped("LedZ")
    }
}
impl Clone for LedZ {
    fn clone(&self) -> Self {
        maybe_panic_clone();
        LedZ::mk(0)
    }
}

/// zero-size Copy marker
#[derive(Clone, Copy)]
pub struct Pz;
impl Vt for Pz {
    const HAS_TOK: bool = false;
    fn mk(_: u32) -> Self {
        Pz
    }
    fn tok(&self) -> u32 {
        0
    }
    fn bump(&mut self, _: u32) {}
}

/// zero-size with alignment 8
impl Vt for [u64; 0] {
    const HAS_TOK: bool = false;
    fn mk(_: u32) -> Self {
        []
    }
    fn tok(&self) -> u32 {
        0
    }
    fn bump(&mut self, _: u32) {}
}

/// 4 bytes, not Copy, no destructor
#[derive(Clone)]
pub struct Nc(pub u32);
impl Vt for Nc {
    fn mk(tok: u32) -> Self {
        Nc(tok)
    }
    fn tok(&self) -> u32 {
        self.0
    }
}

// ---- generic and nested user types for the type-name engine (E6); never stored in records
pub struct Wrap<T>(pub T);
pub struct Pair<T, U>(pub T, pub U);
pub mod inner {
    pub struct Deep(pub u8);
}

// ---- serde for the palette types that are not std types: a value is serialised as its token
macro_rules! tok_serde {
    ($($t:ty),*) => {$(
        impl serde::Serialize for $t {
            fn serialize<S: serde::Serializer>(&self, s: S) -> Result<S::Ok, S::Error> {
                s.serialize_u32(self.tok())
            }
        }
        impl<'de> serde::Deserialize<'de> for $t {
            fn deserialize<D: serde::Deserializer<'de>>(d: D) -> Result<Self, D::Error> {
                let tok = <u32 as serde::Deserialize>::deserialize(d)?;
                let fail = DE_FAIL_IN.with(|c| {
                    let v = c.get();
                    if v > 0 {
                        c.set(v - 1);
                    }
                    v == 1
                });
                if fail {
                    return Err(<D::Error as serde::de::Error>::custom("scripted deserialisation failure"));
                }
                Ok(<$t as Vt>::mk(tok))
            }
        }
    )*};
}
tok_serde!(Led, Over, LedZ, Pz, Nc);
