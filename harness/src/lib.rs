//! Shared pieces of the verification harness.

pub mod synth;
pub mod vt;

/// xorshift64* — the single PRNG every random choice is derived from.
#[derive(Clone)]
pub struct Rng(pub u64);

impl Rng {
    pub fn new(seed: u64) -> Self {
        let mut r = Rng(seed.wrapping_mul(0x9E3779B97F4A7C15) ^ 0xD1B54A32D192ED03);
        if r.0 == 0 {
            r.0 = 0x2545F4914F6CDD1D;
        }
        for _ in 0..4 {
            r.next();
        }
        r
    }
    pub fn next(&mut self) -> u64 {
        let mut x = self.0;
        x ^= x >> 12;
        x ^= x << 25;
        x ^= x >> 27;
        self.0 = x;
        x.wrapping_mul(0x2545F4914F6CDD1D)
    }
    /// uniform in 0..n (n > 0)
    pub fn below(&mut self, n: usize) -> usize {
        (self.next() >> 11) as usize % n
    }
    pub fn chance(&mut self, percent: usize) -> bool {
        self.below(100) < percent
    }
    pub fn pick<'a, T>(&mut self, l: &'a [T]) -> &'a T {
        &l[self.below(l.len())]
    }
}

pub fn arg_value(args: &[String], key: &str) -> Option<String> {
    args.iter()
        .position(|a| a == key)
        .and_then(|i| args.get(i + 1).cloned())
}

pub fn coq_list<T: AsRef<str>>(items: &[T]) -> String {
    let mut s = String::from("[");
    for (i, x) in items.iter().enumerate() {
        if i > 0 {
            s.push_str("; ");
        }
        s.push_str(x.as_ref());
    }
    s.push(']');
    s
}

pub fn coq_nlist(items: &[u64]) -> String {
    coq_list(&items.iter().map(|x| x.to_string()).collect::<Vec<_>>())
}

// ---- user types whose paths end like the five std paths the type-name rewriter shortens (E6): a user crate may
// well have a module `string` with a type `String` (heapless::string::String, bumpalo::boxed::Box, ...)
pub mod string {
    pub struct String(pub u8);
}
pub mod vec {
    pub struct Vec<T>(pub T);
}
pub mod boxed {
    pub struct Box<T>(pub T);
}
pub mod option {
    pub struct Option<T>(pub T);
}
pub mod result {
    pub struct Result<T, E>(pub T, pub E);
}

/// user modules whose LONGER paths end like the paths the name rewriter shortens (`...::alloc::vec::Vec`,
/// `...::core::option::Option`, `...::std::string::String`): only the exact std path may be shortened
pub mod deep {
    pub mod alloc {
        pub mod vec {
            pub struct Vec<T>(pub T);
        }
        pub mod string {
            pub struct String(pub u8);
        }
        pub mod boxed {
            pub struct Box<T>(pub T);
        }
    }
    pub mod core {
        pub mod option {
            pub struct Option<T>(pub T);
        }
        pub mod result {
            pub struct Result<T, E>(pub T, pub E);
        }
    }
    pub mod std {
        pub mod vec {
            pub struct Vec<T>(pub T);
        }
        pub mod string {
            pub struct String(pub u16);
        }
    }
}

/// two different types with the same last path segment and different layouts (8 / 8 and 4 / 4): an assertion table
/// keyed by the unqualified type name would keep one entry for both
pub mod pa {
    #[derive(Clone, Copy)]
    pub struct Same(pub u64);
}
pub mod pb {
    #[derive(Clone, Copy)]
    pub struct Same(pub u32);
}
