//! Synthetic type resolver, request histories and their application to the real native builder
//! (shared by the E1 and E2 drivers).

use truc::record::{
    definition::{
        builder::native::{variant, DatumDefinitionOverride, NativeRecordDefinitionBuilder},
        DatumId, RecordVariantId,
    },
    type_resolver::{DynamicTypeInfo, TypeInfo, TypeResolver},
};

// ------------------------------------------------------------------ synthetic resolver

/// Marker type: the synthetic resolver answers size `S`, alignment `A` for it, while the host's
/// own `size_of` is 0 and `align_of` is 1.
#[derive(Clone, Copy)]
pub struct Ty<const S: usize, const A: usize>;

/// Marker type whose HOST size (192) and alignment (64) are larger than anything the synthetic resolver
/// answers: a builder that takes the maximum of the two, or falls back to the host, shows.
#[derive(Clone, Copy)]
#[repr(align(64))]
pub struct TyBig<const S: usize, const A: usize>([u8; 192]);

pub struct SynthResolver;

pub fn parse_shape(name: &str) -> (usize, usize, bool) {
    parse_shape_opt(name).unwrap_or_else(|| panic!("bad type name {}", name))
}

/// "S<size>A<align>[U]": the names the synthetic resolver answers; None for any other name
pub fn parse_shape_opt(name: &str) -> Option<(usize, usize, bool)> {
    let u = name.ends_with('U');
    let core = name.trim_end_matches('U');
    let core = core.strip_prefix('S')?;
    let mut it = core.split('A');
    let s = it.next()?.parse().ok()?;
    let a = it.next()?.parse().ok()?;
    if it.next().is_some() {
        return None;
    }
    Some((s, a, u))
}

impl TypeResolver for SynthResolver {
    fn type_info<T>(&self) -> TypeInfo {
        let n = std::any::type_name::<T>();
        if let Some((p, skip)) = n.find("TyBig<").map(|p| (p, 6)).or_else(|| n.find("Ty<").map(|p| (p, 3))) {
            let inner = &n[p + skip..n.len() - 1];
            let mut it = inner.split(',').map(|x| x.trim().parse::<usize>().unwrap());
            let s = it.next().unwrap();
            let a = it.next().unwrap();
            TypeInfo {
                name: format!("S{}A{}", s, a),
                size: s,
                align: a,
            }
        } else {
            // used only as the base of add_datum_override::<(), _>: deliberately absurd answers,
            // every field is overridden
            TypeInfo {
                name: "BASE".to_owned(),
                size: 7777,
                align: 3,
            }
        }
    }

    fn dynamic_type_info(&self, type_name: &str) -> DynamicTypeInfo {
        let (s, a, u) = parse_shape(type_name);
        DynamicTypeInfo {
            info: TypeInfo {
                name: format!("S{}A{}", s, a),
                size: s,
                align: a,
            },
            allow_uninit: u,
        }
    }
}

pub type NB<'a> = NativeRecordDefinitionBuilder<&'a SynthResolver>;

/// shapes the typed entry point is compiled for
pub const TYPED: [(usize, usize); 12] = [
    (0, 1),
    (0, 8),
    (1, 1),
    (3, 1),
    (2, 2),
    (4, 4),
    (12, 4),
    (8, 8),
    (24, 8),
    (16, 16),
    (6, 2),
    (5, 1),
];

pub fn add_typed(b: &mut NB, shape: (usize, usize), name: String, uninit: bool, big: bool) -> Result<DatumId, String> {
    macro_rules! go {
        ($s:literal, $a:literal) => {
            match (uninit, big) {
                (true, false) => b.add_datum_allow_uninit::<Ty<$s, $a>, _>(name),
                (false, false) => b.add_datum::<Ty<$s, $a>, _>(name),
                (true, true) => b.add_datum_allow_uninit::<TyBig<$s, $a>, _>(name),
                (false, true) => b.add_datum::<TyBig<$s, $a>, _>(name),
            }
        };
    }
    match shape {
        (0, 1) => go!(0, 1),
        (0, 8) => go!(0, 8),
        (1, 1) => go!(1, 1),
        (3, 1) => go!(3, 1),
        (2, 2) => go!(2, 2),
        (4, 4) => go!(4, 4),
        (12, 4) => go!(12, 4),
        (8, 8) => go!(8, 8),
        (24, 8) => go!(24, 8),
        (16, 16) => go!(16, 16),
        (6, 2) => go!(6, 2),
        (5, 1) => go!(5, 1),
        _ => unreachable!(),
    }
}

/// override entry point with a typed base: only the flag is overridden, name / size / alignment are the
/// resolver's answers for the marker type (whose host size is 0 and host alignment 1)
pub fn add_partial_override(b: &mut NB, shape: (usize, usize), name: String, uninit: bool, big: bool) -> Result<DatumId, String> {
    // with the big marker the alignment is overridden too (by the very value the resolver answers): a builder
    // that combines an override with the HOST's alignment of the base type shows
    let ov = DatumDefinitionOverride { type_name: None, size: None, align: if big { Some(shape.1) } else { None }, allow_uninit: Some(uninit) };
    macro_rules! go {
        ($s:literal, $a:literal) => {
            if big {
                b.add_datum_override::<TyBig<$s, $a>, _>(name, ov)
            } else {
                b.add_datum_override::<Ty<$s, $a>, _>(name, ov)
            }
        };
    }
    match shape {
        (0, 1) => go!(0, 1),
        (0, 8) => go!(0, 8),
        (1, 1) => go!(1, 1),
        (3, 1) => go!(3, 1),
        (2, 2) => go!(2, 2),
        (4, 4) => go!(4, 4),
        (12, 4) => go!(12, 4),
        (8, 8) => go!(8, 8),
        (24, 8) => go!(24, 8),
        (16, 16) => go!(16, 16),
        (6, 2) => go!(6, 2),
        (5, 1) => go!(5, 1),
        _ => unreachable!(),
    }
}

// ------------------------------------------------------------------ requests

#[derive(Clone, Debug, PartialEq)]
pub enum Req {
    Add { name: u32, size: u64, align: u64, uninit: bool, entry: u8 },
    Remove(u64),
    Close(u8),
    LookupCur(u32),
    LookupVar(u64, u32),
}

pub const STRAT_NAMES: [&str; 6] = ["SSimple", "SBasic", "SAppend", "SAppendRev", "SGAppend", "SGAppendRev"];

pub fn ty_code(size: u64, align: u64) -> u64 {
    size * 32 + align
}

impl Req {
    pub fn text(&self) -> String {
        match self {
            Req::Add { name, size, align, uninit, entry } => {
                format!("A:{}:{}:{}:{}:{}", name, size, align, *uninit as u8, entry)
            }
            Req::Remove(i) => format!("R:{}", i),
            Req::Close(s) => format!("C:{}", s),
            Req::LookupCur(n) => format!("LC:{}", n),
            Req::LookupVar(v, n) => format!("LV:{}:{}", v, n),
        }
    }
    pub fn parse(t: &str) -> Req {
        let p: Vec<&str> = t.split(':').collect();
        let n = |i: usize| p[i].parse::<u64>().unwrap();
        match p[0] {
            "A" => Req::Add {
                name: n(1) as u32,
                size: n(2),
                align: n(3),
                uninit: n(4) != 0,
                entry: n(5) as u8,
            },
            "R" => Req::Remove(n(1)),
            "C" => Req::Close(n(1) as u8),
            "LC" => Req::LookupCur(n(1) as u32),
            "LV" => Req::LookupVar(n(1), n(2) as u32),
            _ => panic!("bad request {}", t),
        }
    }
    pub fn coq(&self) -> String {
        match self {
            Req::Add { name, size, align, uninit, .. } => format!(
                "Add {}%nat {}%nat {} {} {}",
                name,
                ty_code(*size, *align),
                size,
                align,
                if *uninit { "true" } else { "false" }
            ),
            Req::Remove(i) => format!("Remove {}%nat", i),
            Req::Close(s) => format!("Close {}", STRAT_NAMES[*s as usize]),
            Req::LookupCur(n) => format!("LookupCur {}%nat", n),
            Req::LookupVar(v, n) => format!("LookupVar {}%nat {}%nat", v, n),
        }
    }
}

pub fn hist_text(h: &[Req]) -> String {
    h.iter().map(|r| r.text()).collect::<Vec<_>>().join(" ")
}
pub fn hist_parse(t: &str) -> Vec<Req> {
    t.split_whitespace().map(Req::parse).collect()
}

pub fn err_code(msg: &str) -> u64 {
    if msg.contains("already exists in current variant") {
        0
    } else if msg.contains("is already removed") {
        1
    } else if msg.contains("in previous variant") {
        2
    } else if msg.contains("in variant being built") {
        3
    } else {
        99
    }
}

pub fn close_with(b: &mut NB, s: u8) -> RecordVariantId {
    match s {
        0 => b.close_record_variant_with(variant::simple),
        1 => b.close_record_variant_with(variant::basic),
        2 => b.close_record_variant_with(variant::append_data),
        3 => b.close_record_variant_with(variant::append_data_reverse),
        _ => unreachable!(),
    }
}

pub fn apply(b: &mut NB, scratch_res: &SynthResolver, r: &Req) -> Vec<u64> {
    match r {
        Req::Add { name, size, align, uninit, entry } => {
            let nm = format!("f{}", name);
            let shape = (*size as usize, *align as usize);
            let tyn = format!("S{}A{}", size, align);
            let entry = if (*entry == 0 || *entry == 4) && !TYPED.contains(&shape) { 2 } else { *entry };
            // every other field name uses the marker types whose host size / alignment exceed the synthetic ones
            let big = name % 2 == 1;
            let res = match entry {
                0 => add_typed(b, shape, nm, *uninit, big),
                4 => add_partial_override(b, shape, nm, *uninit, big),
                1 => b.add_dynamic_datum(nm, if *uninit { format!("{}U", tyn) } else { tyn }),
                2 => {
                    let ov = DatumDefinitionOverride {
                        type_name: Some(tyn),
                        size: Some(shape.0),
                        align: Some(shape.1),
                        allow_uninit: Some(*uninit),
                    };
                    if big {
                        b.add_datum_override::<TyBig<0, 1>, _>(nm, ov)
                    } else {
                        b.add_datum_override::<(), _>(nm, ov)
                    }
                }
                _ => {
                    // copy_datum from a definition made elsewhere
                    let mut sb = NativeRecordDefinitionBuilder::new(scratch_res);
                    // a padding datum first so that the copied one has a non-trivial offset
                    sb.add_dynamic_datum("pad", "S3A1").unwrap();
                    let i = sb
                        .add_dynamic_datum(nm, if *uninit { format!("{}U", tyn) } else { tyn })
                        .unwrap();
                    sb.close_record_variant_with(variant::append_data);
                    let def = sb.build();
                    b.copy_datum(&def[i])
                }
            };
            match res {
                Ok(i) => vec![0, did(i)],
                Err(e) => vec![3, err_code(&e)],
            }
        }
        Req::Remove(i) => match b.remove_datum(DatumId::from(*i as usize)) {
            Ok(()) => vec![1],
            Err(e) => vec![3, err_code(&e)],
        },
        Req::Close(s) => vec![2, vid(close_with(b, *s))],
        Req::LookupCur(n) => match b.get_current_datum_definition_by_name(&format!("f{}", n)) {
            None => vec![4],
            Some(d) => vec![5, did(d.id())],
        },
        Req::LookupVar(v, n) => {
            match b.get_variant_datum_definition_by_name(RecordVariantId::from(*v as usize), &format!("f{}", n)) {
                None => vec![4],
                Some(d) => vec![5, did(d.id())],
            }
        }
    }
}

pub fn did(d: DatumId) -> u64 {
    format!("{}", d).parse().unwrap()
}
pub fn vid(v: RecordVariantId) -> u64 {
    format!("{}", v).parse().unwrap()
}

