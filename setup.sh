#!/bin/sh
# Builds the framework from files on disk only (offline): Coq development, extracted model, harness.
set -e
cd "$(dirname "$0")"
export CARGO_NET_OFFLINE=true
mkdir -p .cache evidence
cp /repo/Cargo.lock harness/Cargo.lock
python3 -c "import sys; sys.path.insert(0, '.'); from vlib import srcscan; srcscan.write_current()"
(cd coq && ./regen.sh && (timeout 1500 make -k -j16 >/dev/null 2>&1 || echo 'note: some Coq files do not build on this tree (the checks report which)'))
sh coq/extract/build.sh "$PWD/.cache/extract" >/dev/null
cp /repo/Cargo.lock harness/Cargo.lock
(cd harness && cargo build --offline --bins 2>&1 | tail -2)
echo setup done
