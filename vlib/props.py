"""Per-property decision procedures."""
import json
import os
import time

from . import common as C
from . import e1
from . import e4
from . import srcscan

TRUSTED = [
    "Coq 8.16.1 kernel (coqc; vm_compute used for Example/refutation witnesses and for case evaluation; no native_compute)",
    "Print Assumptions under every property theorem must answer 'Closed under the global context' (no axioms)",
    "hand-written Gallina model coq/Model/*.v, tied to /repo by the correspondence engines named in 'engines'",
    "extraction (ExtrOcamlBasic only; nat/positive/N stay Coq datatypes; no Extract Constant) + coq/extract/driver.ml",
    "harness (Rust drivers, encoders, oracles) under /verif/harness and this Python driver",
]

# property -> configuration
TABLE = {
    "C01": {"props": "C01.v", "engines": ["e1"], "oracle": ["C01"], "components": ["step"]},
    "C02": {"props": "C02.v", "engines": ["e1"], "oracle": ["C02"], "components": ["step", "max_size", "max_type_align"]},
    "C03": {"props": "C03.v", "engines": ["e1"], "oracle": ["C03"], "components": ["step"]},
    "C12": {"props": "C12.v", "engines": ["e1"], "oracle": ["C12"], "components": ["step", "build"]},
    "C13": {"props": "C13.v", "engines": ["e1"], "oracle": ["C13"], "components": ["step", "build", "max_size", "max_type_align", "display"]},
    "C18": {"props": "C18.v", "engines": ["e1"], "oracle": ["C18"], "components": ["step"]},
    "C20": {"props": "C20.v", "engines": ["e1"], "oracle": ["C20"], "components": ["convert"]},
    "C08": {"props": "C08.v", "engines": ["e4"]},
    "C09": {"props": "C09.v", "engines": ["e4"]},
    "C10": {"props": "C10.v", "engines": ["e4"]},
}


def relevant(diff, comps):
    c = diff["component"]
    return any(c == x or c.startswith(x) for x in comps)



E1_RULE = ("request histories: corpus + PRNG(seed) random (1-12 variants, 16-shape palette + random shapes incl. zero-size, "
           "odd sizes, non-power-of-two alignments, 5 entry points, 40% of histories carry invalid/probing requests) "
           "+ small-scope enumeration slice; non-trivial = at least 2 closed variants and 2 accepted adds; distinct = distinct request text")


def engine_e1(prop, cfg, tier, seed, kf, broken):
    res = e1.run_e1(tier, seed)
    C.log("E1: %s%s" % (json.dumps(res["counts"]), " (cached run)" if res.get("cached") else ""))
    oracle_hits = [o for o in res["oracle"] if o["property"] in cfg["oracle"]]
    diffs = [d for d in res["diffs"] + res["coq_bad"] if relevant(d, cfg["components"])]
    if res["coq_errors"]:
        diffs.append({"source": "vm_compute", "case": -1, "history": "", "component": "step",
                      "where": "coqc failed on a cases file", "implementation": "", "model": res["coq_errors"][0]})
    known_keys = {k["key"]: k for k in kf["open"] if k["property"] == prop}
    violations = []
    for o in oracle_hits:
        key = "history=" + o["history"].replace(" ", ",")
        if key in known_keys:
            continue
        violations.append({"kind": "failing-input", "property": prop, "history": o["history"], "what": o["what"],
                           "found_by": "property oracle on the implementation's own output (%s)" % o["source"],
                           "replay": "./check %s --replay <this file>" % prop})
        break
    if diffs:
        d = diffs[0]
        broken.append("correspondence E1 (model vs implementation) differs at %s of history `%s`: implementation %s, model %s" % (
            d["where"], d["history"], d["implementation"][:200], d["model"][:200]))
    if broken and not violations:
        # search for a concrete failing input on the implementation alone
        C.log("broken tie: %s\nsearching for a failing input..." % broken)
        found = []
        for d in diffs[:5]:  # the diverging cases themselves first
            if d.get("history"):
                r = e1.replay_e1(d["history"])
                found += [o for o in r["oracle"] if o["property"] in cfg["oracle"]]
        if not found:
            found = e1.search_e1(seed, e1.plan(tier)["search_random"], cfg["oracle"])
        if found:
            o = found[0]
            violations.append({"kind": "failing-input", "property": prop, "history": o["history"], "what": o["what"],
                               "broken": broken, "found_by": "search after a broken proof/correspondence (%s)" % o["source"]})
        else:
            violations.append({"kind": "no-failing-input-found", "property": prop, "broken": broken,
                               "first_diverging_case": diffs[0] if diffs else None,
                               "note": "the property oracle holds on every implementation output explored; "
                                       "either the model must follow a harmless change of the code, or the search was not deep enough"})
    info = {"evaluations": sum(v for k, v in res["counts"].items() if not k.endswith("_diffs")),
            "distinct": sum(s.get("distinct_nontrivial", 0) for s in res["stats"].values()),
            "rule": E1_RULE, "samples": res["samples"], "counts": res["counts"], "coq_cases": res["coq_cases"],
            "stats": res["stats"], "ndiffs": len(diffs), "noracle": len(oracle_hits)}
    return violations, info


E4_RULE = ("vector conversion cases: for every length up to the tier's bound EVERY script that matters (prefix of convert/abandon, each with or "
           "without modifying the previous output, optionally ended by an error return or one of three panic kinds), for 4 element pairs "
           "(owned heap values, 64-byte align-32, zero-size with drop glue, plain u32), capacity = length and larger; PRNG(seed) long vectors; "
           "the size/alignment mismatch matrix (8 pairs x 5 lengths) in a separate process; every case in dev and release; "
           "distinct = distinct (pair, length, script up to the failure)")


def engine_e4(prop, cfg, tier, seed, kf, broken):
    res = e4.run_e4(tier, seed)
    C.log("E4: %s kinds=%s%s" % (json.dumps(res["counts"]), res["kinds"], " (cached run)" if res.get("cached") else ""))
    oracle_hits = [o for o in res["oracle"] if o["property"] == prop]
    diffs = [d for d in res["diffs"] if d["property"] == prop]
    if res.get("coq_error"):
        diffs.append({"property": prop, "profile": "vm_compute", "case": "", "implementation": "", "model": res["coq_error"]})
    violations = []
    if oracle_hits:
        o = oracle_hits[0]
        violations.append({"kind": "failing-input", "property": prop, "case": o["case"], "profile": o["profile"], "what": o["what"],
                           "format": "<element pair> <length> <extra capacity> <script codes: 2*action+modify_prev; actions 0 convert 1 abandon 2 Err 3-5 panic>",
                           "found_by": "ledger / allocator oracle on the implementation (E4)"})
    if diffs:
        d = diffs[0]
        broken.append("correspondence E4 (model vs implementation, %s) differs on case `%s`: implementation %s, model %s" % (
            d["profile"], d["case"], d["implementation"], d["model"]))
    if broken and not violations:
        # the explored space is exhaustive up to the bound, so the search is the oracle over the same run;
        # a thorough-tier sweep is the deeper search
        if tier != "thorough":
            deeper = e4.run_e4("thorough", seed)
            hits = [o for o in deeper["oracle"] if o["property"] == prop]
            if hits:
                o = hits[0]
                violations.append({"kind": "failing-input", "property": prop, "case": o["case"], "profile": o["profile"], "what": o["what"],
                                   "broken": broken, "found_by": "thorough sweep after a broken proof/correspondence"})
        if not violations:
            violations.append({"kind": "no-failing-input-found", "property": prop, "broken": broken,
                               "first_diverging_case": diffs[0] if diffs else None,
                               "note": "ledger and allocator oracles hold on every case explored"})
    n = res["kinds"].get(prop, 0)
    info = {"evaluations": 2 * n, "distinct": res["distinct"] if prop != "C10" else res["kinds"].get("C10", 0),
            "rule": E4_RULE, "samples": res["samples"], "counts": res["counts"], "coq_cases": res.get("coq_cases", 0),
            "stats": {"cases_by_model_outcome": res["kinds"]}, "ndiffs": len(diffs), "noracle": len(oracle_hits)}
    return violations, info


ENGINES = {"e1": engine_e1, "e4": engine_e4}


def run(prop, tier, seed, t0):
    cfg = TABLE[prop]
    C.log("== %s tier=%s seed=%d" % (prop, tier, seed))
    # ---------------------------------------------------------------- proofs
    scan = srcscan.write_current()
    ok, out, secs = C.coq_build()
    gate = C.coq_source_gate()
    if not ok:
        C.log(out[-3000:])
    pok, theorems, assum, pout = (False, [], {}, "") if not ok else C.coq_props(cfg["props"])
    proof_ok = ok and not gate and pok
    C.log("coq: build %s (%.0fs), source gate %s, %s: %d statements, assumptions %s" % (
        "ok" if ok else "FAILED", secs, "ok" if not gate else gate[:3], cfg["props"], len(theorems), assum))
    # ---------------------------------------------------------------- correspondence
    kf = C.known_findings()
    broken = []
    if not proof_ok:
        broken.append("proof obligation: coq/Props/%s does not check (%s)" % (
            cfg["props"], "build failed" if not ok else ("source gate: %s" % gate[:2] if gate else "assumptions/compile: %s" % assum)))
    eng = ENGINES[cfg["engines"][0]]
    violations, info = eng(prop, cfg, tier, seed, kf, broken)
    # ---------------------------------------------------------------- evidence
    nobl = len(theorems)
    evaluations = info["evaluations"]
    distinct = info["distinct"]
    cov = {
        "obligations": max(nobl, 1), "discharged": nobl if proof_ok else 0,
        "checker_cmd": "cd /verif/coq && make -j16 && coqc -Q Model Truc.Model -Q Proofs Truc.Proofs -Q Props Truc.Props Props/%s" % cfg["props"],
        "trusted_base": TRUSTED, "theorems": theorems, "print_assumptions": assum,
        "evaluations": evaluations, "distinct_nontrivial": distinct,
        "rule": info["rule"],
        "samples": info["samples"][:6], "engines": cfg["engines"], "engine_counts": info["counts"],
        "cases_evaluated_inside_coq": info["coq_cases"], "input_distribution": info.get("stats", {}),
        "model_vs_impl_differences": info["ndiffs"], "oracle_failures": info["noracle"],
    }
    if not proof_ok:
        cov["explanation"] = "a proof obligation does not check on this tree: " + "; ".join(broken)[:600]
    C.write_evidence(prop, tier, seed, "proof" if proof_ok else "other", cov,
                     ["model fidelity is established by differential execution, not proved",
                      "usize arithmetic is modelled on unbounded N with explicit checks where the code can overflow"],
                     time.time() - t0, len(violations))
    # ---------------------------------------------------------------- verdict
    if violations:
        v = violations[0]
        path = C.write_replay(prop, v)
        C.log(json.dumps(v, indent=1)[:3000])
        print("VIOLATION property=%s replay=%s%s" % (prop, path, " no-failing-input-found" if v["kind"] == "no-failing-input-found" else ""))
        return 1
    for k in kf["open"]:
        if k["property"] == prop:
            print("KNOWN-FINDING: property=%s %s" % (prop, k["what"]))
    C.log("%s: holds on everything explored (%d cases, %d inside Coq; %d statements proved, %.0fs)" % (
        prop, evaluations, info["coq_cases"], nobl, time.time() - t0))
    return 0


def replay(prop, path):
    v = json.load(open(path))
    if "history" not in v:
        print(json.dumps(v, indent=1))
        return 1
    r = e1.replay_e1(v["history"])
    print(json.dumps(r, indent=1))
    bad = [o for o in r["oracle"] if o["property"] in TABLE[prop]["oracle"]]
    if bad:
        print("VIOLATION property=%s replay=%s" % (prop, path))
        return 1
    return 0
