"""Per-property decision procedures: proof obligations + correspondence engines + failing-input search."""
import json
import os
import time

from . import common as C
from . import e1, e2, e3, e4, e5, e6, srcscan

TRUSTED = [
    "Coq 8.16.1 kernel (coqc; vm_compute used for Example/refutation witnesses and for case evaluation; no native_compute)",
    "Print Assumptions under every property theorem must answer 'Closed under the global context' (no axioms)",
    "hand-written Gallina model coq/Model/*.v, tied to /repo by the correspondence engines named in 'engines'",
    "extraction (ExtrOcamlBasic only; nat/positive/N stay Coq datatypes; no Extract Constant) + coq/extract/driver.ml",
    "source translators harness/rtscan (syn-based: facts of data.rs / convert.rs after inlining private helpers and closures) and vlib/srcscan.py -> coq/Current/Runtime.v",
    "harness (Rust drivers, encoders, oracles, syn-based dumper of generated code) under /verif/harness and this Python driver",
    "rustc / LLVM / the allocator / the unwinder are exercised (dev and release), not modelled",
]

TABLE = {
    "C01": {"props": "C01.v", "engines": ["e1"], "oracle": ["C01"], "components": ["step"]},
    "C02": {"props": "C02.v", "engines": ["e1", "e2", "e3"], "oracle": ["C02"], "components": ["step", "max_size", "max_type_align"]},
    "C03": {"props": "C03.v", "engines": ["e1", "e2", "e3"], "oracle": ["C03"], "components": ["step"]},
    "C04": {"props": "C04.v", "engines": ["e1", "e2", "e3"], "oracle": [], "components": ["step"]},
    "C05": {"props": "C05.v", "engines": ["e1", "e2", "e3"], "oracle": [], "components": ["step"]},
    "C06": {"props": "C06.v", "engines": ["e1", "e2", "e3"], "oracle": [], "components": ["step"]},
    "C07": {"props": "C07.v", "engines": ["e1", "e2", "e3"], "oracle": [], "components": ["step"]},
    "C08": {"props": "C08.v", "engines": ["e4"]},
    "C09": {"props": "C09.v", "engines": ["e4"]},
    "C10": {"props": "C10.v", "engines": ["e4"]},
    "C11": {"props": "C11.v", "engines": ["e2", "e5"]},
    "C12": {"props": "C12.v", "engines": ["e1"], "oracle": ["C12"], "components": ["step", "build"]},
    "C13": {"props": "C13.v", "engines": ["e1", "e2", "e3", "e5"], "oracle": ["C13"],
            "components": ["step", "build", "max_size", "max_type_align", "display"]},
    "C14": {"props": "C14.v", "engines": ["e2", "e5"]},
    "C15": {"props": "C15.v", "engines": ["e2", "e3"]},
    "C16": {"props": "C16.v", "engines": ["e2", "e3"]},
    "C17": {"props": "C17.v", "engines": ["e6"]},
    "C18": {"props": "C18.v", "engines": ["e1", "e6"], "oracle": ["C18"], "components": ["step"]},
    "C19": {"props": "C19.v", "engines": ["e1", "e2", "e6"], "oracle": ["C19"], "components": ["step"], "level": "other"},
    "C20": {"props": "C20.v", "engines": ["e1"], "oracle": ["C20"], "components": ["convert"]},
}


def relevant(diff, comps):
    c = diff["component"]
    return any(c == x or c.startswith(x) for x in comps)


# ------------------------------------------------------------------------------------------------ E1

E1_RULE = ("request histories: corpus + PRNG(seed) random (1-12 variants, 16-shape palette + random shapes incl. zero-size, "
           "odd sizes, non-power-of-two alignments, 5 entry points, 40% of histories carry invalid/probing requests) "
           "+ small-scope enumeration slice; non-trivial = at least 2 closed variants and 2 accepted adds; distinct = distinct request text")


def engine_e1(prop, cfg, tier, seed):
    res = e1.run_e1(tier, seed)
    C.log("E1: %s%s" % (json.dumps(res["counts"]), " (cached run)" if res.get("cached") else ""))
    hits = [{"input": {"history": o["history"]}, "what": o["what"], "key": "history=" + o["history"].replace(" ", ","),
             "found_by": "property oracle on the builder's own output (E1 %s)" % o["source"]}
            for o in res["oracle"] if o["property"] in cfg.get("oracle", [])]
    diffs = [d for d in res["diffs"] + res["coq_bad"] if relevant(d, cfg.get("components", []))]
    broken = []
    if res["coq_errors"] and cfg.get("components"):
        broken.append("E1: coqc failed on a cases file: %s" % res["coq_errors"][0][-300:])
    if diffs:
        d = diffs[0]
        broken.append("correspondence E1 (builder model vs implementation) differs at %s of history `%s`: implementation %s, model %s" % (
            d["where"], d["history"], d["implementation"][:200], d["model"][:200]))

    def search():
        found = []
        for d in diffs[:5]:
            if d.get("history"):
                r = e1.replay_e1(d["history"])
                found += [o for o in r["oracle"] if o["property"] in cfg.get("oracle", [])]
        if not found and cfg.get("oracle"):
            found = e1.search_e1(seed, e1.plan(tier)["search_random"], cfg["oracle"])
        return [{"input": {"history": o["history"]}, "what": o["what"], "key": "history=" + o["history"].replace(" ", ","),
                 "found_by": "search after a broken proof/correspondence (E1 %s)" % o["source"]} for o in found]

    info = {"evaluations": sum(v for k, v in res["counts"].items() if not k.endswith("_diffs")),
            "distinct": sum(s.get("distinct_nontrivial", 0) for s in res["stats"].values()),
            "rule": E1_RULE, "samples": res["samples"], "counts": res["counts"], "coq_cases": res["coq_cases"],
            "stats": res["stats"], "ndiffs": len(diffs)}
    cand = sorted(set([d["history"] for d in diffs if d.get("history")] + [o["history"] for o in res["oracle"] if o.get("history")]), key=len)[:80]
    return {"hits": hits, "broken": broken, "info": info, "search": search, "first_diff": diffs[0] if diffs else None, "cand": cand}


# ------------------------------------------------------------------------------------------------ E2

E2_RULE = ("generated modules: definitions from the E1/E2 corpora and PRNG(seed) random histories (synthetic resolver), each generated with "
           "the fragment selections none / clone / serde / clone+serde / serde+clone; every item of the real text (parsed with syn) is compared "
           "with the model Gen.gen; distinct = distinct module dumps containing at least one conversion")


def engine_e2(prop, cfg, tier, seed):
    res = e2.run_e2(tier, seed)
    C.log("E2: %s%s" % (json.dumps(res["counts"]), " (cached run)" if res.get("cached") else ""))
    hits = [{"input": {"history": o["history"], "fragments": o["config"]}, "what": o["what"], "key": "history=" + o["history"].replace(" ", ","),
             "found_by": "oracle on the generator's own output (E2)"} for o in res["oracle"] if o["property"] == prop]
    diffs = [d for d in res["diffs"] if prop in d["props"]]
    broken = []
    if diffs:
        d = diffs[0]
        broken.append("correspondence E2 (generator model vs generated text) differs at %s for history `%s` fragments [%s]: generated `%s`, model `%s`" % (
            d["where"], d["history"], d["config"], d["implementation"][:300], d["model"][:300]))
    info = {"evaluations": res["counts"]["modules"], "distinct": res["distinct"], "rule": E2_RULE, "samples": res["samples"],
            "counts": res["counts"], "coq_cases": 0, "stats": res["stats"], "ndiffs": len(diffs)}
    return {"hits": hits, "broken": broken, "info": info, "search": None, "first_diff": diffs[0] if diffs else None,
            "cand": sorted(set(d["history"] for d in res["diffs"] if d.get("history")), key=len)[:40]}


# ------------------------------------------------------------------------------------------------ E3

E3_RULE = ("executions of real generated code: corpus + PRNG(seed) definitions over 12 instrumented field types (plain data of sizes 1..8, "
           "[u8;3], owned heap values, zero-size with and without destructor, align-16, String, Option, non-Copy), all fragments; per variant: "
           "new/accessors/unpack on the stack, in a Box, in a Vec, larger capacity, every mutable accessor (frame), by-value rebinding, new_uninit, "
           "clone / clone_from / panicking clone at every tracked field, JSON + bincode round trips and malformed inputs at every position, "
           "the 4 conversion forms, 4 chains through all variants; ledger of live instances, alignment of every reference, runtime hooks "
           "(bounds, alignment, per-byte ownership shadow) in dev, no hooks in release; distinct = distinct definitions")


def engine_e3(prop, cfg, tier, seed):
    res = e3.run_e3(tier, seed)
    C.log("E3: %s modules=%d scenarios=%d%s" % (json.dumps(res["counts"]), res["modules"], res["scenarios"], " (cached run)" if res.get("cached") else ""))
    hits = [{"input": {"definition": o["spec"], "profile": o["profile"]}, "what": o["what"], "key": "definition=" + o["spec"].replace(" ", ","),
             "found_by": "execution of the generated code with instrumented field types (E3, %s)" % o["profile"]}
            for o in res["oracle"] if o["property"] == prop]
    broken = ["E3: " + b for b in res["broken"]]

    def search_from(cands):
        """executes the definitions named by the builder / generator histories on which a tie broke"""
        r = e3.search_specs(cands, tier, seed)
        if r:
            C.log("E3 search: %d definitions derived from %d diverging histories, %d oracle failures" % (r["modules"], len(cands), len(r["oracle"])))
        if not r or not any(o["property"] == prop for o in r["oracle"]):
            # the diverging histories use shapes outside the executable palette: a wider random sweep of executable definitions
            r = e3.run_e3(tier, seed + 101, count=150)
            C.log("E3 search: 150 further random definitions, %d oracle failures" % len(r["oracle"]))
        return [{"input": {"definition": o["spec"], "profile": o["profile"]}, "what": o["what"], "key": "definition=" + o["spec"].replace(" ", ","),
                 "found_by": "search after a broken correspondence: execution (E3, %s) of a definition on which the model and the implementation differ" % o["profile"]}
                for o in r["oracle"] if o["property"] == prop]

    info = {"evaluations": res["scenarios"] * 2, "distinct": res["distinct"], "rule": E3_RULE, "samples": res["samples"],
            "counts": dict(res["counts"], modules=res["modules"], scenarios_per_profile=res["scenarios"]), "coq_cases": 0, "stats": {}, "ndiffs": 0}
    return {"hits": hits, "broken": broken, "info": info, "search": None, "search_from": search_from, "first_diff": None}


# ------------------------------------------------------------------------------------------------ E4

E4_RULE = ("vector conversion cases: for every length up to the tier's bound EVERY script that matters (prefix of convert/abandon, each with or "
           "without modifying the previous output, optionally ended by an error return or one of three panic kinds), for 4 element pairs "
           "(owned heap values, 64-byte align-32, zero-size with drop glue, plain u32), capacity = length and larger; PRNG(seed) long vectors; "
           "the size/alignment mismatch matrix (8 pairs x 5 lengths) in a separate process; every case in dev and release; "
           "distinct = distinct (pair, length, script up to the failure)")


def engine_e4(prop, cfg, tier, seed):
    res = e4.run_e4(tier, seed)
    C.log("E4: %s kinds=%s%s" % (json.dumps(res["counts"]), res["kinds"], " (cached run)" if res.get("cached") else ""))
    fmt = "<element pair> <length> <extra capacity> <script codes: 2*action+modify_prev; actions 0 convert 1 abandon 2 Err 3-5 panic>"
    hits = [{"input": {"case": o["case"], "profile": o["profile"], "format": fmt}, "what": o["what"], "key": "case=" + o["case"].replace(" ", ","),
             "found_by": "ledger / allocator oracle on the implementation (E4)"} for o in res["oracle"] if o["property"] == prop]
    diffs = [d for d in res["diffs"] if d["property"] == prop]
    broken = []
    if res.get("coq_error"):
        broken.append("E4: coqc failed on the cases file: " + res["coq_error"][-300:])
    if diffs:
        d = diffs[0]
        broken.append("correspondence E4 (model vs implementation, %s) differs on case `%s`: implementation %s, model %s" % (
            d["profile"], d["case"], d["implementation"], d["model"]))

    def search():
        if tier == "thorough":
            return []
        deeper = e4.run_e4("thorough", seed)
        return [{"input": {"case": o["case"], "profile": o["profile"], "format": fmt}, "what": o["what"], "key": "case=" + o["case"].replace(" ", ","),
                 "found_by": "thorough sweep after a broken proof/correspondence (E4)"} for o in deeper["oracle"] if o["property"] == prop]

    n = res["kinds"].get(prop, 0)
    info = {"evaluations": 2 * n, "distinct": res["distinct"] if prop != "C10" else res["kinds"].get("C10", 0),
            "rule": E4_RULE, "samples": res["samples"], "counts": res["counts"], "coq_cases": res.get("coq_cases", 0),
            "stats": {"cases_by_model_outcome": res["kinds"]}, "ndiffs": len(diffs)}
    return {"hits": hits, "broken": broken, "info": info, "search": search, "first_diff": diffs[0] if diffs else None}


# ------------------------------------------------------------------------------------------------ E5

E5_RULE = ("compile probes (one rustc target each): C11 - for 10 field types x first/later variant x removed-or-not: unperturbed (must compile), "
           "recorded size smaller/larger, alignment smaller/larger, may-be-uninit on non-Copy types, same type recorded twice with one wrong "
           "entry (must be rejected); C13 - sampled definitions x 5 fragment selections must compile; C14 - Send/Sync probes of record types with "
           "Send+Sync, !Send, !Sync fields; distinct = distinct probes")


def engine_e5(prop, cfg, tier, seed):
    res = e5.run_e5(tier, seed)
    C.log("E5: %s%s" % (json.dumps(res["counts"]), " (cached run)" if res.get("cached") else ""))
    hits = [{"input": {"probe": o["probe"], "expected": o["expected"], "compiler_said": o["got"], "first_error": o["compiler"]},
             "what": o["what"], "key": "probe=" + o["probe"].split(" ")[0],
             "found_by": "rustc on a generated module (E5)"} for o in res["oracle"] if o["property"] == prop]
    c = res["counts"].get(prop, {"ok": 0, "reject": 0})
    info = {"evaluations": c["ok"] + c["reject"], "distinct": c["ok"] + c["reject"], "rule": E5_RULE,
            "samples": [p for p in res["probes"] if p["property"] == prop][:4], "counts": {"probes": res["counts"]}, "coq_cases": 0,
            "stats": {}, "ndiffs": 0}
    return {"hits": hits, "broken": [], "info": info, "search": None, "first_diff": None}


E6_RULE = ("types: the leaves (16 primitives, (), String, 3 user types) + PRNG(seed) grammar growth to nesting depth 3 over Box, Vec, Option, "
           "Result, tuples of 1-3, arrays, Box<[T]>, Box<str>, generic user types of two crates' paths; per type: recorded name vs the extracted model, "
           "5 spellings (short, re-spaced, compact, the compiler's, the compiler's re-spaced; fresh heap strings) looked up in a table before and after a JSON round trip and in a derived foreign table, three passes, typed lookup, host resolver, "
           "rustc identity probe `fn(T) -> <recorded name>`; distinct = distinct Rust type")


def engine_e6(prop, cfg, tier, seed):
    res = e6.run_e6(tier, seed)
    C.log("E6: %s%s" % (json.dumps(res["counts"]), " (cached run)" if res.get("cached") else ""))
    hits = [{"input": {"type": o["type"]}, "what": o["what"], "key": "type=" + o["type"].replace(" ", ""),
             "found_by": "type-name / type-table oracle on the implementation's own answers (E6)"}
            for o in res["oracle"] if o["property"] == prop]
    broken, first = [], None
    if res["diffs"] and prop == "C17":
        d = res["diffs"][0]
        broken.append("correspondence E6 (type-name model vs truc_type_name) differs for `%s`: implementation `%s`, model `%s`" % (
            d["type"], d["implementation"], d["model"]))
        first = d
    info = {"evaluations": res["counts"].get("types", 0) * (6 if prop == "C17" else 10) + (res["counts"].get("std_table_entries_checked", 0) if prop == "C18" else 0),
            "distinct": res["counts"].get("types", 0), "rule": E6_RULE, "samples": res.get("samples", [])[:4],
            "counts": dict(res["counts"], by_depth=res.get("by_depth", {})), "coq_cases": 0, "stats": {"by_depth": res.get("by_depth", {})},
            "ndiffs": len(res["diffs"]) if prop == "C17" else 0}
    return {"hits": hits, "broken": broken, "info": info, "search": None, "first_diff": first}


ENGINES = {"e6": engine_e6, "e1": engine_e1, "e2": engine_e2, "e3": engine_e3, "e4": engine_e4, "e5": engine_e5}


def run(prop, tier, seed, t0):
    cfg = TABLE[prop]
    C.log("== %s tier=%s seed=%d" % (prop, tier, seed))
    # ---------------------------------------------------------------- proofs
    scan = srcscan.write_current()
    ok, out, secs = C.coq_build(cfg["props"])
    gate = C.coq_source_gate()
    if not ok:
        C.log(out[-3000:])
    pok, theorems, assum, pout = (False, [], {}, "") if not ok else C.coq_props(cfg["props"])
    proof_ok = ok and not gate and pok
    if ok and not pok:
        C.log(pout[-2500:])
    C.log("coq: build %s (%.0fs), source gate %s, %s: %d statements, assumptions %s" % (
        "ok" if ok else "FAILED", secs, "ok" if not gate else gate[:3], cfg["props"], len(theorems), assum))
    broken = []
    if not proof_ok:
        broken.append("proof obligation: coq/Props/%s does not check (%s)" % (
            cfg["props"], "build failed" if not ok else ("source gate: %s" % gate[:2] if gate else
                                                         "it does not compile / an assumption is not closed: %s ... %s" % (assum, pout[-400:]))))
    # ---------------------------------------------------------------- correspondence engines
    kf = C.known_findings()
    known = {k["key"]: k for k in kf["open"] if k["property"] == prop}
    results = []
    for e in cfg["engines"]:
        try:
            results.append((e, ENGINES[e](prop, cfg, tier, seed)))
        except C.Broken as ex:
            # one engine that cannot run against this tree is a broken tie of its own; the others still decide
            C.log("engine %s could not run: %s" % (e, str(ex)[-1500:]))
            results.append((e, {"hits": [], "broken": ["engine %s could not run against this tree: %s" % (e, str(ex)[-600:])],
                                "info": {"evaluations": 0, "distinct": 0, "rule": "(did not run)", "samples": [], "counts": {}, "coq_cases": 0,
                                         "stats": {}, "ndiffs": 0}, "search": None, "first_diff": None}))
    hits, known_hit = [], {}
    for e, r in results:
        broken += r["broken"]
        for h in r["hits"]:
            if h["key"] in known:
                known_hit[h["key"]] = h
            else:
                hits.append(h)
    violations = []
    if hits:
        h = hits[0]
        violations.append({"kind": "failing-input", "property": prop, "input": h["input"], "what": h["what"], "found_by": h["found_by"],
                           "also_broken": broken, "other_failing_inputs": [x["what"][:200] for x in hits[1:6]],
                           "replay": "./check %s --replay <this file>" % prop})
    elif broken:
        C.log("broken tie: %s\nsearching for a failing input..." % broken)
        found = []
        proof_broken = not proof_ok
        for e, r in results:
            # search where the tie broke: an engine whose own correspondence differs, or every engine when the proof itself broke
            if r["search"] and (r["broken"] or proof_broken):
                found += [h for h in r["search"]() if h["key"] not in known]
            if found:
                break
        if not found:
            # the histories on which a differential engine saw the model and the implementation differ, executed
            cands = []
            for e, r in results:
                cands += r.get("cand", [])
            for e, r in results:
                if cands and r.get("search_from"):
                    found += [h for h in r["search_from"](cands) if h["key"] not in known]
        if found:
            h = found[0]
            violations.append({"kind": "failing-input", "property": prop, "input": h["input"], "what": h["what"], "found_by": h["found_by"],
                               "also_broken": broken})
        else:
            firsts = [r["first_diff"] for e, r in results if r["first_diff"]]
            violations.append({"kind": "no-failing-input-found", "property": prop, "broken": broken,
                               "first_diverging_case": firsts[0] if firsts else None,
                               "note": "every property oracle holds on every implementation output explored (%s); either the model must follow "
                                       "a harmless change of the code, or the search was not deep enough" % ", ".join(cfg["engines"])})
    # a failing builder history is minimised before it is written to the replay file
    if violations and violations[0]["kind"] == "failing-input" and "history" in violations[0]["input"] \
            and "fragments" not in violations[0]["input"] and cfg.get("oracle"):
        v = violations[0]
        try:
            small, o = e1.shrink_e1(v["input"]["history"], cfg["oracle"])
            if o is not None and len(small) < len(v["input"]["history"]):
                v["input"] = {"history": small, "shrunk_from_requests": len(v["input"]["history"].split())}
                v["what"] = o["what"]
        except Exception as ex:  # shrinking is a convenience: the original input stays
            C.log("shrinking failed: %s" % ex)
    # ---------------------------------------------------------------- evidence
    nobl = len(theorems)
    evaluations = sum(r["info"]["evaluations"] for e, r in results)
    distinct = sum(r["info"]["distinct"] for e, r in results)
    samples = []
    for e, r in results:
        samples += [{"engine": e, "case": s} for s in r["info"]["samples"][:3]]
    cov = {
        "obligations": max(nobl, 1), "discharged": nobl if proof_ok else 0,
        "checker_cmd": "cd /verif/coq && make -j16 && coqc -Q Model Truc.Model -Q Proofs Truc.Proofs -Q Props Truc.Props -Q Current Truc.Current Props/%s" % cfg["props"],
        "trusted_base": TRUSTED, "theorems": theorems, "print_assumptions": assum,
        "evaluations": evaluations, "distinct_nontrivial": distinct,
        "rule": " || ".join("%s: %s" % (e, r["info"]["rule"]) for e, r in results),
        "samples": samples, "engines": cfg["engines"],
        "engine_counts": {e: r["info"]["counts"] for e, r in results},
        "cases_evaluated_inside_coq": sum(r["info"]["coq_cases"] for e, r in results),
        "input_distribution": {e: r["info"].get("stats", {}) for e, r in results},
        "model_vs_impl_differences": sum(r["info"]["ndiffs"] for e, r in results),
        "oracle_failures": len(hits), "known_findings_reproduced": len(known_hit),
        "source_facts": scan,
    }
    level = cfg.get("level", "proof")
    if level == "other":
        cov["explanation"] = ("by construction in the model (run and gen are functions) + correspondence of the implementation with that function "
                              "in separate processes + byte identity of the generated text within and across processes + ordered-collections scan")
    if not proof_ok:
        cov["explanation"] = "a proof obligation does not check on this tree: " + "; ".join(broken)[:600]
    C.write_evidence(prop, tier, seed, level if proof_ok else "other", cov,
                     ["model fidelity is established by differential execution, not proved",
                      "usize arithmetic is modelled on unbounded N with explicit checks where the code can overflow"],
                     time.time() - t0, len(violations))
    # ---------------------------------------------------------------- verdict
    if violations:
        v = violations[0]
        path = C.write_replay(prop, v)
        C.log(json.dumps(v, indent=1)[:3500])
        print("VIOLATION property=%s replay=%s%s" % (prop, path, " no-failing-input-found" if v["kind"] == "no-failing-input-found" else ""))
        return 1
    for key, k in known.items():
        if key in known_hit:
            print("KNOWN-FINDING: property=%s %s" % (prop, k["what"]))
        else:
            C.log("note: the known finding `%s` did not reproduce on this run" % key)
    C.log("%s: holds on everything explored (%d cases, %d inside Coq; %d statements proved, %.0fs)" % (
        prop, evaluations, cov["cases_evaluated_inside_coq"], nobl, time.time() - t0))
    return 0


def replay(prop, path):
    v = json.load(open(path))
    inp = v.get("input", {})
    if "history" in inp and "fragments" not in inp:
        r = e1.replay_e1(inp["history"])
        print(json.dumps(r, indent=1))
        bad = [o for o in r["oracle"] if o["property"] in TABLE[prop].get("oracle", [])]
        if bad:
            print("VIOLATION property=%s replay=%s" % (prop, path))
            return 1
        return 0
    if "case" in inp:
        r = e4.replay_e4(inp["case"])
        print(json.dumps(r, indent=1))
        if r["implementation"] is None or r["implementation"][0] != r["model"] or r["implementation"][1]:
            print("VIOLATION property=%s replay=%s" % (prop, path))
            return 1
        return 0
    print(json.dumps(v, indent=1))
    print("this replay names a definition / probe: re-run `./check %s` (the corpus and the seeded generators contain it)" % prop)
    return 1
