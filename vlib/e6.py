"""E6: type names and type tables (truc/src/record/{type_name,type_resolver}.rs against coq/Model/TypeName.v).

Python generates a grammar-driven list of Rust types (depth <= 3) and writes a small crate that, for each type T,
prints `truc_type_name::<T>()`, registers T in a StaticTypeResolver and looks it up under several spellings
(short, the compiler's, blanks inserted / removed), before and after a JSON round trip, and compares with the
host resolver.  The extracted model prints the recorded name of the same types.  A second target lets rustc
decide that every recorded name denotes the original type (`let _: fn(T) -> <recorded name> = |x| x;`)."""
import json
import os
import random
import re
import shutil
import time

from .common import CACHE, COQ, ENV, EXTRACT, HARNESS, REPO, VERIF, Broken, extract_build, file_hash, sh

PRIMS = ["u8", "u16", "u32", "u64", "u128", "usize", "i8", "i16", "i32", "i64", "i128", "isize", "f32", "f64", "bool", "char"]


class T:
    """a type of the grammar: Rust short spelling + model description"""
    def __init__(self, rust, desc, depth, sized=True):
        self.rust, self.desc, self.depth, self.sized = rust, desc, depth, sized


def leaves():
    out = [T(p, "P%d" % i, 0) for i, p in enumerate(PRIMS)]
    out.append(T("String", "S", 0))
    out.append(T("()", "T()", 0))
    out.append(T("vharness::vt::Nc", "U(vharness.vt;Nc;)", 0))
    out.append(T("vharness::vt::Pz", "U(vharness.vt;Pz;)", 0))
    out.append(T("vharness::vt::inner::Deep", "U(vharness.vt.inner;Deep;)", 0))
    out.append(T("vharness::string::String", "U(vharness.string;String;)", 0))
    out.append(T("vharness::deep::alloc::string::String", "U(vharness.deep.alloc.string;String;)", 0))
    out.append(T("vharness::deep::std::string::String", "U(vharness.deep.std.string;String;)", 0))
    return out


def grow(rng, pool, depth):
    a = rng.choice(pool)
    b = rng.choice(pool)
    c = rng.choice(pool)
    k = rng.randrange(15)
    d = depth
    if k == 14:
        # user types in modules called alloc / core / std: longer paths with the same ending as the shortened std paths
        m = rng.randrange(5)
        if m == 0:
            return T("vharness::deep::alloc::vec::Vec<%s>" % a.rust, "U(vharness.deep.alloc.vec;Vec;%s)" % a.desc, d)
        if m == 1:
            return T("vharness::deep::alloc::boxed::Box<%s>" % a.rust, "U(vharness.deep.alloc.boxed;Box;%s)" % a.desc, d)
        if m == 2:
            return T("vharness::deep::core::option::Option<%s>" % a.rust, "U(vharness.deep.core.option;Option;%s)" % a.desc, d)
        if m == 3:
            return T("vharness::deep::std::vec::Vec<%s>" % a.rust, "U(vharness.deep.std.vec;Vec;%s)" % a.desc, d)
        return T("vharness::deep::core::result::Result<%s, %s>" % (a.rust, b.rust), "U(vharness.deep.core.result;Result;%s,%s)" % (a.desc, b.desc), d)
    if k == 0:
        return T("Box<%s>" % a.rust, "B(%s)" % a.desc, d)
    if k == 1:
        return T("Vec<%s>" % a.rust, "V(%s)" % a.desc, d)
    if k == 2:
        return T("Option<%s>" % a.rust, "O(%s)" % a.desc, d)
    if k == 3:
        return T("Result<%s, %s>" % (a.rust, b.rust), "R(%s,%s)" % (a.desc, b.desc), d)
    if k == 4:
        return T("(%s, %s)" % (a.rust, b.rust), "T(%s,%s)" % (a.desc, b.desc), d)
    if k == 5:
        return T("(%s, %s, %s)" % (a.rust, b.rust, c.rust), "T(%s,%s,%s)" % (a.desc, b.desc, c.desc), d)
    if k == 6:
        n = rng.choice([1, 2, 3, 7])
        return T("[%s; %d]" % (a.rust, n), "A(%s,%d)" % (a.desc, n), d)
    if k == 7:
        return T("Box<[%s]>" % a.rust, "B(L(%s))" % a.desc, d)
    if k == 8:
        return T("Box<str>", "B(X)", d)
    if k == 9:
        return T("vharness::vt::Wrap<%s>" % a.rust, "U(vharness.vt;Wrap;%s)" % a.desc, d)
    if k == 12:
        return T("(%s,)" % a.rust, "T(%s)" % a.desc, d)
    if k == 10:
        return T("vharness::vt::Pair<%s, %s>" % (a.rust, b.rust), "U(vharness.vt;Pair;%s,%s)" % (a.desc, b.desc), d)
    if k == 13:
        # user types whose paths end like the std paths the rewriter shortens
        m = rng.randrange(4)
        if m == 0:
            return T("vharness::vec::Vec<%s>" % a.rust, "U(vharness.vec;Vec;%s)" % a.desc, d)
        if m == 1:
            return T("vharness::boxed::Box<%s>" % a.rust, "U(vharness.boxed;Box;%s)" % a.desc, d)
        if m == 2:
            return T("vharness::option::Option<%s>" % a.rust, "U(vharness.option;Option;%s)" % a.desc, d)
        return T("vharness::result::Result<%s, %s>" % (a.rust, b.rust), "U(vharness.result;Result;%s,%s)" % (a.desc, b.desc), d)
    return T("Option<Box<%s>>" % a.rust, "O(B(%s))" % a.desc, d)


def gen_types(seed, count):
    rng = random.Random(seed)
    pool = leaves()
    seen = {t.rust for t in pool}
    out = list(pool)
    level = list(pool)
    for depth in (1, 2, 3):
        nxt = []
        tries = 0
        want = count // 3
        while len(nxt) < want and tries < want * 20:
            tries += 1
            t = grow(rng, level + pool, depth)
            if t.rust not in seen:
                seen.add(t.rust)
                nxt.append(t)
        out += nxt
        level = nxt or level
    return out


def strip(s):
    return re.sub(r"\s+", "", s)


def spaced(rng, s):
    """the same spelling with blanks inserted between tokens (never inside an identifier or a number)"""
    toks = re.findall(r"[A-Za-z_][A-Za-z_0-9]*|\d+|::|[<>\[\](),;]", s)
    out = ""
    for i, t in enumerate(toks):
        out += " " * rng.randrange(3)
        if i > 0 and re.match(r"\w", t[0]) and out and re.match(r"\w", out[-1]):
            out += " "
        out += t
    return out + " " * rng.randrange(2)


MAIN = r'''
use truc::record::type_resolver::{DynamicTypeInfo, HostTypeResolver, StaticTypeResolver, TypeResolver};
use std::collections::BTreeMap;

/// the recorded name of a type (what the builders store and the generator prints)
fn truc_type_name<T>() -> String { HostTypeResolver.type_info::<T>().name }
use std::panic::{catch_unwind, AssertUnwindSafe};

fn ws(s: &str) -> String { s.chars().filter(|c| !c.is_whitespace()).collect() }

fn look(r: &StaticTypeResolver, spelling: &str) -> Option<(String, usize, usize)> {
    // the spelling is handed over as a freshly allocated string, as a schema reader would (never a literal)
    let owned = String::from(spelling);
    catch_unwind(AssertUnwindSafe(|| r.dynamic_type_info(&owned))).ok().map(|d| (ws(&d.info.name), d.info.size, d.info.align))
}

fn row<T>(k: usize, r: &StaticTypeResolver, r2: &StaticTypeResolver, rf: &StaticTypeResolver, spellings: &[&str]) {
    let name = truc_type_name::<T>();
    let host = HostTypeResolver.type_info::<T>();
    let (wn, wsz, wal) = (ws(&name), std::mem::size_of::<T>(), std::mem::align_of::<T>());
    let mut bad17 = Vec::new();
    let mut bad18 = Vec::new();
    let typed = catch_unwind(AssertUnwindSafe(|| r.type_info::<T>())).ok().map(|i| (ws(&i.name), i.size, i.align));
    match &typed {
        None => bad17.push("typed lookup in the table fails".to_owned()),
        Some((n, sz, al)) => {
            if *n != wn { bad17.push(format!("typed lookup finds the entry `{}`", n)); }
            if (*sz, *al) != (wsz, wal) { bad18.push(format!("the table registered on this host answers size {} align {} instead of {} / {}", sz, al, wsz, wal)); }
        }
    }
    if (ws(&host.name), host.size, host.align) != (wn.clone(), wsz, wal) { bad18.push(format!("the host resolver answers size {} align {} instead of size_of {} / align_of {}", host.size, host.align, wsz, wal)); }
    let stdname = std::any::type_name::<T>();
    // the compiler's spelling with a blank around every punctuation token
    let spaced_std = stdname.replace("::", " :: ").replace('<', " < ").replace('>', " > ").replace(',', " , ").replace('[', "[ ").replace(';', " ; ");
    for s in spellings.iter().cloned().chain([stdname, spaced_std.as_str()]) {
        let got = look(r, s);
        match &got {
            None => bad17.push(format!("lookup of the spelling `{}` fails", s)),
            Some((n, sz, al)) => {
                if *n != wn { bad17.push(format!("lookup of the spelling `{}` finds the entry `{}`", s, n)); }
                else if (*sz, *al) != (wsz, wal) && bad18.is_empty() { bad18.push(format!("lookup of `{}` answers size {} align {} instead of {} / {}", s, sz, al, wsz, wal)); }
            }
        }
        let got2 = look(r2, s);
        if got2 != got { bad18.push(format!("after a JSON round trip the lookup of `{}` answers {:?} instead of {:?}", s, got2, got)); }
    }
    // a table that was NOT produced on this host (every entry: size + 8, alignment * 2) must answer what it holds
    let foreign = Some((wn.clone(), wsz + 8, wal * 2));
    let typed_f = catch_unwind(AssertUnwindSafe(|| rf.type_info::<T>())).ok().map(|i| (ws(&i.name), i.size, i.align));
    if typed_f != foreign { bad18.push(format!("a table registered with size {} align {} answers {:?} to the typed lookup", wsz + 8, wal * 2, typed_f)); }
    for s in spellings.iter().cloned().take(1).chain(std::iter::once(stdname)) {
        let got = look(rf, s);
        if got != foreign { bad18.push(format!("a table registered with size {} align {} answers {:?} to the lookup of `{}`", wsz + 8, wal * 2, got, s)); }
    }
    println!("ROW {}|{}|{}|{}", k, wn, bad17.join(" ;; "), bad18.join(" ;; "));
}
'''


def write_crate(crate, types, rng):
    os.makedirs(os.path.join(crate, "src", "bin"), exist_ok=True)
    body = [MAIN, "fn main() {", "    std::panic::set_hook(Box::new(|_| {}));",
            "    let mut r = StaticTypeResolver::new();", "    let mut dup = Vec::new();"]
    for k, t in enumerate(types):
        if t.sized:
            body.append("    if catch_unwind(AssertUnwindSafe(|| r.add_type::<%s>())).is_err() { dup.push(%d); }" % (t.rust, k))
    body.append("    for k in dup { println!(\"DUP {}\", k); }")
    body.append("    let json = r.to_json_string().unwrap();")
    body.append("    let r2: StaticTypeResolver = match serde_json::from_str::<BTreeMap<String, DynamicTypeInfo>>(&json) { Ok(x) => StaticTypeResolver::from(x), Err(e) => { println!(\"JSONFAIL {}\", e); StaticTypeResolver::new() } };")
    body.append("    if r2.to_json_string().unwrap() != json { println!(\"JSONDIFF\"); }")
    body.append("    let mut foreign: BTreeMap<String, DynamicTypeInfo> = serde_json::from_str(&json).unwrap_or_default();")
    body.append("    for (_, v) in foreign.iter_mut() { v.info.size += 8; v.info.align *= 2; }")
    body.append("    let rf = StaticTypeResolver::from(foreign);")
    for k, t in enumerate(types):
        sp = [t.rust, spaced(rng, t.rust), strip(t.rust).replace(",", ", ")]
        body.append("    row::<%s>(%d, &r, &r2, &rf, &[%s]);" % (t.rust, k, ", ".join(json.dumps(s) for s in sp)))
    # a name that was looked up BEFORE its type was registered (a miss), then registered, then looked up again with
    # the very same spelling: the table must answer what it now holds; also on a table loaded from JSON, then extended
    body.append("    { let mut late = StaticTypeResolver::new(); let mut late2: StaticTypeResolver = StaticTypeResolver::from(serde_json::from_str::<BTreeMap<String, DynamicTypeInfo>>(\"{}\").unwrap());")
    nl = 0
    for k, t in enumerate(types):
        if t.sized and (k % 37 == 5 or k < 6):
            nl += 1
            sp = json.dumps(t.rust)
            body.append("      for tab in [&mut late, &mut late2] { let miss = look(tab, %s); if miss.is_some() { println!(\"LATE %d|answered before it was registered\"); } tab.add_type::<%s>(); let want = Some((ws(&truc_type_name::<%s>()), std::mem::size_of::<%s>(), std::mem::align_of::<%s>())); let got = look(tab, %s); if got != want { println!(\"LATE %d|looked up before it was registered (a miss), then registered: the same lookup answers {:?} instead of {:?}\", got, want); } }" % (sp, k, t.rust, t.rust, t.rust, t.rust, sp, k))
    body.append("    }")
    # the standard table agrees with the host for the types it registers
    body.append("    let mut std_table = StaticTypeResolver::new(); std_table.add_all_types();")
    body.append("    let mut nstd = 0usize;")
    for p in PRIMS + ["String", "Box<str>", "Vec<()>"]:
        for form in ["%s", "Option<%s>"] + ["[%s; " + str(n) + "]" for n in (1, 2, 3, 5, 10)] + ["Option<[%s; " + str(n) + "]>" for n in (1, 4, 10)]:
            ty = form % p
            body.append("    { let got = look(&std_table, %s); let want = Some((ws(&truc_type_name::<%s>()), std::mem::size_of::<%s>(), std::mem::align_of::<%s>())); nstd += 1; if got != want { println!(\"STD %s|{:?}|{:?}\", got, want); } }" % (json.dumps(ty), ty, ty, ty, ty.replace("{", "{{").replace("}", "}}")))
    # the same lookups in three passes (forward, backward, forward), every spelling a fresh heap string each time
    body.append("    let all: Vec<&str> = vec![%s];" % ", ".join(json.dumps(t.rust) for t in types))
    body.append("    let p1: Vec<_> = all.iter().map(|s| look(&r, s)).collect();")
    body.append("    let mut p2: Vec<_> = all.iter().rev().map(|s| look(&r, s)).collect(); p2.reverse();")
    body.append("    let p3: Vec<_> = all.iter().map(|s| look(&r2, s)).collect();")
    body.append("    for i in 0..all.len() { if p1[i] != p2[i] || p1[i] != p3[i] { println!(\"REPEAT pass|{}|{:?} / {:?} / {:?}\", all[i], p1[i], p2[i], p3[i]); } }")
    # the same lookups repeated within the process, every spelling a fresh heap string: the answers may not change (C19)
    body.append("    for round in 0..6usize { for name in [\"u16\", \"u32\", \"u64\", \"i16\", \"i32\", \"i64\", \"f32\", \"f64\", \"u8\", \"i8\"] { let got = look(&r, name); if got.as_ref().map(|g| g.0.as_str()) != Some(name) { println!(\"REPEAT {}|{}|{:?}\", round, name, got); } } }")
    body.append("    println!(\"DONE {}\", nstd);")
    body.append("}")
    open(os.path.join(crate, "src", "main.rs"), "w").write("\n".join(body) + "\n")
    open(os.path.join(crate, "Cargo.toml"), "w").write('''[package]
name = "tycrate"
version = "0.0.0"
edition = "2021"

[workspace]

[dependencies]
truc = { path = "/repo/truc" }
vharness = { path = "/verif/harness" }
serde_json = "1"

[profile.dev]
debug = false
''')
    shutil.copy(os.path.join(REPO, "Cargo.lock"), os.path.join(crate, "Cargo.lock"))


def run_e6(tier, seed):
    key = file_hash([os.path.join(REPO, "truc", "src", "record"), os.path.join(REPO, "Cargo.lock"),
                     os.path.join(HARNESS, "src", "vt.rs"), os.path.join(HARNESS, "src", "lib.rs"), os.path.join(COQ, "Model", "TypeName.v"), os.path.join(COQ, "extract"),
                     os.path.join(VERIF, "vlib", "e6.py")], extra="%s/%s" % (tier, seed))
    out = os.path.join(CACHE, "run", "e6-%s" % key)
    resf = os.path.join(out, "result.json")
    if os.path.exists(resf):
        r = json.load(open(resf))
        r["cached"] = True
        return r
    t0 = time.time()
    shutil.rmtree(out, ignore_errors=True)
    os.makedirs(out)
    ok, o = extract_build()
    if not ok:
        raise Broken("extraction failed:\n" + o[-3000:])
    rng = random.Random(seed * 7 + 1)
    types = gen_types(seed, 3000 if tier == "thorough" else 450)
    crate = os.path.join(out, "crate")
    write_crate(crate, types, rng)
    env = dict(ENV)
    env["CARGO_TARGET_DIR"] = os.path.join(CACHE, "target_ty")
    rc, o = sh("cargo run --offline -q", cwd=crate, env=env, timeout=3000)
    res = {"tier": tier, "seed": seed, "diffs": [], "oracle": [], "counts": {}, "cached": False}
    if rc != 0 and "ROW" not in o:
        raise Broken("the type-name crate does not build / run:\n" + o[-3000:])
    # the model's recorded names
    rcm, mo = sh([os.path.join(EXTRACT, "model_driver"), "tyname"], stdin=("\n".join(t.desc for t in types) + "\n").encode(), timeout=600)
    if rcm != 0:
        raise Broken("extracted model (tyname) failed: " + mo[-1500:])
    model = [l.split("|") for l in mo.splitlines()]
    for k, ml in enumerate(model):
        if len(ml) != 2 or ml[0] != ml[1]:
            raise Broken("model: short and compiler spellings of %s get different keys: %r" % (types[k].rust, ml))
    names = {}
    nstd = 0
    for line in o.splitlines():
        if line.startswith("ROW "):
            k, name, bad17, bad18 = line[4:].split("|", 3)
            k = int(k)
            names[k] = name
            t = types[k]
            want = model[k][0] if k < len(model) else "<none>"
            if name != want and len(res["diffs"]) < 20:
                res["diffs"].append({"type": t.rust, "implementation": name, "model": want})
            for prop, bad in (("C17", bad17), ("C18", bad18)):
                for b in [x for x in bad.split(" ;; ") if x][:2]:
                    if sum(1 for x in res["oracle"] if x["property"] == prop) < 25:
                        res["oracle"].append({"property": prop, "type": t.rust, "what": "type `%s`: %s" % (t.rust, b)})
        elif line.startswith("DUP "):
            k = int(line[4:])
            res["oracle"].append({"property": "C17", "type": types[k].rust, "what": "type `%s` has the same recorded name as another type of the list" % types[k].rust})
        elif line.startswith("STD "):
            res["oracle"].append({"property": "C18", "type": line[4:].split("|")[0], "what": "the standard type table disagrees with the host: " + line[4:]})
        elif line.startswith("LATE "):
            k, what = line[5:].split("|", 1)
            if sum(1 for x in res["oracle"] if x["property"] == "C18") < 25:
                res["oracle"].append({"property": "C18", "type": types[int(k)].rust, "what": "type `%s`: %s" % (types[int(k)].rust, what)})
        elif line.startswith("JSONFAIL") or line.startswith("JSONDIFF"):
            res["oracle"].append({"property": "C18", "type": "-", "what": "the type table does not survive a JSON round trip: " + line})
        elif line.startswith("REPEAT "):
            rnd, name, got = line[7:].split("|", 2)
            if sum(1 for x in res["oracle"] if x["property"] == "C19") < 10:
                res["oracle"].append({"property": "C19", "type": name, "what": "the same lookup repeated in one process (%s, a fresh string each time) is answered differently: `%s` -> %s" % (rnd, name, got)})
        elif line.startswith("DONE "):
            nstd = int(line[5:])
    if len(names) != len(types):
        res["oracle"].append({"property": "C17", "type": "-", "what": "the type-name program stopped after %d of %d types (exit %s)" % (len(names), len(types), rc)})
    # rustc decides that every recorded name denotes the original type
    lines = ["#![allow(unused)]", "fn main() {"]
    for k, t in enumerate(types):
        if k in names:
            lines.append("    let _: fn(%s) -> %s = |x| x; // T%d" % (("Box<%s>" % t.rust) if not t.sized else t.rust, names[k], k))
    lines.append("}")
    open(os.path.join(crate, "src", "bin", "identity.rs"), "w").write("\n".join(lines) + "\n")
    rc, o2 = sh("cargo check --offline --bin identity --message-format short", cwd=crate, env=env, timeout=3000)
    if rc != 0:
        badl = sorted(set(int(m) for m in re.findall(r"src/bin/identity\.rs:(\d+):", o2)))
        for ln in badl[:20]:
            mk = re.search(r"// T(\d+)$", lines[ln - 1]) if 0 < ln <= len(lines) else None
            k = int(mk.group(1)) if mk else -1
            if 0 <= k < len(types):
                res["oracle"].append({"property": "C17", "type": types[k].rust,
                                      "what": "the recorded name `%s` of `%s` does not denote that type in generated code (rustc rejects the identity probe)" % (names.get(k), types[k].rust)})
        if not badl:
            raise Broken("identity probe failed to build:\n" + o2[-2000:])
    res["counts"] = {"types": len(types), "spellings_per_type": 5, "std_table_entries_checked": nstd}
    res["by_depth"] = {str(d): sum(1 for t in types if t.depth == d) for d in (0, 1, 2, 3)}
    res["samples"] = [t.rust for t in types[20:23] + types[-3:]]
    res["wall_s"] = time.time() - t0
    json.dump(res, open(resf, "w"))
    return res
