"""Shared machinery of the /verif checks: builds, caches, evidence, violation reports."""
import glob
import hashlib
import json
import os
import re
import subprocess
import sys
import time

VERIF = os.path.dirname(os.path.dirname(os.path.abspath(__file__)))
REPO = "/repo"
CACHE = os.path.join(VERIF, ".cache")
COQ = os.path.join(VERIF, "coq")
HARNESS = os.path.join(VERIF, "harness")
TARGET = os.path.join(CACHE, "target")
EXTRACT = os.path.join(CACHE, "extract")
EVIDENCE = os.path.join(VERIF, "evidence")
REPLAY = os.path.join(EVIDENCE, "replay")
HOOK_CFG = "truc_verif"

ENV = dict(os.environ)
ENV["CARGO_NET_OFFLINE"] = "true"
ENV["CARGO_TARGET_DIR"] = TARGET


class Broken(Exception):
    """The machinery itself could not run (build failure of the harness, ...)."""


def log(*a):
    print(*a, flush=True)


def sh(cmd, cwd=None, timeout=1800, env=None, check=False, stdin=None):
    p = subprocess.run(cmd, cwd=cwd, shell=isinstance(cmd, str), stdout=subprocess.PIPE,
                       stderr=subprocess.STDOUT, timeout=timeout, env=env or ENV, input=stdin)
    out = p.stdout.decode("utf-8", "replace")
    if check and p.returncode != 0:
        raise Broken("command failed (%s): %s\n%s" % (p.returncode, cmd, out[-4000:]))
    return p.returncode, out


def file_hash(paths, extra=""):
    h = hashlib.sha256()
    h.update(extra.encode())
    for root in paths:
        if os.path.isfile(root):
            files = [root]
        else:
            files = []
            for d, dn, fn in os.walk(root):
                dn[:] = sorted(x for x in dn if x not in ("target", ".git"))
                for f in sorted(fn):
                    if f.endswith((".vo", ".vok", ".vos", ".glob", ".aux", ".d", ".cache")):
                        continue
                    files.append(os.path.join(d, f))
        for f in files:
            h.update(f.encode())
            try:
                with open(f, "rb") as fh:
                    h.update(fh.read())
            except OSError:
                h.update(b"<missing>")
    return h.hexdigest()[:16]


# ------------------------------------------------------------------------------------------ Coq

FORBIDDEN = re.compile(
    r"\b(Admitted|admit|Axiom|Axioms|Parameter|Parameters|Conjecture|Hypothesis|Variable)\b|Unset Guard|bypass_check|type-in-type|impredicative-set|Admit Obligations")


def coq_source_gate():
    """grep gate over the whole development; Variable/Hypothesis are allowed inside Sections only."""
    bad = []
    for d in ("Model", "Proofs", "Props", "extract"):
        for root, _, files in os.walk(os.path.join(COQ, d)):
            for f in files:
                if not f.endswith(".v"):
                    continue
                depth = 0
                incomment = 0
                for n, line in enumerate(open(os.path.join(root, f), encoding="utf-8"), 1):
                    code = re.sub(r"\(\*.*?\*\)", "", line)
                    if re.match(r"\s*Section\b", code):
                        depth += 1
                    if re.match(r"\s*End\b", code) and depth > 0:
                        depth -= 1
                    for m in FORBIDDEN.finditer(code):
                        w = m.group(0)
                        if w in ("Variable", "Hypothesis") and depth > 0:
                            continue
                        if w in ("Variable", "Hypothesis") and re.match(r"\s*(Variables|Context)", code):
                            continue
                        bad.append("%s:%d: %s" % (os.path.join(d, f), n, line.strip()))
    return bad


def coq_build(prop_file=None):
    """Full .vo build (make decides what is stale) of the models, the proofs, the generated Current/ files and of the
    statement file of the property being checked - not of the other properties' statement files, whose `*_current`
    obligations may fail on this tree without this property being concerned."""
    t0 = time.time()
    sh("./regen.sh", cwd=COQ, check=True)
    targets = "all"
    if prop_file:
        vs = sorted(glob.glob(os.path.join(COQ, "Model", "*.v")) + glob.glob(os.path.join(COQ, "Proofs", "*.v")) +
                    glob.glob(os.path.join(COQ, "Current", "*.v")))
        targets = " ".join(os.path.relpath(v, COQ) + "o" for v in vs) + " Props/%so" % prop_file
    rc, out = sh("timeout 1500 make -j16 %s" % targets, cwd=COQ, timeout=1600)
    return rc == 0, out, time.time() - t0


ALLOWED_AXIOMS = set()  # none: every property theorem must be closed under the global context


def coq_props(prop_file):
    """Re-checks Props/<file>.v on its own and returns (ok, theorems, assumptions, output)."""
    path = os.path.join(COQ, "Props", prop_file)
    rc, out = sh("timeout 600 coqc -q -noglob -Q Model Truc.Model -Q Proofs Truc.Proofs -Q Props Truc.Props -Q Current Truc.Current Props/%s" % prop_file,
                 cwd=COQ, timeout=700)
    src = open(path, encoding="utf-8").read()
    theorems = re.findall(r"^\s*(?:Theorem|Example|Corollary)\s+(\w+)", src, re.M)
    closed = out.count("Closed under the global context")
    axioms = []
    for block in re.findall(r"Axioms:\n((?:.+\n?)+?)(?:\n|$)", out):
        for l in block.splitlines():
            m = re.match(r"(\S+)\s*:", l)
            if m:
                axioms.append(m.group(1))
    nprint = len(re.findall(r"^\s*Print Assumptions\b", src, re.M))
    ok = rc == 0 and not axioms and closed == nprint
    return ok, theorems, {"closed": closed, "print_assumptions": nprint, "axioms": axioms}, out


# ------------------------------------------------------------------------------------------ harness

def harness_build(bins, features_cfg=False):
    lock_src = os.path.join(REPO, "Cargo.lock")
    if os.path.exists(lock_src):
        data = open(lock_src, "rb").read()
        dst = os.path.join(HARNESS, "Cargo.lock")
        if not os.path.exists(dst) or open(dst, "rb").read() != data:
            open(dst, "wb").write(data)
    env = dict(ENV)
    if features_cfg:
        env["RUSTFLAGS"] = "--cfg %s" % HOOK_CFG
    args = " ".join("--bin %s" % b for b in bins)
    rc, out = sh("cargo build --offline %s" % args, cwd=HARNESS, env=env, timeout=1500)
    return rc == 0, out


def extract_build():
    key = file_hash([os.path.join(COQ, "Model"), os.path.join(COQ, "extract")])
    stamp = os.path.join(EXTRACT, "stamp")
    if os.path.exists(stamp) and open(stamp).read() == key and os.path.exists(os.path.join(EXTRACT, "model_driver")):
        return True, ""
    rc, out = sh("sh %s/extract/build.sh %s" % (COQ, EXTRACT), timeout=600)
    if rc == 0:
        open(stamp, "w").write(key)
    return rc == 0, out


# ------------------------------------------------------------------------------------------ reporting

def write_replay(prop, payload):
    os.makedirs(REPLAY, exist_ok=True)
    body = json.dumps(payload, indent=1, sort_keys=True)
    h = hashlib.sha256(body.encode()).hexdigest()[:10]
    path = os.path.join(REPLAY, "%s-%s.json" % (prop, h))
    open(path, "w").write(body)
    return path


def write_evidence(prop, tier, seed, level, coverage, assumptions, wall, violations):
    os.makedirs(EVIDENCE, exist_ok=True)
    ev = {"property_id": prop, "tier": tier, "seed": seed, "level": level, "coverage": coverage,
          "assumptions": assumptions, "wall_s": round(wall, 2), "violations": violations}
    open(os.path.join(EVIDENCE, "%s.json" % prop), "w").write(json.dumps(ev, indent=1))


def known_findings():
    """known_findings.txt: `open: property=<id> key=<key> <what>` / `fixed: property=<id> <commit> <what>`"""
    res = {"open": [], "fixed": []}
    p = os.path.join(VERIF, "known_findings.txt")
    if not os.path.exists(p):
        return res
    for line in open(p):
        line = line.strip()
        if not line or line.startswith("#"):
            continue
        m = re.match(r"(open|fixed):\s+property=(\S+)\s+(\S+)\s+(.*)", line)
        if m:
            res[m.group(1)].append({"property": m.group(2), "key": m.group(3), "what": m.group(4)})
    return res
