"""E3: execution of real generated code (harness/src/bin/mkexec.rs writes a crate of generated modules +
drivers over instrumented field types; built in dev with the verification hooks and in release without)."""
import json
import os
import re
import shutil
import time

from .common import CACHE, COQ, HARNESS, HOOK_CFG, REPO, TARGET, VERIF, Broken, ENV, file_hash, harness_build, sh
from . import srcscan

MKEXEC = os.path.join(TARGET, "debug", "mkexec")


def corpus_file():
    return os.path.join(VERIF, "corpus", "exec.spec")


def _build_and_run(crate, profile, hooks):
    env = dict(ENV)
    tdir = os.path.join(CACHE, "target_exec_%s%s" % (profile, "_hooks" if hooks else ""))
    env["CARGO_TARGET_DIR"] = tdir
    if hooks:
        env["RUSTFLAGS"] = "--cfg %s" % HOOK_CFG
    cmd = "cargo build --offline %s" % ("--release" if profile == "release" else "")
    rc, out = sh(cmd, cwd=crate, env=env, timeout=3000)
    if rc != 0:
        return {"built": False, "build_output": out, "lines": []}
    binary = os.path.join(tdir, "release" if profile == "release" else "debug", "execcrate")
    rc, o = sh([binary], timeout=1800, env=env)
    return {"built": True, "rc": rc, "lines": o.splitlines(), "build_output": ""}


# ---- mapping of builder histories (E1 / E2 format, synthetic shapes) to executable definitions
# shape (size, align) -> palette indices of mkexec.rs (droppable first: ledger-tracked)
SHAPES = {(1, 1): [0], (2, 2): [1], (4, 4): [10, 2], (8, 8): [3, 14], (3, 1): [4], (24, 8): [5, 8, 13], (0, 1): [6, 9], (8, 4): [11], (0, 8): [12]}
COPY_TYPES = {0, 1, 2, 3, 4, 9, 11, 12, 14}


def approx_shape(size, align):
    """a palette type with the same qualitative shape (zero-size / size <= alignment / size > alignment, alignment class)"""
    if size == 0:
        return [12] if align >= 2 else [6, 9]
    a = max(x for x in (1, 2, 4, 8, 16) if x <= max(align, 1))
    if size <= a:
        return {1: [0], 2: [1], 4: [10, 2], 8: [3], 16: [7]}[a]
    return {1: [4], 2: [4], 4: [11], 8: [5, 8], 16: [5, 8]}[a]


def history_to_spec(history, variant=0, approx=False):
    """E1/E2 request text -> exec spec, or None when a shape has no palette type.  Requests the builder refuses
    (clashing names, stale removals) are dropped: they consume no identifier."""
    out, live, names, nxt, pending_rm = [], {}, {}, 0, set()
    closed = False
    for t in history.split():
        p = t.split(":")
        if p[0] == "A":
            nm, size, align, uninit = int(p[1]), int(p[2]), int(p[3]), p[4] == "1"
            if nm in names.values():
                continue
            cands = SHAPES.get((size, align)) or (approx_shape(size, align) if approx else None)
            if not cands:
                return None
            ty = cands[(nxt + variant) % len(cands)]
            out.append("A:%d:%d:%d" % (nm, ty, 1 if (uninit and ty in COPY_TYPES) else 0))
            names[nxt] = nm
            live[nxt] = True
            nxt += 1
        elif p[0] == "R":
            i = int(p[1])
            if i in names and i not in pending_rm:
                out.append("R:%d" % i)
                pending_rm.add(i)
                del names[i]
        elif p[0] == "C":
            st = int(p[1])
            if st > 3:
                return None
            out.append("C:%d" % st)
            pending_rm = set()
            closed = True
    if not closed or not out or not out[-1].startswith("C:"):
        out.append("C:0")
    return " ".join(out)


def search_specs(histories, tier, seed):
    """runs the E3 scenarios on the definitions named by diverging / failing builder histories"""
    specs = []
    hs = sorted(set(histories), key=len)
    for approx in (False, True):
        for h in hs:
            if len(h.split()) > 40:
                continue
            for variant in (0, 1):
                sp = history_to_spec(h, variant, approx)
                if sp and sp not in specs:
                    specs.append(sp)
        if len(specs) >= 30:
            break
    specs = specs[:40]
    # continuations: one more variant on top of the point where the model and the implementation part ways
    # (a difference in list order or in a free gap only becomes a wrong offset at the next close)
    ext = []
    for sp in specs[:16]:
        for ty, st in ((2, 0), (0, 1), (3, 0), (1, 1)):
            e = "%s A:%d:%d:0 C:%d" % (sp, 90 + ty, ty, st)
            if e not in ext:
                ext.append(e)
    specs += ext
    if not specs:
        return None
    d = os.path.join(CACHE, "run", "e3-search")
    os.makedirs(d, exist_ok=True)
    f = os.path.join(d, "search.spec")
    open(f, "w").write("\n".join(specs) + "\n")
    return run_e3(tier, seed, specfile=f, count=0)


def run_e3(tier, seed, specfile=None, count=None):
    key = file_hash([os.path.join(REPO, "truc", "src"), os.path.join(REPO, "truc_runtime", "src"), os.path.join(REPO, "Cargo.lock"),
                     os.path.join(HARNESS, "src"), os.path.join(HARNESS, "Cargo.toml"), specfile or corpus_file(),
                     os.path.join(VERIF, "vlib", "e3.py")], extra="%s/%s/%s" % (tier, seed, count))
    out = os.path.join(CACHE, "run", "e3-%s" % key)
    resf = os.path.join(out, "result.json")
    if os.path.exists(resf):
        r = json.load(open(resf))
        r["cached"] = True
        return r
    t0 = time.time()
    shutil.rmtree(out, ignore_errors=True)
    os.makedirs(out)
    ok, o = harness_build(["mkexec"])
    if not ok:
        raise Broken("harness (mkexec) does not build against /repo:\n" + o[-3000:])
    if count is None:
        count = 170 if tier == "thorough" else 46
    _, prim, _ = srcscan.scan_runtime()
    write_aligned = prim.get("write", ("", ""))[1] != "Unaligned"
    crate = os.path.join(out, "crate")
    res = {"tier": tier, "seed": seed, "oracle": [], "counts": {}, "cached": False, "broken": []}
    scen = {}
    specs = {}

    def add(prop, tag, k, what):
        if sum(1 for x in res["oracle"] if x["property"] == prop) < 25:
            res["oracle"].append({"property": prop, "profile": tag, "module": k, "spec": specs.get(k, "?"), "what": what})

    for profile, hooks in (("dev", True), ("release", False)):
        tag = "%s%s" % (profile, "+hooks" if hooks else "")
        skip_mod, skip_ao = set(), set()
        r = None
        for attempt in range(4):
            shutil.rmtree(os.path.join(crate, "src"), ignore_errors=True)
            rc, o = sh([MKEXEC, "--out", crate, "--seed", str(seed), "--count", str(count), "--file", specfile or corpus_file(),
                        "--write-needs-alignment", "1" if write_aligned else "0",
                        "--skip-mod", ",".join(map(str, sorted(skip_mod))), "--skip-andout", ",".join(map(str, sorted(skip_ao)))], timeout=600)
            if rc != 0:
                # the generator panicked on a definition the builder accepted, or the harness is out of date
                raise Broken("mkexec failed:\n" + o[-3000:])
            shutil.copy(os.path.join(REPO, "Cargo.lock"), os.path.join(crate, "Cargo.lock"))
            for line in open(os.path.join(crate, "index.txt")):
                k, spec = line.strip().split(" ", 1)
                specs[int(k)] = spec
            panicked = set()
            pf = os.path.join(crate, "panics.txt")
            if os.path.exists(pf):
                for line in open(pf):
                    k, _, msg = line.strip().partition(" ")
                    if k.isdigit():
                        panicked.add(int(k))
                        if attempt == 0:
                            add("C13", tag, int(k), "building the definition or generating its code panicked: %s" % msg[:300])
            skip_mod |= panicked
            r = _build_and_run(crate, profile, hooks)
            if r["built"]:
                break
            # which generated modules (or uses of their interface) do not compile?
            # errors only (warnings of other modules also carry `--> src/m<k>.rs` lines)
            errs = re.findall(r"(error(?:\[E\d+\])?: [^\n]+)\n\s+--> src/(m|d)(\d+)\.rs", r["build_output"])
            bad = set(int(k) for _, kind, k in errs if kind == "m")
            drv = set(int(k) for _, kind, k in errs if kind == "d") - bad
            first = {}
            for msg, kind, k in errs:
                first.setdefault(int(k), msg)
            if not bad and not drv:
                res["broken"].append("the execution crate does not build (%s): %s" % (tag, r["build_output"][-1500:]))
                break
            for m in sorted(bad):
                add("C13", tag, m, "the generated module does not compile: %s" % first.get(m, "?"))
            for m in sorted(drv):
                if m in skip_ao:
                    add("C13", tag, m, "code using the generated interface as documented does not compile: %s" % first.get(m, "?"))
                    skip_mod.add(m)
                else:
                    add("C05", tag, m, "the conversion that returns the removed data does not offer them as documented "
                                       "(code reading every removed field of the result does not compile): %s" % first.get(m, "?"))
                    skip_ao.add(m)
            skip_mod |= bad
        if r is None or not r["built"]:
            continue
        done = set()

        def parse(lines):
            for line in lines:
                m = re.match(r"FAIL (\d+) (C\d\d) (.*)$", line)
                if m:
                    add(m.group(2), tag, int(m.group(1)), m.group(3))
                    continue
                m = re.match(r"DONE (\d+) (\d+)$", line)
                if m:
                    done.add(int(m.group(1)))
                    scen[int(m.group(1))] = int(m.group(2))
        parse(r["lines"])
        expected = set(specs) - skip_mod
        if done != expected:
            # the process died: run the remaining modules one by one to attribute the crash
            env = dict(ENV)
            binary = os.path.join(CACHE, "target_exec_%s%s" % (profile, "_hooks" if hooks else ""), "release" if profile == "release" else "debug", "execcrate")
            for k in sorted(expected - done):
                rc, o = sh([binary, str(k)], timeout=600, env=env)
                parse(o.splitlines())
                if k not in done:
                    add("C07", tag, k, "executing the generated code of this definition killed the process (exit %s): memory corruption or abort" % rc)
                    add("C04", tag, k, "the process died (exit %s) while records of this definition were built, read and unpacked: the values put in were not given back" % rc)
        res["counts"][tag] = len(done)
    res["modules"] = len(specs)
    res["scenarios"] = sum(scen.values())
    res["distinct"] = len(set(specs.values()))
    res["samples"] = [{"definition": specs[k], "scenarios": scen.get(k, 0)} for k in list(specs)[:3] + list(specs)[-2:]]
    res["wall_s"] = time.time() - t0
    json.dump(res, open(resf, "w"))
    shutil.rmtree(os.path.join(crate, "src"), ignore_errors=True)
    return res
