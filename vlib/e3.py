"""E3: execution of real generated code (harness/src/bin/mkexec.rs writes a crate of generated modules +
drivers over instrumented field types; built in dev with the verification hooks and in release without)."""
import json
import os
import re
import shutil
import time

from .common import CACHE, COQ, HARNESS, HOOK_CFG, REPO, TARGET, VERIF, Broken, ENV, file_hash, harness_build, sh
from . import srcscan

MKEXEC = os.path.join(TARGET, "debug", "mkexec")


def corpus_file():
    return os.path.join(VERIF, "corpus", "exec.spec")


def _build_and_run(crate, profile, hooks):
    env = dict(ENV)
    tdir = os.path.join(CACHE, "target_exec_%s%s" % (profile, "_hooks" if hooks else ""))
    env["CARGO_TARGET_DIR"] = tdir
    if hooks:
        env["RUSTFLAGS"] = "--cfg %s" % HOOK_CFG
    cmd = "cargo build --offline %s" % ("--release" if profile == "release" else "")
    rc, out = sh(cmd, cwd=crate, env=env, timeout=3000)
    if rc != 0:
        return {"built": False, "build_output": out, "lines": []}
    binary = os.path.join(tdir, "release" if profile == "release" else "debug", "execcrate")
    rc, o = sh([binary], timeout=1800, env=env)
    return {"built": True, "rc": rc, "lines": o.splitlines(), "build_output": ""}


def run_e3(tier, seed):
    key = file_hash([os.path.join(REPO, "truc", "src"), os.path.join(REPO, "truc_runtime", "src"), os.path.join(REPO, "Cargo.lock"),
                     os.path.join(HARNESS, "src"), os.path.join(HARNESS, "Cargo.toml"), corpus_file(),
                     os.path.join(VERIF, "vlib", "e3.py")], extra="%s/%s" % (tier, seed))
    out = os.path.join(CACHE, "run", "e3-%s" % key)
    resf = os.path.join(out, "result.json")
    if os.path.exists(resf):
        r = json.load(open(resf))
        r["cached"] = True
        return r
    t0 = time.time()
    shutil.rmtree(out, ignore_errors=True)
    os.makedirs(out)
    ok, o = harness_build(["mkexec"])
    if not ok:
        raise Broken("harness (mkexec) does not build against /repo:\n" + o[-3000:])
    count = 160 if tier == "thorough" else 36
    prim, _ = srcscan.scan_data()
    write_aligned = prim.get("write", ("", ""))[1] != "Unaligned"
    crate = os.path.join(out, "crate")
    res = {"tier": tier, "seed": seed, "oracle": [], "counts": {}, "cached": False, "broken": []}
    scen = {}
    specs = {}

    def add(prop, tag, k, what):
        if sum(1 for x in res["oracle"] if x["property"] == prop) < 25:
            res["oracle"].append({"property": prop, "profile": tag, "module": k, "spec": specs.get(k, "?"), "what": what})

    for profile, hooks in (("dev", True), ("release", False)):
        tag = "%s%s" % (profile, "+hooks" if hooks else "")
        skip_mod, skip_ao = set(), set()
        r = None
        for attempt in range(4):
            shutil.rmtree(os.path.join(crate, "src"), ignore_errors=True)
            rc, o = sh([MKEXEC, "--out", crate, "--seed", str(seed), "--count", str(count), "--file", corpus_file(),
                        "--write-needs-alignment", "1" if write_aligned else "0",
                        "--skip-mod", ",".join(map(str, sorted(skip_mod))), "--skip-andout", ",".join(map(str, sorted(skip_ao)))], timeout=600)
            if rc != 0:
                # the generator panicked on a definition the builder accepted, or the harness is out of date
                raise Broken("mkexec failed:\n" + o[-3000:])
            shutil.copy(os.path.join(REPO, "Cargo.lock"), os.path.join(crate, "Cargo.lock"))
            for line in open(os.path.join(crate, "index.txt")):
                k, spec = line.strip().split(" ", 1)
                specs[int(k)] = spec
            r = _build_and_run(crate, profile, hooks)
            if r["built"]:
                break
            # which generated modules (or uses of their interface) do not compile?
            # errors only (warnings of other modules also carry `--> src/m<k>.rs` lines)
            errs = re.findall(r"(error(?:\[E\d+\])?: [^\n]+)\n\s+--> src/(m|d)(\d+)\.rs", r["build_output"])
            bad = set(int(k) for _, kind, k in errs if kind == "m")
            drv = set(int(k) for _, kind, k in errs if kind == "d") - bad
            first = {}
            for msg, kind, k in errs:
                first.setdefault(int(k), msg)
            if not bad and not drv:
                res["broken"].append("the execution crate does not build (%s): %s" % (tag, r["build_output"][-1500:]))
                break
            for m in sorted(bad):
                add("C13", tag, m, "the generated module does not compile: %s" % first.get(m, "?"))
            for m in sorted(drv):
                if m in skip_ao:
                    add("C13", tag, m, "code using the generated interface as documented does not compile: %s" % first.get(m, "?"))
                    skip_mod.add(m)
                else:
                    add("C05", tag, m, "the conversion that returns the removed data does not offer them as documented "
                                       "(code reading every removed field of the result does not compile): %s" % first.get(m, "?"))
                    skip_ao.add(m)
            skip_mod |= bad
        if r is None or not r["built"]:
            continue
        done = set()

        def parse(lines):
            for line in lines:
                m = re.match(r"FAIL (\d+) (C\d\d) (.*)$", line)
                if m:
                    add(m.group(2), tag, int(m.group(1)), m.group(3))
                    continue
                m = re.match(r"DONE (\d+) (\d+)$", line)
                if m:
                    done.add(int(m.group(1)))
                    scen[int(m.group(1))] = int(m.group(2))
        parse(r["lines"])
        expected = set(specs) - skip_mod
        if done != expected:
            # the process died: run the remaining modules one by one to attribute the crash
            env = dict(ENV)
            binary = os.path.join(CACHE, "target_exec_%s%s" % (profile, "_hooks" if hooks else ""), "release" if profile == "release" else "debug", "execcrate")
            for k in sorted(expected - done):
                rc, o = sh([binary, str(k)], timeout=600, env=env)
                parse(o.splitlines())
                if k not in done:
                    add("C07", tag, k, "executing the generated code of this definition killed the process (exit %s): memory corruption or abort" % rc)
        res["counts"][tag] = len(done)
    res["modules"] = len(specs)
    res["scenarios"] = sum(scen.values())
    res["distinct"] = len(set(specs.values()))
    res["samples"] = [{"definition": specs[k], "scenarios": scen.get(k, 0)} for k in list(specs)[:3] + list(specs)[-2:]]
    res["wall_s"] = time.time() - t0
    json.dump(res, open(resf, "w"))
    shutil.rmtree(os.path.join(crate, "src"), ignore_errors=True)
    return res
