"""T1/T2: translators from the source text of /repo to coq/Current/*.v (regenerated on every run).

They extract the handful of token-level facts the models branch on.  An unrecognised shape yields the
value `false` for the fact (and a comment saying what was not recognised), which makes the
corresponding `*_current` obligation fail: a broken tie, handled by the checks like any other."""
import os
import re

import shutil
import subprocess

from .common import CACHE, COQ, ENV, HARNESS, REPO


def run_rtscan():
    """builds (first time / when its source changed) and runs the syn-based translator harness/rtscan on /repo"""
    crate = os.path.join(HARNESS, "rtscan")
    tdir = os.path.join(CACHE, "target_rtscan")
    lock = os.path.join(REPO, "Cargo.lock")
    if os.path.exists(lock):
        shutil.copy(lock, os.path.join(crate, "Cargo.lock"))
    env = dict(ENV)
    env["CARGO_TARGET_DIR"] = tdir
    b = subprocess.run("cargo build --offline -q", shell=True, cwd=crate, env=env, stdout=subprocess.PIPE, stderr=subprocess.STDOUT, timeout=1500)
    if b.returncode != 0:
        return None, ["rtscan does not build: " + b.stdout.decode(errors="replace")[-400:]]
    r = subprocess.run([os.path.join(tdir, "debug", "rtscan"), REPO], stdout=subprocess.PIPE, stderr=subprocess.STDOUT, timeout=120)
    if r.returncode != 0:
        return None, ["rtscan failed: " + r.stdout.decode(errors="replace")[-400:]]
    return r.stdout.decode(errors="replace").splitlines(), []


def strip_comments(src):
    src = re.sub(r"//[^\n]*", "", src)
    return re.sub(r"/\*.*?\*/", "", src, flags=re.S)


def fn_body(src, name):
    m = re.search(r"\bfn\s+%s\b" % re.escape(name), src)
    if not m:
        return None
    i = src.index("{", m.end())
    depth, j = 0, i
    while j < len(src):
        if src[j] == "{":
            depth += 1
        elif src[j] == "}":
            depth -= 1
            if depth == 0:
                return src[i:j + 1]
        j += 1
    return None


def scan_convert_regex():
    notes = []
    path = os.path.join(REPO, "truc_runtime", "src", "convert.rs")
    try:
        src = strip_comments(open(path).read())
    except OSError:
        return dict(guard_size=False, guard_align=False, inc_before_call=False, free_on_failure=False, same_payload=False), ["convert.rs not found"]
    body = fn_body(src, "try_convert_vec_in_place") or ""
    flat = re.sub(r"\s+", " ", body)
    own = flat.find("ManuallyDrop::new(input)")
    def guard(kind):
        m = re.search(r"assert_eq!\( std::mem::%s::<T>\(\), std::mem::%s::<U>\(\)," % (kind, kind), flat)
        if not m:
            notes.append("no assert_eq! on %s::<T>() / %s::<U>()" % (kind, kind))
            return False
        # nothing but the other assertion may precede it (no early return / fast path)
        before = flat[1:m.start()]
        before = re.sub(r"assert_eq!\( std::mem::\w+::<T>\(\), std::mem::\w+::<U>\(\), \"[^\"]*\", type_name::<T>\(\), type_name::<U>\(\) \);", "", before).strip()
        if before:
            notes.append("code precedes the %s assertion: %s" % (kind, before[:80]))
            return False
        return own > m.start()
    gs, ga = guard("size_of"), guard("align_of")
    inc = flat.find("first_ttt += 1")
    call = flat.find("convert( ttt")
    if call < 0:
        call = flat.find("convert(ttt")
    inc_before = 0 <= inc < call
    if not inc_before:
        notes.append("`first_ttt += 1` does not precede the converter call")
    # the two failure arms
    m_err = re.search(r"Ok\(Err\(err\)\) => \{(.*?)\} Err\(err\) => \{(.*?)\} \} \}$", flat)
    free = same = False
    if m_err:
        a_err, a_panic = m_err.group(1), m_err.group(2)
        rel = lambda a: "clean_on_error();" in a and "manually_drop.set_len(0)" in a and "ManuallyDrop::drop(&mut manually_drop)" in a \
            and a.find("clean_on_error();") < a.find("ManuallyDrop::drop(&mut manually_drop)")
        free = rel(a_err) and rel(a_panic)
        same = a_err.strip().endswith("Err(err)") and "resume_unwind(err)" in a_panic and "panic!" not in a_panic
        if not free:
            notes.append("a failure arm does not release the buffer after the clean-up")
        if not same:
            notes.append("a failure arm does not hand back the converter's own error / panic payload")
    else:
        notes.append("failure arms not recognised")
    return dict(guard_size=gs, guard_align=ga, inc_before_call=inc_before, free_on_failure=free, same_payload=same), notes


def probe_align_assertions(notes):
    from .common import TARGET, harness_build, sh
    ok, o = harness_build(["gendump"])
    if not ok:
        notes.append("gendump does not build: alignment-assertion probe not run")
        return False
    d = os.path.join(CACHE, "run", "t2-probe")
    os.makedirs(d, exist_ok=True)
    hf = os.path.join(d, "probe.hist")
    open(hf, "w").write("A:0:8:8:0:2 A:1:2:2:0:2 C:0 R:0 C:0\n")
    rc, out = sh([os.path.join(TARGET, "debug", "gendump"), "--file", hf, "--configs", "-"], timeout=120)
    got = set(l.strip() for l in out.splitlines() if l.startswith("AALIGN"))
    okp = rc == 0 and got == {"AALIGN 66 2", "AALIGN 264 8"}
    if not okp:
        notes.append("alignment assertions of the probe definition: %s" % sorted(got))
    return okp


def scan_flags():
    """T2: source-shape facts of the builder / generator"""
    notes = []
    f = {}
    try:
        simple = strip_comments(open(os.path.join(REPO, "truc/src/record/definition/builder/native/variant/simple.rs")).read())
        body = fn_body(simple, "compute_initial_gaps") or ""
        f["skip_zst"] = bool(re.search(r"size\(\)\s*==\s*0", body))
    except OSError:
        f["skip_zst"] = True
        notes.append("simple.rs not found")
    try:
        d = strip_comments(open(os.path.join(REPO, "truc/src/record/definition/mod.rs")).read())
        body = re.sub(r"\s+", " ", fn_body(d, "max_size") or "")
        f["max_size_over_variants"] = "self.variants()" in body and "self.datum_definitions()" not in body
    except OSError:
        f["max_size_over_variants"] = False
    try:
        g = strip_comments(open(os.path.join(REPO, "truc/src/generator/mod.rs")).read())
        # behavioural, so that no rewriting of the generator's source disturbs it: the module generated for a fixed
        # definition (a u64-like datum removed before the last variant, a u16-like one kept) asserts the alignment
        # of BOTH types
        f["align_assertions"] = probe_align_assertions(notes)
        srcs = [g, simple]
        for fn in ("fragment/record_impl.rs", "fragment/record.rs"):
            srcs.append(strip_comments(open(os.path.join(REPO, "truc/src/generator", fn)).read()))
        f["ordered_only"] = not any(re.search(r"\bHash(Map|Set)\b", x) for x in srcs)
    except OSError:
        f["align_assertions"] = False
        f["ordered_only"] = False
    return f, notes


def scan_data_regex():
    """(superseded by rtscan) T1: access kinds of the four primitives of RecordMaybeUninit"""
    notes = []
    path = os.path.join(REPO, "truc_runtime", "src", "data.rs")
    prim = {}
    try:
        src = strip_comments(open(path).read())
    except OSError:
        src = ""
    for name in ("read", "write", "get", "get_mut"):
        body = re.sub(r"\s+", " ", fn_body(src, name) or "")
        origin = "Unique" if "as_mut_ptr()" in body else ("SharedRO" if "as_ptr()" in body else "Unknown")
        if name in ("read",):
            access = "Unaligned" if "read_unaligned" in body else ("Aligned" if "ptr::read(" in body else "Unknown")
        elif name == "write":
            access = "Unaligned" if "write_unaligned" in body else ("Aligned" if "ptr::write(" in body else "Unknown")
        else:
            access = "Reference" if ("&*" in body or "&mut *" in body) else "Unknown"
        if "Unknown" in (origin, access):
            notes.append("primitive %s not recognised: %s" % (name, body[:100]))
        prim[name] = (origin, access)
    return prim, notes


def probe_vec_flags(notes):
    """the five facts of the vector conversion established by EXECUTING it on five small cases (dev build of
    harness/src/bin/vecdrv.rs): used for the facts whose source shape the translator does not recognise"""
    from .common import TARGET, harness_build, sh
    ok, o = harness_build(["vecdrv"])
    if not ok:
        notes.append("vecdrv does not build: the probe of the vector conversion was not run")
        return {}
    cases = "g1 m_size_up 1 0 0\ng2 m_align_up 1 0 0\ne1 tok 3 1 0 4 0\np1 tok 3 1 0 6 0\ni1 tok 2 0 0 10\n"
    rc, out = sh([os.path.join(TARGET, "debug", "vecdrv")], stdin=cases.encode(), timeout=120)
    res = {}
    for line in out.splitlines():
        m = re.match(r"(\w+) ([\d,]+) # ?(.*)$", line)
        if m:
            res[m.group(1)] = ([int(x) for x in m.group(2).split(",")], m.group(3).strip())
    def ok_case(k, head):
        return k in res and res[k][0][:len(head)] == head and res[k][1] == ""
    return {"guard_size": ok_case("g1", [4]), "guard_align": ok_case("g2", [4]),
            "free_on_failure": ok_case("e1", [1, 7001]) and ok_case("p1", [2, 9001]),
            "same_payload": ok_case("e1", [1, 7001]) and ok_case("p1", [2, 9001]),
            "inc_before_call": ok_case("i1", [2, 9001])}


def probe_wrapper(notes):
    """convert_vec_in_place against try_convert_vec_in_place on probe cases (vecdrv runs both on every script without an
    Err item and reports any difference in outcome, outputs, calls, drops, allocation): empty input with spare capacity,
    refused pairs with and without elements, an ordinary conversion with an abandoned element, a panicking converter"""
    from .common import TARGET, harness_build, sh
    ok, o = harness_build(["vecdrv"])
    if not ok:
        notes.append("vecdrv does not build: the probe of the wrapper was not run")
        return False
    cases = "w1 tok 0 3\nw2 m_size_up 0 2\nw3 m_align_up 2 0 0 0\nw4 tok 3 1 0 2 0\nw5 tok 3 1 0 6 0\nw6 zst 2 0 0 0\n"
    rc, out = sh([os.path.join(TARGET, "debug", "vecdrv")], stdin=cases.encode(), timeout=120)
    seen = 0
    for line in out.splitlines():
        m = re.match(r"(\w+) ([\d,]+) # ?(.*)$", line)
        if m:
            seen += 1
            if m.group(3).strip():
                return False
    return seen == 6


def scan_runtime():
    """T1: facts of truc_runtime/src/{data,convert}.rs through the syn-based translator"""
    lines, notes = run_rtscan()
    conv = dict(guard_size=False, guard_align=False, inc_before_call=False, free_on_failure=False, same_payload=False)
    prim = {n: ("Unknown", "Unknown") for n in ("read", "write", "get", "get_mut")}
    wrapper = False
    for l in lines or []:
        w = l.split()
        if not w:
            continue
        if w[0] == "note":
            notes.append(l[5:][:300])
        elif w[0] == "data" and len(w) == 4:
            prim[w[1]] = (w[2].split("=")[1], w[3].split("=")[1])
        elif w[0] == "convert":
            for kv in w[1:]:
                k, v = kv.split("=")
                conv[k] = v == "1"
        elif w[0] == "wrapper" and len(w) == 2:
            wrapper = w[1] == "delegates=1"
    if not all(conv.values()):
        # a fact the translator could not read off the source shape (a restructured control flow looks the same as
        # a wrong one to it) is established by execution instead; what the probe refutes stays false
        probe = probe_vec_flags(notes)
        for k in conv:
            if not conv[k] and probe.get(k):
                conv[k] = True
                notes.append("convert.rs: `%s` not recognised in the source shape; established by executing the probe cases" % k)
    if not wrapper:
        # same rule for the wrapper: a shape the translator does not read is decided by executing probe cases
        if probe_wrapper(notes):
            wrapper = True
            notes.append("convert.rs: the delegation of convert_vec_in_place not recognised in the source shape; established by executing the probe cases")
    conv["wrapper_delegates"] = wrapper
    return conv, prim, notes


def coq_bool(b):
    return "true" if b else "false"


def write_current():
    d = os.path.join(COQ, "Current")
    os.makedirs(d, exist_ok=True)
    conv, prim, n1 = scan_runtime()
    flags, n2 = scan_flags()
    n3 = []
    lines = ["(* GENERATED on every run by vlib/srcscan.py from the source text of /repo. Do not edit. *)",
             "From Truc.Model Require VecConv Exec.", "Import VecConv.", ""]
    for n in n1 + n2 + n3:
        lines.append("(* note: %s *)" % n.replace("*)", "* )"))
    lines.append("Definition vec_flags : flags := mkFlags %s %s %s %s %s." % tuple(
        coq_bool(conv[k]) for k in ("guard_size", "guard_align", "inc_before_call", "free_on_failure", "same_payload")))
    lines.append("Definition wrapper_delegates : bool := %s." % coq_bool(conv.get("wrapper_delegates", False)))
    for k, v in flags.items():
        lines.append("Definition %s : bool := %s." % (k, coq_bool(v)))
    lines.append("Inductive origin := Unique | SharedRO | UnknownOrigin.")
    lines.append("Inductive access := Aligned | Unaligned | Reference | UnknownAccess.")
    for name, (o, a) in prim.items():
        lines.append("Definition prim_%s : origin * access := (%s, %s)." % (
            name, o if o != "Unknown" else "UnknownOrigin", a if a != "Unknown" else "UnknownAccess"))
    w_o, w_a = prim.get("write", ("Unknown", "Unknown"))
    gm_o, _ = prim.get("get_mut", ("Unknown", "Unknown"))
    lines.append("(* the facts of data.rs as the abstract machine reads them *)")
    lines.append("Definition exec_rt : Exec.runtime := Exec.mkRt %s %s %s." % (
        coq_bool(w_a != "Unaligned"), coq_bool(w_o == "Unique"), coq_bool(gm_o == "Unique")))
    text = "\n".join(lines) + "\n"
    p = os.path.join(d, "Runtime.v")
    if not os.path.exists(p) or open(p).read() != text:
        open(p, "w").write(text)
    return {"vec_flags": conv, "flags": flags, "primitives": prim, "notes": n1 + n2 + n3}
