"""E1: builder differential (harness/src/bin/bdiff.rs against coq/Model/{Layout,Builder,Observe}.v)."""
import glob
import json
import random
import os
import re
import shutil
import time
from concurrent.futures import ThreadPoolExecutor

from .common import (CACHE, COQ, EXTRACT, HARNESS, REPO, TARGET, VERIF, Broken, extract_build, file_hash,
                     harness_build, log, sh)

BDIFF = os.path.join(TARGET, "debug", "bdiff")

# position of the observations of one history: the k-th request -> k, then the final block
FINAL_NAMES = ["build", "max_size", "max_type_align", "display",
               "convert->native/simple", "convert->native/basic", "convert->native/append_data",
               "convert->native/append_data_reverse", "convert->generic/append_data",
               "convert->generic/append_data_reverse"]


def plan(tier):
    if tier == "thorough":
        return {"random": 200000, "enum": 0, "enum_max_adds": 2, "coq_random": 320, "search_random": 200000}
    return {"random": 6000, "enum": 6000, "enum_max_adds": 2, "coq_random": 160, "search_random": 30000}


def _run_bdiff(args, out):
    os.makedirs(out, exist_ok=True)
    rc, o = sh([BDIFF] + args + ["--out", out], timeout=3000)
    if rc != 0:
        raise Broken("bdiff failed: %s" % o[-2000:])


def _model_obs(out):
    """the extracted model on every history of the run, one line of observations per history; the histories are
    independent, so the file is cut into 16 pieces that run side by side"""
    hs = open(os.path.join(out, "histories.txt")).read().splitlines()
    if len(hs) < 64:
        rc, o = sh("%s/model_driver < %s/histories.txt > %s/model_obs.txt" % (EXTRACT, out, out), timeout=3000)
        if rc != 0:
            raise Broken("extracted model driver failed: %s" % o[-2000:])
        return
    n = 16
    per = -(-len(hs) // n)
    parts = []
    for k in range(n):
        chunk = hs[k * per:(k + 1) * per]
        if not chunk:
            continue
        f = os.path.join(out, "hist_part_%d.txt" % k)
        open(f, "w").write("\n".join(chunk) + "\n")
        parts.append((f, os.path.join(out, "model_part_%d.txt" % k), len(chunk)))

    def one(p):
        return sh("%s/model_driver < %s > %s" % (EXTRACT, p[0], p[1]), timeout=3000)
    with ThreadPoolExecutor(max_workers=n) as ex:
        results = list(ex.map(one, parts))
    for (rc, o) in results:
        if rc != 0:
            raise Broken("extracted model driver failed: %s" % o[-2000:])
    with open(os.path.join(out, "model_obs.txt"), "w") as w:
        for (f, g, cnt) in parts:
            lines = open(g).read().splitlines()
            if len(lines) != cnt:
                raise Broken("extracted model driver answered %d lines for %d histories" % (len(lines), cnt))
            w.write("\n".join(lines) + "\n")
            os.remove(f)
            os.remove(g)


def _diff(out, label):
    """compare observations.txt (implementation) with model_obs.txt (extracted model)"""
    diffs = []
    hs = open(os.path.join(out, "histories.txt")).read().splitlines()
    a = open(os.path.join(out, "observations.txt")).read().splitlines()
    b = open(os.path.join(out, "model_obs.txt")).read().splitlines()
    n = len(hs)
    for k in range(n):
        ia = a[k] if k < len(a) else "<missing>"
        ib = b[k] if k < len(b) else "<missing>"
        if ia != ib:
            pa, pb = ia.split(" | "), ib.split(" | ")
            nreq = len(hs[k].split())
            pos = next((i for i in range(max(len(pa), len(pb))) if i >= len(pa) or i >= len(pb) or pa[i] != pb[i]), 0)
            if pos < nreq:
                comp = "step"
                where = "request #%d (%s)" % (pos, hs[k].split()[pos])
            else:
                f = pos - nreq
                comp = FINAL_NAMES[f] if f < len(FINAL_NAMES) else "final"
                where = comp
            diffs.append({"source": label, "case": k, "history": hs[k], "component": comp, "where": where,
                          "implementation": pa[pos] if pos < len(pa) else "<none>",
                          "model": pb[pos] if pos < len(pb) else "<none>"})
    return n, diffs


def _oracle(out, label):
    res = []
    p = os.path.join(out, "oracle.jsonl")
    for line in open(p):
        line = line.strip()
        if line:
            d = json.loads(line)
            d["source"] = label
            res.append(d)
    return res


def _coq_cases(out):
    """evaluate the cases_<k>.v files inside Coq (vm_compute), 16 at a time"""
    files = sorted(glob.glob(os.path.join(out, "cases_*.v")))

    def one(f):
        rc, o = sh("timeout 900 coqc -q -noglob -Q %s/Model Truc.Model %s" % (COQ, f), cwd=out, timeout=1000)
        m = re.search(r"=\s*\((\d+)%nat,\s*\[(.*?)\]\)", o, re.S)
        if rc != 0 or not m:
            return f, None, o[-1500:]
        bad = [int(x.replace("%nat", "").strip()) for x in m.group(2).split(";") if x.strip()]
        return f, (int(m.group(1)), bad), ""
    total, bad, errs = 0, [], []
    with ThreadPoolExecutor(16) as ex:
        for f, r, o in ex.map(one, files):
            if r is None:
                errs.append((f, o))
            else:
                total += r[0]
                bad += r[1]
    return total, bad, errs


def corpus_file():
    return os.path.join(VERIF, "corpus", "builder.hist")


def run_e1(tier, seed):
    """Runs (or reuses) the E1 engine; returns the result dictionary."""
    key = file_hash([os.path.join(REPO, "truc", "src"), os.path.join(REPO, "Cargo.lock"),
                     os.path.join(HARNESS, "src", "bin", "bdiff.rs"), os.path.join(HARNESS, "src", "lib.rs"),
                     os.path.join(HARNESS, "src", "synth.rs"),
                     os.path.join(HARNESS, "Cargo.toml"),
                     os.path.join(COQ, "Model"), os.path.join(COQ, "extract"), corpus_file(),
                     os.path.join(VERIF, "vlib", "e1.py")], extra="%s/%s" % (tier, seed))
    out = os.path.join(CACHE, "run", "e1-%s" % key)
    resf = os.path.join(out, "result.json")
    if os.path.exists(resf):
        r = json.load(open(resf))
        r["cached"] = True
        return r
    t0 = time.time()
    shutil.rmtree(out, ignore_errors=True)
    os.makedirs(out)
    ok, o = harness_build(["bdiff"])
    if not ok:
        raise Broken("harness does not build against /repo:\n" + o[-3000:])
    ok, o = extract_build()
    if not ok:
        raise Broken("extraction failed:\n" + o[-3000:])
    pl = plan(tier)
    res = {"tier": tier, "seed": seed, "diffs": [], "oracle": [], "stats": {}, "counts": {}, "cached": False}
    runs = [("corpus", ["--mode", "file", "--file", corpus_file(), "--shards", "1"]),
            ("coq_random", ["--mode", "random", "--seed", str(seed + 7919), "--count", str(pl["coq_random"]), "--shards", "16"]),
            ("random", ["--mode", "random", "--seed", str(seed), "--count", str(pl["random"]), "--no-model", "--wide", "40"]),
            ("enum", ["--mode", "enum", "--seed", str(seed), "--count", str(pl["enum"]), "--max-adds", str(pl["enum_max_adds"]), "--no-model"])]
    # one huge history (more than a thousand live data in two consecutive variants: counts above any threshold of the
    # replay / layout code), compared with the extracted model only (never evaluated inside Coq)
    rng = random.Random(seed)
    nh = 1100 + rng.randrange(60)
    hh = ["A:%d:%d:%d:0:%d" % (i, sz, sz, i % 5) for i, sz in ((i, rng.choice([1, 2, 4, 4, 4, 8])) for i in range(nh))]
    hh.append("C:%d" % rng.choice([0, 2]))
    hh += ["R:%d" % i for i in rng.sample(range(nh), 6)]
    hh += ["A:%d:4:4:0:1" % (5000 + i) for i in range(8)]
    hh.append("C:2")
    hugef = os.path.join(out, "huge.hist")
    open(hugef, "w").write(" ".join(hh) + "\n")
    runs.append(("huge", ["--mode", "file", "--file", hugef, "--shards", "1", "--no-model"]))
    samples = []
    for label, args in runs:
        d = os.path.join(out, label)
        _run_bdiff(args, d)
        _model_obs(d)
        n, diffs = _diff(d, label)
        res["counts"][label] = n
        res["diffs"] += diffs[:50]
        res["counts"][label + "_diffs"] = len(diffs)
        res["oracle"] += _oracle(d, label)[:50]
        res["stats"][label] = json.load(open(os.path.join(d, "stats.json")))
        hs = open(os.path.join(d, "histories.txt")).read().splitlines()
        samples += [{"source": label, "history": h} for h in hs[:2]]
    # in-assistant evaluation (vm_compute) of the corpus and of the coq_random set
    coq_total, coq_bad, coq_errs = 0, [], []
    for label in ("corpus", "coq_random"):
        t, bad, errs = _coq_cases(os.path.join(out, label))
        coq_total += t
        hs = open(os.path.join(out, label, "histories.txt")).read().splitlines()
        coq_bad += [{"source": label + "/vm_compute", "case": k, "history": hs[k] if k < len(hs) else "?",
                     "component": "step", "where": "Observe.check_case = false", "implementation": "", "model": ""} for k in bad]
        coq_errs += errs
    res["coq_cases"] = coq_total
    res["coq_bad"] = coq_bad
    res["coq_errors"] = [e[1] for e in coq_errs][:3]
    res["samples"] = samples
    res["wall_s"] = time.time() - t0
    res["dir"] = out
    json.dump(res, open(resf, "w"))
    # keep the run directory small
    for label in ("random", "enum"):
        for f in ("observations.txt", "model_obs.txt"):
            try:
                os.remove(os.path.join(out, label, f))
            except OSError:
                pass
    return res


def search_e1(seed, count, props):
    """Search for a failing input with the implementation-only oracles (no model)."""
    d = os.path.join(CACHE, "run", "e1-search")
    shutil.rmtree(d, ignore_errors=True)
    found = []
    for mode, args in (("random", ["--mode", "random", "--seed", str(seed + 104729), "--count", str(count), "--wide", "25"]),
                       ("enum", ["--mode", "enum", "--seed", "0", "--count", "0", "--max-adds", "2"])):
        _run_bdiff(args + ["--no-model"], d)
        found += [x for x in _oracle(d, "search/" + mode) if x["property"] in props]
        if found:
            break
    shutil.rmtree(d, ignore_errors=True)
    return found


def replay_e1(history):
    d = os.path.join(CACHE, "run", "e1-replay")
    shutil.rmtree(d, ignore_errors=True)
    os.makedirs(d)
    open(os.path.join(d, "h.txt"), "w").write(history + "\n")
    ok, o = harness_build(["bdiff"])
    if not ok:
        raise Broken(o[-2000:])
    extract_build()
    _run_bdiff(["--mode", "file", "--file", os.path.join(d, "h.txt"), "--no-model"], d)
    _model_obs(d)
    n, diffs = _diff(d, "replay")
    return {"diffs": diffs, "oracle": _oracle(d, "replay"),
            "observations": open(os.path.join(d, "observations.txt")).read().strip()}


def shrink_e1(history, props, max_rounds=60, budget_s=300):
    """delta debugging on the requests of a failing history: any sub-sequence is a legitimate input (requests the
    builder refuses are refused), so a candidate is kept whenever one of the property oracles still fails on it.
    One bdiff run evaluates all the candidates of a round.  The effort is bounded in rounds, in seconds and in the work
    of one round (a failing history of a thousand requests is reported as it is rather than shrunk for an hour)."""
    t_start = time.time()
    ok, o = harness_build(["bdiff"])
    if not ok:
        return history, None
    d = os.path.join(CACHE, "run", "e1-shrink")

    def failing(cands):
        shutil.rmtree(d, ignore_errors=True)
        os.makedirs(d)
        open(os.path.join(d, "h.txt"), "w").write("\n".join(" ".join(c) for c in cands) + "\n")
        _run_bdiff(["--mode", "file", "--file", os.path.join(d, "h.txt"), "--no-model"], d)
        bad = {}
        for o in _oracle(d, "shrink"):
            if o["property"] in props:
                bad.setdefault(o["history"], o)
        return [bad.get(" ".join(c)) for c in cands]

    toks = history.split()
    first = failing([toks])[0]
    if first is None:
        return history, None
    best = first
    n = 2
    rounds = 0
    while len(toks) >= 2 and rounds < max_rounds and time.time() - t_start < budget_s:
        rounds += 1
        chunk = max(1, -(-len(toks) // n))
        cands = [toks[:i] + toks[i + chunk:] for i in range(0, len(toks), chunk)]
        cands = [c for c in cands if c]
        if sum(len(c) for c in cands) > 40000:
            # too much work for one round: try the first candidates only
            cands = cands[:max(2, 40000 // max(1, len(toks)))]
        res = failing(cands)
        hit = next((k for k, r in enumerate(res) if r is not None), None)
        if hit is not None:
            toks, best = cands[hit], res[hit]
            n = max(n - 1, 2)
        elif chunk == 1:
            break
        else:
            n = min(len(toks), n * 2)
    return " ".join(toks), best
