"""E4: in-place vector conversion (harness/src/bin/vecdrv.rs against coq/Model/{VecConv,VecScript}.v)."""
import itertools
import json
import os
import random
import re
import shutil
import time

from .common import CACHE, COQ, EXTRACT, HARNESS, REPO, TARGET, VERIF, Broken, extract_build, file_hash, harness_build, sh

VECDRV = os.path.join(TARGET, "debug", "vecdrv")
VECDRV_REL = os.path.join(TARGET, "release", "vecdrv")

# pair -> (sizeT, alignT, sizeU, alignU, T tracked, T has id, U tracked, U has id)
PAIRS = {
    "tok": (16, 8, 16, 8, 1, 1, 1, 1),
    "big": (64, 32, 64, 32, 1, 1, 1, 1),
    "zst": (0, 1, 0, 1, 1, 0, 1, 0),
    "u32": (4, 4, 4, 4, 0, 1, 0, 1),
    "p2t": (16, 8, 16, 8, 0, 1, 1, 1),   # plain input, output with drop glue
    "t2p": (16, 8, 16, 8, 1, 1, 0, 1),   # input with drop glue, plain output
    "m_align_up": (16, 8, 16, 16, 1, 1, 1, 1),
    "m_align_down": (16, 8, 16, 4, 1, 1, 0, 1),
    "m_size_up": (16, 8, 24, 8, 1, 1, 1, 1),
    "m_size_down": (16, 8, 8, 8, 1, 1, 1, 1),
    "m_to_zst": (16, 8, 0, 1, 1, 1, 1, 0),
    "m_from_zst": (0, 1, 1, 1, 1, 0, 0, 0),
    "m_both": (64, 32, 16, 8, 1, 1, 1, 1),
    "m_u32_align": (4, 4, 4, 2, 0, 1, 0, 0),
}
MAIN = ["tok", "big", "zst", "u32", "p2t", "t2p"]
MISMATCH = [p for p in PAIRS if p.startswith("m_")]


def scripts_exhaustive(n):
    """every script that matters for length n: a prefix of convert/abandon (with or without modifying the
    previous output), optionally ended by one of the 8 failing items"""
    for k in range(n + 1):
        for pre in itertools.product(range(4), repeat=k):
            if k == n:
                yield list(pre)
            else:
                for f in range(4, 12):
                    yield list(pre) + [f] + [0] * (n - k - 1)


def gen_cases(tier, seed):
    rng = random.Random(seed)
    nmax = 6 if tier == "thorough" else 4
    cases = []
    k = 0
    for n in range(nmax + 1):
        for sc in scripts_exhaustive(n):
            for pair in MAIN:
                cases.append(("e%d" % k, pair, n, (0, 3)[k % 2], sc))
                k += 1
    # large vectors and large allocations (thresholds in bytes or in element counts are out of reach of the small cases):
    # up to 3000 elements, mostly abandoned / all abandoned / all converted, failures at the last or at a random element,
    # up to 10000 slots of spare capacity around a few elements
    nlarge = 160 if tier == "thorough" else 48
    for _ in range(nlarge):
        n = rng.choice([64, 256, 400, 1024, 3000])
        p_ab = rng.choice([0.0, 0.5, 0.9, 0.97, 1.0])
        sc = [(2 if rng.random() < p_ab else 0) + (1 if rng.random() < 0.1 else 0) for _ in range(n)]
        r = rng.random()
        if r < 0.15:
            sc[-1] = rng.randrange(4, 12)
        elif r < 0.3:
            sc[rng.randrange(n)] = rng.randrange(4, 12)
        cases.append(("L%d" % k, rng.choice(MAIN), n, rng.choice([0, 1, 1000, 5000]), sc))
        k += 1
    for n in (0, 1, 3):
        for extra in (2000, 10000):
            for pair in ("tok", "big", "u32"):
                for c in (0, 2):
                    cases.append(("S%d" % k, pair, n, extra, [c] * n))
                    k += 1
    nrand = 3000 if tier == "thorough" else 600
    for _ in range(nrand):
        n = rng.choice([5, 6, 7, 8, 12, 20, 50, 200])
        sc = [rng.choice([0, 0, 0, 1, 2, 2, 3]) for _ in range(n)]
        if rng.random() < 0.6:
            sc[rng.randrange(n)] = rng.randrange(4, 12)
        cases.append(("r%d" % k, rng.choice(MAIN), n, rng.choice([0, 1, 9]), sc))
        k += 1
    mism = []
    for pair in MISMATCH:
        for n in (0, 1, 2, 3, 7):
            for extra in (0, 2):
                mism.append(("m%d" % k, pair, n, extra, [2] * n))  # all-abandon converter
                k += 1
    return cases, mism


def canon_model(pair, n, extra, enc):
    """what of the model's event list is observable for this element pair"""
    sT, aT, sU, aU, t_tr, t_id, u_tr, u_id = PAIRS[pair]
    has_alloc = sT != 0 and (n + extra) != 0
    i = enc.index(99)
    res, evs = enc[:i], enc[i + 1:]
    if res[0] == 0 and not u_id:
        res = res[:2] + [0] * (len(res) - 2)
    if res[0] in (1, 2, 3) and not t_id:
        res = [res[0], 7000 if res[0] == 1 else 9000]  # the payload is base + the element's id (0 when the type stores none)
    out = []
    j = 0
    while j < len(evs):
        c = evs[j]
        if c == 10:
            out += [10, evs[j + 1] if t_id else 0]
            j += 2
        elif c == 11:
            out += [11, evs[j + 1] if t_id else 0, evs[j + 2] if u_id else 0]
            j += 3
        elif c == 12:
            if t_tr:
                out += [12, evs[j + 1] if t_id else 0]
            j += 2
        elif c == 13:
            if u_tr:
                out += [13, evs[j + 1] if u_id else 0]
            j += 2
        elif c == 14:
            if has_alloc:
                out.append(14)
            j += 1
        else:
            raise Broken("bad model encoding %r" % enc)
    return res + [99] + out


def _run_impl(binary, cases, tag, out):
    """runs the driver on the cases; when the process dies on a case (memory corruption, abort), that case is recorded
    as dead and the driver is restarted on the cases after it (at most 60 times), so that one crashing case does not hide
    the others"""
    res = {}
    dead = {}
    rest = list(cases)
    rc_all, raw = 0, ""
    for _ in range(61):
        if not rest:
            break
        inp = "".join("%s %s %d %d %s\n" % (l, p, n, e, " ".join(map(str, sc))) for (l, p, n, e, sc) in rest)
        rc, o = sh([binary], stdin=inp.encode(), timeout=1800)
        raw = o
        for line in o.splitlines():
            m = re.match(r"(\S+) ([0-9,]+) # ?(.*)$", line)
            if m:
                res[m.group(1)] = ([int(x) for x in m.group(2).split(",")], m.group(3).strip())
        missing = [i for i, c in enumerate(rest) if c[0] not in res]
        if not missing:
            break
        rc_all = rc
        dead[rest[missing[0]][0]] = rc
        rest = rest[missing[0] + 1:]
    res["__dead__"] = dead
    return rc_all, res, raw


def _run_model(cases):
    inp = "".join("%s %d %d %d %d %d %s\n" % ((l,) + PAIRS[p][:4] + (n, " ".join(map(str, sc)))) for (l, p, n, e, sc) in cases)
    rc, o = sh([os.path.join(EXTRACT, "model_driver"), "vec"], stdin=inp.encode(), timeout=1800)
    if rc != 0:
        raise Broken("extracted model (vec) failed: " + o[-1000:])
    res = {}
    for line in o.splitlines():
        l, v = line.split(" ")
        res[l] = [int(x) for x in v.split(",")]
    return res


def prop_of(model_enc):
    return {0: "C08", 1: "C09", 2: "C09", 3: "C09", 4: "C10", 5: "C08"}[model_enc[0]]


def run_e4(tier, seed):
    key = file_hash([os.path.join(REPO, "truc_runtime", "src"), os.path.join(HARNESS, "src", "bin", "vecdrv.rs"),
                     os.path.join(COQ, "Model", "VecConv.v"), os.path.join(COQ, "Model", "VecScript.v"),
                     os.path.join(COQ, "extract"), os.path.join(VERIF, "vlib", "e4.py")], extra="%s/%s" % (tier, seed))
    out = os.path.join(CACHE, "run", "e4-%s" % key)
    resf = os.path.join(out, "result.json")
    if os.path.exists(resf):
        r = json.load(open(resf))
        r["cached"] = True
        return r
    t0 = time.time()
    shutil.rmtree(out, ignore_errors=True)
    os.makedirs(out)
    ok, o = harness_build(["vecdrv"])
    if not ok:
        raise Broken("harness (vecdrv) does not build against /repo:\n" + o[-3000:])
    rc, o = sh("cargo build --offline --release --bin vecdrv", cwd=HARNESS, timeout=1500)
    if rc != 0:
        raise Broken("harness (vecdrv, release) does not build:\n" + o[-3000:])
    ok, o = extract_build()
    if not ok:
        raise Broken("extraction failed:\n" + o[-3000:])
    cases, mism = gen_cases(tier, seed)
    model = _run_model(cases + mism)
    res = {"tier": tier, "seed": seed, "diffs": [], "oracle": [], "counts": {}, "cached": False, "samples": []}
    kinds = {"C08": 0, "C09": 0, "C10": 0}
    distinct = set()
    for profile, binary in (("dev", VECDRV), ("release", VECDRV_REL)):
        for group, cs in (("main", cases), ("mismatch", mism)):
            rc, impl, raw = _run_impl(binary, cs, group, out)
            res["counts"]["%s/%s" % (profile, group)] = len(cs)
            for (l, p, n, e, sc) in cs:
                want = canon_model(p, n, e, model[l])
                prop = prop_of(model[l])
                if profile == "dev":
                    kinds[prop] += 1
                    distinct.add((p, n, tuple(sc[:next((i + 1 for i, c in enumerate(sc) if c >= 4), len(sc))])))
                case = "%s %d %d %s" % (p, n, e, " ".join(map(str, sc)))
                if l not in impl:
                    dead = impl.get("__dead__", {})
                    if sum(1 for x in res["oracle"] if x["property"] == prop) < 20:
                        res["diffs"].append({"property": prop, "profile": profile, "case": case,
                                             "implementation": "no output (the driver crashed or was killed, exit %s)" % dead.get(l, rc),
                                             "model": want})
                        res["oracle"].append({"property": prop, "profile": profile, "case": case,
                                              "what": "the driver process died on this case (exit %s): memory corruption / abort" % dead.get(l, rc)})
                    if l in dead:
                        continue
                    break
                got, orc = impl[l]
                if group == "mismatch" and got[0] != 4:
                    sT, aT, sU, aU = PAIRS[p][:4]
                    orc = (orc + " ; " if orc else "") + "C10: conversion from an element type of size %d / alignment %d to one of size %d / alignment %d was not refused (vector length %d)" % (sT, aT, sU, aU, n)
                if got != want and sum(1 for d in res["diffs"] if d["property"] == prop) < 20:
                    res["diffs"].append({"property": prop, "profile": profile, "case": case, "implementation": got, "model": want})
                if orc:
                    for item in orc.split(" ; "):
                        pr = item.split(":")[0].split("/")[0]
                        pr = pr if pr in kinds else prop
                        if sum(1 for x in res["oracle"] if x["property"] == pr) < 20:
                            res["oracle"].append({"property": pr, "profile": profile, "case": case, "what": item})
    res["kinds"] = kinds
    res["distinct"] = len(distinct)
    res["samples"] = [{"pair": p, "n": n, "extra_capacity": e, "script": sc} for (l, p, n, e, sc) in (cases[5:7] + cases[-2:] + mism[:2])]
    # in-assistant evaluation: tok/big cases with an allocation need no canonicalisation
    sub = [c for c in cases if c[1] in ("tok", "big") and c[2] + c[3] > 0][:400]
    rc_, impl, _ = _run_impl(VECDRV, sub, "coq", out)
    body = ["From Coq Require Import List NArith.", "From Truc.Model Require Import VecConv VecScript.",
            "Import ListNotations.", "Open Scope N_scope.", "Definition cases : list (nat * (vcase * list N)) := ["]
    rows = []
    for k, (l, p, n, e, sc) in enumerate(sub):
        if l not in impl:
            continue
        sT, aT, sU, aU = PAIRS[p][:4]
        rows.append("  (%d%%nat, ((%d, %d, %d, %d, %d%%nat, [%s]), [%s]))" % (
            k, sT, aT, sU, aU, n, "; ".join(map(str, sc)), "; ".join(map(str, impl[l][0]))))
    body.append(";\n".join(rows))
    body += ["].", "Eval vm_compute in (length cases, map fst (filter (fun c => negb (check_vcase (snd c))) cases))."]
    open(os.path.join(out, "cases_vec.v"), "w").write("\n".join(body) + "\n")
    rc, o = sh("timeout 900 coqc -q -noglob -Q %s/Model Truc.Model cases_vec.v" % COQ, cwd=out, timeout=1000)
    m = re.search(r"=\s*\((\d+)%nat,\s*\[(.*?)\]\)", o, re.S)
    if rc != 0 or not m:
        res["coq_error"] = o[-1500:]
        res["coq_cases"], res["coq_bad"] = 0, []
    else:
        res["coq_cases"] = int(m.group(1))
        res["coq_bad"] = [int(x.replace("%nat", "")) for x in m.group(2).split(";") if x.strip()]
        for k in res["coq_bad"][:5]:
            l, p, n, e, sc = sub[k]
            res["diffs"].append({"property": prop_of(model[l]), "profile": "dev/vm_compute", "case": "%s %d %d %s" % (p, n, e, " ".join(map(str, sc))),
                                 "implementation": impl[l][0], "model": "VecScript.check_vcase = false"})
    res["wall_s"] = time.time() - t0
    json.dump(res, open(resf, "w"))
    return res


def replay_e4(case):
    """case: '<pair> <n> <extra> c0 c1 ...'"""
    ok, o = harness_build(["vecdrv"])
    if not ok:
        raise Broken(o[-2000:])
    extract_build()
    p = case.split()
    pair, n, e, sc = p[0], int(p[1]), int(p[2]), [int(x) for x in p[3:]]
    cs = [("x", pair, n, e, sc)]
    model = _run_model(cs)
    rc, impl, raw = _run_impl(VECDRV, cs, "replay", None)
    return {"case": case, "model": canon_model(pair, n, e, model["x"]), "implementation": impl.get("x"), "raw": raw[-500:]}
