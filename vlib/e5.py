"""E5: compile probes (harness/src/bin/mkprobe.rs): rustc accepts / rejects generated modules as expected."""
import json
import os
import re
import shutil
import time

from .common import CACHE, ENV, HARNESS, REPO, TARGET, VERIF, Broken, file_hash, harness_build, sh

MKPROBE = os.path.join(TARGET, "debug", "mkprobe")


def run_e5(tier, seed):
    key = file_hash([os.path.join(REPO, "truc", "src"), os.path.join(REPO, "truc_runtime", "src"), os.path.join(REPO, "Cargo.lock"),
                     os.path.join(HARNESS, "src"), os.path.join(HARNESS, "Cargo.toml"),
                     os.path.join(VERIF, "vlib", "e5.py")], extra="%s/%s" % (tier, seed))
    out = os.path.join(CACHE, "run", "e5-%s" % key)
    resf = os.path.join(out, "result.json")
    if os.path.exists(resf):
        r = json.load(open(resf))
        r["cached"] = True
        return r
    t0 = time.time()
    shutil.rmtree(out, ignore_errors=True)
    os.makedirs(out)
    ok, o = harness_build(["mkprobe"])
    if not ok:
        raise Broken("harness (mkprobe) does not build against /repo:\n" + o[-3000:])
    crate = os.path.join(out, "crate")
    rc, o = sh([MKPROBE, "--out", crate, "--seed", str(seed)] + (["--thorough"] if tier == "thorough" else []), timeout=600)
    if rc != 0:
        raise Broken("mkprobe failed:\n" + o[-3000:])
    shutil.copy(os.path.join(REPO, "Cargo.lock"), os.path.join(crate, "Cargo.lock"))
    env = dict(ENV)
    env["CARGO_TARGET_DIR"] = os.path.join(CACHE, "target_probe")
    rc, o = sh("cargo check --offline --bins --keep-going --message-format short", cwd=crate, env=env, timeout=3000)
    failed = set(re.findall(r'could not compile `probecrate` \(bin "(p\d+)"\)', o))
    first_err = {}
    for m in re.finditer(r"src/bin/(p\d+)\.rs:\d+:\d+: (error[^\n]*)", o):
        first_err.setdefault(m.group(1), m.group(2)[:300])
    if "Finished" not in o and not failed:
        raise Broken("the probe crate could not be checked:\n" + o[-3000:])
    res = {"tier": tier, "seed": seed, "oracle": [], "counts": {}, "cached": False, "probes": []}
    counts = {}
    for line in open(os.path.join(crate, "probes.txt")):
        name, prop, expect, desc = line.rstrip("\n").split(" ", 3)
        got = "reject" if name in failed else "ok"
        counts.setdefault(prop, {"ok": 0, "reject": 0})
        counts[prop][expect] += 1
        if got != expect:
            res["oracle"].append({"property": prop, "probe": desc, "expected": expect, "got": got,
                                  "compiler": first_err.get(name, ""),
                                  "what": ("the compiler accepted a module it must reject: %s" % desc) if expect == "reject"
                                          else ("the compiler rejected a module that must compile: %s (%s)" % (desc, first_err.get(name, "")))})
        if len(res["probes"]) < 400:
            res["probes"].append({"property": prop, "expect": expect, "desc": desc})
    res["counts"] = counts
    res["wall_s"] = time.time() - t0
    json.dump(res, open(resf, "w"))
    shutil.rmtree(os.path.join(crate, "src"), ignore_errors=True)
    return res
