"""E2: generator dump (harness/src/bin/gendump.rs against coq/Model/{Ir,Gen}.v through the extracted driver)."""
import difflib
import json
import os
import re
import shutil
import time
from concurrent.futures import ThreadPoolExecutor

from .common import CACHE, COQ, EXTRACT, HARNESS, REPO, TARGET, VERIF, Broken, extract_build, file_hash, harness_build, sh
from . import e1

GENDUMP = os.path.join(TARGET, "debug", "gendump")
CONFIGS = "-,c,s,cs,sc"

# which properties a differing item of the generated module concerns
ITEM_PROPS = {
    # the capacity and the alignment of the buffer structs are hypotheses (layout_ok) of C04..C07 and C16
    "MAXSIZE": ["C02", "C03", "C04", "C05", "C06", "C07", "C13", "C16"],
    "UNINIT": ["C02", "C03", "C04", "C05", "C06", "C07", "C13", "C16"],
    "RECORD": ["C02", "C03", "C04", "C05", "C06", "C07", "C13", "C14", "C16"],
    "ALIAS": ["C03", "C13"],
    "STRUCT": ["C04", "C05", "C11", "C13"],
    "SAFEFROM": ["C04", "C05", "C11", "C13"],
    "NEW": ["C04", "C06", "C07", "C11", "C13", "C16", "C15"],
    "UNPACK": ["C04", "C06", "C07", "C13"],
    "GET": ["C04", "C07", "C13", "C15", "C16"],
    "DROP": ["C06", "C07", "C13"],
    "FROMUNPACKED": ["C04", "C13", "C16"],
    "OUT": ["C05", "C13"],
    "CONV": ["C05", "C06", "C07", "C11", "C13"],
    "CLONE": ["C16", "C13", "C06"],
    "SER": ["C15", "C13"],
    "DE": ["C15", "C13", "C06"],
    "ASIZE": ["C11", "C13"],
    "AALIGN": ["C11", "C13"],
}
ALL = sorted({p for v in ITEM_PROPS.values() for p in v} | {"C19"})


def corpus_file():
    return os.path.join(VERIF, "corpus", "generator.hist")


def parse_blocks(text):
    blocks, cur, label = {}, None, None
    order = []
    for line in text.splitlines():
        if line.startswith("== "):
            parts = line.split()
            label = parts[1]
            cur = {"status": parts[2], "meta": " ".join(parts[3:]), "items": []}
            blocks[label] = cur
            order.append(label)
        elif cur is not None:
            cur["items"].append(line)
    return blocks, order


def props_of_line(line):
    kw = line.split(" ")[0]
    if kw.startswith("?"):
        # an unrecognised item concerns everything that depends on the generated text
        if kw == "?unsafe-impl":
            return ["C14", "C13"]
        return [p for p in ALL if p != "C19"]
    return ITEM_PROPS.get(kw, ALL)


def run_e2(tier, seed):
    key = file_hash([os.path.join(REPO, "truc", "src"), os.path.join(REPO, "Cargo.lock"),
                     os.path.join(HARNESS, "src"), os.path.join(HARNESS, "Cargo.toml"),
                     os.path.join(COQ, "Model"), os.path.join(COQ, "extract"), corpus_file(), e1.corpus_file(),
                     os.path.join(VERIF, "vlib", "e2.py")], extra="%s/%s" % (tier, seed))
    out = os.path.join(CACHE, "run", "e2-%s" % key)
    resf = os.path.join(out, "result.json")
    if os.path.exists(resf):
        r = json.load(open(resf))
        r["cached"] = True
        return r
    t0 = time.time()
    shutil.rmtree(out, ignore_errors=True)
    os.makedirs(out)
    ok, o = harness_build(["gendump", "bdiff"])
    if not ok:
        raise Broken("harness (gendump) does not build against /repo:\n" + o[-3000:])
    ok, o = extract_build()
    if not ok:
        raise Broken("extraction failed:\n" + o[-3000:])
    n = 3000 if tier == "thorough" else 400
    # histories: the two corpora, then random histories from the E1 generator
    rc, o = sh([e1.BDIFF, "--mode", "random", "--seed", str(seed + 31), "--count", str(n), "--no-model", "--out", os.path.join(out, "rnd")], timeout=1800)
    if rc != 0:
        raise Broken("bdiff (history generation) failed: " + o[-1000:])
    hs = []
    for f in (corpus_file(), e1.corpus_file(), os.path.join(out, "rnd", "histories.txt")):
        for line in open(f):
            line = line.strip()
            if line and not line.startswith("#"):
                # histories of the generic builder (closes 4 / 5) are replayed with the native append strategies:
                # the generator needs native datum details
                line = re.sub(r"\bC:4\b", "C:2", re.sub(r"\bC:5\b", "C:3", line))
                # the generator needs a built definition: close what is pending
                if not re.search(r"C:\d$", line):
                    line += " C:0"
                hs.append(line)
    hfile = os.path.join(out, "histories.txt")
    open(hfile, "w").write("\n".join(hs) + "\n")
    # 12 shards of the implementation run + one more process that only hashes the text (C19)
    nsh = 12
    per = (len(hs) + nsh - 1) // nsh
    jobs = []
    for i in range(nsh):
        part = hs[i * per:(i + 1) * per]
        if not part:
            continue
        pf = os.path.join(out, "h_%d.txt" % i)
        open(pf, "w").write("\n".join(part) + "\n")
        jobs.append([GENDUMP, "--file", pf, "--configs", CONFIGS, "--first", str(i * per)])
    jobs.append([GENDUMP, "--file", hfile, "--configs", CONFIGS, "--hash-only"])
    with ThreadPoolExecutor(16) as ex:
        results = list(ex.map(lambda j: sh(j, timeout=3000), jobs))
    for rc, o in results:
        if rc != 0:
            raise Broken("gendump failed: " + o[-2000:])
    impl_txt = "".join(o for rc, o in results[:-1])
    impl_txt2 = results[-1][1]
    rc, model_txt = sh("%s/model_driver gen %s < %s" % (EXTRACT, CONFIGS, hfile), timeout=3000)
    if rc != 0:
        raise Broken("extracted model (gen) failed: " + model_txt[-2000:])
    impl, order = parse_blocks(impl_txt)
    impl2, _ = parse_blocks(impl_txt2)
    model, _ = parse_blocks(model_txt)
    res = {"tier": tier, "seed": seed, "diffs": [], "oracle": [], "counts": {}, "cached": False}
    nmods = ndistinct = nitems = 0
    seen = set()
    stats = {"modules": 0, "panics_agreed": 0, "no_definition": 0, "with_conversions": 0, "with_zero_size_field": 0,
             "with_uninit_field": 0, "variant_without_data": 0, "conversion_with_only_removals": 0}
    for label in order:
        k, cfg = label.split("/")
        h = hs[int(k)]
        a, b = impl[label], model.get(label)
        if b is None:
            res["diffs"].append({"props": ALL, "history": h, "config": cfg, "where": "missing in model output", "implementation": a["status"], "model": ""})
            continue
        nmods += 1
        if a["status"] != b["status"]:
            res["diffs"].append({"props": [p for p in ALL if p != "C19"], "history": h, "config": cfg, "where": "status",
                                 "implementation": a["status"], "model": b["status"]})
            if a["status"] == "PANIC":
                res["oracle"].append({"property": "C13", "history": h, "config": cfg, "what": "generate() panicked on a definition the builder accepted"})
            continue
        if a["status"] != "OK":
            stats["panics_agreed" if a["status"] == "PANIC" else "no_definition"] += 1
            continue
        stats["modules"] += 1
        nitems += len(a["items"])
        text = "\n".join(a["items"])
        if text not in seen:
            seen.add(text)
            if "CONV" in text:
                ndistinct += 1
        if "CONV" in text:
            stats["with_conversions"] += 1
        if re.search(r"STRUCT U\d+ pub G\[\] F\[\]", text):
            stats["variant_without_data"] += 1
        if ":H" in text:
            stats["with_uninit_field"] += 1
        if re.search(r"plusused=0", text):
            stats["conversion_with_only_removals"] += 1
        # C19: byte identity in-process and across processes
        if "same_in_process=1" not in a["meta"]:
            res["oracle"].append({"property": "C19", "history": h, "config": cfg, "what": "two calls of generate() in one process gave different text"})
        if impl2.get(label, {}).get("meta", "").split(" same_in")[0] != a["meta"].split(" same_in")[0]:
            res["oracle"].append({"property": "C19", "history": h, "config": cfg,
                                  "what": "two processes generated different text (hash %s vs %s)" % (a["meta"], impl2.get(label, {}).get("meta"))})
        if a["items"] != b["items"]:
            # every item that differs (aligned by longest common subsequences) names the properties it concerns;
            # the first one is quoted
            props, first = set(), None
            for tag, i1, i2, j1, j2 in difflib.SequenceMatcher(None, a["items"], b["items"], autojunk=False).get_opcodes():
                if tag == "equal":
                    continue
                for x in a["items"][i1:i2] + b["items"][j1:j2]:
                    props.update(props_of_line(x))
                if first is None:
                    first = (i1, a["items"][i1] if i1 < i2 else "<none>", b["items"][j1] if j1 < j2 else "<none>")
            props = sorted(props)
            if sum(1 for d in res["diffs"] if d["props"] == props) < 10:
                res["diffs"].append({"props": props, "history": h, "config": cfg, "where": "item #%d" % first[0],
                                     "implementation": first[1][:600], "model": first[2][:600]})
    res["counts"] = {"modules": nmods, "histories": len(hs), "items_compared": nitems}
    res["distinct"] = ndistinct
    res["stats"] = stats
    res["samples"] = [{"history": hs[i], "configs": CONFIGS} for i in (0, 1, len(hs) // 2)]
    res["wall_s"] = time.time() - t0
    res["dir"] = out
    json.dump(res, open(resf, "w"))
    return res
