(* The generated Serialize / Deserialize of a variant over an abstract data format.
   A value of field type t is encoded by enc t and decoded by dec t (the user's Serialize / Deserialize
   impls and the format; Section variables with the round-trip hypothesis, listed in the trusted base).
   Executable definitions only. *)
From Coq Require Import List Bool Arith.
Import ListNotations.

Section Format.
Variable elem : Type.                                   (* an encoded element *)
Variables (enc : nat -> nat -> elem) (dec : nat -> elem -> option nat).

(* serialize: a tuple of the fields, in the order of ISerialize, each read through its accessor *)
Definition ser (fields : list (nat * nat)) (vals : nat -> nat) : list elem :=
  map (fun f => enc (snd f) (vals (fst f))) fields.

(* visit_seq: one next_element per field of IDeserialize, in order; a missing or undecodable element is an
   error (the elements decoded so far are ordinary locals: dropped) *)
Fixpoint de_elems (fields : list (nat * nat)) (input : list elem) : option (list (nat * nat)) :=
  match fields with
  | [] => Some []
  | f :: r =>
      match input with
      | [] => None
      | x :: xs =>
          match dec (snd f) x with
          | None => None
          | Some v => match de_elems r xs with Some l => Some ((fst f, v) :: l) | None => None end
          end
      end
  end.

(* counted formats (bincode) give a size hint that must equal the field count; self-describing formats
   (JSON) give none and reject trailing elements after the visitor returns *)
Definition de (fields : list (nat * nat)) (input : list elem) : option (list (nat * nat)) :=
  if Nat.eqb (length input) (length fields) then de_elems fields input else None.
End Format.
