(* Send / Sync of generated record types: the auto-trait rule of the language (a struct is Send iff all
   its fields are; no manual impl is emitted - the dumper of engine E2 flags any `unsafe impl`), applied to
   what the generator emits: `struct CappedRecordK<const CAP: usize> { data: RecordMaybeUninit<CAP> }`,
   i.e. a byte buffer, whatever the field types of the variant are.  Trusted rule, validated by engine E5. *)
From Coq Require Import List Bool.
From Truc.Model Require Import Layout Builder Ir.
Import ListNotations.

Inductive ftype := FBytes | FUser (t : nat).       (* the types a generated struct may contain *)
(* the fields of the record struct of a variant, as emitted *)
Definition record_struct_fields (it : item) : list ftype :=
  match it with IRecordStruct _ _ => [FBytes] | _ => [] end.
(* auto trait: every field has it; bytes always do *)
Definition has_auto (user : nat -> bool) (f : ftype) : bool := match f with FBytes => true | FUser t => user t end.
Definition record_auto (user : nat -> bool) (it : item) : bool := forallb (has_auto user) (record_struct_fields it).
