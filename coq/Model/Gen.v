(* Model of truc/src/generator/** : definition -> generated module (as Ir items).
   Executable definitions only. *)
From Coq Require Import List NArith Bool Arith.
From Truc.Model Require Import Layout Builder Ir.
Import ListNotations.
Local Open Scope nat_scope.

Section Gen.
Variable ds : defs.

Definition nm (i : nat) := d_name (getd ds i).
Definition ty (i : nat) := d_ty (getd ds i).
Definition un (i : nat) := d_uninit (getd ds i).
Definition of (i : nat) : N := d_off (getd ds i).

(* RecordVariant::data_sorted: ids in increasing order *)
Fixpoint insert_sorted (i : nat) (l : list nat) : list nat :=
  match l with
  | [] => [i]
  | j :: r => if i <=? j then i :: j :: r else j :: insert_sorted i r
  end.
Definition sort_ids (l : list nat) : list nat := fold_right insert_sorted [] l.

(* merge_join_by over the two id-sorted lists: (only in prev, only in cur) *)
Fixpoint minus_plus (fuel : nat) (prev cur : list nat) : list nat * list nat :=
  match fuel with
  | O => ([], [])
  | S f =>
    match prev, cur with
    | [], _ => ([], cur)
    | _, [] => (prev, [])
    | p :: pr, c :: cr =>
        if p <? c then let '(m, pl) := minus_plus f pr cur in (p :: m, pl)
        else if c <? p then let '(m, pl) := minus_plus f prev cr in (m, c :: pl)
        else minus_plus f pr cr
    end
  end.

Definition indexed (l : list nat) : list (nat * nat) := combine (seq 0 (length l)) l.
(* safe_record_generic: the positions / type names of the may-be-uninitialised data *)
Definition safe_generics (data : list nat) : list nat :=
  map fst (filter (fun p => un (snd p)) (indexed data)).
Definition typed_generics (data : list nat) : list nat :=
  map (fun p => ty (snd p)) (filter (fun p => un (snd p)) (indexed data)).

Inductive ukind := KFalse | KUnsafe | KSafe (unsafe_name : sname).

(* generate_data_record *)
Definition data_struct (name : sname) (public : bool) (k : ukind) (data : list nat) : list item :=
  match k with
  | KFalse => [IDataStruct name public [] (map (fun i => (nm i, FPlain (ty i))) data)]
  | KUnsafe => [IDataStruct name public [] (map (fun i => (nm i, FPlain (ty i))) (filter (fun i => negb (un i)) data))]
  | KSafe unsafe_name =>
      [IDataStruct name public (safe_generics data)
         (map (fun p => (nm (snd p), if un (snd p) then FPhantom (fst p) else FPlain (ty (snd p)))) (indexed data));
       ISafeFromImpl name (safe_generics data) unsafe_name (existsb (fun i => negb (un i)) data)
         (map (fun i => (nm i, negb (un i))) data)]
  end.

Definition three_structs (full uninit safe : sname) (data : list nat) : list item :=
  data_struct full true KFalse data ++ data_struct uninit true KUnsafe data ++ data_struct safe false (KSafe uninit) data.

(* RecordImplGenerator *)
Definition gen_new (v : nat) (data : list nat) : item :=
  let has_data := negb (match data with [] => true | _ => false end) in
  INew v false has_data
       (SNewBuf has_data :: map (fun i => SWrite (of i) SFrom (nm i)) data ++ [SRetSelf]).
Definition gen_new_uninit (v : nat) (data : list nat) : item :=
  let uninit_has_data := existsb (fun i => negb (un i)) data in
  INew v true true
       (SSafeFrom SFrom uninit_has_data (NUnpackedUninitSafe v) (typed_generics data)
        :: SNewBuf uninit_has_data
        :: map (fun i => SWrite (of i) SFrom (nm i)) (filter (fun i => negb (un i)) data) ++ [SRetSelf]).
Definition gen_unpack (v : nat) (data : list nat) : item :=
  IUnpack v (map (fun i => SRead false (nm i) (ty i) (of i) OSelf) data
             ++ [SForgetSelf; SRetUnpacked (NUnpacked v) (map nm data)]).
Definition gen_accessors (v : nat) (data : list nat) : list item :=
  flat_map (fun i => [IGet v (nm i) (ty i) (of i) false; IGet v (nm i) (ty i) (of i) true]) data.
Definition gen_drop (v : nat) (data : list nat) : item :=
  IDrop v (map (fun i => SRead true (nm i) (ty i) (of i) OSelf) data).

(* FromPreviousRecordImplsGenerator: one of the four conversion forms *)
Definition gen_conv (v prev : nat) (minus plus : list nat) (uninit and_out : bool) : item :=
  let plus_has_data := negb (match plus with [] => true | _ => false end) in
  let uninit_plus_has_data := uninit && existsb (fun i => negb (un i)) plus in
  IConv v prev uninit and_out (uninit || plus_has_data)
    (map (fun i => SRead (negb and_out) (nm i) (ty i) (of i) OFrom) minus
     ++ (if uninit then [SSafeFrom SPlus uninit_plus_has_data (NUnpackedUninitSafeIn v) (typed_generics plus)] else [])
     ++ [SManuallyDrop; SCopyBuf ((negb uninit && plus_has_data) || (uninit && uninit_plus_has_data))]
     ++ map (fun i => SWrite (of i) SPlus (nm i)) (filter (fun i => negb uninit || negb (un i)) plus)
     ++ (if and_out then [SLetRecord v; SRetAndOut v (map nm minus)] else [SRetSelf])).

Definition gen_fragment (v : nat) (data : list nat) (f : fragment) : list item :=
  match f with
  | FClone => [IClone v (map (fun i => (nm i, un i)) data)]
  | FSerde => [ISerialize v (map nm data); IDeserialize v (map (fun i => (nm i, ty i)) data)]
  end.

(* generate_variant with the common fragment generators in their fixed order, then the custom ones *)
Definition gen_variant (al : N) (v : nat) (var : list nat) (prev : option (nat * list nat)) (cfg : list fragment)
  : list item :=
  let data := sort_ids var in
  let '(minus, plus) :=
    match prev with
    | Some (_, pv) => let p := sort_ids pv in minus_plus (length p + length data) p data
    | None => ([], data)
    end in
  three_structs (NUnpacked v) (NUnpackedUninit v) (NUnpackedUninitSafe v) data
  ++ [IRecordStruct v al; IAlias v]
  ++ [gen_new v data; gen_new_uninit v data; gen_unpack v data] ++ gen_accessors v data
  ++ [gen_drop v data]
  ++ [IFromUnpacked v false; IFromUnpacked v true]
  ++ match prev with
     | None => []
     | Some (pid, _) =>
         three_structs (NUnpackedIn v) (NUnpackedUninitIn v) (NUnpackedUninitSafeIn v) plus
         ++ [IOutStruct v (map (fun i => (nm i, ty i)) minus)]
         ++ [gen_conv v pid minus plus false false; gen_conv v pid minus plus true false;
             gen_conv v pid minus plus false true; gen_conv v pid minus plus true true]
     end
  ++ flat_map (gen_fragment v data) cfg.

Fixpoint gen_variants (al : N) (v : nat) (vs : list (list nat)) (prev : option (nat * list nat)) (cfg : list fragment)
  : list item :=
  match vs with
  | [] => []
  | var :: rest => gen_variant al v var prev cfg ++ gen_variants al (S v) rest (Some (v, var)) cfg
  end.

(* the plus data of each variant (what type_size_assertions collects) *)
Fixpoint all_plus (vs : list (list nat)) (prev : option (list nat)) : list nat :=
  match vs with
  | [] => []
  | var :: rest =>
      let data := sort_ids var in
      (match prev with
       | Some pv => snd (minus_plus (length pv + length data) (sort_ids pv) data)
       | None => data
       end) ++ all_plus rest (Some var)
  end.

(* a BTreeSet<(type, n)>: sorted, no duplicates (the order used here is numeric on the type code; the
   harness compares the assertion lists as sets) *)
Definition pair_leb (a b : nat * N) : bool :=
  (fst a <? fst b) || ((fst a =? fst b) && (snd a <=? snd b)%N).
Definition pair_eqb (a b : nat * N) : bool := (fst a =? fst b) && (snd a =? snd b)%N.
Fixpoint set_insert (x : nat * N) (l : list (nat * N)) : list (nat * N) :=
  match l with
  | [] => [x]
  | y :: r => if pair_eqb x y then l else if pair_leb x y then x :: l else y :: set_insert x r
  end.
Definition to_set (l : list (nat * N)) : list (nat * N) := fold_right set_insert [] l.
End Gen.

(* generate(): None = panic (capacity overflow, or a variant mentions an unknown datum) *)
Definition gen (d : definition) (cfg : list fragment) : option (list item) :=
  let ds := fst d in let vs := snd d in
  if negb (forallb (fun i => i <? length ds) (concat vs)) then None else
  match max_size d with
  | None => None
  | Some ms =>
      let al := max_type_align d in
      Some ([IMaxSize ms; IUninitStruct al]
            ++ gen_variants ds al 0 vs None cfg
            ++ map (fun p => IAssertSize (fst p) (snd p))
                   (to_set (map (fun i => (d_ty (getd ds i), d_size (getd ds i))) (all_plus vs None)))
            ++ map (fun p => IAssertAlign (fst p) (snd p))
                   (to_set (map (fun i => (d_ty (getd ds i), d_align (getd ds i))) (concat vs))))
  end.
