(* A reference reader of printed type names: the subset of Rust's type grammar that the recorded names use
   (paths with generic arguments, tuples, parenthesised types, arrays, slices).  `( T )` is T itself and
   `( T , )` is the one-element tuple, as in Rust.  Executable definitions only; recursion on fuel, None when
   the fuel runs out or the tokens are not a type. *)
From Coq Require Import List Bool Arith.
From Truc.Model Require Import TypeName.
Import ListNotations.

Fixpoint pty (fuel : nat) (ts : list token) {struct fuel} : option (past * list token) :=
  match fuel with
  | 0 => None
  | S f =>
    match ts with
    | KLParen :: KRParen :: r => Some (PTuple [], r)
    | KLParen :: r =>
        match pty f r with
        | Some (a, KRParen :: r') => Some (a, r')
        | Some (a, KComma :: KRParen :: r') => Some (PTuple [a], r')
        | Some (a, KComma :: r') =>
            match plist f r' with
            | Some (l, KRParen :: r'') => Some (PTuple (a :: l), r'')
            | _ => None
            end
        | _ => None
        end
    | KLBrack :: r =>
        match pty f r with
        | Some (a, KRBrack :: r') => Some (PSlice a, r')
        | Some (a, KSemi :: KNum n :: KRBrack :: r') => Some (PArray a n, r')
        | _ => None
        end
    | KColon2 :: r => match psegs f r with Some (segs, r') => Some (PPath true segs, r') | None => None end
    | KId _ :: _ => match psegs f ts with Some (segs, r') => Some (PPath false segs, r') | None => None end
    | _ => None
    end
  end
with plist (fuel : nat) (ts : list token) {struct fuel} : option (list past * list token) :=
  match fuel with
  | 0 => None
  | S f =>
    match pty f ts with
    | Some (a, KComma :: r) => match plist f r with Some (l, r') => Some (a :: l, r') | None => None end
    | Some (a, r) => Some ([a], r)
    | None => None
    end
  end
with psegs (fuel : nat) (ts : list token) {struct fuel} : option (list (ident * list past) * list token) :=
  match fuel with
  | 0 => None
  | S f =>
    match ts with
    | KId i :: KLt :: r =>
        match plist f r with
        | Some (args, KGt :: KColon2 :: r') =>
            match psegs f r' with Some (segs, r'') => Some ((i, args) :: segs, r'') | None => None end
        | Some (args, KGt :: r') => Some ([(i, args)], r')
        | _ => None
        end
    | KId i :: KColon2 :: r => match psegs f r with Some (segs, r') => Some ((i, []) :: segs, r') | None => None end
    | KId i :: r => Some ([(i, [])], r)
    | _ => None
    end
  end.

(* reading a whole name *)
Definition read (fuel : nat) (ts : list token) : option past :=
  match pty fuel ts with Some (a, []) => Some a | _ => None end.

(* what a name denotes where the generated module is compiled *)
Definition denoted (fuel : nat) (ts : list token) : option rty :=
  match read fuel ts with Some a => resolve a | None => None end.
