(* The intermediate representation of a generated module: every item truc's generator emits, with
   function bodies as straight-line statement lists.  Field names, type names are opaque numbers.
   Executable definitions only. *)
From Coq Require Import List NArith Bool Arith.
Import ListNotations.

(* names of generated structs, by role and variant *)
Inductive sname :=
| NUnpacked (v : nat) | NUnpackedUninit (v : nat) | NUnpackedUninitSafe (v : nat)
| NUnpackedIn (v : nat) | NUnpackedUninitIn (v : nat) | NUnpackedUninitSafeIn (v : nat)
| NAndOut (v : nat) | NCapped (v : nat).

Inductive fieldty := FPlain (ty : nat) | FPhantom (idx : nat).   (* T or PhantomData<T{idx}> *)
Inductive src := SFrom | SPlus.      (* the argument struct a moved value is taken from *)
Inductive obj := OSelf | OFrom.      (* whose buffer is read *)

Inductive stmt :=
| SNewBuf (mutable : bool)                               (* let [mut] data = RecordMaybeUninit::new(); *)
| SWrite (off : N) (s : src) (f : nat)                   (* unsafe { data.write(off, s.f); } *)
| SRead (underscore : bool) (f ty : nat) (off : N) (o : obj)   (* let [_]f: ty = unsafe { o.data.read(off) }; *)
| SForgetSelf                                            (* std::mem::forget(self); *)
| SManuallyDrop                                          (* let manually_drop = ManuallyDrop::new(from); *)
| SCopyBuf (mutable : bool)                              (* let [mut] data = unsafe { ptr::read(&manually_drop.data) }; *)
| SSafeFrom (s : src) (used : bool) (safe : sname) (typed : list nat)   (* let [_]s = Safe::<typed>::from(s); *)
| SRetSelf                                               (* Self { data } *)
| SRetUnpacked (name : sname) (fs : list nat)            (* UnpackedRecordK { fs } *)
| SLetRecord (v : nat)                                   (* let record = CappedRecordK { data }; *)
| SRetAndOut (v : nat) (fs : list nat).                  (* RecordKAndUnpackedOut { record, fs } *)

Inductive item :=
| IMaxSize (n : N)
| IUninitStruct (al : N)
| IDataStruct (name : sname) (public : bool) (generics : list nat) (fields : list (nat * fieldty))
| ISafeFromImpl (safe : sname) (generics : list nat) (unsafe_name : sname) (arg_used : bool)
                (inits : list (nat * bool))              (* field := from.field (true) or PhantomData (false) *)
| IRecordStruct (v : nat) (al : N)
| IAlias (v : nat)
| INew (v : nat) (uninit : bool) (arg_used : bool) (body : list stmt)
| IUnpack (v : nat) (body : list stmt)
| IGet (v : nat) (f ty : nat) (off : N) (mutable : bool)
| IDrop (v : nat) (body : list stmt)
| IFromUnpacked (v : nat) (uninit : bool)
| IOutStruct (v : nat) (fields : list (nat * nat))
| IConv (v prev : nat) (uninit and_out : bool) (plus_used : bool) (body : list stmt)
| IClone (v : nat) (fields : list (nat * bool))          (* (field, copied rather than cloned) *)
| ISerialize (v : nat) (fields : list nat)
| IDeserialize (v : nat) (fields : list (nat * nat))     (* (field, type) *)
| IAssertSize (ty : nat) (n : N)
| IAssertAlign (ty : nat) (n : N).

Inductive fragment := FClone | FSerde.
