(* Model of truc/src/record/type_name.rs: the name recorded for a Rust type and what it denotes where the
   generated code is compiled.  Executable definitions only. *)
From Coq Require Import List Bool Arith.
Import ListNotations.

(* identifiers that matter to the rewriter, primitives and user identifiers *)
Inductive ident :=
| Ialloc | Iboxed | IBox | Istring | IString | Ivec | IVec | Icore | Ioption | IOption | Iresult | IResult
| Istr
| IPrim (p : nat)            (* u8 .. u128, i8 .. i128, usize, isize, f32, f64, bool, char *)
| IUser (n : nat).           (* identifiers of the user's crates (crate names, modules, types) *)

Definition ident_eqb (a b : ident) : bool :=
  match a, b with
  | Ialloc, Ialloc | Iboxed, Iboxed | IBox, IBox | Istring, Istring | IString, IString | Ivec, Ivec | IVec, IVec
  | Icore, Icore | Ioption, Ioption | IOption, IOption | Iresult, Iresult | IResult, IResult | Istr, Istr => true
  | IPrim p, IPrim q => Nat.eqb p q
  | IUser p, IUser q => Nat.eqb p q
  | _, _ => false
  end.

(* the types of the property's grammar *)
Inductive rty :=
| TPrim (p : nat)
| TStr                                   (* str (behind Box) *)
| TString
| TBox (t : rty)
| TVec (t : rty)
| TOption (t : rty)
| TResult (t e : rty)
| TTuple (ts : list rty)
| TArray (t : rty) (n : nat)
| TSlice (t : rty)                        (* [t] (behind Box) *)
| TUser (path : list ident) (name : ident) (args : list rty).
  (* krate::module::Name<args>, path = krate :: modules; the crate is a user identifier, modules and the name are ANY
     identifiers - a user crate may well have a module `string` with a type `String` *)

(* what syn parses a type name into *)
Inductive past :=
| PPath (leading_colon : bool) (segs : list (ident * list past))
| PTuple (ts : list past)
| PArray (t : past) (n : nat)
| PSlice (t : past).

(* std::any::type_name::<T>(): fully qualified paths *)
Fixpoint std_ast (t : rty) : past :=
  match t with
  | TPrim p => PPath false [(IPrim p, [])]
  | TStr => PPath false [(Istr, [])]
  | TString => PPath false [(Ialloc, []); (Istring, []); (IString, [])]
  | TBox a => PPath false [(Ialloc, []); (Iboxed, []); (IBox, [std_ast a])]
  | TVec a => PPath false [(Ialloc, []); (Ivec, []); (IVec, [std_ast a])]
  | TOption a => PPath false [(Icore, []); (Ioption, []); (IOption, [std_ast a])]
  | TResult a e => PPath false [(Icore, []); (Iresult, []); (IResult, [std_ast a; std_ast e])]
  | TTuple ts => PTuple (map std_ast ts)
  | TArray a n => PArray (std_ast a) n
  | TSlice a => PSlice (std_ast a)
  | TUser path name args => PPath false (map (fun s => (s, [])) path ++ [(name, map std_ast args)])
  end.

(* the spelling a user writes (prelude names) *)
Fixpoint short_ast (t : rty) : past :=
  match t with
  | TPrim p => PPath false [(IPrim p, [])]
  | TStr => PPath false [(Istr, [])]
  | TString => PPath false [(IString, [])]
  | TBox a => PPath false [(IBox, [short_ast a])]
  | TVec a => PPath false [(IVec, [short_ast a])]
  | TOption a => PPath false [(IOption, [short_ast a])]
  | TResult a e => PPath false [(IResult, [short_ast a; short_ast e])]
  | TTuple ts => PTuple (map short_ast ts)
  | TArray a n => PArray (short_ast a) n
  | TSlice a => PSlice (short_ast a)
  | TUser path name args => PPath false (map (fun s => (s, [])) path ++ [(name, map short_ast args)])
  end.

(* TypeRewriter: the five 3-segment patterns (identifiers only, arguments ignored) *)
Definition in_scope (segs : list (ident * list past)) : bool :=
  match map fst segs with
  | [Ialloc; Iboxed; IBox] | [Ialloc; Istring; IString] | [Ialloc; Ivec; IVec]
  | [Icore; Ioption; IOption] | [Icore; Iresult; IResult] => true
  | _ => false
  end.

Definition last_only {A} (l : list A) : list A := match rev l with s :: _ => [s] | [] => [] end.

Fixpoint rewrite (a : past) : past :=
  match a with
  | PPath lead segs =>
      (* the arguments of the segments are rewritten; a matching path keeps its last segment only *)
      let segs' := map (fun s => match s with (i, args) => (i, map rewrite args) end) segs in
      PPath lead (if negb lead && in_scope segs' then last_only segs' else segs')
  | PTuple ts => PTuple (map rewrite ts)
  | PArray t n => PArray (rewrite t) n
  | PSlice t => PSlice (rewrite t)
  end.

(* name resolution where the generated module is compiled: the prelude names, primitives, and paths that
   start with one of the user's (extern) crates; `alloc::..` / `core::..` are NOT nameable there *)
Definition all_some {A} (l : list (option A)) : option (list A) :=
  fold_right (fun o acc => match o, acc with Some x, Some xs => Some (x :: xs) | _, _ => None end) (Some []) l.

Definition user_seg {A} (s : ident * list A) : option ident :=
  match s with (i, []) => Some i | _ => None end.
Definition user_crate {A} (segs : list (ident * list A)) : bool :=
  match segs with (IUser _, []) :: _ => true | _ => false end.

Definition resolve_path (segs : list (ident * list (option rty))) : option rty :=
  match segs with
  | [(IPrim p, [])] => Some (TPrim p)
  | [(Istr, [])] => Some TStr
  | [(IString, [])] => Some TString
  | [(IBox, [Some x])] => Some (TBox x)
  | [(IVec, [Some x])] => Some (TVec x)
  | [(IOption, [Some x])] => Some (TOption x)
  | [(IResult, [Some x; Some e])] => Some (TResult x e)
  | _ =>
      (* a path through one of the user's crates: resolved inside that crate, whatever its modules are called *)
      if user_crate segs then
        match rev segs with
        | (name, args) :: (_ :: _) as rpath =>
            match all_some (map user_seg (rev (tl (rev segs)))), all_some args with
            | Some path, Some targs => Some (TUser path name targs)
            | _, _ => None
            end
        | _ => None
        end
      else None
  end.

Fixpoint resolve (a : past) : option rty :=
  match a with
  | PPath false segs => resolve_path (map (fun s => match s with (i, args) => (i, map resolve args) end) segs)
  | PPath true _ => None
  | PTuple ts => option_map TTuple (all_some (map resolve ts))
  | PArray t n => option_map (fun x => TArray x n) (resolve t)
  | PSlice t => option_map TSlice (resolve t)
  end.

(* ---- the printed form: a list of tokens (what `quote!(#rty).to_string()` prints, up to spacing) *)
Inductive token :=
| KId (i : ident) | KLt | KGt | KComma | KColon2 | KLParen | KRParen | KLBrack | KRBrack | KSemi | KNum (n : nat).

Definition sep_by (sep : list token) (parts : list (list token)) : list token :=
  match parts with
  | [] => []
  | p :: r => p ++ flat_map (fun q => sep ++ q) r
  end.

Fixpoint render (a : past) : list token :=
  match a with
  | PPath lead segs =>
      (if lead then [KColon2] else []) ++
      sep_by [KColon2]
        (map (fun s => match s with
                       | (i, []) => [KId i]
                       | (i, args) => KId i :: KLt :: sep_by [KComma] (map render args) ++ [KGt]
                       end) segs)
  | PTuple [t] => KLParen :: render t ++ [KComma; KRParen]          (* a one-element tuple keeps its comma *)
  | PTuple ts => KLParen :: sep_by [KComma] (map render ts) ++ [KRParen]
  | PArray t n => KLBrack :: render t ++ [KSemi; KNum n; KRBrack]
  | PSlice t => KLBrack :: render t ++ [KRBrack]
  end.

(* the recorded name of a type, and the key under which a spelling is looked up in a type table *)
Definition recorded_name (t : rty) : list token := render (rewrite (std_ast t)).
Definition key_of (spelling : past) : list token := render (rewrite spelling).

(* ---- whitespace: a spelling is a token list with arbitrary runs of blanks between (and around) tokens *)
Inductive ch := CTok (k : token) | CBlank.
Fixpoint spaced (ws : list nat) (toks : list token) : list ch :=
  match toks with
  | [] => repeat CBlank (hd 0 ws)
  | k :: r => repeat CBlank (hd 0 ws) ++ CTok k :: spaced (tl ws) r
  end.
Definition lex (s : list ch) : list token := flat_map (fun c => match c with CTok k => [k] | CBlank => [] end) s.

(* ---- pre-computed type tables: association list keyed by the recorded name *)
Definition token_eqb (a b : token) : bool :=
  match a, b with
  | KId i, KId j => ident_eqb i j
  | KLt, KLt | KGt, KGt | KComma, KComma | KColon2, KColon2 | KLParen, KLParen | KRParen, KRParen
  | KLBrack, KLBrack | KRBrack, KRBrack | KSemi, KSemi => true
  | KNum n, KNum m => Nat.eqb n m
  | _, _ => false
  end.
Fixpoint key_eqb (a b : list token) : bool :=
  match a, b with
  | [], [] => true
  | x :: a', y :: b' => token_eqb x y && key_eqb a' b'
  | _, _ => false
  end.

Definition table (I : Type) := list (list token * I).
Fixpoint table_get {I} (t : table I) (k : list token) : option I :=
  match t with [] => None | (k', i) :: r => if key_eqb k' k then Some i else table_get r k end.
(* add_type: panics (None) when the key is already present *)
Definition table_add {I} (t : table I) (k : list token) (i : I) : option (table I) :=
  match table_get t k with Some _ => None | None => Some ((k, i) :: t) end.
