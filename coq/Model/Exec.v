(* An abstract machine for the straight-line bodies of generated functions (Ir.stmt).
   Values are opaque tokens; a buffer is an alignment class, a capacity and a list of slots
   (offset, type, owned token | moved out).  Every step returns Ok or an explicit Fault.
   This is a MODEL OF A FRAGMENT OF RUST (moves are bit copies, ManuallyDrop / forget suppress drops,
   locals are dropped at scope exit); it is validated by executing the real generated code (engine E3).
   Executable definitions only. *)
From Coq Require Import List NArith Bool Arith.
From Truc.Model Require Import Ir.
Import ListNotations.
Open Scope N_scope.

Notation vid := nat (only parsing).

(* what the machine needs to know about a type name: size, alignment, has drop glue *)
Record tinfo := mkTi { ti_size : N; ti_align : N; ti_drop : bool }.

Inductive sst := Owned (v : nat) | Moved.
Record slot := mkSlot { s_off : N; s_ty : nat; s_size : N; s_drop : bool; s_st : sst }.
Record buf := mkBuf { b_align : N; b_cap : N; b_slots : list slot }.

Inductive fault :=
| OutOfBounds | Misaligned | NotOwned | Clobber | ReadOnlyStore
| Static (what : nat).    (* something rustc would reject: use of a moved / unbound name *)
Inductive res (A : Type) := Ok (a : A) | Fault (f : fault).
Arguments Ok {A}. Arguments Fault {A}.

(* facts about truc_runtime::data read from the source by the translator *)
Record runtime := mkRt {
  write_needs_align : bool;     (* write() stores with ptr::write (true) or write_unaligned (false) *)
  write_ptr_unique : bool;      (* write() derives its pointer from as_mut_ptr() *)
  getmut_ptr_unique : bool      (* get_mut() derives its pointer from as_mut_ptr() *)
}.
Definition rt_fixed := mkRt false true true.
Definition rt_unfixed := mkRt true false false.   (* the tree before the fix of data.rs *)
Definition rt_ok (rt : runtime) : bool := negb (write_needs_align rt) && write_ptr_unique rt && getmut_ptr_unique rt.

Definition overlaps (o1 s1 o2 s2 : N) : bool :=
  (0 <? s1) && (0 <? s2) && (o1 <? o2 + s2) && (o2 <? o1 + s1).
Definition aligned_ok (b : buf) (off al : N) : bool := (b_align b mod al =? 0) && (off mod al =? 0).
Definition is_owned (s : slot) : bool := match s_st s with Owned _ => true | Moved => false end.

Section Machine.
Variable TI : nat -> tinfo.
Variable rt : runtime.

(* data.write(off, v : ty) *)
Definition bwrite (b : buf) (off : N) (ty v : nat) : res buf :=
  let t := TI ty in
  if negb (off + ti_size t <=? b_cap b) then Fault OutOfBounds
  else if write_needs_align rt && negb (aligned_ok b off (ti_align t)) then Fault Misaligned
  else if negb (write_ptr_unique rt) then Fault ReadOnlyStore
  else if existsb (fun s => is_owned s && s_drop s && overlaps off (ti_size t) (s_off s) (s_size s)) (b_slots b)
       then Fault Clobber
  else Ok (mkBuf (b_align b) (b_cap b)
             (mkSlot off ty (ti_size t) (ti_drop t) (Owned v)
              :: filter (fun s => negb (overlaps off (ti_size t) (s_off s) (s_size s))) (b_slots b))).

Definition key_match (off : N) (ty : nat) (s : slot) : bool :=
  (s_off s =? off) && Nat.eqb (s_ty s) ty && is_owned s.

(* the first owned slot with that (offset, type); a read moves the value out *)
Fixpoint take (off : N) (ty : nat) (l : list slot) : option (nat * list slot) :=
  match l with
  | [] => None
  | s :: r =>
    if key_match off ty s then
      match s_st s with
      | Owned v => Some (v, mkSlot (s_off s) (s_ty s) (s_size s) (s_drop s) Moved :: r)
      | Moved => None
      end
    else match take off ty r with Some (v, r') => Some (v, s :: r') | None => None end
  end.

(* data.read::<ty>(off): typed aligned load; a droppable type must be present (same type, owned) *)
Definition bread (b : buf) (off : N) (ty : nat) : res (option nat * buf) :=
  let t := TI ty in
  if negb (off + ti_size t <=? b_cap b) then Fault OutOfBounds
  else if negb (aligned_ok b off (ti_align t)) then Fault Misaligned
  else match take off ty (b_slots b) with
       | Some (v, sl) => Ok (Some v, mkBuf (b_align b) (b_cap b) sl)
       | None => if ti_drop t then Fault NotOwned else Ok (None, b)
       end.

(* data.get / get_mut: a reference; same checks, nothing moves *)
Definition bget (b : buf) (off : N) (ty : nat) (mutable : bool) : res (option nat) :=
  if mutable && negb (getmut_ptr_unique rt) then Fault ReadOnlyStore
  else match bread b off ty with Ok (v, _) => Ok v | Fault f => Fault f end.

(* ---- environment of one generated function ---- *)
Record env := mkEnv {
  e_self : option buf;                     (* `self`, while it is live *)
  e_from : option buf;                     (* the record argument of a conversion, while it is live *)
  e_mdrop : option buf;                    (* ... once wrapped in ManuallyDrop *)
  e_data : option buf;                     (* the local `data` *)
  e_afrom : list (nat * (nat * nat));      (* fields of the struct argument `from`: name -> (value, type), not yet moved *)
  e_aplus : list (nat * (nat * nat));      (* same for `plus` *)
  e_locals : list (nat * (option nat * nat));   (* let-bound reads: name -> (value if any, type), in binding order *)
  e_record : option buf                    (* `record` of the forms that return the removed data *)
}.

Fixpoint lookup {A} (k : nat) (l : list (nat * A)) : option A :=
  match l with [] => None | (k', a) :: r => if Nat.eqb k k' then Some a else lookup k r end.
Fixpoint remove_key {A} (k : nat) (l : list (nat * A)) : list (nat * A) :=
  match l with [] => [] | (k', a) :: r => if Nat.eqb k k' then r else (k', a) :: remove_key k r end.

Variables (A cap : N).      (* alignment of the record structs, capacity *)

Inductive outcome :=
| ORecord (b : buf)                                   (* Self { data } *)
| OUnpacked (fs : list (nat * option nat))            (* UnpackedRecordK { fields } *)
| OAndOut (b : buf) (fs : list (nat * option nat))    (* RecordKAndUnpackedOut { record, fields } *)
| ONone.

Definition step (e : env) (s : stmt) : res (env * outcome) :=
  match s with
  | SNewBuf _ =>
      Ok (mkEnv (e_self e) (e_from e) (e_mdrop e) (Some (mkBuf 1 cap [])) (e_afrom e) (e_aplus e) (e_locals e) (e_record e), ONone)
  | SWrite off src f =>
      let args := match src with SFrom => e_afrom e | SPlus => e_aplus e end in
      match lookup f args, e_data e with
      | Some (v, ty), Some d =>
          match bwrite d off ty v with
          | Ok d' =>
              let args' := remove_key f args in
              Ok (match src with
                  | SFrom => mkEnv (e_self e) (e_from e) (e_mdrop e) (Some d') args' (e_aplus e) (e_locals e) (e_record e)
                  | SPlus => mkEnv (e_self e) (e_from e) (e_mdrop e) (Some d') (e_afrom e) args' (e_locals e) (e_record e)
                  end, ONone)
          | Fault x => Fault x
          end
      | _, _ => Fault (Static 1)
      end
  | SRead _ f ty off o =>
      match (match o with OSelf => e_self e | OFrom => e_from e end) with
      | None => Fault (Static 2)
      | Some b =>
          match bread b off ty with
          | Fault x => Fault x
          | Ok (v, b') =>
              Ok (match o with
                  | OSelf => mkEnv (Some b') (e_from e) (e_mdrop e) (e_data e) (e_afrom e) (e_aplus e) (e_locals e ++ [(f, (v, ty))]) (e_record e)
                  | OFrom => mkEnv (e_self e) (Some b') (e_mdrop e) (e_data e) (e_afrom e) (e_aplus e) (e_locals e ++ [(f, (v, ty))]) (e_record e)
                  end, ONone)
          end
      end
  | SForgetSelf =>
      match e_self e with
      | None => Fault (Static 3)
      | Some _ => Ok (mkEnv None (e_from e) (e_mdrop e) (e_data e) (e_afrom e) (e_aplus e) (e_locals e) (e_record e), ONone)
      end
  | SManuallyDrop =>
      match e_from e with
      | None => Fault (Static 4)
      | Some b => Ok (mkEnv (e_self e) None (Some b) (e_data e) (e_afrom e) (e_aplus e) (e_locals e) (e_record e), ONone)
      end
  | SCopyBuf _ =>
      match e_mdrop e with
      | None => Fault (Static 5)
      | Some b => Ok (mkEnv (e_self e) (e_from e) (e_mdrop e) (Some (mkBuf 1 cap (b_slots b))) (e_afrom e) (e_aplus e) (e_locals e) (e_record e), ONone)
      end
  | SSafeFrom _ _ _ _ => Ok (e, ONone)      (* a by-field move into a struct of the same fields *)
  | SRetSelf =>
      match e_data e with
      | None => Fault (Static 6)
      | Some d => Ok (mkEnv (e_self e) (e_from e) (e_mdrop e) None (e_afrom e) (e_aplus e) (e_locals e) (e_record e),
                      ORecord (mkBuf A cap (b_slots d)))
      end
  | SLetRecord _ =>
      match e_data e with
      | None => Fault (Static 7)
      | Some d => Ok (mkEnv (e_self e) (e_from e) (e_mdrop e) None (e_afrom e) (e_aplus e) (e_locals e) (Some (mkBuf A cap (b_slots d))), ONone)
      end
  | SRetUnpacked _ fs =>
      (* moves the named locals into the result *)
      let vals := map (fun f => (f, match lookup f (e_locals e) with Some (v, _) => v | None => None end)) fs in
      if forallb (fun f => match lookup f (e_locals e) with Some _ => true | None => false end) fs
      then Ok (mkEnv (e_self e) (e_from e) (e_mdrop e) (e_data e) (e_afrom e) (e_aplus e)
                     (filter (fun l => negb (existsb (Nat.eqb (fst l)) fs)) (e_locals e)) (e_record e), OUnpacked vals)
      else Fault (Static 8)
  | SRetAndOut _ fs =>
      let vals := map (fun f => (f, match lookup f (e_locals e) with Some (v, _) => v | None => None end)) fs in
      match e_record e with
      | Some r =>
          if forallb (fun f => match lookup f (e_locals e) with Some _ => true | None => false end) fs
          then Ok (mkEnv (e_self e) (e_from e) (e_mdrop e) (e_data e) (e_afrom e) (e_aplus e)
                         (filter (fun l => negb (existsb (Nat.eqb (fst l)) fs)) (e_locals e)) None, OAndOut r vals)
          else Fault (Static 9)
      | None => Fault (Static 10)
      end
  end.

Fixpoint run_body (e : env) (body : list stmt) (out : outcome) : res (env * outcome) :=
  match body with
  | [] => Ok (e, out)
  | s :: r =>
      match step e s with
      | Fault x => Fault x
      | Ok (e', o) => run_body e' r (match o with ONone => out | _ => o end)
      end
  end.

(* what is destroyed when the function returns: the remaining locals (reverse order of declaration),
   the fields of the struct arguments that were not moved out, and - if `self` / `from` are still live -
   everything those records own (their generated Drop reads every field).  A leftover local `data`
   has no destructor: what it owns would leak, it is not listed here. *)
Definition droppable_of (l : list (nat * (option nat * nat))) : list nat :=
  flat_map (fun x => match fst (snd x) with Some v => if ti_drop (TI (snd (snd x))) then [v] else [] | None => [] end) l.
Definition owned_droppable (b : option buf) : list nat :=
  match b with
  | None => []
  | Some b => flat_map (fun s => match s_st s with Owned v => if s_drop s then [v] else [] | Moved => [] end) (b_slots b)
  end.
Definition args_droppable (l : list (nat * (nat * nat))) : list nat :=
  flat_map (fun x => if ti_drop (TI (snd (snd x))) then [fst (snd x)] else []) l.

Definition scope_exit (e : env) : list nat :=
  droppable_of (rev (e_locals e)) ++ owned_droppable (e_record e)
  ++ args_droppable (e_afrom e) ++ args_droppable (e_aplus e)
  ++ owned_droppable (e_self e) ++ owned_droppable (e_from e).

Definition empty_env := mkEnv None None None None [] [] [] None.

(* a whole generated function: result + the tokens destroyed inside it *)
Definition run_fn (e : env) (body : list stmt) : res (outcome * list nat) :=
  match run_body e body ONone with
  | Fault x => Fault x
  | Ok (e', o) => Ok (o, scope_exit e')
  end.
End Machine.
