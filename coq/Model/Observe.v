(* Canonical observation of the builder model as flat lists of numbers.
   The Rust harness (harness/src/bin/bdiff.rs) encodes what it observes on the implementation in
   exactly the same way; the two are compared by [check_case] under vm_compute. *)
From Coq Require Import List NArith Bool Arith.
From Truc.Model Require Import Layout Builder.
Import ListNotations.
Open Scope N_scope.

Definition nn (n : nat) : N := N.of_nat n.
Definition enc_ids (l : list id) : list N := nn (length l) :: map nn l.

Definition enc_err (e : err) : N :=
  match e with DuplicateName => 0 | AlreadyRemoved => 1 | NotInPrevious => 2 | NotInBuilding => 3 end.

Definition enc_resp (r : resp) : list N :=
  match r with
  | RId i => [0; nn i]
  | RUnit => [1]
  | RVariant v => [2; nn v]
  | RErr e => [3; enc_err e]
  | RFound None => [4]
  | RFound (Some i) => [5; nn i]
  end.

Definition enc_datum (d : datum) : list N :=
  [nn (d_name d); nn (d_ty d); d_size d; d_align d; (if d_uninit d then 1 else 0); d_off d].

(* every datum definition (name, type info, offset) and every variant *)
Definition enc_snapshot (b : builder) : list N :=
  nn (length (b_ds b)) :: flat_map enc_datum (b_ds b)
  ++ nn (length (b_vs b)) :: flat_map enc_ids (b_vs b).

(* one request: response, current data, and after a Close the full snapshot
   (otherwise only the two lengths) *)
Definition enc_step (b : builder) (r : req) : builder * list N :=
  let '(b', x) := step b r in
  (b', enc_resp x ++ enc_ids (current_data b')
       ++ match r with
          | Close _ => enc_snapshot b'
          | _ => [nn (length (b_ds b')); nn (length (b_vs b'))]
          end).

Fixpoint enc_trace (b : builder) (h : list req) : builder * list (list N) :=
  match h with
  | [] => (b, [])
  | r :: h' => let '(b1, o) := enc_step b r in
               let '(b2, os) := enc_trace b1 h' in (b2, o :: os)
  end.

Definition enc_opt (o : option N) : list N := match o with None => [0] | Some x => [1; x] end.

Definition enc_ditem (x : ditem) : list N := match x with DVoid n => [0; n] | DDatum i => [1; nn i] end.
Definition enc_display (o : option (list (list ditem))) : list N :=
  match o with
  | None => [0]
  | Some vs => 1 :: nn (length vs) :: flat_map (fun v => nn (length v) :: flat_map enc_ditem v) vs
  end.

Definition enc_pairs (l : list (nat * nat)) : list N :=
  nn (length l) :: flat_map (fun p => [nn (fst p); nn (snd p)]) l.

Definition enc_convert (r : cres (list (nat * nat) * list (id * id) * builder)) : list N :=
  match r with
  | CPanic => [2]
  | CErr e => [1; enc_err e]
  | COk (vm, _, b) => 0 :: enc_pairs vm ++ enc_snapshot b
  end.

(* the final observation: None when build() panics (pending changes) *)
Definition conv_strats := [SSimple; SBasic; SAppend; SAppendRev; SGAppend; SGAppendRev].
Definition enc_final (b : builder) : list (list N) :=
  match build b with
  | None => [[0]]
  | Some d =>
      [ [1]; enc_opt (max_size d); [max_type_align d]; enc_display (display d) ]
      ++ map (fun s => enc_convert (convert d s empty_builder)) conv_strats
  end.

(* a history whose closes use the generic builder's own strategies is a history of GenericRecordDefinitionBuilder:
   no offsets are ever assigned, so the final observation is whether build() panics, nothing else *)
Definition is_generic (h : list req) : bool :=
  existsb (fun r => match r with Close SGAppend | Close SGAppendRev => true | _ => false end) h.
Definition enc_final_generic (b : builder) : list (list N) :=
  match build b with None => [[0]] | Some _ => [[1]] end.

Definition observe (h : list req) : list (list N) :=
  let '(b, os) := enc_trace empty_builder h in
  os ++ (if is_generic h then enc_final_generic b else enc_final b).

Fixpoint list_eqb (a b : list N) : bool :=
  match a, b with
  | [], [] => true
  | x :: a', y :: b' => (x =? y) && list_eqb a' b'
  | _, _ => false
  end.
Fixpoint lists_eqb (a b : list (list N)) : bool :=
  match a, b with
  | [], [] => true
  | x :: a', y :: b' => list_eqb x y && lists_eqb a' b'
  | _, _ => false
  end.

(* index of the first differing observation, if any *)
Fixpoint first_diff (k : nat) (a b : list (list N)) : option nat :=
  match a, b with
  | [], [] => None
  | x :: a', y :: b' => if list_eqb x y then first_diff (S k) a' b' else Some k
  | _, _ => Some k
  end.

Definition case := (list req * list (list N))%type.
Definition check_case (c : case) : bool := lists_eqb (observe (fst c)) (snd c).

(* numbers of the failing cases *)
Fixpoint failing (k : nat) (cs : list case) : list nat :=
  match cs with [] => [] | c :: r => if check_case c then failing (S k) r else k :: failing (S k) r end.
