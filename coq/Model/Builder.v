(* Model of truc/src/record/definition/builder/generic/mod.rs (request layer shared by the generic
   and the native builder), of the capacity / alignment / Display functions of
   truc/src/record/definition/mod.rs, and of truc/src/record/definition/convert.rs.
   Executable definitions only. *)
From Coq Require Import List NArith Bool Arith.
From Truc.Model Require Import Layout.
Import ListNotations.
Open Scope N_scope.

(* ---------------------------------------------------------------- builder state *)

Record builder := mkBuilder {
  b_ds : defs;                   (* datum_definitions *)
  b_vs : list (list id);         (* variants (variant id = position) *)
  b_add : list id;               (* data_to_add *)
  b_rm : list id                 (* data_to_remove *)
}.

Definition empty_builder := mkBuilder [] [] [] [].

(* variants.last().data, or nothing *)
Definition last_variant (b : builder) : list id := last (b_vs b) [].

Definition mem (i : id) (l : list id) : bool := existsb (Nat.eqb i) l.

(* get_current_data *)
Definition current_data (b : builder) : list id :=
  filter (fun d => negb (mem d (b_rm b))) (last_variant b) ++ b_add b.

(* get_current_datum_definition_by_name: first current datum with that name *)
Definition find_name (ds : defs) (nm : nat) (l : list id) : option id :=
  find (fun d => (d <? length ds)%nat && Nat.eqb (d_name (getd ds d)) nm) l.
Definition current_by_name (b : builder) (nm : nat) : option id := find_name (b_ds b) nm (current_data b).
(* get_variant_datum_definition_by_name *)
Definition variant_by_name (b : builder) (v : nat) (nm : nat) : option id :=
  match nth_error (b_vs b) v with Some l => find_name (b_ds b) nm l | None => None end.

(* ---------------------------------------------------------------- requests *)

Inductive req :=
| Add (nm ty : nat) (sz a : N) (uninit : bool)
| Remove (i : id)
| Close (s : strat)
| LookupCur (nm : nat)
| LookupVar (v nm : nat).

Inductive err := DuplicateName | AlreadyRemoved | NotInPrevious | NotInBuilding.

Inductive resp :=
| RId (i : id)            (* Ok(datum id) *)
| RUnit                   (* Ok(()) *)
| RVariant (v : nat)      (* variant id *)
| RErr (e : err)
| RFound (o : option id).

Fixpoint remove_first (i : id) (l : list id) : list id :=
  match l with [] => [] | j :: r => if Nat.eqb j i then r else j :: remove_first i r end.

Definition has_pending_changes (b : builder) : bool :=
  match b_vs b with [] => true | _ => false end
  || negb (match b_rm b with [] => true | _ => false end)
  || negb (match b_add b with [] => true | _ => false end).

Definition step (b : builder) (r : req) : builder * resp :=
  match r with
  | Add nm ty sz a u =>
      match current_by_name b nm with
      | Some _ => (b, RErr DuplicateName)
      | None =>
          let i := length (b_ds b) in
          (mkBuilder (b_ds b ++ [mkDatum nm ty sz a u MAXU]) (b_vs b) (b_add b ++ [i]) (b_rm b), RId i)
      end
  | Remove i =>
      match b_vs b with
      | [] =>
          if mem i (b_add b)
          then (mkBuilder (b_ds b) (b_vs b) (remove_first i (b_add b)) (b_rm b), RUnit)
          else (b, RErr NotInBuilding)
      | _ =>
          if mem i (last_variant b) then
            if mem i (b_rm b) then (b, RErr AlreadyRemoved)
            else (mkBuilder (b_ds b) (b_vs b) (b_add b) (b_rm b ++ [i]), RUnit)
          else if mem i (b_add b)
               then (mkBuilder (b_ds b) (b_vs b) (remove_first i (b_add b)) (b_rm b), RUnit)
               else (b, RErr NotInPrevious)
      end
  | Close s =>
      if has_pending_changes b then
        let '(dt, ds') := run_strat s (last_variant b) (b_add b) (b_rm b) (b_ds b) in
        (mkBuilder ds' (b_vs b ++ [dt]) [] [], RVariant (length (b_vs b)))
      else (b, RVariant (length (b_vs b) - 1))
  | LookupCur nm => (b, RFound (current_by_name b nm))
  | LookupVar v nm => (b, RFound (variant_by_name b v nm))
  end.

Definition run_from (b : builder) (h : list req) : builder := fold_left (fun b r => fst (step b r)) h b.
Definition run (h : list req) : builder := run_from empty_builder h.

(* responses along a history *)
Fixpoint trace (b : builder) (h : list req) : list resp :=
  match h with [] => [] | r :: h' => let '(b', x) := step b r in x :: trace b' h' end.

(* build(): panics when changes are pending *)
Definition build (b : builder) : option (defs * list (list id)) :=
  match b_add b, b_rm b with [], [] => Some (b_ds b, b_vs b) | _, _ => None end.

(* ---------------------------------------------------------------- definition/mod.rs *)

Definition definition := (defs * list (list id))%type.

(* max_type_align: reduce(max) over ALL datum definitions, align_of::<()>() = 1 if none *)
Definition max_type_align (d : definition) : N :=
  match fst d with [] => 1 | x :: r => fold_left (fun m y => N.max m (d_align y)) r (d_align x) end.

(* usize addition as compiled in debug: panics (None) on overflow *)
Definition checked_add (a b : N) : option N := if a + b <=? MAXU then Some (a + b) else None.

Fixpoint max_opt (l : list (option N)) (acc : N) : option N :=
  match l with
  | [] => Some acc
  | None :: _ => None
  | Some x :: r => max_opt r (N.max acc x)
  end.

Inductive ms_scope := AllDefinitions | VariantMembers.

(* max_size.  AllDefinitions is the code before the fix "max_size only considers data that belong
   to a variant"; VariantMembers is the code with it. *)
Definition max_size_gen (sc : ms_scope) (d : definition) : option N :=
  match sc with
  | AllDefinitions => max_opt (map (fun x => checked_add (d_off x) (d_size x)) (fst d)) 0
  | VariantMembers =>
      max_opt (map (fun i => checked_add (off (fst d) i) (size (fst d) i)) (concat (snd d))) 0
  end.
Definition max_size := max_size_gen VariantMembers.

(* Display: fmt_variant_representation.  None = panic ("offset clash" or unknown datum) *)
Inductive ditem := DVoid (n : N) | DDatum (i : id).
Fixpoint display_variant (ds : defs) (bo : N) (v : list id) : option (list ditem) :=
  match v with
  | [] => Some []
  | i :: r =>
      if (length ds <=? i)%nat then None
      else if off ds i <? bo then None
      else match checked_add (off ds i) (size ds i) with
           | None => None
           | Some e =>
             match display_variant ds e r with
             | None => None
             | Some items =>
                 Some ((if bo <? off ds i then [DVoid (off ds i - bo)] else []) ++ DDatum i :: items)
             end
           end
  end.
Fixpoint all_some {A} (l : list (option A)) : option (list A) :=
  match l with
  | [] => Some []
  | None :: _ => None
  | Some x :: r => match all_some r with Some xs => Some (x :: xs) | None => None end
  end.
Definition display (d : definition) : option (list (list ditem)) :=
  all_some (map (display_variant (fst d) 0) (snd d)).

(* ---------------------------------------------------------------- definition/convert.rs *)

(* convert_record_definition with the callbacks every caller in the repository uses:
   add = copy_datum (same name / type info), remove = remove_datum, close = close with strategy s.
   The id map is an association list (BTreeMap<DatumId, DatumId>); indexing a missing key panics. *)
Inductive cres (A : Type) := COk (a : A) | CErr (e : err) | CPanic.
Arguments COk {A}. Arguments CErr {A}. Arguments CPanic {A}.

Fixpoint assoc (m : list (id * id)) (k : id) : option id :=
  match m with [] => None | (a, b) :: r => if Nat.eqb a k then Some b else assoc r k end.
Definition assoc_set (m : list (id * id)) (k v : id) : list (id * id) :=
  (k, v) :: filter (fun kv => negb (Nat.eqb (fst kv) k)) m.

Fixpoint conv_removes (m : list (id * id)) (b : builder) (rm : list id) : cres builder :=
  match rm with
  | [] => COk b
  | d :: r =>
      match assoc m d with
      | None => CPanic
      | Some d' =>
          match step b (Remove d') with
          | (b', RErr e) => CErr e
          | (b', _) => conv_removes m b' r
          end
      end
  end.

Fixpoint conv_adds (src : defs) (m : list (id * id)) (b : builder) (add : list id)
  : cres (list (id * id) * builder) :=
  match add with
  | [] => COk (m, b)
  | d :: r =>
      if (length src <=? d)%nat then CPanic else
      let x := getd src d in
      match step b (Add (d_name x) (d_ty x) (d_size x) (d_align x) (d_uninit x)) with
      | (b', RId i) => conv_adds src (assoc_set m d i) b' r
      | (b', RErr e) => CErr e
      | _ => CPanic
      end
  end.

Fixpoint conv_variants (src : defs) (s : strat) (prev : option (list id)) (vs : list (list id)) (vid : nat)
         (m : list (id * id)) (vm : list (nat * nat)) (b : builder)
  : cres (list (nat * nat) * list (id * id) * builder) :=
  match vs with
  | [] => COk (vm, m, b)
  | v :: rest =>
      let '(to_add, to_rm) :=
        match prev with
        | Some p => (filter (fun d => negb (mem d p)) v, filter (fun d => negb (mem d v)) p)
        | None => (v, [])
        end in
      match conv_removes m b to_rm with
      | CErr e => CErr e | CPanic => CPanic
      | COk b1 =>
          match conv_adds src m b1 to_add with
          | CErr e => CErr e | CPanic => CPanic
          | COk (m', b2) =>
              match step b2 (Close s) with
              | (b3, RVariant nv) =>
                  conv_variants src s (Some v) rest (S vid) m' (vm ++ [(vid, nv)]) b3
              | _ => CPanic
              end
          end
      end
  end.

Definition convert (d : definition) (s : strat) (target : builder) :=
  conv_variants (fst d) s None (snd d) 0 [] [] target.
