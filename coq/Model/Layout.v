(* Model of truc/src/record/definition/builder/native/variant/{mod,dummy,basic,simple}.rs
   Executable definitions only; proofs live in Truc.Proofs.  *)
From Coq Require Import List NArith Bool Arith.
Import ListNotations.
Open Scope N_scope.

(* A datum definition: NativeDatumDetails + name.  Names and type names are
   opaque numbers (the harness maps them to strings). *)
Record datum := mkDatum {
  d_name : nat; d_ty : nat; d_size : N; d_align : N; d_uninit : bool; d_off : N }.
Definition defs := list datum.
Notation id := nat (only parsing).

(* usize::MAX: the "not placed yet" offset given by the native builder *)
Definition MAXU : N := 18446744073709551615.

Definition dummy := mkDatum 0 0 0 1 false 0.
Definition getd (ds : defs) (i : id) : datum := nth i ds dummy.
Definition with_off (d : datum) (o : N) :=
  mkDatum (d_name d) (d_ty d) (d_size d) (d_align d) (d_uninit d) o.
Fixpoint set_off (ds : defs) (i : id) (o : N) : defs :=
  match ds, i with
  | [], _ => []
  | d :: r, O => with_off d o :: r
  | d :: r, S i' => d :: set_off r i' o
  end.

Definition off ds i := d_off (getd ds i).
Definition size ds i := d_size (getd ds i).
Definition al ds i := d_align (getd ds i).
Definition dend ds i := off ds i + size ds i.

(* variant/mod.rs: align_bytes *)
Definition align_bytes (caret a : N) : N := (caret + a - 1) / a * a.

(* variant/mod.rs: NativeDataUpdater::end  (last().map(off+size).unwrap_or(0)) *)
Fixpoint last_end (ds : defs) (lo : N) (data : list id) : N :=
  match data with [] => lo | i :: r => last_end ds (dend ds i) r end.
Definition end_of (data : list id) (ds : defs) : N := last_end ds 0 data.

(* NativeDataUpdater::remove_data *)
Definition remove_data (data rm : list id) : list id :=
  filter (fun d => negb (existsb (Nat.eqb d) rm)) data.

(* NativeDataUpdater::push_datum : (data', defs', end, offset) *)
Definition push_datum (data : list id) (ds : defs) (i : id) : list id * defs * N * N :=
  let e := end_of data ds in
  let o := align_bytes e (al ds i) in
  (data ++ [i], set_off ds i o, e, o).

(* ---- dummy.rs ---- *)
Definition append_step (st : list id * defs) (i : id) : list id * defs :=
  let '(dt', dfs', _, _) := push_datum (fst st) (snd st) i in (dt', dfs').
Definition append_data (data add rm : list id) (ds : defs) : list id * defs :=
  fold_left append_step add (remove_data data rm, ds).
Definition append_data_reverse (data add rm : list id) (ds : defs) : list id * defs :=
  append_data data (rev add) rm ds.

(* ---- basic.rs ---- *)
(* the inner `while data_caret < data.len()` loop; fuel = S (length data) always suffices
   (Proofs.Basic.basic_walk_post) *)
Fixpoint basic_walk (fuel : nat) (data : list id) (ds : defs) (sz a : N) (dc : nat) (bc : N) : nat * N :=
  match fuel with
  | O => (dc, bc)
  | S f =>
    match nth_error data dc with
    | None => (dc, bc)
    | Some c =>
      if off ds c =? bc then basic_walk f data ds sz a (S dc) (bc + size ds c)
      else
        let b := align_bytes bc a in
        if b + sz <=? off ds c then (dc, b)
        else basic_walk f data ds sz a (S dc) (dend ds c)
    end
  end.

Definition insert_at {A} (l : list A) (n : nat) (x : A) : list A := firstn n l ++ x :: skipn n l.

Record bstate := mkB { b_data : list id; b_defs : defs; b_dc : nat; b_bc : N }.
Definition basic_step (st : bstate) (i : id) : bstate :=
  let ds := b_defs st in
  let '(dc', bc') := basic_walk (S (length (b_data st))) (b_data st) ds (size ds i) (al ds i) (b_dc st) (b_bc st) in
  let bc'' := align_bytes bc' (al ds i) in
  mkB (insert_at (b_data st) dc' i) (set_off ds i bc'') dc' bc''.
Definition basic (data add rm : list id) (ds : defs) : list id * defs :=
  let st := fold_left basic_step add (mkB (remove_data data rm) ds O 0) in
  (b_data st, b_defs st).

(* ---- simple.rs ---- *)
Record gap := mkGap { g_start : N; g_end : N; g_idx : nat }.

(* compute_initial_gaps.  skip_zst = true is the code before the fix
   "simple strategy must not ignore zero-size data" (kept for the refutation witness). *)
Fixpoint initial_gaps (skip_zst : bool) (data : list id) (ds : defs) (idx : nat) (last : N) : list gap :=
  match data with
  | [] => []
  | i :: rest =>
    if skip_zst && (size ds i =? 0) then initial_gaps skip_zst rest ds (S idx) last
    else if last <? off ds i
         then mkGap last (off ds i) idx :: initial_gaps skip_zst rest ds (S idx) (dend ds i)
         else initial_gaps skip_zst rest ds (S idx) (dend ds i)
  end.

Inductive fkind := StartOfGap | EndOfGap.
Record fitted := mkFit { f_kind : fkind; f_gap : nat; f_before : N; f_after : N; f_start : N; f_end : N }.

Definition selection_value (f : fitted) : N :=
  match f_kind f with StartOfGap => f_end f | EndOfGap => f_start f end.

Definition fit_datum_to_gap (gi : nat) (g : gap) (sz a : N) : option (N * fitted) :=
  let s := align_bytes (g_start g) a in
  let e := s + sz in
  if e <=? g_end g then
    Some ((s - g_start g) + (g_end g - e), mkFit StartOfGap gi (s - g_start g) (g_end g - e) s e)
  else None.

(* select_best: "the one that best realigns to the highest power of 2 wins";
   the shift loop is structural recursion on the binary representation *)
Fixpoint first_wins_pos (a b : positive) : bool :=
  match b with
  | xI _ => true | xH => true
  | xO b' => match a with
             | xI _ => false | xH => false
             | xO a' => first_wins_pos a' b'
             end
  end.
Definition first_wins (a b : N) : bool :=
  match a, b with
  | N0, _ => true
  | _, N0 => false
  | Npos p, Npos q => first_wins_pos p q
  end.
Definition select_best (a : N) (fa : fitted) (b : N) (fb : fitted) : fitted :=
  if first_wins a b then fa else fb.

Definition end_variant (f : fitted) (delta : N) : fitted :=
  mkFit EndOfGap (f_gap f) (f_before f + delta) (f_after f - delta) (f_start f + delta) (f_end f + delta).
Definition select_start_or_end (f : fitted) (a : N) : fitted :=
  let delta := f_after f / a * a in
  if 0 <? delta then select_best (f_end f) f (f_start f + delta) (end_variant f delta) else f.

(* the loop over gaps: skip gaps that are too small, stop after an exact fit *)
Fixpoint collect_fits (gaps : list gap) (gi : nat) (sz a : N) : list (N * fitted) :=
  match gaps with
  | [] => []
  | g :: rest =>
    if g_end g - g_start g <? sz then collect_fits rest (S gi) sz a
    else match fit_datum_to_gap gi g sz a with
         | Some (fg, f) =>
           if (f_before f =? 0) && (f_after f =? 0) then [(fg, f)]
           else (fg, f) :: collect_fits rest (S gi) sz a
         | None => collect_fits rest (S gi) sz a
         end
  end.

(* BTreeMap<FullGap, Vec<FittedDatum>>::into_values().next(): candidates with the least key,
   in gap order *)
Definition min_key (l : list (N * fitted)) : option N :=
  match l with [] => None | (k, _) :: r => Some (fold_left (fun m kf => N.min m (fst kf)) r k) end.

Definition choose_step (a : N) (prev cur : fitted) : fitted :=
  let sc := select_start_or_end cur a in
  select_best (selection_value prev) prev (selection_value sc) sc.

Definition choose (cands : list (N * fitted)) (a : N) : option fitted :=
  match min_key cands with
  | None => None
  | Some k =>
    match map snd (filter (fun kf => fst kf =? k) cands) with
    | [] => None
    | f0 :: fs => Some (fold_left (choose_step a) fs (select_start_or_end f0 a))
    end
  end.

Definition bump (g : gap) : gap := mkGap (g_start g) (g_end g) (S (g_idx g)).

Record sstate := mkS { s_data : list id; s_defs : defs; s_gaps : list gap }.

Definition simple_step (st : sstate) (i : id) : sstate :=
  let data := s_data st in let ds := s_defs st in let gaps := s_gaps st in
  match choose (collect_fits gaps 0 (size ds i) (al ds i)) (al ds i) with
  | Some f =>
    let g := nth (f_gap f) gaps (mkGap 0 0 0) in
    let gb := if 0 <? f_before f then [mkGap (g_start g) (g_start g + f_before f) (g_idx g)] else [] in
    let ga := if 0 <? f_after f then [mkGap (f_end f) (g_end g) (S (g_idx g))] else [] in
    let gaps' := firstn (f_gap f) gaps ++ gb ++ ga ++ map bump (skipn (S (f_gap f)) gaps) in
    mkS (insert_at data (g_idx g) i) (set_off ds i (f_start f)) gaps'
  | None =>
    let '(data', ds', gs, ge) := push_datum data ds i in
    mkS data' ds' (if gs <? ge then gaps ++ [mkGap gs ge (length data' - 1)] else gaps)
  end.

(* BTreeMap<usize, Vec<DatumId>> keyed by size, .into_values().rev().flatten():
   decreasing size of *groups*, insertion order inside a group *)
Fixpoint insert_by_size (ds : defs) (i : id) (l : list id) : list id :=
  match l with
  | [] => [i]
  | j :: r => if size ds j <? size ds i then i :: j :: r else j :: insert_by_size ds i r
  end.
Definition sort_by_size_desc (ds : defs) (l : list id) : list id :=
  fold_left (fun acc i => insert_by_size ds i acc) l [].

Definition simple_gen (skip_zst : bool) (data add rm : list id) (ds : defs) : list id * defs :=
  let data0 := remove_data data rm in
  let st := fold_left simple_step (sort_by_size_desc ds add) (mkS data0 ds (initial_gaps skip_zst data0 ds 0 0)) in
  (s_data st, s_defs st).

Definition simple := simple_gen false.            (* the tree with the fix *)
Definition simple_unfixed := simple_gen true.     (* the tree before it *)

(* ---- generic/variant/dummy.rs: the two strategies of the generic builder (no offsets) ---- *)
Definition gen_append_data (data add rm : list id) (ds : defs) : list id * defs :=
  (remove_data data rm ++ add, ds).
Definition gen_append_data_reverse (data add rm : list id) (ds : defs) : list id * defs :=
  (remove_data data rm ++ rev add, ds).

Inductive strat := SSimple | SBasic | SAppend | SAppendRev | SSimpleUnfixed | SGAppend | SGAppendRev.
Definition run_strat (s : strat) := match s with
  | SSimple => simple | SSimpleUnfixed => simple_unfixed | SBasic => basic
  | SAppend => append_data | SAppendRev => append_data_reverse
  | SGAppend => gen_append_data | SGAppendRev => gen_append_data_reverse end.
