(* The generated functions of a variant, run on the abstract machine: the model's Gen bodies fed to
   Exec.run_fn.  Executable definitions only. *)
From Coq Require Import List NArith Bool Arith.
From Truc.Model Require Import Layout Builder Ir Gen Exec.
Import ListNotations.
Open Scope N_scope.

Definition item_body (it : item) : list stmt :=
  match it with
  | INew _ _ _ b | IUnpack _ b | IDrop _ b | IConv _ _ _ _ _ b => b
  | _ => []
  end.

Section Ops.
Variable ds : defs.
Variable TI : nat -> tinfo.
Variable rt : runtime.
Variables (A cap : N).

(* the fields of a struct argument built from values `vals` (indexed by datum id) *)
Definition args_of (data : list nat) (vals : nat -> nat) : list (nat * (nat * nat)) :=
  map (fun i => (nm ds i, (vals i, ty ds i))) data.

(* CappedRecordV::new(UnpackedRecordV { vals }) *)
Definition op_new (v : nat) (data : list nat) (vals : nat -> nat) : res (outcome * list nat) :=
  run_fn TI rt A cap (mkEnv None None None None (args_of data vals) [] [] None) (item_body (gen_new ds v data)).

(* CappedRecordV::new_uninit(UnpackedUninitRecordV { vals of the mandatory fields }) *)
Definition op_new_uninit (v : nat) (data : list nat) (vals : nat -> nat) : res (outcome * list nat) :=
  run_fn TI rt A cap (mkEnv None None None None (args_of (filter (fun i => negb (un ds i)) data) vals) [] [] None)
         (item_body (gen_new_uninit ds v data)).

(* record.unpack() *)
Definition op_unpack (v : nat) (data : list nat) (r : buf) : res (outcome * list nat) :=
  run_fn TI rt A cap (mkEnv (Some r) None None None [] [] [] None) (item_body (gen_unpack ds v data)).

(* drop(record): the generated Drop::drop body; afterwards the struct's only field has no destructor *)
Definition op_drop (v : nat) (data : list nat) (r : buf) : res (outcome * list nat) :=
  match run_body TI rt A cap (mkEnv (Some r) None None None [] [] [] None) (item_body (gen_drop ds v data)) ONone with
  | Fault x => Fault x
  | Ok (e, o) => Ok (o, droppable_of TI (rev (e_locals e)))
  end.

(* record.f() / record.f_mut() *)
Definition op_get (r : buf) (i : nat) (mutable : bool) : res (option nat) := bget TI rt r (of ds i) (ty ds i) mutable.

(* *record.f_mut() = x : the previous value is destroyed by the assignment, the new one is stored in place *)
Definition op_set (r : buf) (i : nat) (x : nat) : res (buf * list nat) :=
  match bget TI rt r (of ds i) (ty ds i) true with
  | Fault e => Fault e
  | Ok old =>
      let t := TI (ty ds i) in
      Ok (mkBuf (b_align r) (b_cap r)
            (mkSlot (of ds i) (ty ds i) (ti_size t) (ti_drop t) (Owned x)
             :: filter (fun s => negb (key_match (of ds i) (ty ds i) s)) (b_slots r)),
          match old with Some o => if ti_drop t then [o] else [] | None => [] end)
  end.

(* (record_prev, plus).into() : one of the four conversion forms *)
Definition op_conv (v prev : nat) (minus plus : list nat) (uninit and_out : bool) (r : buf) (pvals : nat -> nat)
  : res (outcome * list nat) :=
  run_fn TI rt A cap
    (mkEnv None (Some r) None None []
           (args_of (filter (fun i => negb uninit || negb (un ds i)) plus) pvals) [] None)
    (item_body (gen_conv ds v prev minus plus uninit and_out)).
End Ops.
