(* The scripted converter used by the E4 correspondence engine, and the flat encoding of results.
   The Rust driver (harness/src/bin/vecdrv.rs) implements the same script on real element types. *)
From Coq Require Import List NArith Bool Arith.
From Truc.Model Require Import VecConv.
Import ListNotations.
Open Scope N_scope.

(* one script item per element: code = 2 * action + (1 if the converter modifies the previous output)
   actions: 0 convert, 1 abandon, 2 return Err, 3 panic at once, 4 panic after building the output,
   5 panic after dropping the input.  An exhausted script converts. *)
Definition script := list N.

Definition sconv (s : script) (t : N) (prev : option N) : script * option N * outcome N N N :=
  let '(code, rest) := match s with [] => (0, []) | c :: r => (c, r) end in
  let act := code / 2 in
  let md := N.odd code in
  let prev' := match prev with Some u => if md then Some (u + 100000) else None | None => None end in
  (rest, prev',
   if act =? 0 then Converted (1000 + t)
   else if act =? 1 then Abandoned
   else if act =? 2 then Err (7000 + t)
   else Panicked (9000 + t)).

Definition enc_result (r : result N N N script) : list N :=
  match r with
  | Done out _ => 0 :: N.of_nat (length out) :: out
  | Failed (FErr e) => [1; e]
  | Failed (FPanic p) => [2; p]
  | Failed (FPanicReplaced p) => [3; p]
  | Refused => [4]
  | Fault => [5]
  end.
Definition enc_ev (e : ev N N) : list N :=
  match e with
  | Call t None => [10; t]
  | Call t (Some u) => [11; t; u]
  | DropT t => [12; t]
  | DropU u => [13; u]
  | FreeBuf => [14]
  end.

(* a case: the layouts of the two element types, the input tokens 0..n-1, the script *)
Definition vcase := (N * N * N * N * nat * script)%type.
Definition run_case (fl : flags) (c : vcase) : list N :=
  let '(sT, aT, sU, aU, n, sc) := c in
  let input := map N.of_nat (seq 0 n) in
  let '(r, log) := run N N N N script sconv sT aT sU aU fl input sc in
  enc_result r ++ 99 :: flat_map enc_ev log.

Definition observe_vec (c : vcase) : list N := run_case flags_fixed c.

Fixpoint nlist_eqb (a b : list N) : bool :=
  match a, b with
  | [], [] => true
  | x :: a', y :: b' => (x =? y) && nlist_eqb a' b'
  | _, _ => false
  end.
Definition check_vcase (c : vcase * list N) : bool := nlist_eqb (observe_vec (fst c)) (snd c).
