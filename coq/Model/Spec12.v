(* Set-level specification of the definition builders (property C12): what a caller may rely on,
   with no lists of pending changes, no strategies, no offsets. *)
From Coq Require Import List NArith Bool Arith.
From Truc.Model Require Import Layout Builder.
Import ListNotations.
Local Open Scope nat_scope.

Record spec := mkSpec {
  sp_names : list nat;          (* name of datum k, for every identifier handed out so far *)
  sp_cur : list id;             (* the current variant, as a set *)
  sp_closed : list (list id)    (* the closed variants, each as a set *)
}.

Definition sp_empty := mkSpec [] [] [].

Definition name_of (s : spec) (i : id) : nat := nth i (sp_names s) 0.
Definition subset (a b : list id) : bool := forallb (fun x => mem x b) a.
Definition set_eq (a b : list id) : bool := subset a b && subset b a.

(* the unique current datum with that name, if any *)
Definition sp_lookup (s : spec) (l : list id) (nm : nat) : option id :=
  find (fun i => (i <? length (sp_names s))%nat && Nat.eqb (name_of s i) nm) l.

Definition sp_step (s : spec) (r : req) : spec * resp :=
  match r with
  | Add nm _ _ _ _ =>
      if existsb (fun i => (i <? length (sp_names s))%nat && Nat.eqb (name_of s i) nm) (sp_cur s)
      then (s, RErr DuplicateName)
      else let i := length (sp_names s) in       (* a fresh identifier, never handed out before *)
           (mkSpec (sp_names s ++ [nm]) (sp_cur s ++ [i]) (sp_closed s), RId i)
  | Remove i =>
      if mem i (sp_cur s)
      then (mkSpec (sp_names s) (filter (fun j => negb (Nat.eqb j i)) (sp_cur s)) (sp_closed s), RUnit)
      else (s, RErr (match sp_closed s with
                     | [] => NotInBuilding
                     | _ => if mem i (last (sp_closed s) []) then AlreadyRemoved else NotInPrevious
                     end))
  | Close _ =>
      match sp_closed s with
      | [] => (mkSpec (sp_names s) (sp_cur s) [sp_cur s], RVariant 0)
      | _ => if set_eq (sp_cur s) (last (sp_closed s) [])
             then (s, RVariant (length (sp_closed s) - 1))            (* nothing changed: no new variant *)
             else (mkSpec (sp_names s) (sp_cur s) (sp_closed s ++ [sp_cur s]), RVariant (length (sp_closed s)))
      end
  | LookupCur nm => (s, RFound (sp_lookup s (sp_cur s) nm))
  | LookupVar v nm =>
      (s, RFound (match nth_error (sp_closed s) v with Some l => sp_lookup s l nm | None => None end))
  end.

(* abstraction of a builder state *)
Definition abs (b : builder) : spec :=
  mkSpec (map d_name (b_ds b)) (current_data b) (b_vs b).
