(* Model of truc_runtime/src/convert.rs : try_convert_vec_in_place, and its fold specification.
   Executable definitions only.  The converter is a Section variable: it has its own state, receives the
   moved-in element and mutable access to the previous output (it may replace it), and either converts,
   abandons, returns an error or panics. *)
From Coq Require Import List Arith Bool NArith.
Import ListNotations.

(* facts read from the source text of convert.rs by the translator (tools/srcscan.py -> Current/Runtime.v) *)
Record flags := mkFlags {
  guard_size : bool;          (* assert_eq!(size_of::<T>(), size_of::<U>()) before ownership is taken *)
  guard_align : bool;         (* assert_eq!(align_of::<T>(), align_of::<U>()) before ownership is taken *)
  inc_before_call : bool;     (* first_ttt += 1 precedes the call of the converter *)
  free_on_failure : bool;     (* both failure arms release the vector's buffer after the clean-up *)
  same_payload : bool         (* Err(e) is returned as is and a panic is resumed with its own payload *)
}.
Definition flags_ok (fl : flags) : bool :=
  guard_size fl && guard_align fl && inc_before_call fl && free_on_failure fl && same_payload fl.
Definition flags_fixed := mkFlags true true true true true.
(* the tree before the fix "vector conversion releases the buffer and keeps the panic payload" *)
Definition flags_unfixed := mkFlags true true true false false.

Section VC.
Variables (T U E P St : Type).

Inductive outcome := Converted (u : U) | Abandoned | Err (e : E) | Panicked (p : P).
Variable conv : St -> T -> option U -> St * option U * outcome.

Inductive cell := CT (t : T) | CU (u : U) | Dead.
(* what the function itself does (drops made inside the converter are the converter's) *)
Inductive ev := Call (t : T) (prev : option U) | DropT (t : T) | DropU (u : U) | FreeBuf.
Inductive fail := FErr (e : E) | FPanic (p : P) | FPanicReplaced (p : P).
Inductive result := Done (out : list U) (s : St) | Failed (f : fail) | Refused | Fault.

Fixpoint update (l : list cell) (n : nat) (x : cell) : list cell :=
  match l, n with
  | [], _ => []
  | _ :: r, O => x :: r
  | c :: r, S n' => c :: update r n' x
  end.

Definition outs_of (l : list cell) : list U := flat_map (fun c => match c with CU u => [u] | _ => [] end) l.
Definition ins_of (l : list cell) : list T := flat_map (fun c => match c with CT t => [t] | _ => [] end) l.

(* clean_on_error (+ the release of the buffer when the code does it) *)
Definition cleanup (fl : flags) (cells : list cell) (fm ft : nat) (again : list T) : list ev :=
  map DropU (outs_of (firstn fm cells)) ++ map DropT (again ++ ins_of (skipn ft cells))
  ++ (if free_on_failure fl then [FreeBuf] else []).

Definition panic_payload (fl : flags) (p : P) : fail := if same_payload fl then FPanic p else FPanicReplaced p.

(* the while loop, two indices over one buffer; reading a cell that does not hold what the index
   invariant promises, or writing onto a live cell, is a Fault *)
Fixpoint loop (fl : flags) (fuel : nat) (cells : list cell) (fm ft : nat) (s : St) (log : list ev)
  : result * list ev :=
  match fuel with
  | O => if ft <? length cells then (Fault, log) else (Done (outs_of (firstn fm cells)) s, log)
  | S f =>
    if ft <? length cells then
      match nth_error cells ft with
      | Some (CT t) =>
        (* the element is copied out of its slot (ownership is now the converter's); when first_ttt is
           not advanced before the call, a failing call makes the clean-up drop that element AGAIN *)
        let cells1 := update cells ft Dead in
        let ft1 := S ft in
        let again := if inc_before_call fl then [] else [t] in
        let prev := match fm with
                    | O => Some None
                    | S k => match nth_error cells1 k with Some (CU u) => Some (Some u) | _ => None end
                    end in
        match prev with
        | None => (Fault, log)
        | Some prev =>
          let '(s', prev', out) := conv s t prev in
          let cells2 := match fm, prev, prev' with
                        | S k, Some _, Some u' => update cells1 k (CU u')
                        | _, _, _ => cells1
                        end in
          let log' := log ++ [Call t prev] in
          match out with
          | Converted u =>
            match nth_error cells2 fm with
            | Some Dead => loop fl f (update cells2 fm (CU u)) (S fm) ft1 s' log'
            | _ => (Fault, log')       (* would overwrite a live element *)
            end
          | Abandoned => loop fl f cells2 fm ft1 s' log'
          | Err e => (Failed (FErr e), log' ++ cleanup fl cells2 fm ft1 again)
          | Panicked p => (Failed (panic_payload fl p), log' ++ cleanup fl cells2 fm ft1 again)
          end
        end
      | _ => (Fault, log)
      end
    else (Done (outs_of (firstn fm cells)) s, log)
  end.

(* layouts of the two element types, as the assertions compare them *)
Variables (sizeT alT sizeU alU : N).

Definition refused (fl : flags) : bool :=
  (guard_size fl && negb (N.eqb sizeT sizeU)) || (guard_align fl && negb (N.eqb alT alU)).

(* the whole function: assertions, then the loop.  A refused call panics before ownership is taken:
   the input vector is then dropped normally by the unwinding (each element once, then its buffer). *)
Definition run (fl : flags) (input : list T) (s0 : St) : result * list ev :=
  if refused fl then (Refused, map DropT input ++ [FreeBuf])
  else loop fl (length input) (map CT input) 0 0 s0 [].

(* ---- specification: a plain fold over the input list; no buffer, no indices ---- *)
Definition set_last (outs : list U) (u' : option U) : list U :=
  match u' with Some u => removelast outs ++ [u] | None => outs end.
Definition last_opt (outs : list U) : option U :=
  match rev outs with [] => None | u :: _ => Some u end.

Fixpoint spec (rest : list T) (outs : list U) (s : St) (log : list ev) : result * list ev :=
  match rest with
  | [] => (Done outs s, log)
  | t :: r =>
    let prev := last_opt outs in
    let '(s', prev', out) := conv s t prev in
    let outs' := match prev with Some _ => set_last outs prev' | None => outs end in
    let log' := log ++ [Call t prev] in
    match out with
    | Converted u => spec r (outs' ++ [u]) s' log'
    | Abandoned => spec r outs' s' log'
    | Err e => (Failed (FErr e), log' ++ map DropU outs' ++ map DropT r ++ [FreeBuf])
    | Panicked p => (Failed (FPanic p), log' ++ map DropU outs' ++ map DropT r ++ [FreeBuf])
    end
  end.

Definition spec_run (input : list T) (s0 : St) : result * list ev :=
  if negb (N.eqb sizeT sizeU) || negb (N.eqb alT alU)
  then (Refused, map DropT input ++ [FreeBuf])
  else spec input [] s0 [].
End VC.

Arguments Converted {U E P}. Arguments Abandoned {U E P}. Arguments Err {U E P}. Arguments Panicked {U E P}.
Arguments CT {T U}. Arguments CU {T U}. Arguments Dead {T U}.
Arguments Call {T U}. Arguments DropT {T U}. Arguments DropU {T U}. Arguments FreeBuf {T U}.
Arguments FErr {E P}. Arguments FPanic {E P}. Arguments FPanicReplaced {E P}.
Arguments Done {U E P St}. Arguments Failed {U E P St}. Arguments Refused {U E P St}. Arguments Fault {U E P St}.

(* ---- convert_vec_in_place: the infallible wrapper.  Its converter has no error to return (E = Empty_set); the
   wrapper hands its input to try_convert_vec_in_place and unwraps the result (fact `delegates`, read from the source
   by the translator): success gives the vector, a converter panic goes on unwinding, a refusal is the assertion's
   panic.  `None` = the source is not that delegation: nothing is claimed about it. *)
Section Wrapper.
Variables (T U P St : Type).
Variable conv : St -> T -> option U -> St * option U * outcome U Empty_set P.
Variables (sizeT alT sizeU alU : N).

Inductive wresult := WDone (out : list U) (s : St) | WPanic (p : P) | WPanicReplaced (p : P) | WRefused | WFault.

Definition unwrap (r : result U Empty_set P St) : wresult :=
  match r with
  | Done out s => WDone out s
  | Failed (FErr e) => match e with end
  | Failed (FPanic p) => WPanic p
  | Failed (FPanicReplaced p) => WPanicReplaced p
  | Refused => WRefused
  | Fault => WFault
  end.

Definition wrapper (delegates : bool) (fl : flags) (input : list T) (s0 : St) : option (wresult * list (ev T U)) :=
  if delegates
  then let '(r, log) := run T U Empty_set P St conv sizeT alT sizeU alU fl input s0 in Some (unwrap r, log)
  else None.

Definition wrapper_spec (input : list T) (s0 : St) : wresult * list (ev T U) :=
  let '(r, log) := spec_run T U Empty_set P St conv sizeT alT sizeU alU input s0 in (unwrap r, log).
End Wrapper.
Arguments WDone {U P St}. Arguments WPanic {U P St}. Arguments WPanicReplaced {U P St}. Arguments WRefused {U P St}. Arguments WFault {U P St}.
