(* Consequences of the builder invariant: the statements of C01, C02, C03(a). *)
From Coq Require Import List NArith ZArith Lia Bool Arith Sorting.Sorted Permutation.
From Truc.Model Require Import Layout Builder.
From Truc.Proofs Require Import ArithP Sorted Variants BuilderInv.
Import ListNotations.
Open Scope N_scope.

Ltac Zify.zify_post_hook ::= Z.div_mod_to_equations.

(* ---------------------------------------------------------------- C01 *)

Lemma disjoint_all h : hist_ok h ->
  forall v a b, In v (b_vs (run h)) -> In a v -> In b v -> a <> b ->
    dend (b_ds (run h)) a <= off (b_ds (run h)) b \/ dend (b_ds (run h)) b <= off (b_ds (run h)) a.
Proof.
  intros Hh v a b Hv Ha Hb Hab. destruct (wf_v _ (run_wf h Hh) v Hv) as (Hs & Hn & _).
  eapply sorted_disjoint; eauto.
Qed.

(* ---------------------------------------------------------------- C02: alignment *)

Lemma aligned_all h : hist_ok h ->
  forall v i, In v (b_vs (run h)) -> In i v -> off (b_ds (run h)) i mod al (b_ds (run h)) i = 0.
Proof. intros Hh v i Hv Hi. destruct (wf_v _ (run_wf h Hh) v Hv) as (_ & _ & H). apply H; auto. Qed.

(* ---------------------------------------------------------------- C02: address order *)

Definition nonzero (ds : defs) (i : id) : bool := 0 <? size ds i.

(* the offsets of the non-zero-size data, in list order, are strictly increasing *)
Definition strict_order (ds : defs) (v : list id) : Prop :=
  StronglySorted N.lt (map (off ds) (filter (nonzero ds) v)).

Lemma sorted_filter_lb ds lo v : sorted_from ds lo v ->
  Forall (fun o => lo <= o) (map (off ds) (filter (nonzero ds) v)).
Proof.
  revert lo; induction v as [|i r IH]; simpl; intros lo H; [constructor|].
  destruct H as [H1 H2]. specialize (IH _ H2).
  assert (IH' : Forall (fun o => lo <= o) (map (off ds) (filter (nonzero ds) r))).
  { eapply Forall_impl; [|exact IH]. intros o Ho. simpl in Ho. pose proof (dend_ge ds i). lia. }
  destruct (nonzero ds i); simpl; auto.
Qed.

Lemma sorted_strict ds lo v : sorted_from ds lo v -> strict_order ds v.
Proof.
  unfold strict_order. revert lo; induction v as [|i r IH]; simpl; intros lo H; [constructor|].
  destruct H as [H1 H2]. destruct (nonzero ds i) eqn:Hz; simpl; [|eapply IH; eauto].
  constructor; [eapply IH; eauto|].
  pose proof (sorted_filter_lb ds _ r H2) as Hlb.
  eapply Forall_impl; [|exact Hlb]. intros o Ho. simpl in Ho.
  unfold nonzero in Hz. apply N.ltb_lt in Hz. unfold dend in Ho. lia.
Qed.

Lemma order_all h : hist_ok h ->
  forall v, In v (b_vs (run h)) -> strict_order (b_ds (run h)) v.
Proof. intros Hh v Hv. destruct (wf_v _ (run_wf h Hh) v Hv) as (Hs & _). eapply sorted_strict; eauto. Qed.

(* ---------------------------------------------------------------- C02: capacity *)

Lemma max_opt_ge l : forall acc m, max_opt l acc = Some m ->
  acc <= m /\ forall x, In (Some x) l -> x <= m.
Proof.
  induction l as [|[y|] r IH]; simpl; intros acc m H.
  - inversion H; subst. split; [lia|intros x []].
  - destruct (IH _ _ H) as [A B]. split; [lia|]. intros x [E|Hx]; [inversion E; subst; lia|auto].
  - discriminate.
Qed.

Lemma max_opt_all_some l : forall acc m, max_opt l acc = Some m -> forall o, In o l -> o <> None.
Proof.
  induction l as [|[y|] r IH]; simpl; intros acc m H o Ho; try tauto; try discriminate.
  destruct Ho as [<-|Ho]; [discriminate|eauto].
Qed.

Lemma checked_add_some a b c : checked_add a b = Some c -> c = a + b /\ a + b <= MAXU.
Proof. unfold checked_add. destruct (a + b <=? MAXU) eqn:E; intros H; inversion H. apply N.leb_le in E. auto. Qed.

Lemma capacity_covers (d : definition) m : max_size d = Some m ->
  forall v i, In v (snd d) -> In i v -> dend (fst d) i <= m.
Proof.
  unfold max_size, max_size_gen. intros H v i Hv Hi.
  set (l := map (fun i => checked_add (off (fst d) i) (size (fst d) i)) (concat (snd d))) in H.
  assert (Hin : In (checked_add (off (fst d) i) (size (fst d) i)) l).
  { unfold l. apply in_map_iff. exists i. split; auto. apply in_concat. eauto. }
  destruct (checked_add (off (fst d) i) (size (fst d) i)) as [c|] eqn:E.
  - destruct (max_opt_ge _ _ _ H) as [_ B]. specialize (B c Hin).
    apply checked_add_some in E. unfold dend. lia.
  - exfalso. eapply max_opt_all_some; eauto.
Qed.

(* ---------------------------------------------------------------- C02: record alignment *)

Definition pow2 (a : N) : Prop := exists k, a = 2 ^ k.

Lemma pow2_divides a m : pow2 a -> pow2 m -> a <= m -> m mod a = 0.
Proof.
  intros [k ->] [j ->] H.
  assert (k <= j). { destruct (N.le_gt_cases k j); auto. apply (N.pow_lt_mono_r 2) in H0; lia. }
  replace j with ((j - k) + k) by lia. rewrite N.pow_add_r. apply N.mod_mul.
  apply N.pow_nonzero. lia.
Qed.

Lemma fold_max_spec (l : list datum) : forall m0,
  let m := fold_left (fun m y => N.max m (d_align y)) l m0 in
  m0 <= m /\ (forall y, In y l -> d_align y <= m) /\ (m = m0 \/ exists y, In y l /\ m = d_align y).
Proof.
  induction l as [|x r IH]; simpl; intros m0.
  - split; [lia|]. split; [intros y []|auto].
  - destruct (IH (N.max m0 (d_align x))) as (A & B & Cc). split; [lia|]. split.
    + intros y [<-|Hy]; [lia|auto].
    + destruct Cc as [E|(y & Hy & E)].
      * destruct (N.max_spec m0 (d_align x)) as [[_ E2]|[_ E2]]; [right; exists x; split; auto; congruence|left; congruence].
      * right. exists y. auto.
Qed.

Lemma max_type_align_spec (d : definition) :
  (forall y, In y (fst d) -> d_align y <= max_type_align d) /\
  (fst d = [] /\ max_type_align d = 1 \/ exists y, In y (fst d) /\ max_type_align d = d_align y).
Proof.
  unfold max_type_align. destruct (fst d) as [|x r]; [split; [intros y []|auto]|].
  destruct (fold_max_spec r (d_align x)) as (A & B & Cc). cbv zeta in *. split.
  - intros y [<-|Hy]; auto.
  - right. destruct Cc as [E|(y & Hy & E)]; [exists x; simpl; auto|exists y; simpl; auto].
Qed.

Lemma getd_In ds i : (i < length ds)%nat -> In (getd ds i) ds.
Proof. intros. unfold getd. apply nth_In; auto. Qed.

Lemma record_align_multiple (d : definition) :
  (forall y, In y (fst d) -> pow2 (d_align y)) ->
  forall i, (i < length (fst d))%nat -> max_type_align d mod al (fst d) i = 0.
Proof.
  intros Hp i Hi. destruct (max_type_align_spec d) as [A B].
  pose proof (getd_In _ _ Hi) as Hin. unfold al.
  apply pow2_divides; auto.
  destruct B as [[E _]|(y & Hy & ->)]; [rewrite E in Hin; destruct Hin|auto].
Qed.

(* ---------------------------------------------------------------- C03(a) *)

Lemma offsets_stable h1 h2 : hist_ok h1 -> hist_ok h2 ->
  forall i, placed (run h1) i ->
    off (b_ds (run (h1 ++ h2))) i = off (b_ds (run h1)) i /\ placed (run (h1 ++ h2)) i.
Proof.
  intros H1 H2 i Hp. rewrite run_app.
  destruct (run_from_facts h2 H2 (run h1) (run_wf h1 H1)) as [_ F].
  split; [apply (fr_off _ _ F); auto|eapply placed_mono; eauto].
Qed.

(* all power-of-two alignments in a history *)
Definition pow2_req (r : req) : Prop := match r with Add _ _ _ a _ => pow2 a | _ => True end.
Definition pow2_hist (h : list req) : Prop := Forall pow2_req h.

Lemma run_from_pow2 h : hist_ok h -> pow2_hist h -> forall b, wf b ->
  (forall i, (i < length (b_ds b))%nat -> pow2 (al (b_ds b) i)) ->
  forall i, (i < length (b_ds (run_from b h)))%nat -> pow2 (al (b_ds (run_from b h)) i).
Proof.
  induction 1 as [|r h Hr Hh IH]; intros Hp b W Hb; simpl; auto.
  inversion Hp as [|? ? Hpr Hph]; subst.
  destruct (step_facts b r Hr W) as [W1 F1].
  apply IH; auto. intros i Hi.
  destruct (Nat.lt_ge_cases i (length (b_ds b))) as [Hlt|Hge].
  - destruct (fr_meta _ _ F1 i Hlt) as (_ & -> & _). auto.
  - pose proof (step_new b r Hr W i (conj Hge Hi)) as Hn.
    destruct r; try tauto. rewrite Hn. exact Hpr.
Qed.

Lemma run_pow2 h : hist_ok h -> pow2_hist h ->
  forall y, In y (b_ds (run h)) -> pow2 (d_align y).
Proof.
  intros Hh Hp y Hy. apply In_nth with (d := dummy) in Hy. destruct Hy as (k & Hk & <-).
  apply (run_from_pow2 h Hh Hp empty_builder wf_empty); auto. simpl. intros; lia.
Qed.
