(* What the fold specification of the in-place vector conversion says (C08, C09, C10). *)
From Coq Require Import List Arith Lia Bool NArith.
From Truc.Model Require Import VecConv.
From Truc.Proofs Require Import VecConvP.
Import ListNotations.

Section Thms.
Variables (T U E P St : Type).
Variable conv : St -> T -> option U -> St * option U * outcome U E P.
Variables (sizeT alT sizeU alU : N).

Notation spec := (spec T U E P St conv).
Notation run := (run T U E P St conv sizeT alT sizeU alU).
Notation spec_run := (spec_run T U E P St conv sizeT alT sizeU alU).

Definition is_call (e : ev T U) : Prop := match e with Call _ _ => True | _ => False end.
Definition call_inputs (l : list (ev T U)) : list T :=
  flat_map (fun e => match e with Call t _ => [t] | _ => [] end) l.

(* ---------------------------------------------------------------- refinement *)

Theorem run_refines fl input s0 : flags_ok fl = true -> run fl input s0 = spec_run input s0.
Proof.
  intros OK. unfold VecConv.run, VecConv.spec_run, refused.
  pose proof OK as OK'. unfold flags_ok in OK'.
  apply andb_prop in OK'. destruct OK' as [OK' _]. apply andb_prop in OK'. destruct OK' as [OK' _].
  apply andb_prop in OK'. destruct OK' as [OK' _]. apply andb_prop in OK'. destruct OK' as [GS GA].
  rewrite GS, GA. simpl.
  destruct (negb (sizeT =? sizeU)%N || negb (alT =? alU)%N); auto.
  apply loop_run_refines; auto.
Qed.

(* ---------------------------------------------------------------- success *)

Lemma spec_done : forall rest outs s log out s' log',
  spec rest outs s log = (Done out s', log') ->
  exists calls, log' = log ++ calls /\ Forall is_call calls /\ call_inputs calls = rest.
Proof.
  induction rest as [|t r IH]; intros outs s log out s' log' H; simpl in H.
  - inversion H; subst. exists []. rewrite app_nil_r. repeat split; auto.
  - destruct (conv s t (last_opt U outs)) as [[s1 prev'] o] eqn:Ec.
    destruct o as [u| |e|p]; try discriminate.
    + apply IH in H. destruct H as (calls & -> & Hc & Hi).
      exists (Call t (last_opt U outs) :: calls). rewrite <- app_assoc. simpl.
      repeat split; auto. constructor; simpl; auto. now rewrite Hi.
    + apply IH in H. destruct H as (calls & -> & Hc & Hi).
      exists (Call t (last_opt U outs) :: calls). rewrite <- app_assoc. simpl.
      repeat split; auto. constructor; simpl; auto. now rewrite Hi.
Qed.

Lemma spec_done_length : forall rest outs s log out s' log',
  spec rest outs s log = (Done out s', log') -> length out <= length outs + length rest.
Proof.
  induction rest as [|t r IH]; intros outs s log out s' log' H; simpl in H.
  - inversion H; subst. lia.
  - destruct (conv s t (last_opt U outs)) as [[s1 prev'] o] eqn:Ec.
    assert (Hl : length (match last_opt U outs with Some _ => set_last U outs prev' | None => outs end) = length outs).
    { destruct (last_opt U outs) eqn:El; auto. destruct prev' as [u'|]; simpl; auto.
      destruct outs as [|x outs'] using rev_ind; [discriminate|].
      rewrite removelast_last, !app_length. simpl. lia. }
    destruct o as [u| |e|p]; try discriminate; apply IH in H; simpl.
    + rewrite app_length, Hl in H. simpl in H. lia.
    + rewrite Hl in H. lia.
Qed.

(* ---------------------------------------------------------------- failure *)

Definition kept (outs : list U) (prev' : option U) : list U :=
  match last_opt U outs with Some _ => set_last U outs prev' | None => outs end.

Lemma spec_failed : forall rest outs s log f log',
  spec rest outs s log = (Failed f, log') ->
  exists pre t r outs_pre s_pre log_pre s1 prev',
    rest = pre ++ t :: r /\
    spec pre outs s log = (Done outs_pre s_pre, log_pre) /\
    ((exists e, conv s_pre t (last_opt U outs_pre) = (s1, prev', Err e) /\ f = FErr e) \/
     (exists p, conv s_pre t (last_opt U outs_pre) = (s1, prev', Panicked p) /\ f = FPanic p)) /\
    log' = log_pre ++ [Call t (last_opt U outs_pre)] ++ map (@DropU T U) (kept outs_pre prev')
                   ++ map (@DropT T U) r ++ [FreeBuf].
Proof.
  induction rest as [|t r IH]; intros outs s log f log' H; simpl in H; [discriminate|].
  destruct (conv s t (last_opt U outs)) as [[s1 prev'] o] eqn:Ec.
  destruct o as [u| |e|p].
  - apply IH in H. destruct H as (pre & t' & r' & op & sp & lp & s2 & pv & -> & Hs & Hf & ->).
    exists (t :: pre), t', r', op, sp, lp, s2, pv. split; [reflexivity|]. split; [|split; auto].
    simpl. rewrite Ec. exact Hs.
  - apply IH in H. destruct H as (pre & t' & r' & op & sp & lp & s2 & pv & -> & Hs & Hf & ->).
    exists (t :: pre), t', r', op, sp, lp, s2, pv. split; [reflexivity|]. split; [|split; auto].
    simpl. rewrite Ec. exact Hs.
  - inversion H; subst. exists [], t, r, outs, s, log, s1, prev'. simpl.
    split; auto. split; auto. split; [left; eauto|]. unfold kept. now rewrite <- app_assoc.
  - inversion H; subst. exists [], t, r, outs, s, log, s1, prev'. simpl.
    split; auto. split; auto. split; [right; eauto|]. unfold kept. now rewrite <- app_assoc.
Qed.

(* ---------------------------------------------------------------- refusal *)

Lemma run_refused fl input s0 : flags_ok fl = true -> (sizeT <> sizeU \/ alT <> alU) ->
  run fl input s0 = (Refused, map (@DropT T U) input ++ [FreeBuf]).
Proof.
  intros OK Hd. rewrite run_refines by auto. unfold VecConv.spec_run.
  assert (H : negb (sizeT =? sizeU)%N || negb (alT =? alU)%N = true).
  { destruct Hd as [Hd|Hd]; apply N.eqb_neq in Hd; rewrite Hd; simpl; auto. apply orb_true_r. }
  now rewrite H.
Qed.

Lemma run_not_refused fl input s0 : flags_ok fl = true -> sizeT = sizeU -> alT = alU ->
  run fl input s0 = spec input [] s0 [].
Proof.
  intros OK H1 H2. rewrite run_refines by auto. unfold VecConv.spec_run.
  apply N.eqb_eq in H1. apply N.eqb_eq in H2. rewrite H1, H2. reflexivity.
Qed.

(* the specification never faults: the safety obligations of the loop (read only unconsumed inputs,
   write only onto dead slots, previous output present) hold on every execution *)
Lemma spec_no_fault : forall rest outs s log r, spec rest outs s log = r -> fst r <> Fault.
Proof.
  induction rest as [|t rr IH]; intros outs s log r <-; simpl; [discriminate|].
  destruct (conv s t (last_opt U outs)) as [[s1 prev'] o]. destruct o; try discriminate; eapply IH; eauto.
Qed.
End Thms.
