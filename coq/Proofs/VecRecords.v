(* The two halves of the development joined on the library's main use: a Vec of records of variant P converted IN
   PLACE (truc_runtime::convert, model VecConv) by the generated conversion to the next variant Q (model Gen / Exec):
   every output record holds Q with the carried-over values of its own input and the values supplied for it; the
   removed droppable fields of every element are destroyed exactly once; the function itself drops nothing and
   releases nothing (so the result is the input's allocation); nothing faults. *)
From Coq Require Import List NArith Lia Permutation Arith.
From Truc.Model Require Import Layout Builder Ir Gen Exec Ops.
From Truc.Model Require VecConv.
From Truc.Proofs Require Import ExecP Holds Chain VecConvP VecConvThms.
Import ListNotations.

Section VecRecords.
Variable ds : defs.
Variable TI : nat -> tinfo.
Variable rt : runtime.
Variables (A cap : N).
Hypothesis RT : rt_ok rt = true.
Variables (P Q minus plus carried : list nat).
Hypothesis LP : layout_ok ds TI A cap P.
Hypothesis LQ : layout_ok ds TI A cap Q.
Hypothesis PP : Permutation P (minus ++ carried).
Hypothesis PQ : Permutation Q (plus ++ carried).
Variables (v prev : nat).
(* the values supplied for the added fields of the k-th element *)
Variable pv : nat -> nat -> nat.

(* the converter a user writes: `|record, _| Converted(RecordQ::from((record, plus_k)))`; its state counts the
   elements and collects what the conversions destroyed *)
Definition rconv (s : nat * list nat) (t : buf) (_ : option buf) : (nat * list nat) * option buf * VecConv.outcome buf unit fault :=
  match op_conv ds TI rt A cap v prev minus plus false false t (pv (fst s)) with
  | Ok (ORecord b', d) => ((S (fst s), snd s ++ d), None, VecConv.Converted b')
  | Ok (_, d) => ((S (fst s), snd s ++ d), None, VecConv.Panicked (Static 0))
  | Fault e => ((S (fst s), snd s), None, VecConv.Panicked e)
  end.

Fixpoint outs_ok (k : nat) (inputs : list ((nat -> nat) * buf)) (outs : list buf) : Prop :=
  match inputs, outs with
  | [], [] => True
  | (vals, _) :: ri, o :: ro => holds ds TI cap A Q (merge vals (pv k) plus) o /\ outs_ok (S k) ri ro
  | _, _ => False
  end.

Definition removed_tokens (inputs : list ((nat -> nat) * buf)) : list nat :=
  flat_map (fun x => map (fst x) (filter (dr ds TI) minus)) inputs.

Lemma last_opt_app_one (l : list buf) x : VecConv.last_opt buf (l ++ [x]) = Some x.
Proof. unfold VecConv.last_opt. rewrite rev_app_distr. reflexivity. Qed.

Lemma spec_records : forall inputs outs k d log,
  Forall (fun x => holds ds TI cap A P (fst x) (snd x)) inputs ->
  exists outs' d' calls,
    VecConv.spec buf buf unit fault (nat * list nat) rconv (map snd inputs) outs (k, d) log =
      (VecConv.Done (outs ++ outs') ((k + length inputs)%nat, d ++ d'), log ++ calls) /\
    Forall (is_call buf buf) calls /\ call_inputs buf buf calls = map snd inputs /\
    outs_ok k inputs outs' /\ Permutation d' (removed_tokens inputs).
Proof.
  induction inputs as [|[vals b] ri IH]; intros outs k d log HF.
  - exists [], [], []. simpl. rewrite !app_nil_r, Nat.add_0_r. repeat split; auto.
  - inversion HF as [|? ? Hb HF']; subst. simpl in Hb.
    destruct (conv_holds_full ds TI rt A cap RT P Q minus plus carried LP LQ PP PQ v prev false vals (pv k) b Hb)
      as (b' & E & H').
    cbn [map VecConv.spec]. unfold rconv at 1. cbn [fst snd]. rewrite E.
    set (d0 := droppable_of TI (rev (map (fun i => (nm ds i, (Some (vals i), ty ds i))) minus))).
    assert (Hout : match VecConv.last_opt buf outs with Some _ => VecConv.set_last buf outs None | None => outs end = outs)
      by (destruct (VecConv.last_opt buf outs); reflexivity).
    rewrite Hout.
    destruct (IH (outs ++ [b']) (S k) (d ++ d0) (log ++ [VecConv.Call b (VecConv.last_opt buf outs)]) HF')
      as (outs' & d' & calls & Es & Hc & Hi & Ho & Pd).
    exists (b' :: outs'), (d0 ++ d'), (VecConv.Call b (VecConv.last_opt buf outs) :: calls). split; [|split; [|split; [|split]]].
    + rewrite Es. cbn [length]. f_equal; [|now rewrite <- app_assoc].
      f_equal; [now rewrite <- app_assoc|]. f_equal; [lia|now rewrite <- app_assoc].
    + constructor; [exact I|exact Hc].
    + cbn [call_inputs flat_map app map snd]. f_equal. exact Hi.
    + cbn [outs_ok]. split; [exact H'|exact Ho].
    + unfold removed_tokens. cbn [flat_map fst]. apply Permutation_app; [apply droppable_tokens|exact Pd].
Qed.

(* the whole function (flags in order, equal layouts - which C03 gives for two record types of one definition) *)
Theorem vec_of_records : forall fl (sz al : N) inputs,
  VecConv.flags_ok fl = true ->
  Forall (fun x => holds ds TI cap A P (fst x) (snd x)) inputs ->
  exists outs destroyed calls,
    VecConv.run buf buf unit fault (nat * list nat) rconv sz al sz al fl (map snd inputs) (0%nat, []) =
      (VecConv.Done outs (length inputs, destroyed), calls) /\
    Forall (is_call buf buf) calls /\ call_inputs buf buf calls = map snd inputs /\
    outs_ok 0%nat inputs outs /\ Permutation destroyed (removed_tokens inputs).
Proof.
  intros fl sz al inputs OK HF.
  rewrite (run_refines buf buf unit fault (nat * list nat) rconv sz al sz al fl _ _ OK).
  unfold VecConv.spec_run. rewrite !N.eqb_refl. cbn [negb orb].
  destruct (spec_records inputs [] 0%nat [] [] HF) as (outs' & d' & calls & Es & Hc & Hi & Ho & Pd).
  exists outs', d', calls. rewrite Es. cbn [app Nat.add]. repeat split; auto.
Qed.
(* ---- the same call when the converter gives up at element kf: it destroys that element (the generated Drop of P)
   and returns an error - which here carries everything the converter destroyed so far, so that it can be accounted
   for.  The function then drops the records already converted (they hold Q: their generated Drop destroys each of
   their droppable values once, C06_drop), the inputs not yet reached (they still hold P), releases the buffer, and
   returns the converter's error. *)
Variable kf : nat.
Definition rconvf (s : nat * list nat) (t : buf) (_ : option buf)
  : (nat * list nat) * option buf * VecConv.outcome buf (list nat) fault :=
  if Nat.eqb (fst s) kf then
    match op_drop ds TI rt A cap prev P t with
    | Ok (_, dropped) => ((S (fst s), snd s ++ dropped), None, VecConv.Err (snd s ++ dropped))
    | Fault e => ((S (fst s), snd s), None, VecConv.Panicked e)
    end
  else
    match op_conv ds TI rt A cap v prev minus plus false false t (pv (fst s)) with
    | Ok (ORecord b', d) => ((S (fst s), snd s ++ d), None, VecConv.Converted b')
    | Ok (_, d) => ((S (fst s), snd s ++ d), None, VecConv.Panicked (Static 0))
    | Fault e => ((S (fst s), snd s), None, VecConv.Panicked e)
    end.

Lemma spec_records_f : forall pre tail outs k d log,
  (k + length pre <= kf)%nat ->
  Forall (fun x => holds ds TI cap A P (fst x) (snd x)) pre ->
  exists outs' d' calls,
    VecConv.spec buf buf (list nat) fault (nat * list nat) rconvf (map snd pre ++ tail) outs (k, d) log =
    VecConv.spec buf buf (list nat) fault (nat * list nat) rconvf tail (outs ++ outs') ((k + length pre)%nat, d ++ d') (log ++ calls) /\
    Forall (is_call buf buf) calls /\ outs_ok k pre outs' /\ Permutation d' (removed_tokens pre).
Proof.
  induction pre as [|[vals b] ri IH]; intros tail outs k d log Hk HF.
  - exists [], [], []. simpl. rewrite !app_nil_r, Nat.add_0_r. repeat split; auto.
  - inversion HF as [|? ? Hb HF']; subst. simpl in Hb. cbn [length] in Hk.
    destruct (conv_holds_full ds TI rt A cap RT P Q minus plus carried LP LQ PP PQ v prev false vals (pv k) b Hb)
      as (b' & E & H').
    cbn [map app VecConv.spec]. unfold rconvf at 1. cbn [fst snd].
    assert (Ek : Nat.eqb k kf = false) by (apply Nat.eqb_neq; lia). rewrite Ek, E.
    set (d0 := droppable_of TI (rev (map (fun i => (nm ds i, (Some (vals i), ty ds i))) minus))).
    assert (Hout : match VecConv.last_opt buf outs with Some _ => VecConv.set_last buf outs None | None => outs end = outs)
      by (destruct (VecConv.last_opt buf outs); reflexivity).
    rewrite Hout.
    destruct (IH tail (outs ++ [b']) (S k) (d ++ d0) (log ++ [VecConv.Call b (VecConv.last_opt buf outs)]) ltac:(lia) HF')
      as (outs' & d' & calls & Es & Hc & Ho & Pd).
    exists (b' :: outs'), (d0 ++ d'), (VecConv.Call b (VecConv.last_opt buf outs) :: calls). split; [|split; [|split]].
    + rewrite Es. cbn [length]. f_equal; [now rewrite <- app_assoc| |now rewrite <- app_assoc].
      f_equal; [lia|now rewrite <- app_assoc].
    + constructor; [exact I|exact Hc].
    + cbn [outs_ok]. split; [exact H'|exact Ho].
    + unfold removed_tokens. cbn [flat_map fst]. apply Permutation_app; [apply droppable_tokens|exact Pd].
Qed.

Theorem vec_of_records_fails : forall fl (sz al : N) pre valsf bf post,
  VecConv.flags_ok fl = true -> kf = length pre ->
  Forall (fun x => holds ds TI cap A P (fst x) (snd x)) (pre ++ (valsf, bf) :: post) ->
  exists outs_pre dconv calls,
    VecConv.run buf buf (list nat) fault (nat * list nat) rconvf sz al sz al fl (map snd (pre ++ (valsf, bf) :: post)) (0%nat, []) =
      (VecConv.Failed (VecConv.FErr dconv),
       calls ++ map (@VecConv.DropU buf buf) outs_pre ++ map (@VecConv.DropT buf buf) (map snd post) ++ [VecConv.FreeBuf]) /\
    Forall (is_call buf buf) calls /\
    outs_ok 0%nat pre outs_pre /\
    Permutation dconv (removed_tokens pre ++ map valsf (filter (dr ds TI) P)).
Proof.
  intros fl sz al pre valsf bf post OK Hkf HF.
  rewrite (run_refines buf buf (list nat) fault (nat * list nat) rconvf sz al sz al fl _ _ OK).
  unfold VecConv.spec_run. rewrite !N.eqb_refl. cbn [negb orb].
  apply Forall_app in HF. destruct HF as [HFpre HFrest]. inversion HFrest as [|? ? Hbf HFpost]; subst. simpl in Hbf.
  rewrite map_app. cbn [map snd].
  destruct (spec_records_f pre (bf :: map snd post) [] 0%nat [] [] ltac:(lia) HFpre) as (outs' & d' & calls & Es & Hc & Ho & Pd).
  rewrite Es. cbn [app Nat.add VecConv.spec]. unfold rconvf at 1. cbn [fst snd]. rewrite Hkf, Nat.eqb_refl.
  rewrite (drop_holds ds TI rt A cap P LP prev valsf bf Hbf).
  assert (Hout : match VecConv.last_opt buf outs' with Some _ => VecConv.set_last buf outs' None | None => outs' end = outs')
    by (destruct (VecConv.last_opt buf outs'); reflexivity).
  rewrite Hout.
  eexists outs', _, (calls ++ [VecConv.Call bf (VecConv.last_opt buf outs')]). split; [|split; [|split]].
  - rewrite <- !app_assoc. reflexivity.
  - apply Forall_app. split; [exact Hc|]. constructor; [exact I|constructor].
  - exact Ho.
  - cbn [app]. apply Permutation_app; [exact Pd|apply droppable_tokens].
Qed.
(* ---- global accounting of that failure: what the converter destroyed, plus what the generated Drop destroys for each
   record the function drops (the converted ones, the inputs not reached), is - as a multiset - everything the input
   records owned plus the values supplied to the conversions that happened: each exactly once *)
Fixpoint drop_all (data : list nat) (l : list buf) : res (list nat) :=
  match l with
  | [] => Ok []
  | b :: r => match op_drop ds TI rt A cap prev data b with
              | Ok (_, d) => match drop_all data r with Ok d' => Ok (d ++ d') | Fault e => Fault e end
              | Fault e => Fault e
              end
  end.
Fixpoint supplied (k : nat) (pre : list ((nat -> nat) * buf)) : list nat :=
  match pre with [] => [] | _ :: r => map (pv k) (filter (dr ds TI) plus) ++ supplied (S k) r end.
Fixpoint out_tokens (k : nat) (pre : list ((nat -> nat) * buf)) : list nat :=
  match pre with [] => [] | (vals, _) :: r => map (merge vals (pv k) plus) (filter (dr ds TI) Q) ++ out_tokens (S k) r end.
Definition owned_tokens (l : list ((nat -> nat) * buf)) : list nat := flat_map (fun x => map (fst x) (filter (dr ds TI) P)) l.

Lemma merge_tokens vals pvk :
  Permutation (map (merge vals pvk plus) (filter (dr ds TI) Q))
              (map pvk (filter (dr ds TI) plus) ++ map vals (filter (dr ds TI) carried)).
Proof.
  eapply Permutation_trans; [apply perm_map_filter_app; exact PQ|].
  assert (Hnd : NoDup (plus ++ carried)) by (eapply Permutation_NoDup; [exact PQ|apply (lo_nd _ _ _ _ _ LQ)]).
  apply Permutation_app.
  - replace (map (merge vals pvk plus) (filter (dr ds TI) plus)) with (map pvk (filter (dr ds TI) plus)); auto.
    apply map_ext_in. intros i Hi. apply filter_In in Hi. unfold merge. now rewrite (proj2 (mem_true i plus) (proj1 Hi)).
  - replace (map (merge vals pvk plus) (filter (dr ds TI) carried)) with (map vals (filter (dr ds TI) carried)); auto.
    apply map_ext_in. intros i Hi. apply filter_In in Hi. unfold merge.
    destruct (mem i plus) eqn:E'; auto. apply mem_true in E'. exfalso. exact (NoDup_app_disj _ _ i Hnd E' (proj1 Hi)).
Qed.

Ltac cnt x H := let H' := fresh "C" in pose proof (proj1 (Permutation_count_occ Nat.eq_dec _ _) H x) as H'; rewrite ?count_occ_app in H'.

Lemma out_tokens_perm : forall pre k,
  Permutation (removed_tokens pre ++ out_tokens k pre) (owned_tokens pre ++ supplied k pre).
Proof.
  induction pre as [|[vals b] r IH]; intros k; [apply Permutation_refl|].
  unfold removed_tokens, owned_tokens in *. cbn [flat_map fst out_tokens supplied].
  pose proof (merge_tokens vals (pv k)) as F2.
  assert (F3 : Permutation (map vals (filter (dr ds TI) P))
                           (map vals (filter (dr ds TI) minus) ++ map vals (filter (dr ds TI) carried)))
    by (apply perm_map_filter_app; exact PP).
  specialize (IH (S k)).
  apply (proj2 (Permutation_count_occ Nat.eq_dec _ _)). intros x.
  cnt x F2. cnt x F3. cnt x IH. rewrite !count_occ_app. lia.
Qed.

Lemma drop_all_outs : forall pre outs k, outs_ok k pre outs ->
  exists toks, drop_all Q outs = Ok toks /\ Permutation toks (out_tokens k pre).
Proof.
  induction pre as [|[vals b] r IH]; intros outs k H; destruct outs as [|o ro]; simpl in H; try tauto.
  - exists []. split; [reflexivity|apply Permutation_refl].
  - destruct H as [Ho Hr]. destruct (IH ro (S k) Hr) as (toks & E & Pt).
    cbn [drop_all out_tokens]. rewrite (drop_holds ds TI rt A cap Q LQ prev _ o Ho), E.
    eexists. split; [reflexivity|]. apply Permutation_app; [apply droppable_tokens|exact Pt].
Qed.

Lemma drop_all_inputs : forall l, Forall (fun x => holds ds TI cap A P (fst x) (snd x)) l ->
  exists toks, drop_all P (map snd l) = Ok toks /\ Permutation toks (owned_tokens l).
Proof.
  induction l as [|[vals b] r IH]; intros HF.
  - exists []. split; [reflexivity|apply Permutation_refl].
  - inversion HF as [|? ? Hb HF']; subst. simpl in Hb. destruct (IH HF') as (toks & E & Pt).
    cbn [map snd drop_all]. rewrite (drop_holds ds TI rt A cap P LP prev vals b Hb), E.
    eexists. split; [reflexivity|]. unfold owned_tokens. cbn [flat_map fst]. apply Permutation_app; [apply droppable_tokens|exact Pt].
Qed.

Theorem vec_of_records_fails_accounts : forall fl (sz al : N) pre valsf bf post,
  VecConv.flags_ok fl = true -> kf = length pre ->
  Forall (fun x => holds ds TI cap A P (fst x) (snd x)) (pre ++ (valsf, bf) :: post) ->
  exists outs_pre dconv calls douts dposts,
    VecConv.run buf buf (list nat) fault (nat * list nat) rconvf sz al sz al fl (map snd (pre ++ (valsf, bf) :: post)) (0%nat, []) =
      (VecConv.Failed (VecConv.FErr dconv),
       calls ++ map (@VecConv.DropU buf buf) outs_pre ++ map (@VecConv.DropT buf buf) (map snd post) ++ [VecConv.FreeBuf]) /\
    Forall (is_call buf buf) calls /\
    drop_all Q outs_pre = Ok douts /\ drop_all P (map snd post) = Ok dposts /\
    Permutation (dconv ++ douts ++ dposts)
                (owned_tokens (pre ++ (valsf, bf) :: post) ++ supplied 0%nat pre).
Proof.
  intros fl sz al pre valsf bf post OK Hkf HF.
  destruct (vec_of_records_fails fl sz al pre valsf bf post OK Hkf HF) as (outs_pre & dconv & calls & E & Hc & Ho & Pd).
  apply Forall_app in HF. destruct HF as [HFpre HFrest]. inversion HFrest as [|? ? Hbf HFpost]; subst.
  destruct (drop_all_outs pre outs_pre 0%nat Ho) as (douts & E1 & P1).
  destruct (drop_all_inputs post HFpost) as (dposts & E2 & P2).
  exists outs_pre, dconv, calls, douts, dposts. repeat (split; [assumption|]).
  pose proof (out_tokens_perm pre 0%nat) as F.
  unfold owned_tokens in *. rewrite flat_map_app. cbn [flat_map fst].
  apply (proj2 (Permutation_count_occ Nat.eq_dec _ _)). intros x.
  cnt x Pd. cnt x P1. cnt x P2. cnt x F. rewrite !count_occ_app. lia.
Qed.
(* the successful conversion followed by the drop of the resulting vector: what the conversions destroyed plus what the
   generated Drop destroys for each output record is everything the inputs owned plus everything supplied, each once *)
Theorem vec_of_records_then_drop : forall fl (sz al : N) inputs,
  VecConv.flags_ok fl = true ->
  Forall (fun x => holds ds TI cap A P (fst x) (snd x)) inputs ->
  exists outs destroyed calls douts,
    VecConv.run buf buf unit fault (nat * list nat) rconv sz al sz al fl (map snd inputs) (0%nat, []) =
      (VecConv.Done outs (length inputs, destroyed), calls) /\
    drop_all Q outs = Ok douts /\
    Permutation (destroyed ++ douts) (owned_tokens inputs ++ supplied 0%nat inputs).
Proof.
  intros fl sz al inputs OK HF.
  destruct (vec_of_records fl sz al inputs OK HF) as (outs & d & calls & E & _ & _ & Ho & Pd).
  destruct (drop_all_outs inputs outs 0%nat Ho) as (douts & E1 & P1).
  exists outs, d, calls, douts. split; [exact E|]. split; [exact E1|].
  pose proof (out_tokens_perm inputs 0%nat) as F.
  apply (proj2 (Permutation_count_occ Nat.eq_dec _ _)). intros x.
  cnt x Pd. cnt x P1. cnt x F. rewrite !count_occ_app. lia.
Qed.
End VecRecords.

(* ---------------------------------------------------------------- a pipeline: the vector goes through several variants *)
Section Pipeline.
Variable ds : defs.
Variable TI : nat -> tinfo.
Variable rt : runtime.
Variables (A cap : N).
Hypothesis RT : rt_ok rt = true.

Record vstage := mkVStage {
  vs_Q : list nat; vs_minus : list nat; vs_plus : list nat; vs_carried : list nat;
  vs_v : nat; vs_prev : nat; vs_pv : nat -> nat -> nat }.

Fixpoint vstages_ok (P : list nat) (stages : list vstage) : Prop :=
  match stages with
  | [] => True
  | s :: r => layout_ok ds TI A cap (vs_Q s) /\ Permutation P (vs_minus s ++ vs_carried s) /\
              Permutation (vs_Q s) (vs_plus s ++ vs_carried s) /\ vstages_ok (vs_Q s) r
  end.

(* each stage is one call of convert_vec_in_place on the vector the previous stage returned *)
Fixpoint pipeline (fl : VecConv.flags) (sz al : N) (v : list buf) (stages : list vstage) : option (list buf * list nat) :=
  match stages with
  | [] => Some (v, [])
  | s :: r =>
      match VecConv.run buf buf unit fault (nat * list nat)
              (rconv ds TI rt A cap (vs_minus s) (vs_plus s) (vs_v s) (vs_prev s) (vs_pv s)) sz al sz al fl v (0%nat, []) with
      | (VecConv.Done outs (_, d), _) =>
          match pipeline fl sz al outs r with Some (o, d') => Some (o, d ++ d') | None => None end
      | _ => None
      end
  end.

(* the values of the k-th, (k+1)-th ... elements after one stage, after all stages *)
Fixpoint merge_all (s : vstage) (k : nat) (vl : list (nat -> nat)) : list (nat -> nat) :=
  match vl with [] => [] | vals :: r => merge vals (vs_pv s k) (vs_plus s) :: merge_all s (S k) r end.
Fixpoint pipeline_vals (vl : list (nat -> nat)) (stages : list vstage) : list (nat -> nat) :=
  match stages with [] => vl | s :: r => pipeline_vals (merge_all s 0%nat vl) r end.
Definition last_variant (P : list nat) (stages : list vstage) : list nat := fold_left (fun _ s => vs_Q s) stages P.

Lemma outs_ok_combine s : forall inputs outs k,
  outs_ok ds TI A cap (vs_Q s) (vs_plus s) (vs_pv s) k inputs outs ->
  length outs = length inputs /\
  Forall (fun x => holds ds TI cap A (vs_Q s) (fst x) (snd x)) (combine (merge_all s k (map fst inputs)) outs).
Proof.
  induction inputs as [|[vals b] r IH]; intros outs k H; destruct outs as [|o ro]; simpl in H; try tauto.
  - split; [reflexivity|constructor].
  - destruct H as [Ho Hr]. destruct (IH ro (S k) Hr) as [Hl HF]. split; [simpl; now rewrite Hl|].
    cbn [map fst merge_all combine]. constructor; [exact Ho|exact HF].
Qed.

Lemma merge_all_length s : forall vl k, length (merge_all s k vl) = length vl.
Proof. induction vl as [|x r IH]; intros k; simpl; auto. Qed.

Lemma combine_fst {X Y} : forall (l1 : list X) (l2 : list Y), length l1 = length l2 -> map fst (combine l1 l2) = l1.
Proof. induction l1 as [|x r IH]; intros [|y l2] H; simpl in *; try discriminate; auto. f_equal. apply IH. lia. Qed.
Lemma combine_snd {X Y} : forall (l1 : list X) (l2 : list Y), length l1 = length l2 -> map snd (combine l1 l2) = l2.
Proof. induction l1 as [|x r IH]; intros [|y l2] H; simpl in *; try discriminate; auto. f_equal. apply IH. lia. Qed.

Theorem pipeline_ok : forall fl (sz al : N), VecConv.flags_ok fl = true ->
  forall stages P (inputs : list ((nat -> nat) * buf)),
  layout_ok ds TI A cap P -> vstages_ok P stages ->
  Forall (fun x => holds ds TI cap A P (fst x) (snd x)) inputs ->
  exists outs d,
    pipeline fl sz al (map snd inputs) stages = Some (outs, d) /\
    length outs = length inputs /\
    Forall (fun x => holds ds TI cap A (last_variant P stages) (fst x) (snd x))
           (combine (pipeline_vals (map fst inputs) stages) outs).
Proof.
  intros fl sz al OK. induction stages as [|s r IH]; intros P inputs LP Hs HF.
  - exists (map snd inputs), []. split; [reflexivity|]. split; [now rewrite map_length|].
    cbn [pipeline_vals last_variant fold_left].
    replace (combine (map fst inputs) (map snd inputs)) with inputs; [exact HF|].
    clear. induction inputs as [|[a b] l IHl]; simpl; auto. now rewrite <- IHl.
  - destruct Hs as (LQ & PP & PQ & Hr).
    destruct (vec_of_records ds TI rt A cap RT P (vs_Q s) (vs_minus s) (vs_plus s) (vs_carried s) LP LQ PP PQ
                (vs_v s) (vs_prev s) (vs_pv s) fl sz al inputs OK HF) as (outs & d & calls & E & _ & _ & Ho & _).
    destruct (outs_ok_combine s inputs outs 0%nat Ho) as [Hl HF'].
    set (vl' := merge_all s 0%nat (map fst inputs)) in *.
    assert (Hlen : length vl' = length outs) by (unfold vl'; rewrite merge_all_length, map_length; now rewrite Hl).
    destruct (IH (vs_Q s) (combine vl' outs) LQ Hr HF') as (outs' & d' & E' & Hl' & HF'').
    rewrite (combine_snd vl' outs Hlen) in E'. rewrite (combine_fst vl' outs Hlen) in HF''.
    exists outs', (d ++ d'). split; [|split].
    + cbn [pipeline]. rewrite E, E'. reflexivity.
    + rewrite Hl', combine_length, Hlen, Nat.min_id. exact Hl.
    + exact HF''.
Qed.
End Pipeline.
