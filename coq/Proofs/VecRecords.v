(* The two halves of the development joined on the library's main use: a Vec of records of variant P converted IN
   PLACE (truc_runtime::convert, model VecConv) by the generated conversion to the next variant Q (model Gen / Exec):
   every output record holds Q with the carried-over values of its own input and the values supplied for it; the
   removed droppable fields of every element are destroyed exactly once; the function itself drops nothing and
   releases nothing (so the result is the input's allocation); nothing faults. *)
From Coq Require Import List NArith Lia Permutation Arith.
From Truc.Model Require Import Layout Builder Ir Gen Exec Ops.
From Truc.Model Require VecConv.
From Truc.Proofs Require Import ExecP Holds Life Fill Chain ChainU VecConvP VecConvThms.
Import ListNotations.

Section VecRecords.
Variable ds : defs.
Variable TI : nat -> tinfo.
Variable rt : runtime.
Variables (A cap : N).
Hypothesis RT : rt_ok rt = true.
Variables (P Q minus plus carried : list nat).
Hypothesis LP : layout_ok ds TI A cap P.
Hypothesis LQ : layout_ok ds TI A cap Q.
Hypothesis PP : Permutation P (minus ++ carried).
Hypothesis PQ : Permutation Q (plus ++ carried).
Variables (v prev : nat).
(* the values supplied for the added fields of the k-th element *)
Variable pv : nat -> nat -> nat.

(* the converter a user writes: `|record, _| Converted(RecordQ::from((record, plus_k)))`; its state counts the
   elements and collects what the conversions destroyed *)
Definition rconv (s : nat * list nat) (t : buf) (_ : option buf) : (nat * list nat) * option buf * VecConv.outcome buf unit fault :=
  match op_conv ds TI rt A cap v prev minus plus false false t (pv (fst s)) with
  | Ok (ORecord b', d) => ((S (fst s), snd s ++ d), None, VecConv.Converted b')
  | Ok (_, d) => ((S (fst s), snd s ++ d), None, VecConv.Panicked (Static 0))
  | Fault e => ((S (fst s), snd s), None, VecConv.Panicked e)
  end.

Fixpoint outs_ok (k : nat) (inputs : list ((nat -> nat) * buf)) (outs : list buf) : Prop :=
  match inputs, outs with
  | [], [] => True
  | (vals, _) :: ri, o :: ro => holds ds TI cap A Q (merge vals (pv k) plus) o /\ outs_ok (S k) ri ro
  | _, _ => False
  end.

Definition removed_tokens (inputs : list ((nat -> nat) * buf)) : list nat :=
  flat_map (fun x => map (fst x) (filter (dr ds TI) minus)) inputs.

Lemma last_opt_app_one (l : list buf) x : VecConv.last_opt buf (l ++ [x]) = Some x.
Proof. unfold VecConv.last_opt. rewrite rev_app_distr. reflexivity. Qed.

Lemma spec_records : forall inputs outs k d log,
  Forall (fun x => holds ds TI cap A P (fst x) (snd x)) inputs ->
  exists outs' d' calls,
    VecConv.spec buf buf unit fault (nat * list nat) rconv (map snd inputs) outs (k, d) log =
      (VecConv.Done (outs ++ outs') ((k + length inputs)%nat, d ++ d'), log ++ calls) /\
    Forall (is_call buf buf) calls /\ call_inputs buf buf calls = map snd inputs /\
    outs_ok k inputs outs' /\ Permutation d' (removed_tokens inputs).
Proof.
  induction inputs as [|[vals b] ri IH]; intros outs k d log HF.
  - exists [], [], []. simpl. rewrite !app_nil_r, Nat.add_0_r. repeat split; auto.
  - inversion HF as [|? ? Hb HF']; subst. simpl in Hb.
    destruct (conv_holds_full ds TI rt A cap RT P Q minus plus carried LP LQ PP PQ v prev false vals (pv k) b Hb)
      as (b' & E & H').
    cbn [map VecConv.spec]. unfold rconv at 1. cbn [fst snd]. rewrite E.
    set (d0 := droppable_of TI (rev (map (fun i => (nm ds i, (Some (vals i), ty ds i))) minus))).
    assert (Hout : match VecConv.last_opt buf outs with Some _ => VecConv.set_last buf outs None | None => outs end = outs)
      by (destruct (VecConv.last_opt buf outs); reflexivity).
    rewrite Hout.
    destruct (IH (outs ++ [b']) (S k) (d ++ d0) (log ++ [VecConv.Call b (VecConv.last_opt buf outs)]) HF')
      as (outs' & d' & calls & Es & Hc & Hi & Ho & Pd).
    exists (b' :: outs'), (d0 ++ d'), (VecConv.Call b (VecConv.last_opt buf outs) :: calls). split; [|split; [|split; [|split]]].
    + rewrite Es. cbn [length]. f_equal; [|now rewrite <- app_assoc].
      f_equal; [now rewrite <- app_assoc|]. f_equal; [lia|now rewrite <- app_assoc].
    + constructor; [exact I|exact Hc].
    + cbn [call_inputs flat_map app map snd]. f_equal. exact Hi.
    + cbn [outs_ok]. split; [exact H'|exact Ho].
    + unfold removed_tokens. cbn [flat_map fst]. apply Permutation_app; [apply droppable_tokens|exact Pd].
Qed.

(* the whole function (flags in order, equal layouts - which C03 gives for two record types of one definition) *)
Theorem vec_of_records : forall fl (sz al : N) inputs,
  VecConv.flags_ok fl = true ->
  Forall (fun x => holds ds TI cap A P (fst x) (snd x)) inputs ->
  exists outs destroyed calls,
    VecConv.run buf buf unit fault (nat * list nat) rconv sz al sz al fl (map snd inputs) (0%nat, []) =
      (VecConv.Done outs (length inputs, destroyed), calls) /\
    Forall (is_call buf buf) calls /\ call_inputs buf buf calls = map snd inputs /\
    outs_ok 0%nat inputs outs /\ Permutation destroyed (removed_tokens inputs).
Proof.
  intros fl sz al inputs OK HF.
  rewrite (run_refines buf buf unit fault (nat * list nat) rconv sz al sz al fl _ _ OK).
  unfold VecConv.spec_run. rewrite !N.eqb_refl. cbn [negb orb].
  destruct (spec_records inputs [] 0%nat [] [] HF) as (outs' & d' & calls & Es & Hc & Hi & Ho & Pd).
  exists outs', d', calls. rewrite Es. cbn [app Nat.add]. repeat split; auto.
Qed.
(* ---- the same call when the converter gives up at element kf: it destroys that element (the generated Drop of P)
   and returns an error - which here carries everything the converter destroyed so far, so that it can be accounted
   for.  The function then drops the records already converted (they hold Q: their generated Drop destroys each of
   their droppable values once, C06_drop), the inputs not yet reached (they still hold P), releases the buffer, and
   returns the converter's error. *)
Variable kf : nat.
Definition rconvf (s : nat * list nat) (t : buf) (_ : option buf)
  : (nat * list nat) * option buf * VecConv.outcome buf (list nat) fault :=
  if Nat.eqb (fst s) kf then
    match op_drop ds TI rt A cap prev P t with
    | Ok (_, dropped) => ((S (fst s), snd s ++ dropped), None, VecConv.Err (snd s ++ dropped))
    | Fault e => ((S (fst s), snd s), None, VecConv.Panicked e)
    end
  else
    match op_conv ds TI rt A cap v prev minus plus false false t (pv (fst s)) with
    | Ok (ORecord b', d) => ((S (fst s), snd s ++ d), None, VecConv.Converted b')
    | Ok (_, d) => ((S (fst s), snd s ++ d), None, VecConv.Panicked (Static 0))
    | Fault e => ((S (fst s), snd s), None, VecConv.Panicked e)
    end.

Lemma spec_records_f : forall pre tail outs k d log,
  (k + length pre <= kf)%nat ->
  Forall (fun x => holds ds TI cap A P (fst x) (snd x)) pre ->
  exists outs' d' calls,
    VecConv.spec buf buf (list nat) fault (nat * list nat) rconvf (map snd pre ++ tail) outs (k, d) log =
    VecConv.spec buf buf (list nat) fault (nat * list nat) rconvf tail (outs ++ outs') ((k + length pre)%nat, d ++ d') (log ++ calls) /\
    Forall (is_call buf buf) calls /\ outs_ok k pre outs' /\ Permutation d' (removed_tokens pre).
Proof.
  induction pre as [|[vals b] ri IH]; intros tail outs k d log Hk HF.
  - exists [], [], []. simpl. rewrite !app_nil_r, Nat.add_0_r. repeat split; auto.
  - inversion HF as [|? ? Hb HF']; subst. simpl in Hb. cbn [length] in Hk.
    destruct (conv_holds_full ds TI rt A cap RT P Q minus plus carried LP LQ PP PQ v prev false vals (pv k) b Hb)
      as (b' & E & H').
    cbn [map app VecConv.spec]. unfold rconvf at 1. cbn [fst snd].
    assert (Ek : Nat.eqb k kf = false) by (apply Nat.eqb_neq; lia). rewrite Ek, E.
    set (d0 := droppable_of TI (rev (map (fun i => (nm ds i, (Some (vals i), ty ds i))) minus))).
    assert (Hout : match VecConv.last_opt buf outs with Some _ => VecConv.set_last buf outs None | None => outs end = outs)
      by (destruct (VecConv.last_opt buf outs); reflexivity).
    rewrite Hout.
    destruct (IH tail (outs ++ [b']) (S k) (d ++ d0) (log ++ [VecConv.Call b (VecConv.last_opt buf outs)]) ltac:(lia) HF')
      as (outs' & d' & calls & Es & Hc & Ho & Pd).
    exists (b' :: outs'), (d0 ++ d'), (VecConv.Call b (VecConv.last_opt buf outs) :: calls). split; [|split; [|split]].
    + rewrite Es. cbn [length]. f_equal; [now rewrite <- app_assoc| |now rewrite <- app_assoc].
      f_equal; [lia|now rewrite <- app_assoc].
    + constructor; [exact I|exact Hc].
    + cbn [outs_ok]. split; [exact H'|exact Ho].
    + unfold removed_tokens. cbn [flat_map fst]. apply Permutation_app; [apply droppable_tokens|exact Pd].
Qed.

Theorem vec_of_records_fails : forall fl (sz al : N) pre valsf bf post,
  VecConv.flags_ok fl = true -> kf = length pre ->
  Forall (fun x => holds ds TI cap A P (fst x) (snd x)) (pre ++ (valsf, bf) :: post) ->
  exists outs_pre dconv calls,
    VecConv.run buf buf (list nat) fault (nat * list nat) rconvf sz al sz al fl (map snd (pre ++ (valsf, bf) :: post)) (0%nat, []) =
      (VecConv.Failed (VecConv.FErr dconv),
       calls ++ map (@VecConv.DropU buf buf) outs_pre ++ map (@VecConv.DropT buf buf) (map snd post) ++ [VecConv.FreeBuf]) /\
    Forall (is_call buf buf) calls /\
    outs_ok 0%nat pre outs_pre /\
    Permutation dconv (removed_tokens pre ++ map valsf (filter (dr ds TI) P)).
Proof.
  intros fl sz al pre valsf bf post OK Hkf HF.
  rewrite (run_refines buf buf (list nat) fault (nat * list nat) rconvf sz al sz al fl _ _ OK).
  unfold VecConv.spec_run. rewrite !N.eqb_refl. cbn [negb orb].
  apply Forall_app in HF. destruct HF as [HFpre HFrest]. inversion HFrest as [|? ? Hbf HFpost]; subst. simpl in Hbf.
  rewrite map_app. cbn [map snd].
  destruct (spec_records_f pre (bf :: map snd post) [] 0%nat [] [] ltac:(lia) HFpre) as (outs' & d' & calls & Es & Hc & Ho & Pd).
  rewrite Es. cbn [app Nat.add VecConv.spec]. unfold rconvf at 1. cbn [fst snd]. rewrite Hkf, Nat.eqb_refl.
  rewrite (drop_holds ds TI rt A cap P LP prev valsf bf Hbf).
  assert (Hout : match VecConv.last_opt buf outs' with Some _ => VecConv.set_last buf outs' None | None => outs' end = outs')
    by (destruct (VecConv.last_opt buf outs'); reflexivity).
  rewrite Hout.
  eexists outs', _, (calls ++ [VecConv.Call bf (VecConv.last_opt buf outs')]). split; [|split; [|split]].
  - rewrite <- !app_assoc. reflexivity.
  - apply Forall_app. split; [exact Hc|]. constructor; [exact I|constructor].
  - exact Ho.
  - cbn [app]. apply Permutation_app; [exact Pd|apply droppable_tokens].
Qed.
(* ---- global accounting of that failure: what the converter destroyed, plus what the generated Drop destroys for each
   record the function drops (the converted ones, the inputs not reached), is - as a multiset - everything the input
   records owned plus the values supplied to the conversions that happened: each exactly once *)
Fixpoint drop_all (data : list nat) (l : list buf) : res (list nat) :=
  match l with
  | [] => Ok []
  | b :: r => match op_drop ds TI rt A cap prev data b with
              | Ok (_, d) => match drop_all data r with Ok d' => Ok (d ++ d') | Fault e => Fault e end
              | Fault e => Fault e
              end
  end.
Fixpoint supplied (k : nat) (pre : list ((nat -> nat) * buf)) : list nat :=
  match pre with [] => [] | _ :: r => map (pv k) (filter (dr ds TI) plus) ++ supplied (S k) r end.
Fixpoint out_tokens (k : nat) (pre : list ((nat -> nat) * buf)) : list nat :=
  match pre with [] => [] | (vals, _) :: r => map (merge vals (pv k) plus) (filter (dr ds TI) Q) ++ out_tokens (S k) r end.
Definition owned_tokens (l : list ((nat -> nat) * buf)) : list nat := flat_map (fun x => map (fst x) (filter (dr ds TI) P)) l.

Lemma merge_tokens vals pvk :
  Permutation (map (merge vals pvk plus) (filter (dr ds TI) Q))
              (map pvk (filter (dr ds TI) plus) ++ map vals (filter (dr ds TI) carried)).
Proof.
  eapply Permutation_trans; [apply perm_map_filter_app; exact PQ|].
  assert (Hnd : NoDup (plus ++ carried)) by (eapply Permutation_NoDup; [exact PQ|apply (lo_nd _ _ _ _ _ LQ)]).
  apply Permutation_app.
  - replace (map (merge vals pvk plus) (filter (dr ds TI) plus)) with (map pvk (filter (dr ds TI) plus)); auto.
    apply map_ext_in. intros i Hi. apply filter_In in Hi. unfold merge. now rewrite (proj2 (mem_true i plus) (proj1 Hi)).
  - replace (map (merge vals pvk plus) (filter (dr ds TI) carried)) with (map vals (filter (dr ds TI) carried)); auto.
    apply map_ext_in. intros i Hi. apply filter_In in Hi. unfold merge.
    destruct (mem i plus) eqn:E'; auto. apply mem_true in E'. exfalso. exact (NoDup_app_disj _ _ i Hnd E' (proj1 Hi)).
Qed.

Ltac cnt x H := let H' := fresh "C" in pose proof (proj1 (Permutation_count_occ Nat.eq_dec _ _) H x) as H'; rewrite ?count_occ_app in H'.

Lemma out_tokens_perm : forall pre k,
  Permutation (removed_tokens pre ++ out_tokens k pre) (owned_tokens pre ++ supplied k pre).
Proof.
  induction pre as [|[vals b] r IH]; intros k; [apply Permutation_refl|].
  unfold removed_tokens, owned_tokens in *. cbn [flat_map fst out_tokens supplied].
  pose proof (merge_tokens vals (pv k)) as F2.
  assert (F3 : Permutation (map vals (filter (dr ds TI) P))
                           (map vals (filter (dr ds TI) minus) ++ map vals (filter (dr ds TI) carried)))
    by (apply perm_map_filter_app; exact PP).
  specialize (IH (S k)).
  apply (proj2 (Permutation_count_occ Nat.eq_dec _ _)). intros x.
  cnt x F2. cnt x F3. cnt x IH. rewrite !count_occ_app. lia.
Qed.

Lemma drop_all_outs : forall pre outs k, outs_ok k pre outs ->
  exists toks, drop_all Q outs = Ok toks /\ Permutation toks (out_tokens k pre).
Proof.
  induction pre as [|[vals b] r IH]; intros outs k H; destruct outs as [|o ro]; simpl in H; try tauto.
  - exists []. split; [reflexivity|apply Permutation_refl].
  - destruct H as [Ho Hr]. destruct (IH ro (S k) Hr) as (toks & E & Pt).
    cbn [drop_all out_tokens]. rewrite (drop_holds ds TI rt A cap Q LQ prev _ o Ho), E.
    eexists. split; [reflexivity|]. apply Permutation_app; [apply droppable_tokens|exact Pt].
Qed.

Lemma drop_all_inputs : forall l, Forall (fun x => holds ds TI cap A P (fst x) (snd x)) l ->
  exists toks, drop_all P (map snd l) = Ok toks /\ Permutation toks (owned_tokens l).
Proof.
  induction l as [|[vals b] r IH]; intros HF.
  - exists []. split; [reflexivity|apply Permutation_refl].
  - inversion HF as [|? ? Hb HF']; subst. simpl in Hb. destruct (IH HF') as (toks & E & Pt).
    cbn [map snd drop_all]. rewrite (drop_holds ds TI rt A cap P LP prev vals b Hb), E.
    eexists. split; [reflexivity|]. unfold owned_tokens. cbn [flat_map fst]. apply Permutation_app; [apply droppable_tokens|exact Pt].
Qed.

Theorem vec_of_records_fails_accounts : forall fl (sz al : N) pre valsf bf post,
  VecConv.flags_ok fl = true -> kf = length pre ->
  Forall (fun x => holds ds TI cap A P (fst x) (snd x)) (pre ++ (valsf, bf) :: post) ->
  exists outs_pre dconv calls douts dposts,
    VecConv.run buf buf (list nat) fault (nat * list nat) rconvf sz al sz al fl (map snd (pre ++ (valsf, bf) :: post)) (0%nat, []) =
      (VecConv.Failed (VecConv.FErr dconv),
       calls ++ map (@VecConv.DropU buf buf) outs_pre ++ map (@VecConv.DropT buf buf) (map snd post) ++ [VecConv.FreeBuf]) /\
    Forall (is_call buf buf) calls /\
    drop_all Q outs_pre = Ok douts /\ drop_all P (map snd post) = Ok dposts /\
    Permutation (dconv ++ douts ++ dposts)
                (owned_tokens (pre ++ (valsf, bf) :: post) ++ supplied 0%nat pre).
Proof.
  intros fl sz al pre valsf bf post OK Hkf HF.
  destruct (vec_of_records_fails fl sz al pre valsf bf post OK Hkf HF) as (outs_pre & dconv & calls & E & Hc & Ho & Pd).
  apply Forall_app in HF. destruct HF as [HFpre HFrest]. inversion HFrest as [|? ? Hbf HFpost]; subst.
  destruct (drop_all_outs pre outs_pre 0%nat Ho) as (douts & E1 & P1).
  destruct (drop_all_inputs post HFpost) as (dposts & E2 & P2).
  exists outs_pre, dconv, calls, douts, dposts. repeat (split; [assumption|]).
  pose proof (out_tokens_perm pre 0%nat) as F.
  unfold owned_tokens in *. rewrite flat_map_app. cbn [flat_map fst].
  apply (proj2 (Permutation_count_occ Nat.eq_dec _ _)). intros x.
  cnt x Pd. cnt x P1. cnt x P2. cnt x F. rewrite !count_occ_app. lia.
Qed.
(* the successful conversion followed by the drop of the resulting vector: what the conversions destroyed plus what the
   generated Drop destroys for each output record is everything the inputs owned plus everything supplied, each once *)
Theorem vec_of_records_then_drop : forall fl (sz al : N) inputs,
  VecConv.flags_ok fl = true ->
  Forall (fun x => holds ds TI cap A P (fst x) (snd x)) inputs ->
  exists outs destroyed calls douts,
    VecConv.run buf buf unit fault (nat * list nat) rconv sz al sz al fl (map snd inputs) (0%nat, []) =
      (VecConv.Done outs (length inputs, destroyed), calls) /\
    drop_all Q outs = Ok douts /\
    Permutation (destroyed ++ douts) (owned_tokens inputs ++ supplied 0%nat inputs).
Proof.
  intros fl sz al inputs OK HF.
  destruct (vec_of_records fl sz al inputs OK HF) as (outs & d & calls & E & _ & _ & Ho & Pd).
  destruct (drop_all_outs inputs outs 0%nat Ho) as (douts & E1 & P1).
  exists outs, d, calls, douts. split; [exact E|]. split; [exact E1|].
  pose proof (out_tokens_perm inputs 0%nat) as F.
  apply (proj2 (Permutation_count_occ Nat.eq_dec _ _)). intros x.
  cnt x Pd. cnt x P1. cnt x F. rewrite !count_occ_app. lia.
Qed.
End VecRecords.

(* ---------------------------------------------------------------- a pipeline: the vector goes through several variants *)
Section Pipeline.
Variable ds : defs.
Variable TI : nat -> tinfo.
Variable rt : runtime.
Variables (A cap : N).
Hypothesis RT : rt_ok rt = true.

Record vstage := mkVStage {
  vs_Q : list nat; vs_minus : list nat; vs_plus : list nat; vs_carried : list nat;
  vs_v : nat; vs_prev : nat; vs_pv : nat -> nat -> nat }.

Fixpoint vstages_ok (P : list nat) (stages : list vstage) : Prop :=
  match stages with
  | [] => True
  | s :: r => layout_ok ds TI A cap (vs_Q s) /\ Permutation P (vs_minus s ++ vs_carried s) /\
              Permutation (vs_Q s) (vs_plus s ++ vs_carried s) /\ vstages_ok (vs_Q s) r
  end.

(* each stage is one call of convert_vec_in_place on the vector the previous stage returned *)
Fixpoint pipeline (fl : VecConv.flags) (sz al : N) (v : list buf) (stages : list vstage) : option (list buf * list nat) :=
  match stages with
  | [] => Some (v, [])
  | s :: r =>
      match VecConv.run buf buf unit fault (nat * list nat)
              (rconv ds TI rt A cap (vs_minus s) (vs_plus s) (vs_v s) (vs_prev s) (vs_pv s)) sz al sz al fl v (0%nat, []) with
      | (VecConv.Done outs (_, d), _) =>
          match pipeline fl sz al outs r with Some (o, d') => Some (o, d ++ d') | None => None end
      | _ => None
      end
  end.

(* the values of the k-th, (k+1)-th ... elements after one stage, after all stages *)
Fixpoint merge_all (s : vstage) (k : nat) (vl : list (nat -> nat)) : list (nat -> nat) :=
  match vl with [] => [] | vals :: r => merge vals (vs_pv s k) (vs_plus s) :: merge_all s (S k) r end.
Fixpoint pipeline_vals (vl : list (nat -> nat)) (stages : list vstage) : list (nat -> nat) :=
  match stages with [] => vl | s :: r => pipeline_vals (merge_all s 0%nat vl) r end.
Definition last_variant (P : list nat) (stages : list vstage) : list nat := fold_left (fun _ s => vs_Q s) stages P.

Lemma outs_ok_combine s : forall inputs outs k,
  outs_ok ds TI A cap (vs_Q s) (vs_plus s) (vs_pv s) k inputs outs ->
  length outs = length inputs /\
  Forall (fun x => holds ds TI cap A (vs_Q s) (fst x) (snd x)) (combine (merge_all s k (map fst inputs)) outs).
Proof.
  induction inputs as [|[vals b] r IH]; intros outs k H; destruct outs as [|o ro]; simpl in H; try tauto.
  - split; [reflexivity|constructor].
  - destruct H as [Ho Hr]. destruct (IH ro (S k) Hr) as [Hl HF]. split; [simpl; now rewrite Hl|].
    cbn [map fst merge_all combine]. constructor; [exact Ho|exact HF].
Qed.

Lemma merge_all_length s : forall vl k, length (merge_all s k vl) = length vl.
Proof. induction vl as [|x r IH]; intros k; simpl; auto. Qed.

Lemma combine_fst {X Y} : forall (l1 : list X) (l2 : list Y), length l1 = length l2 -> map fst (combine l1 l2) = l1.
Proof. induction l1 as [|x r IH]; intros [|y l2] H; simpl in *; try discriminate; auto. f_equal. apply IH. lia. Qed.
Lemma combine_snd {X Y} : forall (l1 : list X) (l2 : list Y), length l1 = length l2 -> map snd (combine l1 l2) = l2.
Proof. induction l1 as [|x r IH]; intros [|y l2] H; simpl in *; try discriminate; auto. f_equal. apply IH. lia. Qed.

Theorem pipeline_ok : forall fl (sz al : N), VecConv.flags_ok fl = true ->
  forall stages P (inputs : list ((nat -> nat) * buf)),
  layout_ok ds TI A cap P -> vstages_ok P stages ->
  Forall (fun x => holds ds TI cap A P (fst x) (snd x)) inputs ->
  exists outs d,
    pipeline fl sz al (map snd inputs) stages = Some (outs, d) /\
    length outs = length inputs /\
    Forall (fun x => holds ds TI cap A (last_variant P stages) (fst x) (snd x))
           (combine (pipeline_vals (map fst inputs) stages) outs).
Proof.
  intros fl sz al OK. induction stages as [|s r IH]; intros P inputs LP Hs HF.
  - exists (map snd inputs), []. split; [reflexivity|]. split; [now rewrite map_length|].
    cbn [pipeline_vals last_variant fold_left].
    replace (combine (map fst inputs) (map snd inputs)) with inputs; [exact HF|].
    clear. induction inputs as [|[a b] l IHl]; simpl; auto. now rewrite <- IHl.
  - destruct Hs as (LQ & PP & PQ & Hr).
    destruct (vec_of_records ds TI rt A cap RT P (vs_Q s) (vs_minus s) (vs_plus s) (vs_carried s) LP LQ PP PQ
                (vs_v s) (vs_prev s) (vs_pv s) fl sz al inputs OK HF) as (outs & d & calls & E & _ & _ & Ho & _).
    destruct (outs_ok_combine s inputs outs 0%nat Ho) as [Hl HF'].
    set (vl' := merge_all s 0%nat (map fst inputs)) in *.
    assert (Hlen : length vl' = length outs) by (unfold vl'; rewrite merge_all_length, map_length; now rewrite Hl).
    destruct (IH (vs_Q s) (combine vl' outs) LQ Hr HF') as (outs' & d' & E' & Hl' & HF'').
    rewrite (combine_snd vl' outs Hlen) in E'. rewrite (combine_fst vl' outs Hlen) in HF''.
    exists outs', (d ++ d'). split; [|split].
    + cbn [pipeline]. rewrite E, E'. reflexivity.
    + rewrite Hl', combine_length, Hlen, Nat.min_id. exact Hl.
    + exact HF''.
Qed.
End Pipeline.

(* ---------------------------------------------------------------- any of the four conversion forms as converter *)
Section VecRecordsForms.
Variable ds : defs.
Variable TI : nat -> tinfo.
Variable rt : runtime.
Variables (A cap : N).
Hypothesis RT : rt_ok rt = true.
Variables (P Q minus plus carried : list nat).
Hypothesis LP : layout_ok ds TI A cap P.
Hypothesis LQ : layout_ok ds TI A cap Q.
Hypothesis PP : Permutation P (minus ++ carried).
Hypothesis PQ : Permutation Q (plus ++ carried).
Variables (v prev : nat).
Variables (uninit and_out : bool).
Hypothesis PLAIN : uninit = true -> forall i, In i plus -> un ds i = true -> dr ds TI i = false.
Variable pv : nat -> nat -> nat.      (* supplied values of the k-th element *)
Variable fv : nat -> nat -> nat.      (* values written into the fields left uninitialised, k-th element *)

Definition kstage (k : nat) : ustage :=
  mkUStage (mkStage Q minus plus carried and_out (pv k) [] v prev) uninit (fv k).

(* the converter: the chosen conversion form, then (uninit forms) one write per field left out; its state counts the
   elements and collects what was destroyed and what the returning forms handed back *)
Definition rconvg (s : nat * list nat * list nat) (t : buf) (_ : option buf)
  : (nat * list nat * list nat) * option buf * VecConv.outcome buf unit fault :=
  let '(k, d, bk) := s in
  match op_conv ds TI rt A cap v prev minus plus uninit and_out t (pv k) with
  | Ok (out, d0) =>
      match (match out with
             | ORecord b' => Some (b', [])
             | OAndOut b' back => Some (b', back_tokens ds TI minus back)
             | _ => None
             end) with
      | Some (b', r0) =>
          match life ds TI rt b' (fill_ops ds (kstage k)) with
          | Ok (b1, df) => ((S k, d ++ d0 ++ df, bk ++ r0), None, VecConv.Converted b1)
          | Fault e => ((S k, d, bk), None, VecConv.Panicked e)
          end
      | None => ((S k, d, bk), None, VecConv.Panicked (Static 0))
      end
  | Fault e => ((S k, d, bk), None, VecConv.Panicked e)
  end.

Definition vals_after (k : nat) (vals : nat -> nat) : nat -> nat :=
  fun i => if mem i plus then (if (uninit && un ds i)%bool then fv k i else pv k i) else vals i.

Fixpoint outs_ok_g (k : nat) (inputs : list ((nat -> nat) * buf)) (outs : list buf) : Prop :=
  match inputs, outs with
  | [], [] => True
  | (vals, _) :: ri, o :: ro => holds ds TI cap A Q (vals_after k vals) o /\ outs_ok_g (S k) ri ro
  | _, _ => False
  end.

Lemma spec_records_g : forall inputs outs k d bk log,
  Forall (fun x => holds ds TI cap A P (fst x) (snd x)) inputs ->
  exists outs' d' bk' calls,
    VecConv.spec buf buf unit fault (nat * list nat * list nat) rconvg (map snd inputs) outs (k, d, bk) log =
      (VecConv.Done (outs ++ outs') ((k + length inputs)%nat, d ++ d', bk ++ bk'), log ++ calls) /\
    Forall (is_call buf buf) calls /\ call_inputs buf buf calls = map snd inputs /\
    outs_ok_g k inputs outs' /\
    Permutation (d' ++ bk') (flat_map (fun x => map (fst x) (filter (dr ds TI) minus)) inputs).
Proof.
  induction inputs as [|[vals b] ri IH]; intros outs k d bk log HF.
  - exists [], [], [], []. simpl. rewrite !app_nil_r, Nat.add_0_r. repeat split; auto.
  - inversion HF as [|? ? Hb HF']; subst. simpl in Hb.
    destruct (ustage_conv ds TI rt A cap RT P (kstage k) LP LQ PP PQ PLAIN vals b Hb)
      as (b' & b1 & vals1 & E1 & Ef & H1 & Hv).
    cbn [kstage u_s u_uninit u_fill s_Q s_minus s_plus s_carried s_andout s_pvals s_v s_prev] in E1, H1, Hv.
    assert (H1' : holds ds TI cap A Q (vals_after k vals) b1).
    { apply (holds_ext ds TI A cap Q vals1 (vals_after k vals) b1); [|exact H1]. intros i Hi. exact (Hv i Hi). }
    cbn [map snd VecConv.spec]. unfold rconvg at 1. cbv beta iota. rewrite E1.
    set (d0 := if and_out then [] else droppable_of TI (rev (map (fun i => (nm ds i, (Some (vals i), ty ds i))) minus))).
    set (r0 := if and_out then back_tokens ds TI minus (map (fun i => (nm ds i, Some (vals i))) minus) else []).
    assert (F1 : Permutation (d0 ++ r0) (map vals (filter (dr ds TI) minus))).
    { unfold d0, r0. destruct and_out; simpl.
      - rewrite back_tokens_spec. apply Permutation_refl.
      - rewrite app_nil_r. apply droppable_tokens. }
    assert (Hout : match VecConv.last_opt buf outs with Some _ => VecConv.set_last buf outs None | None => outs end = outs)
      by (destruct (VecConv.last_opt buf outs); reflexivity).
    destruct (IH (outs ++ [b1]) (S k) (d ++ d0 ++ []) (bk ++ r0) (log ++ [VecConv.Call b (VecConv.last_opt buf outs)]) HF')
      as (outs' & d' & bk' & calls & Es & Hc & Hi & Ho & Pd).
    exists (b1 :: outs'), (d0 ++ d'), (r0 ++ bk'), (VecConv.Call b (VecConv.last_opt buf outs) :: calls).
    split; [|split; [|split; [|split]]].
    + unfold d0, r0 in *. destruct and_out; rewrite Ef, Hout, Es; cbn [length]; rewrite ?app_nil_r;
        rewrite <- ?app_assoc; cbn [app]; replace (S k + length ri)%nat with (k + S (length ri))%nat by lia; reflexivity.
    + constructor; [exact I|exact Hc].
    + cbn [call_inputs flat_map app map snd]. f_equal. exact Hi.
    + cbn [outs_ok_g]. split; [exact H1'|exact Ho].
    + cbn [flat_map fst]. apply (proj2 (Permutation_count_occ Nat.eq_dec _ _)). intros x.
      pose proof (proj1 (Permutation_count_occ Nat.eq_dec _ _) F1 x) as C1.
      pose proof (proj1 (Permutation_count_occ Nat.eq_dec _ _) Pd x) as C2.
      rewrite !count_occ_app in *. lia.
Qed.

Theorem vec_of_records_forms : forall fl (sz al : N) inputs,
  VecConv.flags_ok fl = true ->
  Forall (fun x => holds ds TI cap A P (fst x) (snd x)) inputs ->
  exists outs destroyed back calls,
    VecConv.run buf buf unit fault (nat * list nat * list nat) rconvg sz al sz al fl (map snd inputs) (0%nat, [], []) =
      (VecConv.Done outs (length inputs, destroyed, back), calls) /\
    Forall (is_call buf buf) calls /\ call_inputs buf buf calls = map snd inputs /\
    outs_ok_g 0%nat inputs outs /\
    Permutation (destroyed ++ back) (flat_map (fun x => map (fst x) (filter (dr ds TI) minus)) inputs).
Proof.
  intros fl sz al inputs OK HF.
  rewrite (run_refines buf buf unit fault (nat * list nat * list nat) rconvg sz al sz al fl _ _ OK).
  unfold VecConv.spec_run. rewrite !N.eqb_refl. cbn [negb orb].
  destruct (spec_records_g inputs [] 0%nat [] [] [] HF) as (outs' & d' & bk' & calls & Es & Hc & Hi & Ho & Pd).
  exists outs', d', bk', calls. rewrite Es. cbn [app Nat.add]. repeat split; auto.
Qed.
End VecRecordsForms.

(* ---------------------------------------------------------------- a converter that merges into the previous output *)
(* The feature of convert_vec_in_place that the other theorems do not use: the converter is given mutable access to the
   most recently produced output.  Here some elements are kept (converted to Q), the others are folded into the previous
   output - one field of it is overwritten through its mutable accessor - and dropped (their generated Drop).  For every
   vector: no fault, every output still holds Q (with some valuation), and everything is accounted for: what the
   converter destroyed plus what the outputs own at the end is what the outputs owned before plus what the inputs owned
   plus what was supplied and written. *)
Section VecMerge.
Variable ds : defs.
Variable TI : nat -> tinfo.
Variable rt : runtime.
Variables (A cap : N).
Hypothesis RT : rt_ok rt = true.
Variables (P Q minus plus carried : list nat).
Hypothesis LP : layout_ok ds TI A cap P.
Hypothesis LQ : layout_ok ds TI A cap Q.
Hypothesis PP : Permutation P (minus ++ carried).
Hypothesis PQ : Permutation Q (plus ++ carried).
Variables (v prev : nat).
Variable pv : nat -> nat -> nat.
Variable keep : nat -> bool.          (* is the k-th element kept ? *)
Variable wf : nat -> nat.             (* otherwise: the field of the previous output that is overwritten ... *)
Variable wx : nat -> nat.             (* ... and the value written *)
Hypothesis WF : forall k, In (wf k) Q.

Definition rconvm (s : nat * list nat) (t : buf) (po : option buf)
  : (nat * list nat) * option buf * VecConv.outcome buf unit fault :=
  if keep (fst s) then
    match op_conv ds TI rt A cap v prev minus plus false false t (pv (fst s)) with
    | Ok (ORecord b', d) => ((S (fst s), snd s ++ d), None, VecConv.Converted b')
    | Ok (_, d) => ((S (fst s), snd s ++ d), None, VecConv.Panicked (Static 0))
    | Fault e => ((S (fst s), snd s), None, VecConv.Panicked e)
    end
  else
    match po with
    | None =>
        match op_drop ds TI rt A cap prev P t with
        | Ok (_, dd) => ((S (fst s), snd s ++ dd), None, VecConv.Abandoned)
        | Fault e => ((S (fst s), snd s), None, VecConv.Panicked e)
        end
    | Some o =>
        match op_set ds TI rt o (wf (fst s)) (wx (fst s)) with
        | Ok (o', d1) =>
            match op_drop ds TI rt A cap prev P t with
            | Ok (_, dd) => ((S (fst s), snd s ++ d1 ++ dd), Some o', VecConv.Abandoned)
            | Fault e => ((S (fst s), snd s), None, VecConv.Panicked e)
            end
        | Fault e => ((S (fst s), snd s), None, VecConv.Panicked e)
        end
    end.

Definition holdsQ (o : buf) : Prop := exists vals, holds ds TI cap A Q vals o.
(* what a record owns, as its generated Drop would destroy it *)
Definition rec_tokens (o : buf) : list nat :=
  match op_drop ds TI rt A cap prev Q o with Ok (_, t) => t | Fault _ => [] end.
Definition outs_tokens (l : list buf) : list nat := flat_map rec_tokens l.

(* what enters at element k: the supplied values of a kept element, the written value of a merged one *)
Fixpoint entered_m (k : nat) (has_prev : bool) (inputs : list ((nat -> nat) * buf)) : list nat :=
  match inputs with
  | [] => []
  | _ :: r =>
      if keep k then map (pv k) (filter (dr ds TI) plus) ++ entered_m (S k) true r
      else (if andb has_prev (dr ds TI (wf k)) then [wx k] else []) ++ entered_m (S k) has_prev r
  end.

Lemma rec_tokens_holds vals o : holds ds TI cap A Q vals o -> Permutation (rec_tokens o) (map vals (filter (dr ds TI) Q)).
Proof. intros H. unfold rec_tokens. rewrite (drop_holds ds TI rt A cap Q LQ prev vals o H). apply droppable_tokens. Qed.

Lemma last_opt_split (l : list buf) o : VecConv.last_opt buf l = Some o -> l = removelast l ++ [o].
Proof.
  unfold VecConv.last_opt. intros H. destruct (rev l) as [|x r] eqn:E; [discriminate|]. inversion H; subst.
  assert (El : l = rev r ++ [o]) by (rewrite <- (rev_involutive l), E; reflexivity).
  rewrite El at 2. rewrite El. now rewrite removelast_last.
Qed.
Lemma last_opt_none (l : list buf) : VecConv.last_opt buf l = None -> l = [].
Proof. unfold VecConv.last_opt. destruct (rev l) eqn:E; [|discriminate]. intros _. rewrite <- (rev_involutive l), E. reflexivity. Qed.

Ltac cnt x H := let H' := fresh "C" in pose proof (proj1 (Permutation_count_occ Nat.eq_dec _ _) H x) as H'; rewrite ?count_occ_app in H'.

Lemma spec_merge : forall inputs outs k d log,
  Forall (fun x => holds ds TI cap A P (fst x) (snd x)) inputs -> Forall holdsQ outs ->
  exists outs' d' calls,
    VecConv.spec buf buf unit fault (nat * list nat) rconvm (map snd inputs) outs (k, d) log =
      (VecConv.Done outs' ((k + length inputs)%nat, d ++ d'), log ++ calls) /\
    Forall (is_call buf buf) calls /\ Forall holdsQ outs' /\
    Permutation (d' ++ outs_tokens outs')
                (outs_tokens outs ++ owned_tokens ds TI P inputs ++
                 entered_m k (match outs with [] => false | _ => true end) inputs).
Proof.
  induction inputs as [|[vals b] ri IH]; intros outs k d log HF HQ.
  - exists outs, [], []. simpl. rewrite !app_nil_r, Nat.add_0_r. repeat split; auto.
  - inversion HF as [|? ? Hb HF']; subst. simpl in Hb.
    cbn [map snd VecConv.spec]. unfold rconvm at 1. cbn [fst snd]. cbn [entered_m].
    destruct (keep k) eqn:Ek.
    + (* kept: converted, appended *)
      destruct (conv_holds_full ds TI rt A cap RT P Q minus plus carried LP LQ PP PQ v prev false vals (pv k) b Hb)
        as (b' & E & H').
      rewrite E.
      assert (Hout : match VecConv.last_opt buf outs with Some _ => VecConv.set_last buf outs None | None => outs end = outs)
        by (destruct (VecConv.last_opt buf outs); reflexivity).
      rewrite Hout.
      set (d0 := droppable_of TI (rev (map (fun i => (nm ds i, (Some (vals i), ty ds i))) minus))).
      assert (HQ' : Forall holdsQ (outs ++ [b'])) by (apply Forall_app; split; [exact HQ|constructor; [eexists; exact H'|constructor]]).
      destruct (IH (outs ++ [b']) (S k) (d ++ d0) (log ++ [VecConv.Call b (VecConv.last_opt buf outs)]) HF' HQ')
        as (outs' & d' & calls & Es & Hc & Hq & Pd).
      exists outs', (d0 ++ d'), (VecConv.Call b (VecConv.last_opt buf outs) :: calls). split; [|split; [|split]].
      * rewrite Es. cbn [length]. rewrite <- !app_assoc. cbn [app].
        replace (S k + length ri)%nat with (k + S (length ri))%nat by lia. reflexivity.
      * constructor; [exact I|exact Hc].
      * exact Hq.
      * assert (Enz : match outs ++ [b'] with [] => false | _ => true end = true) by (destruct outs; reflexivity).
        rewrite Enz in Pd.
        pose proof (droppable_tokens ds TI vals minus) as F1. fold d0 in F1.
        pose proof (rec_tokens_holds _ _ H') as F2.
        pose proof (merge_tokens ds TI A cap Q plus carried LQ PQ vals (pv k)) as F2'.
        assert (F3 : Permutation (map vals (filter (dr ds TI) P))
                                 (map vals (filter (dr ds TI) minus) ++ map vals (filter (dr ds TI) carried)))
          by (apply perm_map_filter_app; exact PP).
        unfold outs_tokens, owned_tokens in *. rewrite flat_map_app in Pd. cbn [flat_map fst] in Pd |- *. rewrite app_nil_r in Pd.
        apply (proj2 (Permutation_count_occ Nat.eq_dec _ _)). intros x.
        cnt x Pd. cnt x F1. cnt x F2. cnt x F2'. cnt x F3. rewrite !count_occ_app. lia.
    + (* merged into the previous output (if any) and dropped *)
      pose proof (drop_holds ds TI rt A cap P LP prev vals b Hb) as Ed.
      pose proof (droppable_tokens ds TI vals P) as Fd.
      set (dd := droppable_of TI (rev (map (fun i => (nm ds i, (Some (vals i), ty ds i))) P))) in *.
      destruct (VecConv.last_opt buf outs) as [o|] eqn:El.
      * pose proof (last_opt_split outs o El) as Eo.
        assert (Ho : holdsQ o).
        { rewrite Forall_forall in HQ. apply HQ. rewrite Eo. apply in_or_app. right. now left. }
        destruct Ho as (valso & Ho).
        destruct (set_holds ds TI rt A cap RT Q LQ valso o (wf k) (wx k) Ho (WF k)) as (o' & Eset & Ho').
        rewrite Eset, Ed. cbn [VecConv.set_last].
        assert (HQ' : Forall holdsQ (removelast outs ++ [o'])).
        { apply Forall_app. split; [|constructor; [eexists; exact Ho'|constructor]].
          rewrite Eo in HQ. apply Forall_app in HQ. tauto. }
        set (d1 := if dr ds TI (wf k) then [valso (wf k)] else []) in *.
        destruct (IH (removelast outs ++ [o']) (S k) (d ++ d1 ++ dd) (log ++ [VecConv.Call b (Some o)]) HF' HQ')
          as (outs' & d' & calls & Es & Hc & Hq & Pd).
        exists outs', (d1 ++ dd ++ d'), (VecConv.Call b (Some o) :: calls). split; [|split; [|split]].
        -- rewrite Es. cbn [length]. rewrite <- !app_assoc. cbn [app].
           replace (S k + length ri)%nat with (k + S (length ri))%nat by lia. reflexivity.
        -- constructor; [exact I|exact Hc].
        -- exact Hq.
        -- assert (Enz : match removelast outs ++ [o'] with [] => false | _ => true end = true) by (destruct (removelast outs); reflexivity).
           rewrite Enz in Pd.
           assert (Enz2 : match outs with [] => false | _ => true end = true) by (rewrite Eo; destruct (removelast outs); reflexivity).
           rewrite Enz2. cbn [andb].
           pose proof (rec_tokens_holds _ _ Ho) as T1. pose proof (rec_tokens_holds _ _ Ho') as T2.
           assert (T3 : Permutation (d1 ++ map (upd valso (wf k) (wx k)) (filter (dr ds TI) Q))
                                    ((if dr ds TI (wf k) then [wx k] else []) ++ map valso (filter (dr ds TI) Q))).
           { unfold d1. destruct (dr ds TI (wf k)) eqn:Edr; cbn [app].
             - apply upd_perm; [apply NoDup_filter_keep; apply (lo_nd _ _ _ _ _ LQ)|apply filter_In; auto].
             - replace (map (upd valso (wf k) (wx k)) (filter (dr ds TI) Q)) with (map valso (filter (dr ds TI) Q)); auto.
               apply map_ext_in. intros i Hi. apply filter_In in Hi. unfold upd.
               destruct (Nat.eqb i (wf k)) eqn:E'; auto. apply Nat.eqb_eq in E'. subst. destruct Hi as [_ Hi]. congruence. }
           unfold outs_tokens, owned_tokens in *. rewrite flat_map_app in Pd. cbn [flat_map fst] in Pd |- *. rewrite app_nil_r in Pd.
           rewrite Eo at 1. rewrite flat_map_app. cbn [flat_map]. rewrite app_nil_r.
           apply (proj2 (Permutation_count_occ Nat.eq_dec _ _)). intros x.
           cnt x Pd. cnt x Fd. cnt x T1. cnt x T2. cnt x T3. rewrite !count_occ_app. lia.
      * pose proof (last_opt_none outs El) as Eo. subst outs. rewrite Ed.
        destruct (IH [] (S k) (d ++ dd) (log ++ [VecConv.Call b None]) HF' HQ) as (outs' & d' & calls & Es & Hc & Hq & Pd).
        exists outs', (dd ++ d'), (VecConv.Call b None :: calls). split; [|split; [|split]].
        -- rewrite Es. cbn [length]. rewrite <- !app_assoc. cbn [app].
           replace (S k + length ri)%nat with (k + S (length ri))%nat by lia. reflexivity.
        -- constructor; [exact I|exact Hc].
        -- exact Hq.
        -- cbn [andb app]. unfold outs_tokens, owned_tokens in *. cbn [flat_map fst app] in Pd |- *.
           apply (proj2 (Permutation_count_occ Nat.eq_dec _ _)). intros x.
           cnt x Pd. cnt x Fd. rewrite !count_occ_app. lia.
Qed.

Theorem vec_merge : forall fl (sz al : N) inputs,
  VecConv.flags_ok fl = true ->
  Forall (fun x => holds ds TI cap A P (fst x) (snd x)) inputs ->
  exists outs destroyed calls,
    VecConv.run buf buf unit fault (nat * list nat) rconvm sz al sz al fl (map snd inputs) (0%nat, []) =
      (VecConv.Done outs (length inputs, destroyed), calls) /\
    Forall (is_call buf buf) calls /\ Forall holdsQ outs /\
    Permutation (destroyed ++ outs_tokens outs) (owned_tokens ds TI P inputs ++ entered_m 0%nat false inputs).
Proof.
  intros fl sz al inputs OK HF.
  rewrite (run_refines buf buf unit fault (nat * list nat) rconvm sz al sz al fl _ _ OK).
  unfold VecConv.spec_run. rewrite !N.eqb_refl. cbn [negb orb].
  destruct (spec_merge inputs [] 0%nat [] [] HF (Forall_nil _)) as (outs' & d' & calls & Es & Hc & Hq & Pd).
  exists outs', d', calls. rewrite Es. cbn [app Nat.add]. repeat split; auto.
Qed.
End VecMerge.
