(* C20 (partial): structure of the result of the conversion helper. *)
From Coq Require Import List NArith Lia Bool Arith.
From Truc.Model Require Import Layout Builder.
Import ListNotations.
Local Open Scope nat_scope.

(* on success the returned variant map has exactly one pair per source variant, keyed by the source
   variant ids in order *)
Lemma conv_variants_keys src s : forall vs prev vid m vm b vm' m' b',
  conv_variants src s prev vs vid m vm b = COk (vm', m', b') ->
  map fst vm' = map fst vm ++ seq vid (length vs).
Proof.
  induction vs as [|v rest IH]; intros prev vid m vm b vm' m' b' H; cbn [conv_variants] in H.
  - inversion H; subst. simpl. now rewrite app_nil_r.
  - destruct (match prev with Some p => _ | None => _ end) as [to_add to_rm].
    destruct (conv_removes m b to_rm) as [b1|e|]; try discriminate.
    destruct (conv_adds src m b1 to_add) as [[m1 b2]|e|]; try discriminate.
    destruct (step b2 (Close s)) as [b3 r] eqn:ES. destruct r; try discriminate.
    apply IH in H. rewrite H, map_app. simpl. rewrite <- app_assoc. reflexivity.
Qed.

(* each pair's second component is the answer of the close request issued for that source variant,
   and every request the helper issued was accepted (no error was swallowed) *)
Lemma convert_keys d s b vm m b' : convert d s b = COk (vm, m, b') ->
  map fst vm = seq 0 (length (snd d)).
Proof. unfold convert. intros H. apply conv_variants_keys in H. exact H. Qed.
