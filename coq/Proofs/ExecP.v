(* C04 / C06 / C07 on the abstract machine: constructor, accessors, unpack, drop of a generated variant. *)
From Coq Require Import List NArith Lia Bool Arith Permutation.
From Truc.Model Require Import Layout Builder Ir Gen Exec Ops.
Import ListNotations.
Open Scope N_scope.

Section WithLayout.
Variable ds : defs.
Variable TI : nat -> tinfo.
Variable rt : runtime.
Variables (A cap : N).
Hypothesis RT : rt_ok rt = true.

Definition sz (i : nat) := ti_size (TI (ty ds i)).
Definition al (i : nat) := ti_align (TI (ty ds i)).
Definition dr (i : nat) := ti_drop (TI (ty ds i)).

(* the conclusions of C01 / C02 / C11 for one variant, as the machine needs them *)
Record layout_ok (data : list nat) : Prop := {
  lo_nd : NoDup data;
  lo_names : NoDup (map (nm ds) data);
  lo_cap : forall i, In i data -> of ds i + sz i <= cap;
  lo_al : forall i, In i data -> 1 <= al i /\ of ds i mod al i = 0 /\ A mod al i = 0;
  lo_disj : forall i j, In i data -> In j data -> i <> j -> 0 < sz i -> 0 < sz j ->
              of ds i + sz i <= of ds j \/ of ds j + sz j <= of ds i;
  lo_keys : NoDup (map (fun i => (of ds i, ty ds i)) data) }.

Definition slot_of (vals : nat -> nat) (i : nat) : slot :=
  mkSlot (of ds i) (ty ds i) (sz i) (dr i) (Owned (vals i)).

(* a record of the variant holding `vals` *)
Definition record_of (data : list nat) (vals : nat -> nat) : buf := mkBuf A cap (map (slot_of vals) (rev data)).

Lemma rt_facts : write_needs_align rt = false /\ write_ptr_unique rt = true /\ getmut_ptr_unique rt = true.
Proof.
  unfold rt_ok in RT. apply andb_prop in RT. destruct RT as [R1 R3]. apply andb_prop in R1. destruct R1 as [R1 R2].
  apply negb_true_iff in R1. auto.
Qed.

Lemma run_body_app e l1 l2 out :
  run_body TI rt A cap e (l1 ++ l2) out =
  match run_body TI rt A cap e l1 out with
  | Ok (e', o) => run_body TI rt A cap e' l2 o
  | Fault x => Fault x
  end.
Proof.
  revert e out. induction l1 as [|s r IH]; intros e out; simpl; auto.
  destruct (step TI rt A cap e s) as [[e' o]|x]; auto.
Qed.

Section Variant.
Variable data : list nat.
Hypothesis L : layout_ok data.

Lemma no_overlap i j : In i data -> In j data -> i <> j ->
  overlaps (of ds i) (sz i) (of ds j) (sz j) = false.
Proof.
  intros Hi Hj Hne. unfold overlaps.
  destruct (0 <? sz i) eqn:E1; simpl; auto. destruct (0 <? sz j) eqn:E2; simpl; auto.
  apply N.ltb_lt in E1, E2. destruct (lo_disj _ L i j Hi Hj Hne E1 E2) as [H|H].
  - assert (H0 : of ds j <? of ds i + sz i = false) by (apply N.ltb_ge; lia). rewrite H0. apply andb_false_r.
  - assert (H0 : of ds i <? of ds j + sz j = false) by (apply N.ltb_ge; lia). rewrite H0. reflexivity.
Qed.

Lemma lookup_args_head vals i r :
  lookup (nm ds i) (args_of ds (i :: r) vals) = Some (vals i, ty ds i).
Proof. simpl. now rewrite Nat.eqb_refl. Qed.
Lemma remove_args_head vals i r :
  remove_key (nm ds i) (args_of ds (i :: r) vals) = args_of ds r vals.
Proof. simpl. now rewrite Nat.eqb_refl. Qed.

(* ---------------------------------------------------------------- the stores of a constructor *)

Lemma writes_ok vals (src_from : bool) : forall todo done e,
  data = done ++ todo ->
  e_data e = Some (mkBuf 1 cap (map (slot_of vals) (rev done))) ->
  e_afrom e = args_of ds todo vals ->
  forall out,
  run_body TI rt A cap e (map (fun i => SWrite (of ds i) SFrom (nm ds i)) todo) out =
  Ok (mkEnv (e_self e) (e_from e) (e_mdrop e) (Some (mkBuf 1 cap (map (slot_of vals) (rev data)))) [] (e_aplus e) (e_locals e) (e_record e), out).
Proof.
  destruct rt_facts as (R1 & R2 & R3).
  induction todo as [|i r IH]; intros done e E Hd Ha out; simpl.
  - rewrite app_nil_r in E. subst done. destruct e; simpl in *. subst. reflexivity.
  - assert (Hi : In i data) by (rewrite E; apply in_or_app; simpl; auto).
    rewrite Ha, lookup_args_head, Hd. unfold bwrite. simpl. rewrite R1, R2. simpl.
    assert (Hb : of ds i + ti_size (TI (ty ds i)) <=? cap = true) by (apply N.leb_le; apply (lo_cap _ L i Hi)).
    rewrite Hb. simpl.
    assert (Hno : forall s, In s (map (slot_of vals) (rev done)) ->
                  overlaps (of ds i) (ti_size (TI (ty ds i))) (s_off s) (s_size s) = false).
    { intros s Hin. apply in_map_iff in Hin. destruct Hin as (j & <- & Hj). simpl.
      apply in_rev in Hj. apply no_overlap; auto.
      - rewrite E. apply in_or_app; auto.
      - intro Heq. subst j. pose proof (lo_nd _ L) as Hnd. rewrite E in Hnd.
        apply NoDup_remove_2 in Hnd. apply Hnd. apply in_or_app. auto. }
    assert (Hex : existsb (fun s => is_owned s && s_drop s && overlaps (of ds i) (ti_size (TI (ty ds i))) (s_off s) (s_size s))
                    (map (slot_of vals) (rev done)) = false).
    { apply not_true_is_false. intro H. apply existsb_exists in H. destruct H as (s & Hin & Hs'). rewrite (Hno s Hin) in Hs'.
      now rewrite andb_false_r in Hs'. }
    rewrite Hex.
    assert (Hfil : filter (fun s => negb (overlaps (of ds i) (ti_size (TI (ty ds i))) (s_off s) (s_size s)))
                     (map (slot_of vals) (rev done)) = map (slot_of vals) (rev done)).
    { clear -Hno. induction (map (slot_of vals) (rev done)) as [|s l IHl]; simpl; auto.
      rewrite (Hno s) by (simpl; auto). simpl. f_equal. apply IHl. intros; apply Hno; simpl; auto. }
    rewrite Hfil, Nat.eqb_refl.
    rewrite (IH (done ++ [i])); simpl; auto.
    + rewrite <- app_assoc. exact E.
    + rewrite rev_app_distr. simpl. reflexivity.
Qed.

(* ---------------------------------------------------------------- new *)

Theorem new_ok v vals :
  op_new ds TI rt A cap v data vals = Ok (ORecord (record_of data vals), []).
Proof.
  unfold op_new, run_fn, gen_new, item_body.
  set (e1 := mkEnv None None None (Some (mkBuf 1 cap [])) (args_of ds data vals) [] [] None).
  change (run_body TI rt A cap _ (SNewBuf _ :: ?ws) ONone) with (run_body TI rt A cap e1 ws ONone).
  rewrite run_body_app.
  rewrite (writes_ok vals true data [] e1 eq_refl eq_refl eq_refl). reflexivity.
Qed.

(* ---------------------------------------------------------------- accessors *)

Lemma key_of_inj i j : In i data -> In j data -> of ds i = of ds j -> ty ds i = ty ds j -> i = j.
Proof.
  intros Hi Hj E1 E2. pose proof (lo_keys _ L) as Hk.
  assert (H : forall l, NoDup (map (fun i => (of ds i, ty ds i)) l) -> In i l -> In j l -> i = j).
  { induction l as [|x r IH]; simpl; intros Hnd Hx Hy; [tauto|]. inversion Hnd as [|? ? Hh Hr]; subst.
    destruct Hx as [->|Hx], Hy as [->|Hy]; auto.
    - exfalso. apply Hh. apply in_map_iff. exists j. split; auto. congruence.
    - exfalso. apply Hh. apply in_map_iff. exists i. split; auto. congruence. }
  apply (H data); auto.
Qed.

(* slots of a record in which the data of `moved` have been moved out *)
Definition slot_st (vals : nat -> nat) (moved : list nat) (i : nat) : slot :=
  mkSlot (of ds i) (ty ds i) (sz i) (dr i) (if existsb (Nat.eqb i) moved then Moved else Owned (vals i)).

Lemma slot_st_nil vals l : map (slot_st vals []) l = map (slot_of vals) l.
Proof. apply map_ext. intros i. reflexivity. Qed.

Lemma take_slot vals moved i : In i data -> ~ In i moved -> forall l,
  (forall j, In j l -> In j data) -> NoDup l -> In i l ->
  take (of ds i) (ty ds i) (map (slot_st vals moved) l) = Some (vals i, map (slot_st vals (i :: moved)) l).
Proof.
  intros Hi Hnm. induction l as [|j r IH]; intros Hsub Hnd Hin; [destruct Hin|].
  inversion Hnd as [|? ? Hj Hr]; subst.
  assert (Em : existsb (Nat.eqb i) moved = false).
  { apply not_true_is_false. intro H. apply existsb_exists in H. destruct H as (x & Hx & E). apply Nat.eqb_eq in E. subst. auto. }
  destruct (Nat.eq_dec j i) as [->|Hne].
  - simpl. unfold key_match. simpl. rewrite N.eqb_refl. rewrite (Nat.eqb_refl (ty ds i)). unfold is_owned. simpl. rewrite Em. simpl.
    f_equal. f_equal. f_equal.
    + unfold slot_st. simpl. rewrite (Nat.eqb_refl i). reflexivity.
    + apply map_ext_in. intros x Hx. unfold slot_st. simpl.
      assert (E : Nat.eqb x i = false) by (apply Nat.eqb_neq; intro; subst; auto). now rewrite E.
  - assert (K : (of ds j =? of ds i) && Nat.eqb (ty ds j) (ty ds i) = false).
    { apply not_true_is_false. intro K. apply andb_prop in K. destruct K as [K1 K2].
      apply N.eqb_eq in K1. apply Nat.eqb_eq in K2. apply Hne. apply key_of_inj; auto. apply Hsub. simpl; auto. }
    destruct Hin as [E|Hin]; [congruence|].
    simpl. unfold key_match. simpl. rewrite K. simpl.
    rewrite (IH (fun x Hx => Hsub x (or_intror Hx)) Hr Hin).
    assert (E : Nat.eqb j i = false) by (apply Nat.eqb_neq; auto).
    f_equal. f_equal. f_equal. unfold slot_st. simpl. rewrite E. reflexivity.
Qed.

(* ---------------------------------------------------------------- typed loads on a record *)

Definition rec_st (vals : nat -> nat) (moved : list nat) : buf := mkBuf A cap (map (slot_st vals moved) (rev data)).

Lemma record_of_st vals : record_of data vals = rec_st vals [].
Proof. unfold record_of, rec_st. now rewrite slot_st_nil. Qed.

Lemma bread_ok vals moved i : In i data -> ~ In i moved ->
  bread TI (rec_st vals moved) (of ds i) (ty ds i) = Ok (Some (vals i), rec_st vals (i :: moved)).
Proof.
  intros Hi Hm. unfold bread, rec_st. simpl.
  assert (Hb : of ds i + ti_size (TI (ty ds i)) <=? cap = true) by (apply N.leb_le; apply (lo_cap _ L i Hi)).
  rewrite Hb. simpl.
  destruct (lo_al _ L i Hi) as (A1 & A2 & A3). unfold aligned_ok, al in *. simpl. rewrite A2, A3. simpl.
  rewrite (take_slot vals moved i Hi Hm (rev data)); auto.
  - intros j Hj. now apply in_rev.
  - apply NoDup_rev. apply (lo_nd _ L).
  - now apply -> in_rev.
Qed.

(* C04: every accessor of a freshly built record returns the value that was put in, without fault *)
Theorem get_after_new vals i m : In i data ->
  op_get ds TI rt (record_of data vals) i m = Ok (Some (vals i)).
Proof.
  intros Hi. destruct rt_facts as (_ & _ & R3). unfold op_get, bget. rewrite R3.
  rewrite andb_false_r. rewrite record_of_st, bread_ok; auto.
Qed.

Lemma reads_ok vals u : forall todo moved e out,
  (forall i, In i todo -> In i data) -> NoDup todo -> (forall i, In i todo -> ~ In i moved) ->
  e_self e = Some (rec_st vals moved) ->
  run_body TI rt A cap e (map (fun i => SRead u (nm ds i) (ty ds i) (of ds i) OSelf) todo) out =
  Ok (mkEnv (Some (rec_st vals (rev todo ++ moved))) (e_from e) (e_mdrop e) (e_data e) (e_afrom e) (e_aplus e)
            (e_locals e ++ map (fun i => (nm ds i, (Some (vals i), ty ds i))) todo) (e_record e), out).
Proof.
  induction todo as [|i r IH]; intros moved e out Hsub Hnd Hm Hs.
  - simpl. rewrite app_nil_r. destruct e; simpl in *. now subst.
  - inversion Hnd as [|? ? Hi Hr]; subst.
    cbn [map run_body]. unfold step. rewrite Hs.
    assert (Hid : In i data) by (apply Hsub; simpl; auto).
    assert (Him : ~ In i moved) by (apply Hm; simpl; auto).
    rewrite (bread_ok vals moved i Hid Him).
    rewrite (IH (i :: moved)); auto.
    + simpl. rewrite <- !app_assoc. reflexivity.
    + intros j Hj. apply Hsub. simpl; auto.
    + intros j Hj [->|H]; [auto|]. apply (Hm j); simpl; auto.
Qed.

Lemma filter_none {X} (p : X -> bool) l : (forall x, In x l -> p x = false) -> filter p l = [].
Proof. induction l as [|x r IH]; simpl; intros H; auto. rewrite (H x) by auto. apply IH. intros; apply H; auto. Qed.

Lemma lookup_locals (vals : nat -> nat) i l : In i l -> NoDup (map (nm ds) l) ->
  lookup (nm ds i) (map (fun j => (nm ds j, (Some (vals j), ty ds j))) l) = Some (Some (vals i), ty ds i).
Proof.
  induction l as [|j r IH]; simpl; intros Hin Hnd; [tauto|]. inversion Hnd as [|? ? Hj Hr]; subst.
  destruct Hin as [->|Hin]; [now rewrite Nat.eqb_refl|].
  destruct (Nat.eqb (nm ds i) (nm ds j)) eqn:E; auto.
  apply Nat.eqb_eq in E. exfalso. apply Hj. rewrite <- E. now apply in_map.
Qed.

(* C04 / C06: unpack returns exactly the values put in, destroys nothing, and forgets the record *)
Theorem unpack_after_new v vals :
  op_unpack ds TI rt A cap v data (record_of data vals) =
  Ok (OUnpacked (map (fun i => (nm ds i, Some (vals i))) data), []).
Proof.
  unfold op_unpack, run_fn, gen_unpack, item_body. rewrite run_body_app.
  rewrite (reads_ok vals false data [] _ ONone (fun i H => H) (lo_nd _ L) (fun i _ (H : In i []) => H));
    [|simpl; rewrite record_of_st; reflexivity].
  cbn [run_body step e_self e_locals app].
  assert (Hall : forallb (fun f => match lookup f (map (fun i => (nm ds i, (Some (vals i), ty ds i))) data) with Some _ => true | None => false end)
                   (map (nm ds) data) = true).
  { apply forallb_forall. intros f Hf. apply in_map_iff in Hf. destruct Hf as (i & <- & Hi).
    rewrite (lookup_locals vals i data Hi (lo_names _ L)). reflexivity. }
  rewrite Hall.
  assert (Hvals : map (fun f => (f, match lookup f (map (fun i => (nm ds i, (Some (vals i), ty ds i))) data) with Some (v0, _) => v0 | None => None end))
                    (map (nm ds) data) = map (fun i => (nm ds i, Some (vals i))) data).
  { rewrite map_map. apply map_ext_in. intros i Hi. now rewrite (lookup_locals vals i data Hi (lo_names _ L)). }
  rewrite Hvals. f_equal. f_equal.
  unfold scope_exit. simpl.
  assert (Hfil : filter (fun l : nat * (option nat * nat) => negb (existsb (Nat.eqb (fst l)) (map (nm ds) data)))
                   (map (fun i => (nm ds i, (Some (vals i), ty ds i))) data) = []).
  { apply filter_none. intros x Hx. apply in_map_iff in Hx. destruct Hx as (i & <- & Hi). simpl.
    apply negb_false_iff. apply existsb_exists. exists (nm ds i). split; [now apply in_map|apply Nat.eqb_refl]. }
  rewrite Hfil. reflexivity.
Qed.

(* C06: the generated Drop destroys exactly the droppable values the record owns, each once *)
Theorem drop_after_new v vals :
  op_drop ds TI rt A cap v data (record_of data vals) =
  Ok (ONone, droppable_of TI (rev (map (fun i => (nm ds i, (Some (vals i), ty ds i))) data))).
Proof.
  unfold op_drop, gen_drop, item_body.
  rewrite (reads_ok vals true data [] _ ONone (fun i H => H) (lo_nd _ L) (fun i _ (H : In i []) => H));
    [|simpl; rewrite record_of_st; reflexivity].
  reflexivity.
Qed.

Lemma filter_rev' {X} (p : X -> bool) l : filter p (rev l) = rev (filter p l).
Proof.
  induction l as [|a r IH]; simpl; auto. rewrite filter_app, IH. simpl.
  destruct (p a); simpl; auto. now rewrite app_nil_r.
Qed.

Lemma droppable_map (vals : nat -> nat) l :
  droppable_of TI (map (fun i => (nm ds i, (Some (vals i), ty ds i))) l) = map vals (filter dr l).
Proof.
  induction l as [|i r IH]; simpl; auto. unfold dr at 1. destruct (ti_drop (TI (ty ds i))); simpl; now rewrite IH.
Qed.

(* ... each exactly once: the destroyed tokens are a permutation of the droppable values put in *)
Lemma droppable_tokens (vals : nat -> nat) l :
  Permutation (droppable_of TI (rev (map (fun i => (nm ds i, (Some (vals i), ty ds i))) l)))
              (map vals (filter dr l)).
Proof.
  rewrite <- map_rev, droppable_map, filter_rev', map_rev. apply Permutation_sym. apply Permutation_rev.
Qed.
End Variant.
End WithLayout.
