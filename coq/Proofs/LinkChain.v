(* The whole life of a record, from a request history: the stages of the chain are read off the consecutive variants of
   the definition the builder produced - each stage converts to the next variant with the removed / added lists the
   generator computes for that pair - and every hypothesis of the chain theorem (layouts, splits) is derived from the
   history (Link.v).  What remains hypothesis: real type information agreeing with the recorded one (C11), a capacity
   covering max_size, no two zero-size data of one type at one offset, and writes / uninit flags that fit the variant. *)
From Coq Require Import List NArith ZArith Lia Bool Arith Permutation.
From Truc.Model Require Import Layout Builder Ir Gen Exec Ops.
From Truc.Proofs Require Import ArithP Sorted Variants BuilderInv LayoutThms Refine12 ExecP Holds Life Chain ChainU ConvertP Link.
Import ListNotations.
Open Scope N_scope.

Section LinkChain.
Variable h : list req.
Hypothesis HOK : hist_ok h.
Hypothesis HP2 : pow2_hist h.
Let b := run h.
Let ds := b_ds b.
Variable TI : nat -> tinfo.
Hypothesis TI_ok : forall v i, In v (b_vs b) -> In i v ->
  ti_size (TI (d_ty (getd ds i))) = d_size (getd ds i) /\ ti_align (TI (d_ty (getd ds i))) = d_align (getd ds i).
Variable cap : N.
Hypothesis CAP : exists m, max_size (ds, b_vs b) = Some m /\ m <= cap.
Hypothesis NOTWINS : forall v, In v (b_vs b) -> no_zst_twins h v.
Let A := max_type_align (ds, b_vs b).

Lemma last_default {X} : forall (l : list X) x d d', last (x :: l) d = last (x :: l) d'.
Proof. induction l as [|y r IH]; intros x d d'; [reflexivity|]. change (last (x :: y :: r) d) with (last (y :: r) d).
  change (last (x :: y :: r) d') with (last (y :: r) d'). apply IH. Qed.

(* the stages follow the variants: stage k converts variant k to variant k+1 with the generator's lists *)
Fixpoint stages_follow (vs : list (list nat)) (stages : list ustage) : Prop :=
  match vs, stages with
  | [_], [] => True
  | P :: ((Q :: _) as rest), u :: us =>
      let s := u_s u in
      s_Q s = Q /\
      minus_plus (length (sort_ids P) + length (sort_ids Q)) (sort_ids P) (sort_ids Q) = (s_minus s, s_plus s) /\
      Forall (fun o => In (lop_field o) Q) (s_ops s) /\
      (u_uninit u = true -> forall i, In i (s_plus s) -> un ds i = true -> dr ds TI i = false) /\
      stages_follow rest us
  | _, _ => False
  end.

Lemma follow_ok : forall vs stages, (forall v, In v vs -> In v (b_vs b)) ->
  stages_follow vs stages ->
  match vs with P :: _ => uchain_ok_ex ds TI A cap P stages /\ ulast_data P stages = last vs P | [] => True end.
Proof.
  induction vs as [|P rest IH]; intros stages Hin Hf; [exact I|].
  destruct rest as [|Q rest'].
  - destruct stages; [|destruct Hf]. split; [exact I|reflexivity].
  - destruct stages as [|u us]; [destruct Hf|]. destruct Hf as (EQ & Hmp & HF & Hpl & Hr).
    assert (HinQ : forall v, In v (Q :: rest') -> In v (b_vs b)) by (intros v Hv; apply Hin; now right).
    specialize (IH us HinQ Hr). cbn iota in IH. destruct IH as [Hok Hlast].
    assert (LQ : layout_ok ds TI A cap Q).
    { apply (layout_ok_of_run_zst h HOK HP2 TI TI_ok cap CAP); [apply HinQ; now left|]. apply NOTWINS. apply HinQ. now left. }
    destruct (minus_plus_spec _ _ _ _ _ Hmp (le_n _)) as (car & Q1 & Q2).
    split.
    + cbn [uchain_ok_ex]. rewrite EQ. split; [exact LQ|]. split.
      * exists car. split; [rewrite <- Q1|rewrite <- Q2]; symmetry; apply sort_ids_perm.
      * split; [exact HF|]. split; [exact Hpl|exact Hok].
    + unfold ulast_data in *. cbn [map last_data fold_left]. rewrite EQ.
      change (fold_left (fun _ s0 => s_Q s0) (map u_s us) Q) with (last_data Q (map u_s us)). rewrite Hlast.
      change (last (P :: Q :: rest') P) with (last (Q :: rest') P). apply last_default.
Qed.

(* from the constructor to the destructor, over ALL the variants of the definition *)
Variable rt : runtime.
Hypothesis RT : rt_ok rt = true.

Lemma last_in {X} : forall (l : list X) (x : X), In (last (x :: l) x) (x :: l).
Proof.
  induction l as [|y r IH]; intros x; [left; reflexivity|].
  change (last (x :: y :: r) x) with (last (y :: r) x). right. rewrite (last_default r y x y). apply IH.
Qed.

Theorem life_from_history : forall P0 rest stages vals v0 v,
  b_vs b = P0 :: rest -> stages_follow (b_vs b) stages ->
  exists r bf d back dropped,
    op_new ds TI rt A cap v0 P0 vals = Ok (ORecord r, []) /\
    uchain_run ds TI rt A cap r stages = Ok (bf, d, back) /\
    op_drop ds TI rt A cap v (last (b_vs b) P0) bf = Ok (ONone, dropped) /\
    Permutation (d ++ dropped ++ back) (map vals (filter (dr ds TI) P0) ++ uentered ds TI stages).
Proof.
  intros P0 rest stages vals v0 v Evs Hf.
  pose proof (follow_ok (b_vs b) stages (fun v Hv => Hv) Hf) as Hk. rewrite Evs in Hk. destruct Hk as [Hok Hlast].
  assert (HinP : In P0 (b_vs b)) by (rewrite Evs; now left).
  assert (LP : layout_ok ds TI A cap P0).
  { apply (layout_ok_of_run_zst h HOK HP2 TI TI_ok cap CAP); [exact HinP|]. apply NOTWINS. exact HinP. }
  assert (HinL : In (last (P0 :: rest) P0) (b_vs b)) by (rewrite Evs; apply last_in).
  assert (LL : layout_ok ds TI A cap (ulast_data P0 stages)).
  { rewrite Hlast. apply (layout_ok_of_run_zst h HOK HP2 TI TI_ok cap CAP); [exact HinL|]. apply NOTWINS. exact HinL. }
  destruct (new_holds ds TI rt A cap RT P0 LP v0 vals) as (r & E & H).
  destruct (uchain_then_drop_ex ds TI rt A cap RT stages P0 vals r v LP Hok H LL) as (bf & d & back & dropped & E1 & E2 & Pm).
  exists r, bf, d, back, dropped. rewrite Evs, <- Hlast. auto.
Qed.
End LinkChain.
