From Coq Require Import List NArith Lia Bool Arith.
From Truc.Model Require Import Layout.
From Truc.Proofs Require Import ArithP Sorted.
Import ListNotations.
Open Scope N_scope.

(* ---------- basic ---------- *)
Lemma skipn_two (l : list id) : forall dc c j,
  nth_error l dc = Some c -> nth_error l (S dc) = Some j -> exists r, skipn dc l = c :: j :: r.
Proof.
  induction l as [|x r IH]; intros [|dc] c j Hc Hj; simpl in *; try discriminate.
  - inversion Hc; subst. destruct r; simpl in Hj; try discriminate. inversion Hj; subst. eauto.
  - eapply IH; eauto.
Qed.

Section Basic.
Variables (ds : defs) (data : list id) (sz a : N).
Hypothesis Ha : 1 <= a.
Hypothesis Hsorted : sorted_from ds 0 data.

Definition winv (dc : nat) (bc : N) : Prop :=
  (dc <= length data)%nat /\ last_end ds 0 (firstn dc data) <= bc /\
  (forall j, nth_error data dc = Some j -> bc <= off ds j).

Definition wpost (r : nat * N) : Prop :=
  let '(dc, bc) := r in
  (dc <= length data)%nat /\ last_end ds 0 (firstn dc data) <= align_bytes bc a /\
  (forall j, nth_error data dc = Some j -> align_bytes bc a + sz <= off ds j).

Lemma firstn_S_nth (l : list id) k j : nth_error l k = Some j -> firstn (S k) l = firstn k l ++ [j].
Proof.
  revert k; induction l as [|x r IH]; intros [|k] H; simpl in *; try discriminate.
  - now inversion H.
  - f_equal. now apply IH.
Qed.

Lemma sorted_next dc c j :
  nth_error data dc = Some c -> nth_error data (S dc) = Some j -> dend ds c <= off ds j.
Proof.
  intros Hc Hj.
  pose proof Hsorted as Hs. rewrite <- (firstn_skipn dc data) in Hs.
  apply sorted_from_app in Hs. destruct Hs as [_ Hs].
  assert (E : exists r, skipn dc data = c :: j :: r) by (eapply skipn_two; eauto).
  destruct E as [r E]. rewrite E in Hs. simpl in Hs. tauto.
Qed.

Lemma basic_walk_post fuel : forall dc bc,
  (length data - dc < fuel)%nat -> winv dc bc -> wpost (basic_walk fuel data ds sz a dc bc).
Proof.
  induction fuel as [|f IH]; intros dc bc Hf (Hdc & Hlo & Hhi); [lia|].
  simpl. destruct (nth_error data dc) as [c|] eqn:Ec.
  - assert (Hlt : (dc < length data)%nat) by (apply nth_error_Some; congruence).
    specialize (Hhi _ eq_refl).
    assert (Hfirst : firstn (S dc) data = firstn dc data ++ [c]) by now apply firstn_S_nth.
    destruct (off ds c =? bc) eqn:Eo.
    + apply N.eqb_eq in Eo. apply IH; [lia|]. split; [lia|]. split.
      * rewrite Hfirst, last_end_app. simpl. unfold dend. rewrite Eo. lia.
      * intros j Hj. pose proof (sorted_next _ _ _ Ec Hj) as Hn. unfold dend in Hn. lia.
    + destruct (align_bytes bc a + sz <=? off ds c) eqn:Ef.
      * apply N.leb_le in Ef. simpl. split; [lia|]. split.
        -- pose proof (align_bytes_ge bc a Ha).
           rewrite align_bytes_idem; [lia|auto|apply align_bytes_mod; auto].
        -- intros j Hj. rewrite Ec in Hj. inversion Hj; subst.
           rewrite align_bytes_idem; [auto|auto|apply align_bytes_mod; auto].
      * apply IH; [lia|]. split; [lia|]. split.
        -- rewrite Hfirst, last_end_app. simpl. lia.
        -- intros j Hj. exact (sorted_next _ _ _ Ec Hj).
  - simpl. apply nth_error_None in Ec. split; [lia|]. split.
    + pose proof (align_bytes_ge bc a Ha). lia.
    + intros j Hj. assert (nth_error data dc <> None) by congruence. apply nth_error_Some in H. lia.
Qed.
End Basic.

Definition binv (st : bstate) : Prop :=
  sorted_from (b_defs st) 0 (b_data st) /\ winv (b_defs st) (b_data st) (b_dc st) (b_bc st).

Lemma firstn_insert_at (l : list id) k x : (k <= length l)%nat -> firstn k (insert_at l k x) = firstn k l.
Proof.
  intros H. unfold insert_at. rewrite firstn_app. rewrite firstn_length, Nat.min_l by auto.
  rewrite Nat.sub_diag. simpl. rewrite app_nil_r. apply firstn_all2. rewrite firstn_length. lia.
Qed.
Lemma nth_insert_at (l : list id) k x : (k <= length l)%nat -> nth_error (insert_at l k x) k = Some x.
Proof.
  intros H. unfold insert_at. rewrite nth_error_app2; rewrite firstn_length, Nat.min_l by auto; auto.
  now rewrite Nat.sub_diag.
Qed.

Lemma basic_step_inv st i :
  binv st -> ~ In i (b_data st) -> (i < length (b_defs st))%nat -> 1 <= al (b_defs st) i ->
  binv (basic_step st i) /\ off (b_defs (basic_step st i)) i mod al (b_defs st) i = 0.
Proof.
  intros [Hs Hw] Hn Hi Ha. unfold basic_step.
  pose proof (basic_walk_post (b_defs st) (b_data st) (size (b_defs st) i) (al (b_defs st) i) Ha Hs
                (S (length (b_data st))) (b_dc st) (b_bc st)) as Hp.
  destruct (basic_walk _ _ _ _ _ _ _) as [dc' bc'].
  specialize (Hp ltac:(lia) Hw). destruct Hp as (Hdc & Hlo & Hhi). simpl.
  set (o := align_bytes bc' (al (b_defs st) i)) in *.
  split; [split|]; simpl.
  - apply sorted_insert; auto.
  - split; [|split].
    + unfold insert_at. rewrite app_length. simpl. rewrite firstn_length, skipn_length. lia.
    + rewrite firstn_insert_at by auto. rewrite last_end_set_other; auto.
      intro Hin. apply Hn. eapply In_firstn; eauto.
    + intros j Hj. rewrite nth_insert_at in Hj by auto. inversion Hj; subst.
      rewrite off_set_same by auto. lia.
  - rewrite off_set_same by auto. apply align_bytes_mod; auto.
Qed.
