(* The generated Serialize / Deserialize on the abstract machine: serialising reads every field of the record through
   its accessor, in declaration order, and encodes it (Serde.ser); deserialising decodes one element per field
   (Serde.de) and builds the record with the generated constructor.  Round trip: an equal record. *)
From Coq Require Import List NArith Lia Bool Arith Permutation.
From Truc.Model Require Import Layout Builder Ir Gen Exec Ops Serde.
From Truc.Proofs Require Import ExecP Holds Life.
Import ListNotations.

Section SerdeRecords.
Variable ds : defs.
Variable TI : nat -> tinfo.
Variable rt : runtime.
Variables (A cap : N).
Hypothesis RT : rt_ok rt = true.
Variable data : list nat.
Hypothesis L : layout_ok ds TI A cap data.
Variable elem : Type.
Variables (enc : nat -> nat -> elem) (dec : nat -> elem -> option nat).
Hypothesis dec_enc : forall t x, dec t (enc t x) = Some x.

(* serialize(&self): one accessor call per field, in order; a field without a readable value is a fault *)
Fixpoint ser_record (l : list nat) (r : buf) : res (list elem) :=
  match l with
  | [] => Ok []
  | i :: rest =>
      match op_get ds TI rt r i false with
      | Ok (Some x) => match ser_record rest r with Ok es => Ok (enc (ty ds i) x :: es) | Fault e => Fault e end
      | Ok None => Fault NotOwned
      | Fault e => Fault e
      end
  end.

Fixpoint lookup_val (i : nat) (l : list (nat * nat)) : nat :=
  match l with [] => 0%nat | (j, x) :: r => if Nat.eqb j i then x else lookup_val i r end.

(* deserialize: None = the format's error (wrong length, undecodable element); otherwise the constructor *)
Definition de_record (v : nat) (input : list elem) : option (res (outcome * list nat)) :=
  match de elem dec (map (fun i => (i, ty ds i)) data) input with
  | None => None
  | Some l => Some (op_new ds TI rt A cap v data (fun i => lookup_val i l))
  end.

Lemma ser_record_holds vals r : holds ds TI cap A data vals r -> forall l, (forall i, In i l -> In i data) ->
  ser_record l r = Ok (ser elem enc (map (fun i => (i, ty ds i)) l) vals).
Proof.
  intros H. induction l as [|i rest IH]; intros Hin; [reflexivity|].
  cbn [ser_record]. rewrite (get_holds ds TI rt A cap RT data L vals r i false H (Hin i (or_introl eq_refl))).
  rewrite IH by (intros j Hj; apply Hin; now right). reflexivity.
Qed.

Lemma lookup_val_map vals : forall l i, In i l -> lookup_val i (map (fun f => (fst f, vals (fst f))) (map (fun i => (i, ty ds i)) l)) = vals i.
Proof.
  induction l as [|j r IH]; intros i Hi; [destruct Hi|]. cbn [map fst lookup_val].
  destruct (Nat.eqb j i) eqn:E; [apply Nat.eqb_eq in E; now subst|].
  destruct Hi as [->|Hi]; [rewrite Nat.eqb_refl in E; discriminate|]. apply IH. exact Hi.
Qed.

Theorem record_roundtrip : forall v vals r, holds ds TI cap A data vals r ->
  exists es r',
    ser_record data r = Ok es /\ length es = length data /\
    de_record v es = Some (Ok (ORecord r', [])) /\ holds ds TI cap A data vals r'.
Proof.
  intros v vals r H.
  pose proof (ser_record_holds vals r H data (fun i Hi => Hi)) as Es.
  set (fields := map (fun i => (i, ty ds i)) data) in *.
  exists (ser elem enc fields vals).
  destruct (new_holds ds TI rt A cap RT data L v (fun i => lookup_val i (map (fun f => (fst f, vals (fst f))) fields)))
    as (r' & En & Hn).
  exists r'. split; [exact Es|]. split; [unfold ser, fields; now rewrite !map_length|]. split.
  - unfold de_record. fold fields.
    assert (Ed : de elem dec fields (ser elem enc fields vals) = Some (map (fun f => (fst f, vals (fst f))) fields)).
    { unfold de, ser. rewrite map_length, Nat.eqb_refl. clear -dec_enc. induction fields as [|f q IH]; simpl; auto.
      rewrite dec_enc, IH. reflexivity. }
    rewrite Ed, En. reflexivity.
  - refine (holds_ext ds TI A cap data _ vals r' _ Hn).
    intros i Hi. unfold fields. apply lookup_val_map. exact Hi.
Qed.

(* a wrong number of elements never reaches the constructor *)
Theorem record_de_wrong_length : forall v input, length input <> length data -> de_record v input = None.
Proof.
  intros v input Hl. unfold de_record, de. rewrite map_length.
  apply Nat.eqb_neq in Hl. now rewrite Hl.
Qed.
End SerdeRecords.
