(* C05 / C06 across variants: a record carried through any number of conversions, with any reads and writes
   in between, accounts for every droppable value exactly once. *)
From Coq Require Import List NArith Arith Permutation Bool Lia.
From Truc.Model Require Import Layout Builder Ir Gen Exec Ops.
From Truc.Proofs Require Import ExecP Holds Life.
Import ListNotations.

Lemma Permutation_filter_c {A} (f : A -> bool) l l' : Permutation l l' -> Permutation (filter f l) (filter f l').
Proof.
  induction 1 as [|x l l' P IH|x y l|l l' l'' P1 IH1 P2 IH2]; simpl; auto.
  - destruct (f x); auto.
  - destruct (f x), (f y); auto. apply perm_swap.
  - eapply Permutation_trans; eauto.
Qed.

Lemma perm_map_filter_app {A B} (g : A -> B) (p : A -> bool) l a b :
  Permutation l (a ++ b) -> Permutation (map g (filter p l)) (map g (filter p a) ++ map g (filter p b)).
Proof.
  intros H. rewrite <- map_app, <- filter_app. apply Permutation_map. now apply Permutation_filter_c.
Qed.

Lemma NoDup_app_disj {A} (l l' : list A) x : NoDup (l ++ l') -> In x l -> In x l' -> False.
Proof.
  induction l as [|y r IH]; simpl; intros Hn Hl Hl'; [tauto|]. inversion Hn as [|? ? Hy Hn']; subst.
  destruct Hl as [->|Hl]; [apply Hy; apply in_or_app; auto|eauto].
Qed.

Section Conv.
Variable ds : defs.
Variable TI : nat -> tinfo.
Variable rt : runtime.
Variables (A cap : N).
Hypothesis RT : rt_ok rt = true.

(* the values of the next variant: the supplied ones for the added fields, the old ones for the rest *)
Definition merge (vals pvals : nat -> nat) (plus : list nat) : nat -> nat :=
  fun i => if mem i plus then pvals i else vals i.

Lemma mem_true i l : mem i l = true <-> In i l.
Proof.
  unfold mem. rewrite existsb_exists. split.
  - intros (x & Hx & E). apply Nat.eqb_eq in E. now subst.
  - intros H. exists i. split; auto. apply Nat.eqb_refl.
Qed.

(* the complete forms of the conversion (all added fields supplied) map "holds P" to "holds Q" *)
Lemma conv_holds_full P Q minus plus carried :
  layout_ok ds TI A cap P -> layout_ok ds TI A cap Q ->
  Permutation P (minus ++ carried) -> Permutation Q (plus ++ carried) ->
  forall v prev and_out vals pvals b, holds ds TI cap A P vals b ->
  exists b',
    op_conv ds TI rt A cap v prev minus plus false and_out b pvals =
      Ok (if and_out then OAndOut b' (map (fun i => (nm ds i, Some (vals i))) minus) else ORecord b',
          if and_out then [] else droppable_of TI (rev (map (fun i => (nm ds i, (Some (vals i), ty ds i))) minus))) /\
    holds ds TI cap A Q (merge vals pvals plus) b'.
Proof.
  intros LP LQ PP PQ v prev and_out vals pvals b H.
  destruct (conv_holds ds TI rt A cap RT P Q minus plus carried LP LQ PP PQ v prev false and_out vals pvals b H)
    as (b' & E & Ha & Hc & Hw & Ho).
  exists b'. split; [exact E|]. constructor; auto.
  eapply Permutation_trans; [exact Ho|].
  assert (Hw' : written ds plus false = plus).
  { unfold written. generalize plus. intros l. induction l as [|x r IH]; [reflexivity|]. simpl in *. congruence. }
  rewrite Hw'.
  assert (Hnd : NoDup (plus ++ carried)) by (eapply Permutation_NoDup; [exact PQ|apply (lo_nd _ _ _ _ _ LQ)]).
  eapply Permutation_trans; [|apply Permutation_map; symmetry; exact PQ]. rewrite map_app.
  apply Permutation_app.
  - replace (map (entry_of ds (merge vals pvals plus)) plus) with (map (entry_of ds pvals) plus); auto.
    apply map_ext_in. intros i Hi. unfold entry_of, merge. now rewrite (proj2 (mem_true i plus) Hi).
  - replace (map (entry_of ds (merge vals pvals plus)) carried) with (map (entry_of ds vals) carried); auto.
    apply map_ext_in. intros i Hi. unfold entry_of, merge. destruct (mem i plus) eqn:E'; auto.
    apply mem_true in E'. exfalso. exact (NoDup_app_disj plus carried i Hnd E' Hi).
Qed.
End Conv.

(* ---------------------------------------------------------------- a record carried through several variants *)

Section Chain.
Variable ds : defs.
Variable TI : nat -> tinfo.
Variable rt : runtime.
Variables (A cap : N).
Hypothesis RT : rt_ok rt = true.

(* one step of the record's life: the conversion to the next variant (complete form, removed data handed
   back or not), then any reads and writes on the new variant *)
Record stage := mkStage {
  s_Q : list nat; s_minus : list nat; s_plus : list nat; s_carried : list nat;
  s_andout : bool; s_pvals : nat -> nat; s_ops : list lop; s_v : nat; s_prev : nat }.

Fixpoint chain_ok (P : list nat) (stages : list stage) : Prop :=
  match stages with
  | [] => True
  | s :: rest =>
      layout_ok ds TI A cap (s_Q s) /\ Permutation P (s_minus s ++ s_carried s) /\
      Permutation (s_Q s) (s_plus s ++ s_carried s) /\
      Forall (fun o => In (lop_field o) (s_Q s)) (s_ops s) /\ chain_ok (s_Q s) rest
  end.

(* the droppable values among the fields a conversion hands back *)
Definition back_tokens (minus : list nat) (back : list (nat * option nat)) : list nat :=
  flat_map (fun p => match snd (snd p) with Some x => if dr ds TI (fst p) then [x] else [] | None => [] end)
           (combine minus back).

(* runs the stages; collects what was destroyed and what was handed back *)
Fixpoint chain_run (b : buf) (stages : list stage) : res (buf * list nat * list nat) :=
  match stages with
  | [] => Ok (b, [], [])
  | s :: rest =>
      match op_conv ds TI rt A cap (s_v s) (s_prev s) (s_minus s) (s_plus s) false (s_andout s) b (s_pvals s) with
      | Fault e => Fault e
      | Ok (out, d0) =>
          match (match out with
                 | ORecord b' => Some (b', [])
                 | OAndOut b' back => Some (b', back_tokens (s_minus s) back)
                 | _ => None
                 end) with
          | None => Fault (Static 0)
          | Some (b', r0) =>
              match life ds TI rt b' (s_ops s) with
              | Fault e => Fault e
              | Ok (b'', d1) =>
                  match chain_run b'' rest with
                  | Fault e => Fault e
                  | Ok (bf, d2, r2) => Ok (bf, d0 ++ d1 ++ d2, r0 ++ r2)
                  end
              end
          end
      end
  end.

Definition entered (stages : list stage) : list nat :=
  flat_map (fun s => map (s_pvals s) (filter (dr ds TI) (s_plus s)) ++ written_in ds TI (s_ops s)) stages.
Definition last_data (P : list nat) (stages : list stage) : list nat := fold_left (fun _ s => s_Q s) stages P.

Lemma back_tokens_spec (vals : nat -> nat) minus :
  back_tokens minus (map (fun i => (nm ds i, Some (vals i))) minus) = map vals (filter (dr ds TI) minus).
Proof.
  unfold back_tokens. induction minus as [|i r IH]; simpl; auto.
  destruct (dr ds TI i); simpl; now rewrite IH.
Qed.

Ltac cnt x H := let H' := fresh "C" in pose proof (proj1 (Permutation_count_occ Nat.eq_dec _ _) H x) as H'; rewrite ?count_occ_app in H'.

Theorem chain_accounts : forall stages P vals b,
  layout_ok ds TI A cap P -> chain_ok P stages -> holds ds TI cap A P vals b ->
  exists bf valsf d r, chain_run b stages = Ok (bf, d, r) /\
    holds ds TI cap A (last_data P stages) valsf bf /\
    Permutation (d ++ r ++ map valsf (filter (dr ds TI) (last_data P stages)))
                (map vals (filter (dr ds TI) P) ++ entered stages).
Proof.
  induction stages as [|s rest IH]; intros P vals b LP Hc H.
  - exists b, vals, [], []. simpl. rewrite app_nil_r. auto.
  - destruct Hc as (LQ & PP & PQ & HF & Hc).
    destruct (conv_holds_full ds TI rt A cap RT P (s_Q s) (s_minus s) (s_plus s) (s_carried s) LP LQ PP PQ
                (s_v s) (s_prev s) (s_andout s) vals (s_pvals s) b H) as (b1 & E1 & H1).
    set (vals1 := merge vals (s_pvals s) (s_plus s)) in *.
    destruct (life_accounts ds TI rt A cap RT (s_Q s) LQ (s_ops s) vals1 b1 H1 HF) as (b2 & vals2 & d1 & E2 & H2 & P2).
    destruct (IH (s_Q s) vals2 b2 LQ Hc H2) as (bf & valsf & d2 & r2 & E3 & H3 & P3).
    cbn [chain_run]. rewrite E1.
    (* what the conversion destroyed (d0) and handed back (r0): the droppable removed values *)
    set (d0 := if s_andout s then [] else droppable_of TI (rev (map (fun i => (nm ds i, (Some (vals i), ty ds i))) (s_minus s)))).
    set (r0 := if s_andout s then back_tokens (s_minus s) (map (fun i => (nm ds i, Some (vals i))) (s_minus s)) else []).
    assert (F1 : Permutation (d0 ++ r0) (map vals (filter (dr ds TI) (s_minus s)))).
    { unfold d0, r0. destruct (s_andout s); simpl.
      - rewrite back_tokens_spec. apply Permutation_refl.
      - rewrite app_nil_r. apply droppable_tokens. }
    exists bf, valsf, (d0 ++ d1 ++ d2), (r0 ++ r2).
    split; [|split].
    + unfold d0, r0. destruct (s_andout s); cbn [life]; rewrite E2, E3; reflexivity.
    + simpl. exact H3.
    + assert (F2 : Permutation (map vals1 (filter (dr ds TI) (s_Q s)))
                               (map (s_pvals s) (filter (dr ds TI) (s_plus s)) ++ map vals (filter (dr ds TI) (s_carried s)))).
      { eapply Permutation_trans; [apply perm_map_filter_app; exact PQ|].
        assert (Hnd : NoDup (s_plus s ++ s_carried s)) by (eapply Permutation_NoDup; [exact PQ|apply (lo_nd _ _ _ _ _ LQ)]).
        apply Permutation_app.
        - replace (map vals1 (filter (dr ds TI) (s_plus s))) with (map (s_pvals s) (filter (dr ds TI) (s_plus s))); auto.
          apply map_ext_in. intros i Hi. apply filter_In in Hi. unfold vals1, merge.
          now rewrite (proj2 (mem_true i (s_plus s)) (proj1 Hi)).
        - replace (map vals1 (filter (dr ds TI) (s_carried s))) with (map vals (filter (dr ds TI) (s_carried s))); auto.
          apply map_ext_in. intros i Hi. apply filter_In in Hi. unfold vals1, merge.
          destruct (mem i (s_plus s)) eqn:E'; auto. apply mem_true in E'. exfalso.
          exact (NoDup_app_disj _ _ i Hnd E' (proj1 Hi)). }
      assert (F3 : Permutation (map vals (filter (dr ds TI) P))
                               (map vals (filter (dr ds TI) (s_minus s)) ++ map vals (filter (dr ds TI) (s_carried s))))
        by (apply perm_map_filter_app; exact PP).
      simpl last_data. cbn [entered flat_map]. fold (entered rest).
      apply (proj2 (Permutation_count_occ Nat.eq_dec _ _)). intros x.
      cnt x F1. cnt x F2. cnt x F3. cnt x P2. cnt x P3.
      rewrite !count_occ_app. lia.
Qed.

(* ... ended by the generated Drop of the last variant: every droppable value that ever entered - at creation,
   through a write, or as an added field of a conversion - was destroyed exactly once or handed back exactly once *)
Theorem chain_then_drop : forall stages P vals b v,
  layout_ok ds TI A cap P -> chain_ok P stages -> holds ds TI cap A P vals b ->
  layout_ok ds TI A cap (last_data P stages) ->
  exists bf d r dropped, chain_run b stages = Ok (bf, d, r) /\
    op_drop ds TI rt A cap v (last_data P stages) bf = Ok (ONone, dropped) /\
    Permutation (d ++ dropped ++ r) (map vals (filter (dr ds TI) P) ++ entered stages).
Proof.
  intros stages P vals b v LP Hc H LL.
  destruct (chain_accounts stages P vals b LP Hc H) as (bf & valsf & d & r & E & Hf & Pm).
  exists bf, d, r, (droppable_of TI (rev (map (fun i => (nm ds i, (Some (valsf i), ty ds i))) (last_data P stages)))).
  split; [exact E|]. split; [apply (drop_holds ds TI rt A cap _ LL v valsf bf Hf)|].
  pose proof (droppable_tokens ds TI valsf (last_data P stages)) as Pd.
  apply (proj2 (Permutation_count_occ Nat.eq_dec _ _)). intros x.
  cnt x Pm. cnt x Pd. rewrite !count_occ_app. lia.
Qed.
End Chain.

(* ---------------------------------------------------------------- the uninit forms of a conversion, then the writes *)
From Truc.Proofs Require Import Fill.

Section ConvUninit.
Variable ds : defs.
Variable TI : nat -> tinfo.
Variable rt : runtime.
Variables (A cap : N).
Hypothesis RT : rt_ok rt = true.

(* the uninit forms: only the mandatory added fields are supplied; the result holds those and the carried-over fields *)
Lemma conv_holds_uninit P Q minus plus carried :
  layout_ok ds TI A cap P -> layout_ok ds TI A cap Q ->
  Permutation P (minus ++ carried) -> Permutation Q (plus ++ carried) ->
  forall v prev and_out vals pvals b, holds ds TI cap A P vals b ->
  exists b',
    op_conv ds TI rt A cap v prev minus plus true and_out b pvals =
      Ok (if and_out then OAndOut b' (map (fun i => (nm ds i, Some (vals i))) minus) else ORecord b',
          if and_out then [] else droppable_of TI (rev (map (fun i => (nm ds i, (Some (vals i), ty ds i))) minus))) /\
    holds ds TI cap A (filter (fun i => negb (un ds i)) plus ++ carried) (merge vals pvals plus) b'.
Proof.
  intros LP LQ PP PQ v prev and_out vals pvals b H.
  destruct (conv_holds ds TI rt A cap RT P Q minus plus carried LP LQ PP PQ v prev true and_out vals pvals b H)
    as (b' & E & Ha & Hc & Hw & Ho).
  exists b'. split; [exact E|]. constructor; auto.
  eapply Permutation_trans; [exact Ho|].
  assert (Hw' : written ds plus true = filter (fun i => negb (un ds i)) plus) by reflexivity.
  rewrite Hw'.
  assert (Hnd : NoDup (plus ++ carried)) by (eapply Permutation_NoDup; [exact PQ|apply (lo_nd _ _ _ _ _ LQ)]).
  rewrite map_app. apply Permutation_app.
  - replace (map (entry_of ds (merge vals pvals plus)) (filter (fun i => negb (un ds i)) plus))
      with (map (entry_of ds pvals) (filter (fun i => negb (un ds i)) plus)); auto.
    apply map_ext_in. intros i Hi. apply filter_In in Hi. unfold entry_of, merge. now rewrite (proj2 (mem_true i plus) (proj1 Hi)).
  - replace (map (entry_of ds (merge vals pvals plus)) carried) with (map (entry_of ds vals) carried); auto.
    apply map_ext_in. intros i Hi. unfold entry_of, merge. destruct (mem i plus) eqn:E'; auto.
    apply mem_true in E'. exfalso. exact (NoDup_app_disj plus carried i Hnd E' Hi).
Qed.

(* ... and once every added field that was left uninitialised has been written, the record holds the whole next variant *)
Theorem conv_uninit_then_fill P Q minus plus carried :
  layout_ok ds TI A cap P -> layout_ok ds TI A cap Q ->
  Permutation P (minus ++ carried) -> Permutation Q (plus ++ carried) ->
  (forall i, In i plus -> un ds i = true -> dr ds TI i = false) ->
  forall v prev and_out vals pvals f b, holds ds TI cap A P vals b ->
  exists b' b'' vals',
    op_conv ds TI rt A cap v prev minus plus true and_out b pvals =
      Ok (if and_out then OAndOut b' (map (fun i => (nm ds i, Some (vals i))) minus) else ORecord b',
          if and_out then [] else droppable_of TI (rev (map (fun i => (nm ds i, (Some (vals i), ty ds i))) minus))) /\
    life ds TI rt b' (assign_all f (filter (un ds) plus)) = Ok (b'', []) /\
    holds ds TI cap A Q vals' b'' /\
    (forall i, In i Q -> vals' i = if mem i plus then (if un ds i then f i else pvals i) else vals i).
Proof.
  intros LP LQ PP PQ Hplain v prev and_out vals pvals f b H.
  destruct (conv_holds_uninit P Q minus plus carried LP LQ PP PQ v prev and_out vals pvals b H) as (b' & E & H').
  assert (Hnd : NoDup (plus ++ carried)) by (eapply Permutation_NoDup; [exact PQ|apply (lo_nd _ _ _ _ _ LQ)]).
  assert (HinQ : forall i, In i (plus ++ carried) -> In i Q) by (intros i Hi; eapply Permutation_in; [symmetry; exact PQ|exact Hi]).
  assert (Hpnd : NoDup plus) by (apply NoDup_app_l in Hnd; exact Hnd).
  destruct (fill_holds ds TI rt A cap RT Q LQ (filter (un ds) plus) (filter (fun i => negb (un ds i)) plus ++ carried)
              (merge vals pvals plus) b' f H') as (b'' & vals' & E2 & H2 & Hf & Ho).
  - intros j Hj. apply HinQ. apply in_app_or in Hj. destruct Hj as [Hj|Hj]; apply in_or_app; [left; apply filter_In in Hj; tauto|now right].
  - clear -Hpnd. induction Hpnd as [|x l Hx Hn IH]; simpl; [constructor|]. destruct (un ds x); auto. constructor; auto.
    rewrite filter_In. tauto.
  - intros i Hi. apply filter_In in Hi. destruct Hi as [Hi Hu]. split; [apply HinQ, in_or_app; now left|].
    split; [|apply Hplain; auto]. intro Hq. apply in_app_or in Hq. destruct Hq as [Hq|Hq].
    + apply filter_In in Hq. rewrite Hu in Hq. destruct Hq as [_ Hq]. discriminate.
    + exact (NoDup_app_disj plus carried i Hnd Hi Hq).
  - exists b', b'', vals'. split; [exact E|]. split; [exact E2|]. split.
    + apply (holds_perm ds TI A cap (rev (filter (un ds) plus) ++ filter (fun i => negb (un ds i)) plus ++ carried) Q vals' b''); [|exact H2].
      rewrite app_assoc. eapply Permutation_trans; [apply Permutation_app_tail; apply split_un_perm|]. symmetry. exact PQ.
    + intros i Hi. destruct (mem i plus) eqn:Em.
      * apply mem_true in Em. destruct (un ds i) eqn:Eu.
        -- apply Hf. apply filter_In. auto.
        -- rewrite Ho by (rewrite filter_In, Eu; intros [_ Hq]; discriminate). unfold merge.
           now rewrite (proj2 (mem_true i plus) Em).
      * rewrite Ho. { unfold merge. now rewrite Em. }
        rewrite filter_In. intros [Hq _]. apply mem_true in Hq. congruence.
Qed.
End ConvUninit.
