(* C18: the layout is a function of the (name, size, alignment) of the requests only:
   type names and may-be-uninitialised flags can be erased without changing any list or offset. *)
From Coq Require Import List NArith Lia Bool Arith.
From Truc.Model Require Import Layout Builder.
Import ListNotations.
Open Scope N_scope.

Definition erase (d : datum) : datum := mkDatum (d_name d) 0 (d_size d) (d_align d) false (d_off d).
Definition erase_ds (ds : defs) : defs := map erase ds.
Definition erase_req (r : req) : req :=
  match r with Add nm _ sz a _ => Add nm 0 sz a false | _ => r end.
Definition erase_b (b : builder) : builder := mkBuilder (erase_ds (b_ds b)) (b_vs b) (b_add b) (b_rm b).

Lemma getd_erase ds i : getd (erase_ds ds) i = erase (getd ds i).
Proof. unfold getd, erase_ds. change dummy with (erase dummy) at 1. apply map_nth. Qed.
Lemma off_erase ds i : off (erase_ds ds) i = off ds i.
Proof. unfold off. now rewrite getd_erase. Qed.
Lemma size_erase ds i : size (erase_ds ds) i = size ds i.
Proof. unfold size. now rewrite getd_erase. Qed.
Lemma al_erase ds i : al (erase_ds ds) i = al ds i.
Proof. unfold al. now rewrite getd_erase. Qed.
Lemma dend_erase ds i : dend (erase_ds ds) i = dend ds i.
Proof. unfold dend. now rewrite off_erase, size_erase. Qed.
Lemma set_off_erase ds i o : set_off (erase_ds ds) i o = erase_ds (set_off ds i o).
Proof. revert i; induction ds as [|d r IH]; intros [|i]; simpl; auto. f_equal. apply IH. Qed.
Lemma length_erase ds : length (erase_ds ds) = length ds.
Proof. apply map_length. Qed.

Lemma last_end_erase ds : forall data lo, last_end (erase_ds ds) lo data = last_end ds lo data.
Proof. induction data as [|i r IH]; intros lo; simpl; auto. now rewrite dend_erase, IH. Qed.

Ltac er := rewrite ?off_erase, ?size_erase, ?al_erase, ?dend_erase, ?set_off_erase, ?last_end_erase, ?length_erase.

(* ---- append ---- *)
Lemma push_erase data ds i :
  push_datum data (erase_ds ds) i =
  let '(dt, ds', e, o) := push_datum data ds i in (dt, erase_ds ds', e, o).
Proof. unfold push_datum, end_of. er. reflexivity. Qed.

Lemma append_step_erase st i :
  append_step (fst st, erase_ds (snd st)) i = (fst (append_step st i), erase_ds (snd (append_step st i))).
Proof. unfold append_step, push_datum, end_of. simpl. er. reflexivity. Qed.

Lemma fold_append_erase add : forall data ds,
  fold_left append_step add (data, erase_ds ds) =
  (fst (fold_left append_step add (data, ds)), erase_ds (snd (fold_left append_step add (data, ds)))).
Proof.
  induction add as [|i r IH]; intros data ds; cbn [fold_left]; auto.
  change (data, erase_ds ds) with (fst (data, ds), erase_ds (snd (data, ds))).
  rewrite append_step_erase.
  destruct (append_step (data, ds) i) as [d' s']. cbn [fst snd]. apply IH.
Qed.

(* ---- basic ---- *)
Lemma basic_walk_erase fuel data ds sz a : forall dc bc,
  basic_walk fuel data (erase_ds ds) sz a dc bc = basic_walk fuel data ds sz a dc bc.
Proof.
  induction fuel as [|f IH]; intros dc bc; simpl; auto.
  destruct (nth_error data dc); auto. er. rewrite !IH. reflexivity.
Qed.

Definition erase_bs (st : bstate) := mkB (b_data st) (erase_ds (b_defs st)) (b_dc st) (b_bc st).
Lemma basic_step_erase st i : basic_step (erase_bs st) i = erase_bs (basic_step st i).
Proof.
  unfold basic_step, erase_bs. cbn [b_data b_defs b_dc b_bc]. er. rewrite basic_walk_erase.
  destruct (basic_walk _ _ _ _ _ _ _) as [dc bc]. cbn [b_data b_defs b_dc b_bc]. er. reflexivity.
Qed.
Lemma fold_basic_erase add : forall st,
  fold_left basic_step add (erase_bs st) = erase_bs (fold_left basic_step add st).
Proof. induction add as [|i r IH]; intros st; simpl; auto. rewrite basic_step_erase. apply IH. Qed.

(* ---- simple ---- *)
Lemma initial_gaps_erase z ds : forall data idx last,
  initial_gaps z data (erase_ds ds) idx last = initial_gaps z data ds idx last.
Proof.
  induction data as [|i r IH]; intros idx last; simpl; auto. er. rewrite !IH. reflexivity.
Qed.

Definition erase_ss (st : sstate) := mkS (s_data st) (erase_ds (s_defs st)) (s_gaps st).
Lemma simple_step_erase st i : simple_step (erase_ss st) i = erase_ss (simple_step st i).
Proof.
  unfold simple_step, erase_ss. cbn [s_data s_defs s_gaps]. er.
  destruct (choose _ _); cbn [s_data s_defs s_gaps].
  - er. reflexivity.
  - rewrite push_erase. unfold push_datum. reflexivity.
Qed.
Lemma fold_simple_erase add : forall st,
  fold_left simple_step add (erase_ss st) = erase_ss (fold_left simple_step add st).
Proof. induction add as [|i r IH]; intros st; simpl; auto. rewrite simple_step_erase. apply IH. Qed.

Lemma insert_by_size_erase ds i l : insert_by_size (erase_ds ds) i l = insert_by_size ds i l.
Proof. induction l as [|j r IH]; simpl; auto. er. now rewrite IH. Qed.
Lemma sort_erase ds l : sort_by_size_desc (erase_ds ds) l = sort_by_size_desc ds l.
Proof.
  unfold sort_by_size_desc. generalize (@nil nat). induction l as [|i r IH]; intros acc; simpl; auto.
  rewrite insert_by_size_erase. apply IH.
Qed.

(* ---- every strategy ---- *)
Lemma run_strat_erase s data add rm ds :
  run_strat s data add rm (erase_ds ds) =
  (fst (run_strat s data add rm ds), erase_ds (snd (run_strat s data add rm ds))).
Proof.
  destruct s; simpl.
  - unfold simple, simple_gen. rewrite sort_erase, initial_gaps_erase.
    change (mkS (remove_data data rm) (erase_ds ds) ?g) with (erase_ss (mkS (remove_data data rm) ds g)).
    rewrite fold_simple_erase. reflexivity.
  - unfold basic. change (mkB (remove_data data rm) (erase_ds ds) 0 0) with (erase_bs (mkB (remove_data data rm) ds 0 0)).
    rewrite fold_basic_erase. reflexivity.
  - unfold append_data. apply fold_append_erase.
  - unfold append_data_reverse, append_data. apply fold_append_erase.
  - unfold simple_unfixed, simple_gen. rewrite sort_erase, initial_gaps_erase.
    change (mkS (remove_data data rm) (erase_ds ds) ?g) with (erase_ss (mkS (remove_data data rm) ds g)).
    rewrite fold_simple_erase. reflexivity.
  - reflexivity.
  - reflexivity.
Qed.

(* ---- the request layer ---- *)
Lemma find_name_erase' ds nm l : find_name (erase_ds ds) nm l = find_name ds nm l.
Proof.
  unfold find_name. rewrite length_erase. induction l as [|x r IH]; simpl; auto.
  rewrite getd_erase. simpl. rewrite IH. reflexivity.
Qed.

Lemma step_erase b r :
  step (erase_b b) (erase_req r) = (erase_b (fst (step b r)), snd (step b r)).
Proof.
  destruct r as [nm ty sz a u|i|s|nm|v nm]; simpl.
  - unfold current_by_name, current_data, last_variant. simpl. rewrite find_name_erase'.
    destruct (find_name _ _ _); simpl; auto.
    unfold erase_b. simpl. unfold erase_ds. rewrite map_app, map_length. reflexivity.
  - unfold last_variant. simpl. destruct (b_vs b); simpl.
    + destruct (mem i (b_add b)); reflexivity.
    + destruct (mem i _); [destruct (mem i (b_rm b))|destruct (mem i (b_add b))]; reflexivity.
  - unfold has_pending_changes, last_variant. simpl.
    destruct (_ || _ || _); simpl; auto.
    rewrite run_strat_erase. destruct (run_strat _ _ _ _ _); reflexivity.
  - unfold current_by_name, current_data, last_variant. simpl. now rewrite find_name_erase'.
  - unfold variant_by_name. simpl. destruct (nth_error _ _); auto. now rewrite find_name_erase'.
Qed.

Lemma run_from_erase h : forall b,
  run_from (erase_b b) (map erase_req h) = erase_b (run_from b h) /\
  trace (erase_b b) (map erase_req h) = trace b h.
Proof.
  induction h as [|r h IH]; intros b; simpl; auto.
  rewrite step_erase. simpl. destruct (IH (fst (step b r))) as [E1 E2]. split; auto.
  destruct (step b r) as [b' x]. simpl in *. now rewrite E2.
Qed.

Theorem run_erase h :
  run (map erase_req h) = erase_b (run h) /\ trace empty_builder (map erase_req h) = trace empty_builder h.
Proof. apply (run_from_erase h empty_builder). Qed.

(* what erase keeps *)
Lemma erase_b_observe b :
  b_vs (erase_b b) = b_vs b /\ map d_off (b_ds (erase_b b)) = map d_off (b_ds b) /\
  map d_size (b_ds (erase_b b)) = map d_size (b_ds b) /\ map d_align (b_ds (erase_b b)) = map d_align (b_ds b).
Proof. unfold erase_b, erase_ds. simpl. rewrite !map_map. simpl. auto. Qed.
