(* The whole life of a record across variants where a conversion may also be one of the UNINIT forms:
   the added fields flagged `allow_uninit` are left out of the conversion's arguments and written afterwards
   through their mutable accessors (the generated code only allows this for plain data - the gate C11 - which
   is the hypothesis `plain` of a stage).  Generalises Chain.v: a stage with `u_uninit = false` is a stage of
   Chain.v. *)
From Coq Require Import List NArith Lia Permutation Arith.
From Truc.Model Require Import Layout Builder Ir Gen Exec Ops.
From Truc.Proofs Require Import ExecP Holds Life Fill Chain.
Import ListNotations.

Section ChainU.
Variable ds : defs.
Variable TI : nat -> tinfo.
Variable rt : runtime.
Variables (A cap : N).
Hypothesis RT : rt_ok rt = true.

Record ustage := mkUStage { u_s : stage; u_uninit : bool; u_fill : nat -> nat }.

(* the writes that complete an uninit conversion: one per added field left uninitialised *)
Definition fill_ops (u : ustage) : list lop :=
  if u_uninit u then assign_all (u_fill u) (filter (un ds) (s_plus (u_s u))) else [].

Fixpoint uchain_ok (P : list nat) (stages : list ustage) : Prop :=
  match stages with
  | [] => True
  | u :: rest =>
      let s := u_s u in
      layout_ok ds TI A cap (s_Q s) /\ Permutation P (s_minus s ++ s_carried s) /\
      Permutation (s_Q s) (s_plus s ++ s_carried s) /\
      Forall (fun o => In (lop_field o) (s_Q s)) (s_ops s) /\
      (u_uninit u = true -> forall i, In i (s_plus s) -> un ds i = true -> dr ds TI i = false) /\
      uchain_ok (s_Q s) rest
  end.

Fixpoint uchain_run (b : buf) (stages : list ustage) : res (buf * list nat * list nat) :=
  match stages with
  | [] => Ok (b, [], [])
  | u :: rest =>
      let s := u_s u in
      match op_conv ds TI rt A cap (s_v s) (s_prev s) (s_minus s) (s_plus s) (u_uninit u) (s_andout s) b (s_pvals s) with
      | Fault e => Fault e
      | Ok (out, d0) =>
          match (match out with
                 | ORecord b' => Some (b', [])
                 | OAndOut b' back => Some (b', back_tokens ds TI (s_minus s) back)
                 | _ => None
                 end) with
          | None => Fault (Static 0)
          | Some (b', r0) =>
              match life ds TI rt b' (fill_ops u) with
              | Fault e => Fault e
              | Ok (b1, df) =>
                  match life ds TI rt b1 (s_ops s) with
                  | Fault e => Fault e
                  | Ok (b'', d1) =>
                      match uchain_run b'' rest with
                      | Fault e => Fault e
                      | Ok (bf, d2, r2) => Ok (bf, d0 ++ df ++ d1 ++ d2, r0 ++ r2)
                      end
                  end
              end
          end
      end
  end.

Definition uentered (stages : list ustage) : list nat := entered ds TI (map u_s stages).
Definition ulast_data (P : list nat) (stages : list ustage) : list nat := last_data P (map u_s stages).

(* one conversion, complete or uninit-then-filled: the record holds the next variant; the value of each field
   is the supplied one (added, given), the written one (added, left uninitialised) or the old one (carried) *)
Lemma ustage_conv P u :
  let s := u_s u in
  layout_ok ds TI A cap P -> layout_ok ds TI A cap (s_Q s) ->
  Permutation P (s_minus s ++ s_carried s) -> Permutation (s_Q s) (s_plus s ++ s_carried s) ->
  (u_uninit u = true -> forall i, In i (s_plus s) -> un ds i = true -> dr ds TI i = false) ->
  forall vals b, holds ds TI cap A P vals b ->
  exists b' b1 vals1,
    op_conv ds TI rt A cap (s_v s) (s_prev s) (s_minus s) (s_plus s) (u_uninit u) (s_andout s) b (s_pvals s) =
      Ok (if s_andout s then OAndOut b' (map (fun i => (nm ds i, Some (vals i))) (s_minus s)) else ORecord b',
          if s_andout s then [] else droppable_of TI (rev (map (fun i => (nm ds i, (Some (vals i), ty ds i))) (s_minus s)))) /\
    life ds TI rt b' (fill_ops u) = Ok (b1, []) /\
    holds ds TI cap A (s_Q s) vals1 b1 /\
    (forall i, In i (s_Q s) ->
       vals1 i = if mem i (s_plus s) then (if (u_uninit u && un ds i)%bool then u_fill u i else s_pvals s i) else vals i).
Proof.
  intros s LP LQ PP PQ Hplain vals b H. unfold fill_ops. destruct (u_uninit u) eqn:Eu.
  - destruct (conv_uninit_then_fill ds TI rt A cap RT P (s_Q s) (s_minus s) (s_plus s) (s_carried s) LP LQ PP PQ
                (Hplain eq_refl) (s_v s) (s_prev s) (s_andout s) vals (s_pvals s) (u_fill u) b H)
      as (b' & b1 & vals1 & E1 & E2 & H2 & Hv).
    exists b', b1, vals1. fold s. split; [exact E1|]. split; [exact E2|]. split; [exact H2|].
    intros i Hi. cbn [andb]. apply Hv. exact Hi.
  - destruct (conv_holds_full ds TI rt A cap RT P (s_Q s) (s_minus s) (s_plus s) (s_carried s) LP LQ PP PQ
                (s_v s) (s_prev s) (s_andout s) vals (s_pvals s) b H) as (b' & E1 & H1).
    exists b', b', (merge vals (s_pvals s) (s_plus s)). fold s. split; [exact E1|]. split; [reflexivity|]. split; [exact H1|].
    intros i Hi. cbn [andb]. reflexivity.
Qed.

Ltac cnt x H := let H' := fresh "C" in pose proof (proj1 (Permutation_count_occ Nat.eq_dec _ _) H x) as H'; rewrite ?count_occ_app in H'.

Theorem uchain_accounts : forall stages P vals b,
  layout_ok ds TI A cap P -> uchain_ok P stages -> holds ds TI cap A P vals b ->
  exists bf valsf d r, uchain_run b stages = Ok (bf, d, r) /\
    holds ds TI cap A (ulast_data P stages) valsf bf /\
    Permutation (d ++ r ++ map valsf (filter (dr ds TI) (ulast_data P stages)))
                (map vals (filter (dr ds TI) P) ++ uentered stages).
Proof.
  induction stages as [|u rest IH]; intros P vals b LP Hc H.
  - exists b, vals, [], []. simpl. rewrite app_nil_r. auto.
  - destruct Hc as (LQ & PP & PQ & HF & Hplain & Hc). set (s := u_s u) in *.
    destruct (ustage_conv P u LP LQ PP PQ Hplain vals b H) as (b' & b1 & vals1 & E1 & Ef & H1 & Hv). fold s in E1, H1, Hv.
    destruct (life_accounts ds TI rt A cap RT (s_Q s) LQ (s_ops s) vals1 b1 H1 HF) as (b2 & vals2 & d1 & E2 & H2 & P2).
    destruct (IH (s_Q s) vals2 b2 LQ Hc H2) as (bf & valsf & d2 & r2 & E3 & H3 & P3).
    cbn [uchain_run]. fold s. rewrite E1.
    set (d0 := if s_andout s then [] else droppable_of TI (rev (map (fun i => (nm ds i, (Some (vals i), ty ds i))) (s_minus s)))).
    set (r0 := if s_andout s then back_tokens ds TI (s_minus s) (map (fun i => (nm ds i, Some (vals i))) (s_minus s)) else []).
    assert (F1 : Permutation (d0 ++ r0) (map vals (filter (dr ds TI) (s_minus s)))).
    { unfold d0, r0. destruct (s_andout s); simpl.
      - rewrite back_tokens_spec. apply Permutation_refl.
      - rewrite app_nil_r. apply droppable_tokens. }
    exists bf, valsf, (d0 ++ d1 ++ d2), (r0 ++ r2).
    split; [|split].
    + unfold d0, r0. destruct (s_andout s); rewrite Ef, E2, E3; reflexivity.
    + unfold ulast_data. simpl. exact H3.
    + assert (Hnd : NoDup (s_plus s ++ s_carried s)) by (eapply Permutation_NoDup; [exact PQ|apply (lo_nd _ _ _ _ _ LQ)]).
      assert (HinQ : forall i, In i (s_plus s ++ s_carried s) -> In i (s_Q s))
        by (intros i Hi; eapply Permutation_in; [symmetry; exact PQ|exact Hi]).
      assert (F2 : Permutation (map vals1 (filter (dr ds TI) (s_Q s)))
                               (map (s_pvals s) (filter (dr ds TI) (s_plus s)) ++ map vals (filter (dr ds TI) (s_carried s)))).
      { eapply Permutation_trans; [apply perm_map_filter_app; exact PQ|].
        apply Permutation_app.
        - replace (map vals1 (filter (dr ds TI) (s_plus s))) with (map (s_pvals s) (filter (dr ds TI) (s_plus s))); auto.
          apply map_ext_in. intros i Hi. apply filter_In in Hi. destruct Hi as [Hi Hd].
          rewrite (Hv i (HinQ i (in_or_app _ _ _ (or_introl Hi)))).
          rewrite (proj2 (mem_true i (s_plus s)) Hi).
          destruct (u_uninit u) eqn:Eu; simpl; auto. destruct (un ds i) eqn:Eun; auto.
          rewrite (Hplain eq_refl i Hi Eun) in Hd. discriminate.
        - replace (map vals1 (filter (dr ds TI) (s_carried s))) with (map vals (filter (dr ds TI) (s_carried s))); auto.
          apply map_ext_in. intros i Hi. apply filter_In in Hi. destruct Hi as [Hi Hd].
          rewrite (Hv i (HinQ i (in_or_app _ _ _ (or_intror Hi)))).
          destruct (mem i (s_plus s)) eqn:E'; auto. apply mem_true in E'. exfalso.
          exact (NoDup_app_disj _ _ i Hnd E' Hi). }
      assert (F3 : Permutation (map vals (filter (dr ds TI) P))
                               (map vals (filter (dr ds TI) (s_minus s)) ++ map vals (filter (dr ds TI) (s_carried s))))
        by (apply perm_map_filter_app; exact PP).
      unfold ulast_data, uentered in *. cbn [map last_data fold_left entered flat_map]. fold (entered ds TI (map u_s rest)).
      fold s. change (fold_left (fun _ s0 => s_Q s0) (map u_s rest) (s_Q s)) with (last_data (s_Q s) (map u_s rest)).
      apply (proj2 (Permutation_count_occ Nat.eq_dec _ _)). intros x.
      cnt x F1. cnt x F2. cnt x F3. cnt x P2. cnt x P3.
      rewrite !count_occ_app. lia.
Qed.

Theorem uchain_then_drop : forall stages P vals b v,
  layout_ok ds TI A cap P -> uchain_ok P stages -> holds ds TI cap A P vals b ->
  layout_ok ds TI A cap (ulast_data P stages) ->
  exists bf d r dropped, uchain_run b stages = Ok (bf, d, r) /\
    op_drop ds TI rt A cap v (ulast_data P stages) bf = Ok (ONone, dropped) /\
    Permutation (d ++ dropped ++ r) (map vals (filter (dr ds TI) P) ++ uentered stages).
Proof.
  intros stages P vals b v LP Hc H LL.
  destruct (uchain_accounts stages P vals b LP Hc H) as (bf & valsf & d & r & E & Hf & Pm).
  exists bf, d, r, (droppable_of TI (rev (map (fun i => (nm ds i, (Some (valsf i), ty ds i))) (ulast_data P stages)))).
  split; [exact E|]. split; [apply (drop_holds ds TI rt A cap _ LL v valsf bf Hf)|].
  pose proof (droppable_tokens ds TI valsf (ulast_data P stages)) as Pd.
  apply (proj2 (Permutation_count_occ Nat.eq_dec _ _)). intros x.
  cnt x Pm. cnt x Pd. rewrite !count_occ_app. lia.
Qed.

(* ---- the values at the end of the chain, in closed form: per stage, an added field takes the supplied value (or the
   written one when it was left uninitialised), every other field keeps its value; then the stage's writes apply, the
   last write to a field winning *)
Definition stage_vals (u : ustage) (vals : nat -> nat) : nat -> nat :=
  let s := u_s u in
  apply_ops (fun i => if mem i (s_plus s) then (if (u_uninit u && un ds i)%bool then u_fill u i else s_pvals s i) else vals i)
            (s_ops s).
Fixpoint uchain_vals (vals : nat -> nat) (stages : list ustage) : nat -> nat :=
  match stages with [] => vals | u :: rest => uchain_vals (stage_vals u vals) rest end.

Theorem uchain_values : forall stages P vals b,
  layout_ok ds TI A cap P -> uchain_ok P stages -> holds ds TI cap A P vals b ->
  exists bf d r, uchain_run b stages = Ok (bf, d, r) /\
                 holds ds TI cap A (ulast_data P stages) (uchain_vals vals stages) bf.
Proof.
  induction stages as [|u rest IH]; intros P vals b LP Hc H.
  - exists b, [], []. split; [reflexivity|exact H].
  - destruct Hc as (LQ & PP & PQ & HF & Hplain & Hc). set (s := u_s u) in *.
    destruct (ustage_conv P u LP LQ PP PQ Hplain vals b H) as (b' & b1 & vals1 & E1 & Ef & H1 & Hv). fold s in E1, H1, Hv.
    set (vals1' := fun i => if mem i (s_plus s) then (if (u_uninit u && un ds i)%bool then u_fill u i else s_pvals s i) else vals i).
    assert (H1' : holds ds TI cap A (s_Q s) vals1' b1) by (apply (holds_ext ds TI A cap (s_Q s) vals1 vals1' b1 Hv H1)).
    destruct (life_accounts_vals ds TI rt A cap RT (s_Q s) LQ (s_ops s) vals1' b1 H1' HF) as (b2 & d1 & E2 & H2 & _).
    destruct (IH (s_Q s) (apply_ops vals1' (s_ops s)) b2 LQ Hc H2) as (bf & d2 & r2 & E3 & H3).
    cbn [uchain_run]. fold s. rewrite E1.
    destruct (s_andout s); rewrite Ef, E2, E3; eexists _, _, _; (split; [reflexivity|]); exact H3.
Qed.

(* a field that no stage adds and no stage writes keeps the value it had at the start *)
Lemma uchain_vals_untouched i : forall stages vals,
  Forall (fun u => ~ In i (s_plus (u_s u)) /\
                   forall o, In o (s_ops (u_s u)) -> match o with LSet j _ => j <> i | LGet _ _ => True end) stages ->
  uchain_vals vals stages i = vals i.
Proof.
  induction stages as [|u rest IH]; intros vals HF; [reflexivity|]. inversion HF as [|? ? [Hp Ho] HF']; subst.
  cbn [uchain_vals]. rewrite (IH _ HF'). unfold stage_vals. rewrite apply_ops_notin by exact Ho.
  destruct (mem i (s_plus (u_s u))) eqn:E; [|reflexivity]. apply mem_true in E. contradiction.
Qed.

(* ... or ended by unpack: nothing more is destroyed; what is handed back is every field of the last variant with its
   closed-form value, and the droppable ones among them are exactly what is still owed *)
Theorem uchain_then_unpack : forall stages P vals b v,
  layout_ok ds TI A cap P -> uchain_ok P stages -> holds ds TI cap A P vals b ->
  layout_ok ds TI A cap (ulast_data P stages) ->
  exists bf valsf d r, uchain_run b stages = Ok (bf, d, r) /\
    op_unpack ds TI rt A cap v (ulast_data P stages) bf =
      Ok (OUnpacked (map (fun i => (nm ds i, Some (valsf i))) (ulast_data P stages)), []) /\
    Permutation (d ++ r ++ map valsf (filter (dr ds TI) (ulast_data P stages)))
                (map vals (filter (dr ds TI) P) ++ uentered stages).
Proof.
  intros stages P vals b v LP Hc H LL.
  destruct (uchain_accounts stages P vals b LP Hc H) as (bf & valsf & d & r & E & Hf & Pm).
  exists bf, valsf, d, r. split; [exact E|]. split; [|exact Pm].
  apply (unpack_holds ds TI rt A cap _ LL v valsf bf Hf).
Qed.

(* ---- the carried list of a stage is only a witness of the split: the run never looks at it *)
Definition with_carried (u : ustage) (c : list nat) : ustage :=
  let s := u_s u in
  mkUStage (mkStage (s_Q s) (s_minus s) (s_plus s) c (s_andout s) (s_pvals s) (s_ops s) (s_v s) (s_prev s))
           (u_uninit u) (u_fill u).

Fixpoint uchain_ok_ex (P : list nat) (stages : list ustage) : Prop :=
  match stages with
  | [] => True
  | u :: rest =>
      let s := u_s u in
      layout_ok ds TI A cap (s_Q s) /\
      (exists car, Permutation P (s_minus s ++ car) /\ Permutation (s_Q s) (s_plus s ++ car)) /\
      Forall (fun o => In (lop_field o) (s_Q s)) (s_ops s) /\
      (u_uninit u = true -> forall i, In i (s_plus s) -> un ds i = true -> dr ds TI i = false) /\
      uchain_ok_ex (s_Q s) rest
  end.

Lemma uchain_ok_ex_witness : forall stages P, uchain_ok_ex P stages ->
  exists stages', uchain_ok P stages' /\ (forall b, uchain_run b stages' = uchain_run b stages) /\
                  ulast_data P stages' = ulast_data P stages /\ uentered stages' = uentered stages.
Proof.
  induction stages as [|u rest IH]; intros P H.
  - exists []. repeat split; auto.
  - destruct H as (LQ & (car & PP & PQ) & HF & Hpl & Hr).
    destruct (IH _ Hr) as (rest' & Hok & Hrun & Hlast & Hent).
    exists (with_carried u car :: rest'). split; [|split; [|split]].
    + cbn [uchain_ok with_carried u_s u_uninit s_Q s_minus s_plus s_carried s_ops]. repeat (split; [assumption|]). exact Hok.
    + intros b. cbn [uchain_run with_carried u_s u_uninit u_fill s_Q s_minus s_plus s_carried s_ops s_andout s_pvals s_v s_prev].
      unfold fill_ops. cbn [with_carried u_s u_uninit u_fill s_plus].
      destruct (op_conv ds TI rt A cap (s_v (u_s u)) (s_prev (u_s u)) (s_minus (u_s u)) (s_plus (u_s u)) (u_uninit u)
                  (s_andout (u_s u)) b (s_pvals (u_s u))) as [[out d0]|e]; auto.
      destruct out; auto;
        repeat match goal with
               | |- context [match life ds TI rt ?bb ?ops with _ => _ end] =>
                   destruct (life ds TI rt bb ops) as [[? ?]|?]; auto
               end; rewrite Hrun; reflexivity.
    + unfold ulast_data in *. cbn [map last_data fold_left with_carried u_s s_Q]. exact Hlast.
    + unfold uentered in *. cbn [map entered flat_map with_carried u_s s_plus s_pvals s_ops]. f_equal. exact Hent.
Qed.

Theorem uchain_then_drop_ex : forall stages P vals b v,
  layout_ok ds TI A cap P -> uchain_ok_ex P stages -> holds ds TI cap A P vals b ->
  layout_ok ds TI A cap (ulast_data P stages) ->
  exists bf d r dropped, uchain_run b stages = Ok (bf, d, r) /\
    op_drop ds TI rt A cap v (ulast_data P stages) bf = Ok (ONone, dropped) /\
    Permutation (d ++ dropped ++ r) (map vals (filter (dr ds TI) P) ++ uentered stages).
Proof.
  intros stages P vals b v LP Hc H LL.
  destruct (uchain_ok_ex_witness stages P Hc) as (stages' & Hok & Hrun & Hlast & Hent).
  rewrite <- Hlast in LL.
  destruct (uchain_then_drop stages' P vals b v LP Hok H LL) as (bf & d & r & dropped & E1 & E2 & Pm).
  exists bf, d, r, dropped. rewrite <- Hrun, <- Hlast, <- Hent. auto.
Qed.

(* a chain of Chain.v is a chain here *)
Lemma uchain_of_chain : forall stages b,
  uchain_run b (map (fun s => mkUStage s false (fun _ => 0%nat)) stages) = chain_run ds TI rt A cap b stages.
Proof.
  induction stages as [|s rest IH]; intros b; [reflexivity|].
  cbn [map uchain_run chain_run u_s u_uninit fill_ops].
  destruct (op_conv ds TI rt A cap (s_v s) (s_prev s) (s_minus s) (s_plus s) false (s_andout s) b (s_pvals s)) as [[out d0]|e]; auto.
  destruct out; auto; cbn [life];
    match goal with |- context [life ds TI rt ?bb (s_ops s)] => destruct (life ds TI rt bb (s_ops s)) as [[b2 d1]|e] end; auto;
    rewrite IH; reflexivity.
Qed.
End ChainU.

(* ---------------------------------------------------------------- creation by new_uninit, then the writes *)
Section NewUninit.
Variable ds : defs.
Variable TI : nat -> tinfo.
Variable rt : runtime.
Variables (A cap : N).
Hypothesis RT : rt_ok rt = true.
Variable data : list nat.
Hypothesis L : layout_ok ds TI A cap data.

Lemma new_uninit_then_fill : forall v vals f,
  (forall i, In i data -> un ds i = true -> dr ds TI i = false) ->
  exists b0 b1 vals1,
    op_new_uninit ds TI rt A cap v data vals = Ok (ORecord b0, []) /\
    life ds TI rt b0 (assign_all f (filter (un ds) data)) = Ok (b1, []) /\
    holds ds TI cap A data vals1 b1 /\
    (forall i, In i data -> vals1 i = if un ds i then f i else vals i).
Proof.
  intros v vals f Hplain.
  destruct (new_uninit_holds ds TI rt A cap RT data L v vals) as (b0 & E0 & H0).
  pose proof (lo_nd _ _ _ _ _ L) as Hnd.
  destruct (fill_holds ds TI rt A cap RT data L (filter (un ds) data) (filter (fun i => negb (un ds i)) data) vals b0 f H0)
    as (b1 & vals1 & E1 & H1 & Hf & Ho).
  - intros j Hj. apply filter_In in Hj. tauto.
  - clear -Hnd. induction Hnd as [|x l Hx Hn IH]; simpl; [constructor|]. destruct (un ds x); auto. constructor; auto.
    rewrite filter_In. tauto.
  - intros i Hi. apply filter_In in Hi. destruct Hi as [Hi Hu]. split; auto. split; [|apply Hplain; auto].
    rewrite filter_In. rewrite Hu. simpl. intros [_ Hq]. discriminate.
  - exists b0, b1, vals1. split; [exact E0|]. split; [exact E1|].
    split; [exact (holds_perm ds TI A cap _ _ vals1 b1 (split_un_perm (un ds) data) H1)|].
    intros i Hi. destruct (un ds i) eqn:Eu.
    + apply Hf. apply filter_In. auto.
    + apply Ho. rewrite filter_In. rewrite Eu. intros [_ Hq]. discriminate.
Qed.
End NewUninit.
