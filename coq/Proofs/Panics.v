(* C13(a): Display, capacity and alignment of an accepted definition do not panic. *)
From Coq Require Import List NArith ZArith Lia Bool Arith.
From Truc.Model Require Import Layout Builder.
From Truc.Proofs Require Import ArithP Sorted Variants BuilderInv LayoutThms.
Import ListNotations.
Open Scope N_scope.

(* no datum of a variant ends beyond usize::MAX *)
Definition fits_usize (ds : defs) (vs : list (list nat)) : Prop :=
  forall v i, In v vs -> In i v -> dend ds i <= MAXU.

Lemma checked_add_ok a b : a + b <= MAXU -> checked_add a b = Some (a + b).
Proof. intros H. unfold checked_add. apply N.leb_le in H. now rewrite H. Qed.

Lemma display_variant_some ds : forall v bo,
  sorted_from ds bo v -> (forall i, In i v -> (i < length ds)%nat /\ dend ds i <= MAXU) ->
  display_variant ds bo v <> None.
Proof.
  induction v as [|i r IH]; simpl; intros bo Hs Hb; [discriminate|].
  destruct Hs as [H1 H2]. destruct (Hb i (or_introl eq_refl)) as [Hlt Hfit].
  destruct (length ds <=? i)%nat eqn:E1; [apply Nat.leb_le in E1; lia|].
  destruct (off ds i <? bo) eqn:E2; [apply N.ltb_lt in E2; lia|].
  unfold dend in Hfit. rewrite (checked_add_ok _ _ Hfit).
  specialize (IH (off ds i + size ds i) H2 (fun j Hj => Hb j (or_intror Hj))).
  destruct (display_variant ds (off ds i + size ds i) r); [discriminate|congruence].
Qed.

Lemma all_some_some {A} (l : list (option A)) : (forall o, In o l -> o <> None) -> all_some l <> None.
Proof.
  induction l as [|[x|] r IH]; simpl; intros H; try discriminate.
  - specialize (IH (fun o Ho => H o (or_intror Ho))). destruct (all_some r); [discriminate|congruence].
  - exfalso. apply (H None); auto.
Qed.

Lemma display_some b : wf b -> fits_usize (b_ds b) (b_vs b) -> display (b_ds b, b_vs b) <> None.
Proof.
  intros W Hf. unfold display. simpl. apply all_some_some. intros o Ho.
  apply in_map_iff in Ho. destruct Ho as (v & <- & Hv).
  destruct (wf_v _ W v Hv) as (Hs & _ & Hlt). apply display_variant_some; auto.
  intros i Hi. split; [apply Hlt; auto|apply (Hf v i Hv Hi)].
Qed.

Lemma max_opt_some l : (forall o, In o l -> o <> None) -> forall acc, max_opt l acc <> None.
Proof.
  induction l as [|[x|] r IH]; simpl; intros H acc; try discriminate.
  - apply IH. intros o Ho. apply H; auto.
  - exfalso. apply (H None); auto.
Qed.

Lemma max_size_some ds vs : fits_usize ds vs -> max_size (ds, vs) <> None.
Proof.
  intros Hf. unfold max_size, max_size_gen. simpl. apply max_opt_some. intros o Ho.
  apply in_map_iff in Ho. destruct Ho as (i & <- & Hi). apply in_concat in Hi. destruct Hi as (v & Hv & Hi).
  rewrite checked_add_ok; [discriminate|]. apply (Hf v i Hv Hi).
Qed.
