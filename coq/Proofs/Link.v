(* Link between the two halves of the development: every variant of every definition the builder produces
   satisfies the hypothesis `layout_ok` of the abstract-machine theorems (C04..C07, C16), given the real type
   information agrees with the recorded one (the conclusion of C11) and the capacity covers max_size. *)
From Coq Require Import List NArith ZArith Lia Bool Arith Permutation.
From Truc.Model Require Import Layout Builder Ir Gen Exec.
From Truc.Proofs Require Import ArithP Sorted Variants BuilderInv LayoutThms Refine12 ExecP.
Import ListNotations.
Open Scope N_scope.

Section Link.
Variable h : list req.
Hypothesis HOK : hist_ok h.
Hypothesis HP2 : pow2_hist h.
Let b := run h.
Let ds := b_ds b.
Variable TI : nat -> tinfo.
(* the real type information is the recorded one (C11 for a module that compiled) *)
Hypothesis TI_ok : forall v i, In v (b_vs b) -> In i v ->
  ti_size (TI (d_ty (getd ds i))) = d_size (getd ds i) /\ ti_align (TI (d_ty (getd ds i))) = d_align (getd ds i).
Variable cap : N.
Hypothesis CAP : exists m, max_size (ds, b_vs b) = Some m /\ m <= cap.

Theorem layout_ok_of_run : forall v, In v (b_vs b) ->
  NoDup (map (fun i => (Gen.of ds i, Gen.ty ds i)) v) ->      (* no two zero-size fields of one type at one offset *)
  layout_ok ds TI (max_type_align (ds, b_vs b)) cap v.
Proof.
  intros v Hv Hkeys.
  pose proof (run_wf h HOK) as W. pose proof (run_inv12 h HOK) as I.
  destruct (wf_v _ W v Hv) as (Hs & Hnd & Hlt).
  destruct CAP as (m & Hm & Hmc).
  constructor.
  - exact Hnd.
  - exact (i_names_v _ I v Hv).
  - intros i Hi. unfold sz, Gen.of, Gen.ty. destruct (TI_ok v i Hv Hi) as [E _]. fold ds in E. rewrite E.
    pose proof (capacity_covers (ds, b_vs b) m Hm v i Hv Hi) as Hc. unfold dend, off, size in Hc. simpl in Hc. lia.
  - intros i Hi. unfold al, Gen.of, Gen.ty. destruct (TI_ok v i Hv Hi) as [_ E]. fold ds in E. rewrite E.
    destruct (Hlt i Hi) as [Hl Hmod]. split; [|split].
    + apply (wf_al _ W i Hl).
    + exact Hmod.
    + apply (record_align_multiple (ds, b_vs b)); [apply (run_pow2 h HOK HP2)|exact Hl].
  - intros i j Hi Hj Hne Hzi Hzj. unfold sz, Gen.of, Gen.ty.
    destruct (TI_ok v i Hv Hi) as [Ei _]. destruct (TI_ok v j Hv Hj) as [Ej _]. fold ds in Ei, Ej. rewrite Ei, Ej.
    exact (sorted_disjoint ds 0 v Hs Hnd i j Hi Hj Hne).
  - exact Hkeys.
Qed.

(* the last hypothesis follows from a plainer one: two data of one variant can only share (offset, type) when both are
   zero-size (data of non-zero size are disjoint, and one type has one size) - so it is enough that no two zero-size
   data of one type sit at one offset *)
Definition no_zst_twins (v : list nat) : Prop :=
  forall i j, In i v -> In j v -> i <> j -> Gen.ty ds i = Gen.ty ds j -> d_size (getd ds i) = 0 ->
              Gen.of ds i <> Gen.of ds j.

Lemma NoDup_map_in {X Y} (f : X -> Y) : forall l, NoDup l ->
  (forall x y, In x l -> In y l -> x <> y -> f x <> f y) -> NoDup (map f l).
Proof.
  induction l as [|x r IH]; intros Hnd Hinj; simpl; [constructor|]. inversion Hnd as [|? ? Hx Hr]; subst.
  constructor.
  - intro Hin. apply in_map_iff in Hin. destruct Hin as (y & E & Hy).
    apply (Hinj y x); simpl; auto. intro; subst; auto.
  - apply IH; auto. intros a c Ha Hc. apply Hinj; simpl; auto.
Qed.

Lemma keys_of_no_zst_twins : forall v, In v (b_vs b) -> no_zst_twins v ->
  NoDup (map (fun i => (Gen.of ds i, Gen.ty ds i)) v).
Proof.
  intros v Hv Hz. pose proof (run_wf h HOK) as W.
  destruct (wf_v _ W v Hv) as (Hs & Hnd & Hlt).
  apply NoDup_map_in; [exact Hnd|]. intros i j Hi Hj Hne E.
  injection E as Eo Et.
  destruct (TI_ok v i Hv Hi) as [Ei _]. destruct (TI_ok v j Hv Hj) as [Ej _]. fold ds in Ei, Ej.
  unfold Gen.ty in Et. rewrite Et in Ei.
  assert (Esz : d_size (getd ds i) = d_size (getd ds j)) by congruence.
  destruct (N.eq_dec (d_size (getd ds i)) 0) as [Z|NZ].
  - exact (Hz i j Hi Hj Hne Et Z Eo).
  - pose proof (sorted_disjoint ds 0 v Hs Hnd i j Hi Hj Hne) as D.
    unfold dend, off, size, Gen.of in *. fold ds in D. lia.
Qed.

Theorem layout_ok_of_run_zst : forall v, In v (b_vs b) -> no_zst_twins v ->
  layout_ok ds TI (max_type_align (ds, b_vs b)) cap v.
Proof. intros v Hv Hz. apply layout_ok_of_run; auto. apply keys_of_no_zst_twins; auto. Qed.
End Link.
