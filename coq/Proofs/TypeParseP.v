(* C17: the printed tokens of a recorded name read back as the tree that was printed (Model/TypeParse.v),
   so the name - not only its syntax tree - denotes the type; printing is injective. *)
From Coq Require Import List Bool Arith Lia.
From Truc.Model Require Import TypeName TypeParse.
From Truc.Proofs Require Import TypeNameP.
Import ListNotations.

(* ---- structural induction over the nested syntax trees *)
Section PastInd.
Variable P : past -> Prop.
Hypothesis Hpath : forall lead segs, Forall (fun s => Forall P (snd s)) segs -> P (PPath lead segs).
Hypothesis Htup : forall ts, Forall P ts -> P (PTuple ts).
Hypothesis Harr : forall t n, P t -> P (PArray t n).
Hypothesis Hsl : forall t, P t -> P (PSlice t).
Fixpoint past_ind' (a : past) : P a :=
  match a with
  | PPath lead segs =>
      Hpath lead segs
        ((fix gs (l : list (ident * list past)) : Forall (fun s => Forall P (snd s)) l :=
            match l with
            | [] => Forall_nil _
            | s :: r => Forall_cons s
                          ((fix go (l : list past) : Forall P l :=
                              match l with [] => Forall_nil P | x :: r => Forall_cons x (past_ind' x) (go r) end) (snd s))
                          (gs r)
            end) segs)
  | PTuple ts => Htup ts ((fix go (l : list past) : Forall P l :=
                             match l with [] => Forall_nil P | x :: r => Forall_cons x (past_ind' x) (go r) end) ts)
  | PArray t n => Harr t n (past_ind' t)
  | PSlice t => Hsl t (past_ind' t)
  end.
End PastInd.

(* well-formed trees: a path has at least one segment *)
Inductive wfp : past -> Prop :=
| wfp_path lead segs : segs <> [] -> Forall (fun s => Forall wfp (snd s)) segs -> wfp (PPath lead segs)
| wfp_tuple ts : Forall wfp ts -> wfp (PTuple ts)
| wfp_array t n : wfp t -> wfp (PArray t n)
| wfp_slice t : wfp t -> wfp (PSlice t).

Definition seg_r (s : ident * list past) : list token :=
  match s with
  | (i, []) => [KId i]
  | (i, args) => KId i :: KLt :: sep_by [KComma] (map render args) ++ [KGt]
  end.

Lemma render_path lead segs : render (PPath lead segs) = (if lead then [KColon2] else []) ++ sep_by [KColon2] (map seg_r segs).
Proof. reflexivity. Qed.

Lemma sep_by_cons2 (s : list token) p q r : sep_by s (p :: q :: r) = p ++ s ++ sep_by s (q :: r).
Proof. simpl. now rewrite <- app_assoc. Qed.
Lemma sep_by_one (s : list token) p : sep_by s [p] = p.
Proof. simpl. apply app_nil_r. Qed.

(* first token of a printed tree *)
Definition starts (ts : list token) : Prop :=
  match ts with KId _ :: _ | KLParen :: _ | KLBrack :: _ | KColon2 :: _ => True | _ => False end.
Lemma render_starts a : wfp a -> forall rest, starts (render a ++ rest).
Proof.
  intros W rest. destruct W as [lead segs Hne _|ts _|t n _|t _]; simpl; auto.
  - destruct lead; simpl; auto. destruct segs as [|[i args] r]; [congruence|].
    destruct r; simpl; destruct args; simpl; auto.
  - destruct ts as [|x [|y r]]; simpl; auto.
Qed.

(* what may follow a type / a list of types *)
Definition ok (rest : list token) : Prop := match rest with KColon2 :: _ | KLt :: _ => False | _ => True end.
Definition okc (rest : list token) : Prop := match rest with KColon2 :: _ | KLt :: _ | KComma :: _ => False | _ => True end.

Definition Rty (a : past) : Prop :=
  forall rest, ok rest -> exists f0, forall f, f0 <= f -> pty f (render a ++ rest) = Some (a, rest).

Lemma Rlist l : l <> [] -> Forall Rty l -> forall rest, okc rest ->
  exists f0, forall f, f0 <= f -> plist f (sep_by [KComma] (map render l) ++ rest) = Some (l, rest).
Proof.
  induction l as [|a l IH]; intros Hne HF rest Hok; [congruence|]. inversion HF as [|? ? Ha HF']; subst.
  destruct l as [|b l].
  - cbn [map]. rewrite sep_by_one.
    assert (Hok' : ok rest) by (destruct rest as [|[] ?]; simpl in *; auto).
    destruct (Ha rest Hok') as [f1 H1]. exists (S f1). intros f Hf. destruct f as [|f]; [lia|].
    cbn [plist]. rewrite H1 by lia. destruct rest as [|[] ?]; simpl in Hok; try contradiction; reflexivity.
  - cbn [map]. rewrite sep_by_cons2. rewrite <- !app_assoc.
    destruct (IH ltac:(discriminate) HF' rest Hok) as [f2 H2].
    destruct (Ha ([KComma] ++ sep_by [KComma] (map render (b :: l)) ++ rest) Logic.I) as [f1 H1].
    exists (S (max f1 f2)). intros f Hf. destruct f as [|f]; [lia|].
    cbn [plist]. rewrite H1 by lia. cbn [app]. cbn [map] in H2. rewrite H2 by lia. reflexivity.
Qed.

Lemma Rsegs segs : segs <> [] -> Forall (fun s => Forall Rty (snd s)) segs -> forall rest, ok rest ->
  exists f0, forall f, f0 <= f -> psegs f (sep_by [KColon2] (map seg_r segs) ++ rest) = Some (segs, rest).
Proof.
  induction segs as [|[i args] segs IH]; intros Hne HF rest Hok; [congruence|]. inversion HF as [|? ? Ha HF']; subst.
  simpl in Ha. destruct segs as [|s2 segs].
  - cbn [map]. rewrite sep_by_one. destruct args as [|a args].
    + exists 1. intros f Hf. destruct f as [|f]; [lia|]. simpl.
      destruct rest as [|[] ?]; simpl in Hok; try contradiction; reflexivity.
    + cbn [seg_r]. destruct (Rlist (a :: args) ltac:(discriminate) Ha (KGt :: rest) Logic.I) as [f1 H1].
      exists (S f1). intros f Hf. destruct f as [|f]; [lia|].
      cbn [app]. rewrite <- app_assoc. cbn [psegs app]. rewrite H1 by lia.
      destruct rest as [|[] ?]; simpl in Hok; try contradiction; reflexivity.
  - cbn [map]. rewrite sep_by_cons2. rewrite <- !app_assoc.
    destruct (IH ltac:(discriminate) HF' rest Hok) as [f2 H2]. cbn [map] in H2.
    destruct args as [|a args].
    + exists (S f2). intros f Hf. destruct f as [|f]; [lia|]. cbn [seg_r app psegs]. rewrite H2 by lia. reflexivity.
    + cbn [seg_r].
      destruct (Rlist (a :: args) ltac:(discriminate) Ha (KGt :: [KColon2] ++ sep_by [KColon2] (seg_r s2 :: map seg_r segs) ++ rest) Logic.I) as [f1 H1].
      exists (S (max f1 f2)). intros f Hf. destruct f as [|f]; [lia|].
      cbn [app]. rewrite <- app_assoc. cbn [psegs app]. cbn [app] in H1. rewrite H1 by lia. rewrite H2 by lia. reflexivity.
Qed.

Lemma not_rparen ts : starts ts -> match ts with KRParen :: _ => False | _ => True end.
Proof. destruct ts as [|[] ?]; simpl; auto. Qed.

Theorem read_render : forall a, wfp a -> Rty a.
Proof.
  induction a using past_ind'; intros W; inversion W; subst.
  - (* paths *)
    match goal with Hne : segs <> [], HW : Forall _ segs |- _ => rename Hne into Hsegs; rename HW into Hw end.
    assert (HR : Forall (fun s => Forall Rty (snd s)) segs).
    { rewrite Forall_forall in *. intros s Hs. rewrite Forall_forall. intros x Hx.
      specialize (H s Hs). rewrite Forall_forall in H. apply (H x Hx).
      specialize (Hw s Hs). rewrite Forall_forall in Hw. auto. }
    intros rest Hok. destruct (Rsegs segs Hsegs HR rest Hok) as [f1 H1]. rewrite render_path.
    exists (S f1). intros f Hf. destruct f as [|f]; [lia|]. destruct lead.
    + cbn [app pty]. rewrite H1 by lia. reflexivity.
    + cbn [app]. destruct segs as [|[i args] r]; [congruence|].
      assert (Hs : exists tl, sep_by [KColon2] (map seg_r ((i, args) :: r)) ++ rest = KId i :: tl).
      { destruct r; cbn [map]; [rewrite sep_by_one|rewrite sep_by_cons2]; destruct args; simpl; eauto. }
      destruct Hs as [tl Etl]. rewrite Etl in *. cbn [pty]. rewrite H1 by lia. reflexivity.
  - (* tuples *)
    match goal with HW : Forall wfp ts |- _ => rename HW into Hw end.
    assert (HR : Forall Rty ts).
    { rewrite Forall_forall in *. intros x Hx. auto. }
    intros rest Hok. destruct ts as [|a [|b l]].
    + exists 1. intros f Hf. destruct f; [lia|]. reflexivity.
    + inversion HR as [|? ? Ha _]; subst. inversion Hw as [|? ? Wa _]; subst.
      destruct (Ha ([KComma; KRParen] ++ rest) Logic.I) as [f1 H1].
      exists (S f1). intros f Hf. destruct f as [|f]; [lia|].
      cbn [render app]. rewrite <- app_assoc.
      pose proof (render_starts a Wa ([KComma; KRParen] ++ rest)) as Hst.
      pose proof (not_rparen _ Hst) as Hnr.
      destruct (render a ++ [KComma; KRParen] ++ rest) as [|k tl] eqn:Etl; [destruct Hst|].
      cbn [pty]. destruct k; try contradiction; rewrite <- Etl in *; rewrite H1 by lia; reflexivity.
    + inversion HR as [|? ? Ha HR']; subst. inversion Hw as [|? ? Wa Hw']; subst. inversion Hw' as [|? ? Wb _]; subst.
      destruct (Rlist (b :: l) ltac:(discriminate) HR' (KRParen :: rest) Logic.I) as [f2 H2].
      set (tail := sep_by [KComma] (map render (b :: l)) ++ KRParen :: rest) in *.
      destruct (Ha (KComma :: tail) Logic.I) as [f1 H1].
      exists (S (max f1 f2)). intros f Hf. destruct f as [|f]; [lia|].
      assert (Er : render (PTuple (a :: b :: l)) ++ rest = KLParen :: render a ++ KComma :: tail).
      { unfold tail. change (render (PTuple (a :: b :: l))) with (KLParen :: sep_by [KComma] (map render (a :: b :: l)) ++ [KRParen]).
        cbn [map]. rewrite sep_by_cons2. cbn [app]. rewrite <- !app_assoc. reflexivity. }
      rewrite Er.
      pose proof (not_rparen _ (render_starts a Wa (KComma :: tail))) as Hnr.
      assert (Htl : match tail with KRParen :: _ => False | _ => True end).
      { unfold tail. destruct l; cbn [map]; [rewrite sep_by_one|rewrite sep_by_cons2]; rewrite <- ?app_assoc; apply not_rparen, render_starts; auto. }
      destruct (render a ++ KComma :: tail) as [|k tl] eqn:Etl; [destruct (render a); discriminate|].
      cbn [pty]. destruct k; try contradiction; rewrite <- Etl in *; rewrite H1 by lia;
        (destruct tail as [|k2 tl2] eqn:Et; [rewrite H2 by lia; reflexivity|destruct k2; try contradiction; rewrite H2 by lia; reflexivity]).
  - (* arrays *)
    intros rest Hok. destruct (IHa ltac:(assumption) ([KSemi; KNum n; KRBrack] ++ rest) Logic.I) as [f1 H1].
    exists (S f1). intros f Hf. destruct f as [|f]; [lia|].
    cbn [render app pty]. rewrite <- app_assoc. rewrite H1 by lia. reflexivity.
  - (* slices *)
    intros rest Hok. destruct (IHa ltac:(assumption) ([KRBrack] ++ rest) Logic.I) as [f1 H1].
    exists (S f1). intros f Hf. destruct f as [|f]; [lia|].
    cbn [render app pty]. rewrite <- app_assoc. rewrite H1 by lia. reflexivity.
Qed.

(* ---- the trees that are printed are well formed *)
Lemma wfp_std t : wfp (std_ast t).
Proof.
  induction t using ty_ind'; simpl; try (constructor; [discriminate|repeat constructor; auto]).
  - constructor. rewrite Forall_forall in *. intros x Hx. apply in_map_iff in Hx. destruct Hx as (y & <- & Hy). auto.
  - constructor; auto.
  - constructor; auto.
  - constructor.
    + destruct path; discriminate.
    + apply Forall_app. split.
      * rewrite Forall_forall. intros s Hs. apply in_map_iff in Hs. destruct Hs as (y & <- & _). constructor.
      * constructor; [|constructor]. simpl. rewrite Forall_forall in *. intros x Hx.
        apply in_map_iff in Hx. destruct Hx as (y & <- & Hy). auto.
Qed.

Lemma last_only_ne {A} (l : list A) : l <> [] -> last_only l <> [].
Proof.
  intros H. unfold last_only. destruct (rev l) eqn:E; [|discriminate].
  apply (f_equal (@rev A)) in E. rewrite rev_involutive in E. simpl in E. congruence.
Qed.
Lemma last_only_in {A} (l : list A) x : In x (last_only l) -> In x l.
Proof.
  unfold last_only. destruct (rev l) eqn:E; simpl; [tauto|]. intros [<-|[]].
  apply in_rev. rewrite E. simpl. auto.
Qed.

Lemma wfp_rewrite a : wfp a -> wfp (rewrite a).
Proof.
  induction a using past_ind'; intros W; inversion W; subst; simpl.
  - match goal with Hne : segs <> [], HW : Forall _ segs |- _ => rename Hne into Hsegs; rename HW into Hw end.
    set (segs' := map (fun s => match s with (i, args) => (i, map rewrite args) end) segs).
    assert (Hne' : segs' <> []) by (unfold segs'; destruct segs; [congruence|discriminate]).
    assert (HF : Forall (fun s => Forall wfp (snd s)) segs').
    { unfold segs'. rewrite Forall_forall in *. intros s Hs. apply in_map_iff in Hs. destruct Hs as ([i args] & <- & Hy).
      simpl. rewrite Forall_forall. intros x Hx. apply in_map_iff in Hx. destruct Hx as (y & <- & Hy').
      specialize (H _ Hy). specialize (Hw _ Hy). simpl in *. rewrite Forall_forall in H, Hw. auto. }
    constructor.
    + destruct (negb lead && in_scope segs'); [apply last_only_ne|]; auto.
    + destruct (negb lead && in_scope segs'); auto.
      rewrite Forall_forall in *. intros s Hs. apply HF. apply last_only_in; auto.
  - constructor. rewrite Forall_forall in *. intros x Hx. apply in_map_iff in Hx. destruct Hx as (y & <- & Hy). auto.
  - constructor; auto.
  - constructor; auto.
Qed.

(* ---- the recorded NAME (its tokens) denotes the type *)
Theorem name_denotes t : wf_ty t -> exists f0, forall f, f0 <= f -> denoted f (recorded_name t) = Some t.
Proof.
  intros W. destruct (read_render _ (wfp_rewrite _ (wfp_std t)) [] Logic.I) as [f0 H0].
  exists f0. intros f Hf. unfold denoted, read, recorded_name. specialize (H0 f Hf). rewrite app_nil_r in H0.
  rewrite H0. apply denotes. exact W.
Qed.

(* ---- printing is injective: two different trees never print the same tokens *)
Theorem render_inj a b : wfp a -> wfp b -> render a = render b -> a = b.
Proof.
  intros Wa Wb E.
  destruct (read_render a Wa [] Logic.I) as [fa Ha]. destruct (read_render b Wb [] Logic.I) as [fb Hb].
  specialize (Ha (max fa fb) ltac:(lia)). specialize (Hb (max fa fb) ltac:(lia)).
  rewrite E in Ha. rewrite Ha in Hb. congruence.
Qed.

(* two different types of the grammar never share a recorded name (hence never a table key) *)
Theorem recorded_name_inj t1 t2 : wf_ty t1 -> wf_ty t2 -> recorded_name t1 = recorded_name t2 -> t1 = t2.
Proof.
  intros W1 W2 E. apply render_inj in E; try (apply wfp_rewrite, wfp_std).
  pose proof (denotes t1 W1) as D1. pose proof (denotes t2 W2) as D2. rewrite E in D1. congruence.
Qed.

(* ---- an explicit fuel: the reader needs no more fuel than the printed tree has nodes (segments and list
   cells counted) - replaces "for all large enough fuel" by a computable bound *)
Fixpoint cost (a : past) : nat :=
  match a with
  | PPath _ segs =>
      S ((fix cs (l : list (ident * list past)) : nat :=
            match l with
            | [] => 0
            | s :: r => S ((fix cl (l : list past) : nat := match l with [] => 0 | x :: r => S (cost x + cl r) end) (snd s) + cs r)
            end) segs)
  | PTuple ts => S (S ((fix cl (l : list past) : nat := match l with [] => 0 | x :: r => S (cost x + cl r) end) ts))
  | PArray t _ => S (cost t)
  | PSlice t => S (cost t)
  end.
Definition cost_list (l : list past) : nat :=
  (fix cl (l : list past) : nat := match l with [] => 0 | x :: r => S (cost x + cl r) end) l.
Definition cost_segs (l : list (ident * list past)) : nat :=
  (fix cs (l : list (ident * list past)) : nat := match l with [] => 0 | s :: r => S (cost_list (snd s) + cs r) end) l.
Lemma cost_path lead segs : cost (PPath lead segs) = S (cost_segs segs).
Proof. reflexivity. Qed.
Lemma cost_tuple ts : cost (PTuple ts) = S (S (cost_list ts)).
Proof. reflexivity. Qed.
Lemma cost_list_cons x r : cost_list (x :: r) = S (cost x + cost_list r).
Proof. reflexivity. Qed.
Lemma cost_segs_cons s r : cost_segs (s :: r) = S (cost_list (snd s) + cost_segs r).
Proof. reflexivity. Qed.

Definition Rc (a : past) : Prop :=
  forall rest f, ok rest -> cost a <= f -> pty f (render a ++ rest) = Some (a, rest).

Lemma Rc_list l : l <> [] -> Forall Rc l -> forall rest f, okc rest -> cost_list l <= f ->
  plist f (sep_by [KComma] (map render l) ++ rest) = Some (l, rest).
Proof.
  induction l as [|a l IH]; intros Hne HF rest f Hok Hf; [congruence|]. inversion HF as [|? ? Ha HF']; subst.
  rewrite cost_list_cons in Hf. destruct f as [|f]; [lia|].
  destruct l as [|b l].
  - cbn [map]. rewrite sep_by_one.
    assert (Hok' : ok rest) by (destruct rest as [|[] ?]; simpl in *; auto).
    cbn [plist]. rewrite (Ha rest f Hok') by lia. destruct rest as [|[] ?]; simpl in Hok; try contradiction; reflexivity.
  - cbn [map]. rewrite sep_by_cons2. rewrite <- !app_assoc.
    pose proof (Ha ([KComma] ++ sep_by [KComma] (map render (b :: l)) ++ rest) f Logic.I ltac:(lia)) as H1.
    cbn [plist app] in H1 |- *. cbn [map] in H1 |- *. rewrite H1.
    cbn [map] in IH. rewrite (IH ltac:(discriminate) HF' rest f Hok) by lia. reflexivity.
Qed.

Lemma Rc_segs segs : segs <> [] -> Forall (fun s => Forall Rc (snd s)) segs -> forall rest f, ok rest -> cost_segs segs <= f ->
  psegs f (sep_by [KColon2] (map seg_r segs) ++ rest) = Some (segs, rest).
Proof.
  induction segs as [|[i args] segs IH]; intros Hne HF rest f Hok Hf; [congruence|]. inversion HF as [|? ? Ha HF']; subst.
  simpl in Ha. rewrite cost_segs_cons in Hf. simpl snd in Hf. destruct f as [|f]; [lia|].
  destruct segs as [|s2 segs].
  - cbn [map]. rewrite sep_by_one. destruct args as [|a args].
    + simpl. destruct rest as [|[] ?]; simpl in Hok; try contradiction; reflexivity.
    + cbn [seg_r]. cbn [app]. rewrite <- app_assoc. cbn [psegs app].
      rewrite (Rc_list (a :: args) ltac:(discriminate) Ha (KGt :: rest) f Logic.I) by lia.
      destruct rest as [|[] ?]; simpl in Hok; try contradiction; reflexivity.
  - cbn [map]. rewrite sep_by_cons2. rewrite <- !app_assoc.
    cbn [map] in IH. destruct args as [|a args].
    + cbn [seg_r app psegs]. rewrite (IH ltac:(discriminate) HF' rest f Hok) by lia. reflexivity.
    + cbn [seg_r]. cbn [app]. rewrite <- app_assoc. cbn [psegs app].
      pose proof (Rc_list (a :: args) ltac:(discriminate) Ha (KGt :: [KColon2] ++ sep_by [KColon2] (seg_r s2 :: map seg_r segs) ++ rest) f Logic.I ltac:(lia)) as H1.
      cbn [app] in H1 |- *. rewrite H1.
      rewrite (IH ltac:(discriminate) HF' rest f Hok) by lia. reflexivity.
Qed.

Theorem read_render_cost : forall a, wfp a -> Rc a.
Proof.
  induction a using past_ind'; intros W; inversion W; subst.
  - match goal with Hne : segs <> [], HW : Forall _ segs |- _ => rename Hne into Hsegs; rename HW into Hw end.
    assert (HR : Forall (fun s => Forall Rc (snd s)) segs).
    { rewrite Forall_forall in *. intros s Hs. rewrite Forall_forall. intros x Hx.
      specialize (H s Hs). rewrite Forall_forall in H. apply (H x Hx).
      specialize (Hw s Hs). rewrite Forall_forall in Hw. auto. }
    intros rest f Hok Hf. rewrite cost_path in Hf. destruct f as [|f]; [lia|]. rewrite render_path. destruct lead.
    + cbn [app pty]. rewrite (Rc_segs segs Hsegs HR rest f Hok) by lia. reflexivity.
    + cbn [app]. destruct segs as [|[i args] r]; [congruence|].
      assert (Hs : exists tl, sep_by [KColon2] (map seg_r ((i, args) :: r)) ++ rest = KId i :: tl).
      { destruct r; cbn [map]; [rewrite sep_by_one|rewrite sep_by_cons2]; destruct args; simpl; eauto. }
      destruct Hs as [tl Etl]. pose proof (Rc_segs _ Hsegs HR rest f Hok ltac:(lia)) as H1.
      rewrite Etl in *. cbn [pty]. rewrite H1. reflexivity.
  - match goal with HW : Forall wfp ts |- _ => rename HW into Hw end.
    assert (HR : Forall Rc ts) by (rewrite Forall_forall in *; intros x Hx; auto).
    intros rest f Hok Hf. rewrite cost_tuple in Hf. destruct f as [|f]; [lia|]. destruct ts as [|a [|b l]].
    + reflexivity.
    + inversion HR as [|? ? Ha _]; subst. inversion Hw as [|? ? Wa _]; subst.
      rewrite cost_list_cons in Hf.
      cbn [render app]. rewrite <- app_assoc.
      pose proof (render_starts a Wa ([KComma; KRParen] ++ rest)) as Hst. pose proof (not_rparen _ Hst) as Hnr.
      pose proof (Ha ([KComma; KRParen] ++ rest) f Logic.I ltac:(lia)) as H1.
      destruct (render a ++ [KComma; KRParen] ++ rest) as [|k tl] eqn:Etl; [destruct Hst|].
      cbn [pty]. destruct k; try contradiction; rewrite H1; reflexivity.
    + inversion HR as [|? ? Ha HR']; subst. inversion Hw as [|? ? Wa Hw']; subst. inversion Hw' as [|? ? Wb _]; subst.
      rewrite cost_list_cons in Hf.
      set (tail := sep_by [KComma] (map render (b :: l)) ++ KRParen :: rest) in *.
      assert (Er : render (PTuple (a :: b :: l)) ++ rest = KLParen :: render a ++ KComma :: tail).
      { unfold tail. change (render (PTuple (a :: b :: l))) with (KLParen :: sep_by [KComma] (map render (a :: b :: l)) ++ [KRParen]).
        cbn [map]. rewrite sep_by_cons2. cbn [app]. rewrite <- !app_assoc. reflexivity. }
      rewrite Er.
      pose proof (render_starts a Wa (KComma :: tail)) as Hst. pose proof (not_rparen _ Hst) as Hnr.
      assert (Htl : match tail with KRParen :: _ => False | _ => True end).
      { unfold tail. destruct l; cbn [map]; [rewrite sep_by_one|rewrite sep_by_cons2]; rewrite <- ?app_assoc; apply not_rparen, render_starts; auto. }
      pose proof (Ha (KComma :: tail) f Logic.I ltac:(lia)) as H1.
      pose proof (Rc_list (b :: l) ltac:(discriminate) HR' (KRParen :: rest) f Logic.I ltac:(lia)) as H2. fold tail in H2.
      destruct (render a ++ KComma :: tail) as [|k tl] eqn:Etl; [destruct Hst|].
      cbn [pty]. destruct k; try contradiction; rewrite H1;
        (destruct tail as [|k2 tl2] eqn:Et; [rewrite H2; reflexivity|destruct k2; try contradiction; rewrite H2; reflexivity]).
  - intros rest f Hok Hf. simpl cost in Hf. destruct f as [|f]; [lia|].
    cbn [render app pty]. rewrite <- app_assoc. rewrite (IHa ltac:(assumption) ([KSemi; KNum n; KRBrack] ++ rest) f Logic.I) by lia. reflexivity.
  - intros rest f Hok Hf. simpl cost in Hf. destruct f as [|f]; [lia|].
    cbn [render app pty]. rewrite <- app_assoc. rewrite (IHa ltac:(assumption) ([KRBrack] ++ rest) f Logic.I) by lia. reflexivity.
Qed.

(* the printed name, read with the fuel computed from the tree, denotes the type *)
Theorem name_denotes_cost t : wf_ty t -> denoted (cost (rewrite (std_ast t))) (recorded_name t) = Some t.
Proof.
  intros W. pose proof (read_render_cost _ (wfp_rewrite _ (wfp_std t)) [] _ Logic.I (le_n _)) as H0.
  unfold denoted, read, recorded_name. rewrite app_nil_r in H0. rewrite H0. apply denotes. exact W.
Qed.
