(* Every offset the strategies assign is bounded by what was requested: the end of a variant grows by at
   most size + alignment per added datum.  Consequence: if the sum of the requested (size + alignment) fits a
   usize, no datum of any variant ends beyond usize::MAX (`fits_usize`), so Display / max_size cannot overflow. *)
From Coq Require Import List NArith ZArith Lia Bool Arith Sorting.Sorted Permutation.
From Truc.Model Require Import Layout Builder.
From Truc.Proofs Require Import ArithP Sorted Basic Gaps Simple Strategies Variants BuilderInv LayoutThms Panics Refine12.
Import ListNotations.
Open Scope N_scope.

Definition w (ds : defs) (i : nat) : N := size ds i + al ds i.
Definition sumw (ds : defs) (l : list nat) : N := fold_right (fun i acc => w ds i + acc) 0 l.

Lemma sumw_app ds l1 l2 : sumw ds (l1 ++ l2) = sumw ds l1 + sumw ds l2.
Proof. induction l1 as [|i r IH]; simpl; [lia|]. rewrite IH. lia. Qed.
Lemma sumw_perm ds l1 l2 : Permutation l1 l2 -> sumw ds l1 = sumw ds l2.
Proof. induction 1; simpl; lia. Qed.
Lemma sumw_meta ds ds' l : same_meta ds ds' -> sumw ds' l = sumw ds l.
Proof.
  intros [_ M]. induction l as [|i r IH]; simpl; auto. unfold w. destruct (M i) as [-> ->]. now rewrite IH.
Qed.

(* ---------------------------------------------------------------- one push *)

Lemma push_end ds data i : (i < length ds)%nat -> ~ In i data -> 1 <= al ds i ->
  let '(data', ds', _, _) := push_datum data ds i in
  last_end ds' 0 data' <= last_end ds 0 data + w ds i.
Proof.
  intros Hi Hn Ha. unfold push_datum, end_of. rewrite last_end_app. simpl.
  rewrite dend_set_same by auto.
  pose proof (align_bytes_lt (last_end ds 0 data) (al ds i) Ha). unfold w. lia.
Qed.

(* ---------------------------------------------------------------- insertion before an existing datum *)

Lemma last_end_insert_before ds data k i o : (k < length data)%nat -> ~ In i data ->
  last_end (set_off ds i o) 0 (insert_at data k i) = last_end ds 0 data.
Proof.
  intros Hk Hn. unfold insert_at. rewrite last_end_app. simpl.
  assert (Hsk : skipn k data <> []).
  { intro E. apply (f_equal (@length nat)) in E. rewrite skipn_length in E. simpl in E. lia. }
  rewrite (last_end_nonempty _ _ (last_end ds 0 (firstn k data)) _ Hsk).
  rewrite last_end_set_other by (intro H; apply Hn; eapply In_skipn; eauto).
  rewrite <- last_end_app, firstn_skipn. reflexivity.
Qed.

Lemma insert_at_end {A} (l : list A) x : insert_at l (length l) x = l ++ [x].
Proof. unfold insert_at. now rewrite firstn_all, skipn_all. Qed.

(* ---------------------------------------------------------------- simple *)

Lemma simple_step_end st i :
  sinv st -> ~ In i (s_data st) -> (i < length (s_defs st))%nat -> 1 <= al (s_defs st) i ->
  last_end (s_defs (simple_step st i)) 0 (s_data (simple_step st i)) <= last_end (s_defs st) 0 (s_data st) + w (s_defs st) i.
Proof.
  intros [Hs Hg] Hn Hi Ha. unfold simple_step.
  destruct (choose _ _) as [f|] eqn:Ec; simpl.
  - assert (Hf : fit_ok (s_gaps st) (size (s_defs st) i) (al (s_defs st) i) f).
    { eapply choose_ok; [exact Ha| |exact Ec]. apply collect_fits_ok; auto. }
    destruct Hf as (Hf1 & _).
    destruct Hg as [Hg _]. rewrite Forall_forall in Hg.
    assert (Hin : In (nth (f_gap f) (s_gaps st) (mkGap 0 0 0)) (s_gaps st)) by (apply nth_In; exact Hf1).
    destruct (Hg _ Hin) as (Hidx & _).
    rewrite last_end_insert_before; auto. lia.
  - pose proof (push_end (s_defs st) (s_data st) i Hi Hn Ha) as H.
    unfold push_datum in *. simpl in *. exact H.
Qed.

(* ---------------------------------------------------------------- basic *)

Section Walk.
Variables (ds : defs) (data : list nat) (sz a : N).

(* upper bound on the byte caret: it never runs ahead of the data already passed, except when it sits
   exactly on the datum the data caret points to (the one inserted by the previous step) *)
Definition ub (dc : nat) (bc : N) : Prop :=
  bc <= last_end ds 0 (firstn dc data) \/ (exists j, nth_error data dc = Some j /\ off ds j = bc).

Lemma walk_ub fuel : forall dc bc, ub dc bc ->
  let '(dc', bc') := basic_walk fuel data ds sz a dc bc in
  (length data <= dc')%nat -> bc' <= last_end ds 0 data.
Proof.
  induction fuel as [|f IH]; intros dc bc Hub; simpl.
  - intros Hl. destruct Hub as [H|(j & Hj & _)].
    + now rewrite firstn_all2 in H by lia.
    + exfalso. assert (nth_error data dc <> None) by congruence. apply nth_error_Some in H. lia.
  - destruct (nth_error data dc) as [c|] eqn:Ec.
    + assert (Hfirst : firstn (S dc) data = firstn dc data ++ [c]) by now apply firstn_S_nth.
      destruct (off ds c =? bc) eqn:Eo.
      * apply N.eqb_eq in Eo. apply IH. left. rewrite Hfirst, last_end_app. simpl. unfold dend. rewrite Eo. lia.
      * destruct (align_bytes bc a + sz <=? off ds c).
        -- intros Hl. exfalso. assert (nth_error data dc <> None) by congruence. apply nth_error_Some in H. lia.
        -- apply IH. left. rewrite Hfirst, last_end_app. simpl. lia.
    + intros Hl. destruct Hub as [H|(j & Hj & _)]; [|congruence].
      apply nth_error_None in Ec. now rewrite firstn_all2 in H by lia.
Qed.
End Walk.

Definition binv2 (st : bstate) : Prop := binv st /\ ub (b_defs st) (b_data st) (b_dc st) (b_bc st).

Lemma basic_step_end st i :
  binv2 st -> ~ In i (b_data st) -> (i < length (b_defs st))%nat -> 1 <= al (b_defs st) i ->
  binv2 (basic_step st i) /\
  last_end (b_defs (basic_step st i)) 0 (b_data (basic_step st i)) <= last_end (b_defs st) 0 (b_data st) + w (b_defs st) i.
Proof.
  intros [Hb Hub] Hn Hi Ha.
  destruct (basic_step_inv st i Hb Hn Hi Ha) as [Hb' _].
  destruct Hb as [Hs Hw]. unfold basic_step in *.
  pose proof (basic_walk_post (b_defs st) (b_data st) (size (b_defs st) i) (al (b_defs st) i) Ha Hs
                (S (length (b_data st))) (b_dc st) (b_bc st)) as Hp.
  pose proof (walk_ub (b_defs st) (b_data st) (size (b_defs st) i) (al (b_defs st) i) (S (length (b_data st))) (b_dc st) (b_bc st) Hub) as Hu.
  destruct (basic_walk _ _ _ _ _ _ _) as [dc' bc'].
  specialize (Hp ltac:(destruct Hw; lia) Hw). destruct Hp as (Hdc & Hlo & Hhi). simpl in *.
  split; [split; [exact Hb'|]|].
  - right. exists i. split; [apply nth_insert_at; auto|apply off_set_same; auto].
  - destruct (Nat.lt_ge_cases dc' (length (b_data st))) as [Hlt|Hge].
    + rewrite last_end_insert_before; auto. lia.
    + assert (dc' = length (b_data st)) by lia. subst dc'. rewrite insert_at_end, last_end_app. simpl.
      rewrite dend_set_same by auto. specialize (Hu ltac:(lia)).
      pose proof (align_bytes_lt bc' (al (b_defs st) i) Ha). unfold w. lia.
Qed.

(* ---------------------------------------------------------------- a fold of steps *)

Section FoldB.
Variables (S : Type) (sdata : S -> list nat) (sdefs : S -> defs) (step : S -> nat -> S) (inv : S -> Prop).
Variable ds0 : defs.
Variable data0 : list nat.
Hypothesis step_ok : forall st i,
  inv st -> ~ In i (sdata st) -> (i < length (sdefs st))%nat -> 1 <= al (sdefs st) i ->
  inv (step st i) /\ Permutation (sdata (step st i)) (i :: sdata st) /\
  same_meta (sdefs st) (sdefs (step st i)) /\
  last_end (sdefs (step st i)) 0 (sdata (step st i)) <= last_end (sdefs st) 0 (sdata st) + w (sdefs st) i.

Lemma fold_bound : forall add st done,
  inv st -> Permutation (sdata st) (done ++ data0) -> same_meta ds0 (sdefs st) ->
  NoDup (done ++ add) -> (forall i, In i add -> ~ In i data0) ->
  (forall i, In i add -> (i < length ds0)%nat /\ 1 <= al ds0 i) ->
  last_end (sdefs (fold_left step add st)) 0 (sdata (fold_left step add st))
  <= last_end (sdefs st) 0 (sdata st) + sumw ds0 add.
Proof.
  induction add as [|i add IH]; intros st done Hinv Hp Hm Hnd Hdis Hval; simpl; [lia|].
  destruct Hm as [Hlen Hmeta].
  assert (Hi_notin : ~ In i (sdata st)).
  { intro Hin. eapply Permutation_in in Hin; [|exact Hp]. apply in_app_or in Hin. destruct Hin as [Hin|Hin].
    - apply NoDup_remove_2 in Hnd. apply Hnd. apply in_or_app; auto.
    - eapply Hdis; [left; reflexivity|exact Hin]. }
  destruct (Hval i (or_introl eq_refl)) as [Hi1 Hi2].
  destruct (Hmeta i) as [Hsz Hali].
  destruct (step_ok st i Hinv Hi_notin ltac:(lia) ltac:(rewrite Hali; auto)) as (I1 & I2 & I3 & I4).
  specialize (IH (step st i) (done ++ [i])).
  replace ((done ++ [i]) ++ add) with (done ++ i :: add) in IH by (rewrite <- app_assoc; reflexivity).
  assert (Hw : w (sdefs st) i = w ds0 i) by (unfold w; now rewrite Hsz, Hali).
  etransitivity; [apply IH|]; auto.
  - rewrite I2, Hp. rewrite <- app_assoc. simpl. apply Permutation_middle.
  - eapply same_meta_trans; [split; eauto|auto].
  - intros k Hk. apply Hdis. right; auto.
  - intros k Hk. apply Hval. right; auto.
  - lia.
Qed.
End FoldB.

(* ---------------------------------------------------------------- the four strategies *)

Lemma append_end ds data0 add : pre ds data0 add ->
  let r := fold_left append_step add (data0, ds) in last_end (snd r) 0 (fst r) <= last_end ds 0 data0 + sumw ds add.
Proof.
  intros (Hs & Hnd & Hdis & Hval). cbv zeta.
  apply (fold_bound (list nat * defs) fst snd append_step (fun st => sorted_from (snd st) 0 (fst st)) ds data0) with (done := []); auto.
  - intros st i H1 H2 H3 H4. destruct (append_step_ok st i H1 H2 H3 H4 H1) as [_ H]. cbv zeta in H.
    destruct H as (A1 & A2 & A3 & _). split; [exact A1|]. split; [exact A2|]. split; [exact A3|].
    unfold append_step. pose proof (push_end (snd st) (fst st) i H3 H2 H4) as E.
    destruct (push_datum (fst st) (snd st) i) as [[[d' s'] gs] ge]. exact E.
  - apply same_meta_refl.
Qed.

Lemma basic_end ds data0 add : pre ds data0 add ->
  let st := fold_left basic_step add (mkB data0 ds O 0) in
  last_end (b_defs st) 0 (b_data st) <= last_end ds 0 data0 + sumw ds add.
Proof.
  intros (Hs & Hnd & Hdis & Hval). cbv zeta.
  apply (fold_bound bstate b_data b_defs basic_step binv2 ds data0) with (done := []); auto.
  - intros st i H1 H2 H3 H4. destruct (basic_step_end st i H1 H2 H3 H4) as [B1 B2].
    split; [exact B1|]. split; [|split; [|exact B2]].
    + unfold basic_step. destruct (basic_walk _ _ _ _ _ _ _). simpl. apply insert_at_perm.
    + unfold basic_step. destruct (basic_walk _ _ _ _ _ _ _). simpl. apply same_meta_set.
  - split; [split; auto|].
    + simpl. split; [lia|]. split; simpl; [lia|]. intros; lia.
    + left. simpl. lia.
  - apply same_meta_refl.
Qed.

Lemma simple_end ds data0 add : pre ds data0 add ->
  let st := fold_left simple_step (sort_by_size_desc ds add) (mkS data0 ds (initial_gaps false data0 ds 0 0)) in
  last_end (s_defs st) 0 (s_data st) <= last_end ds 0 data0 + sumw ds add.
Proof.
  intros (Hs & Hnd & Hdis & Hval). cbv zeta.
  set (add' := sort_by_size_desc ds add).
  assert (Hperm : Permutation add' add) by apply sort_perm.
  rewrite <- (sumw_perm ds add' add Hperm).
  apply (fold_bound sstate s_data s_defs simple_step sinv ds data0) with (done := []); auto.
  - intros st i H1 H2 H3 H4. destruct (simple_step_full st i H1 H2 H3 H4) as (A1 & A2 & _ & A4 & _).
    split; [exact A1|]. split; [exact A2|]. split; [exact A4|]. apply simple_step_end; auto.
  - split; auto. simpl. destruct (initial_gaps_ok ds data0 Hs [] data0 eq_refl) as (G1 & G2 & _). split; auto.
  - apply same_meta_refl.
  - simpl. eapply Permutation_NoDup; [symmetry; exact Hperm|exact Hnd].
  - intros i Hi. apply Hdis. eapply Permutation_in; eauto.
  - intros i Hi. apply Hval. eapply Permutation_in; eauto.
Qed.

Lemma run_strat_end s ds data add rm :
  native s -> pre ds (remove_data data rm) add ->
  let r := run_strat s data add rm ds in
  last_end (snd r) 0 (fst r) <= last_end ds 0 (remove_data data rm) + sumw ds add.
Proof.
  intros Hn Hpre. cbv zeta. destruct Hn as [->|[->|[->| ->]]]; simpl.
  - apply (simple_end ds _ add Hpre).
  - apply (basic_end ds _ add Hpre).
  - apply (append_end ds _ add Hpre).
  - unfold append_data_reverse, append_data.
    destruct Hpre as (P1 & P2 & P3 & P4).
    rewrite <- (sumw_perm ds (rev add) add) by (symmetry; apply Permutation_rev).
    apply (append_end ds _ (rev add)). repeat split; auto.
    + now apply NoDup_rev.
    + intros i Hi. apply P3. now apply in_rev.
    + apply P4. now apply in_rev.
    + apply P4. now apply in_rev.
Qed.

(* ---------------------------------------------------------------- the builder: a potential argument *)

Definition nonpending (b : builder) : list nat :=
  filter (fun i => negb (mem i (b_add b))) (seq 0 (length (b_ds b))).
(* weight of the definitions that are not pending additions *)
Definition W (b : builder) : N := sumw (b_ds b) (nonpending b).
Definition bounded (b : builder) : Prop := forall v, In v (b_vs b) -> last_end (b_ds b) 0 v <= W b.

Lemma sumw_filter_mono ds (p q : nat -> bool) l :
  (forall i, In i l -> p i = true -> q i = true) -> sumw ds (filter p l) <= sumw ds (filter q l).
Proof.
  induction l as [|i r IH]; simpl; intros H; [lia|].
  assert (IH' := IH (fun j Hj => H j (or_intror Hj))).
  destruct (p i) eqn:Ep.
  - rewrite (H i (or_introl eq_refl) Ep). simpl. lia.
  - destruct (q i); simpl; lia.
Qed.

Lemma sumw_ext ds ds' l : (forall i, In i l -> size ds' i = size ds i /\ al ds' i = al ds i) -> sumw ds' l = sumw ds l.
Proof.
  induction l as [|i r IH]; simpl; intros H; auto. unfold w. destruct (H i (or_introl eq_refl)) as [-> ->].
  rewrite IH; auto.
Qed.

Lemma last_end_ext ds ds' l : forall lo, (forall i, In i l -> off ds' i = off ds i /\ size ds' i = size ds i) ->
  last_end ds' lo l = last_end ds lo l.
Proof.
  induction l as [|i r IH]; simpl; intros lo H; auto. unfold dend. destruct (H i (or_introl eq_refl)) as [-> ->].
  apply IH. intros; apply H; auto.
Qed.

Lemma last_end_mono_lo ds l lo lo' : lo <= lo' -> last_end ds lo l <= last_end ds lo' l.
Proof. destruct l; simpl; intros; lia. Qed.

Lemma last_end_filter ds f : forall l lo, sorted_from ds lo l -> last_end ds lo (filter f l) <= last_end ds lo l.
Proof.
  induction l as [|i r IH]; simpl; intros lo H; [lia|]. destruct H as [H1 H2].
  destruct (f i); simpl; [apply IH; auto|].
  etransitivity; [apply (last_end_mono_lo ds (filter f r) lo (dend ds i))|apply IH; auto].
  pose proof (dend_ge ds i). lia.
Qed.

Lemma dend_le_last ds : forall l lo i, sorted_from ds lo l -> In i l -> dend ds i <= last_end ds lo l.
Proof.
  induction l as [|j r IH]; simpl; intros lo i Hs Hi; [tauto|]. destruct Hs as [H1 H2].
  destruct Hi as [->|Hi]; [apply sorted_from_le_last; auto|apply IH; auto].
Qed.

Lemma partition_perm {A} (p : A -> bool) l : Permutation l (filter p l ++ filter (fun x => negb (p x)) l).
Proof.
  induction l as [|x r IH]; simpl; auto. destruct (p x); simpl.
  - now apply perm_skip.
  - rewrite IH at 1. apply Permutation_middle.
Qed.

Lemma mem_In' i l : mem i l = true <-> In i l.
Proof.
  unfold mem. rewrite existsb_exists. split.
  - intros (x & Hx & E). apply Nat.eqb_eq in E. now subst.
  - intros H. exists i. split; auto. apply Nat.eqb_refl.
Qed.

Lemma filter_mem_perm add n : NoDup add -> (forall i, In i add -> (i < n)%nat) ->
  Permutation (filter (fun i => mem i add) (seq 0 n)) add.
Proof.
  intros Hnd Hlt. apply NoDup_Permutation; auto.
  - apply NoDup_filter. apply seq_NoDup.
  - intros x. rewrite filter_In, in_seq, mem_In'. split; [tauto|]. intros H. split; auto. specialize (Hlt x H). lia.
Qed.

Lemma step_bounded b r : req_ok r -> wf b -> bounded b -> bounded (fst (step b r)).
Proof.
  intros Hr Wf Hb. destruct r as [nm ty sz a u|i|s|nm|v nm]; try exact Hb.
  - (* Add *)
    simpl. destruct (current_by_name b nm); [exact Hb|]. simpl.
    set (n := length (b_ds b)). set (d := mkDatum nm ty sz a u MAXU).
    assert (Hold : forall j, (j < n)%nat -> getd (b_ds b ++ [d]) j = getd (b_ds b) j) by (intros; apply getd_app_old; auto).
    assert (HW : W (mkBuilder (b_ds b ++ [d]) (b_vs b) (b_add b ++ [n]) (b_rm b)) = W b).
    { unfold W, nonpending. simpl. rewrite app_length. simpl. replace (length (b_ds b) + 1)%nat with (S n) by (unfold n; lia).
      rewrite seq_S, filter_app. simpl.
      assert (Hn : mem n (b_add b ++ [n]) = true) by (apply mem_In'; apply in_or_app; simpl; auto).
      rewrite Hn. simpl. rewrite app_nil_r.
      rewrite (filter_ext_in (fun i => negb (mem i (b_add b ++ [n]))) (fun i => negb (mem i (b_add b)))).
      - apply sumw_ext. intros i Hi. apply filter_In in Hi. destruct Hi as [Hi _]. apply in_seq in Hi.
        unfold size, al. rewrite Hold by (unfold n; lia). auto.
      - intros i Hi. apply in_seq in Hi. f_equal. unfold mem. rewrite existsb_app. simpl.
        assert (E : Nat.eqb i n = false) by (apply Nat.eqb_neq; unfold n; lia). rewrite E. simpl. now rewrite orb_false_r. }
    intros v Hv. simpl in Hv. rewrite HW. cbn [b_ds].
    rewrite (last_end_ext (b_ds b) (b_ds b ++ [d])); [apply Hb; auto|].
    intros i Hi. destruct (wf_v _ Wf v Hv) as (_ & _ & Hlt). destruct (Hlt i Hi) as [Hl _].
    unfold off, size. rewrite Hold; auto.
  - (* Remove: the pending set can only shrink *)
    assert (Hmono : forall add', (forall j, In j add' -> In j (b_add b)) ->
              bounded (mkBuilder (b_ds b) (b_vs b) add' (b_rm b)) /\ forall rm', bounded (mkBuilder (b_ds b) (b_vs b) add' rm')).
    { intros add' Hsub. assert (H : forall rm', bounded (mkBuilder (b_ds b) (b_vs b) add' rm')).
      { intros rm' v Hv. simpl in *. etransitivity; [apply Hb; auto|]. unfold W, nonpending. simpl.
        apply sumw_filter_mono. intros j _ Hj. apply negb_true_iff in Hj. apply negb_true_iff.
        apply not_true_is_false. intro Hm. apply mem_In' in Hm. apply Hsub in Hm. apply mem_In' in Hm. congruence. }
      split; auto. }
    simpl. destruct (b_vs b) eqn:Ev.
    + destruct (mem i (b_add b)); simpl; [|exact Hb].
      apply (proj1 (Hmono (remove_first i (b_add b)) (fun j Hj => remove_first_sub i _ j Hj))).
    + destruct (mem i (last_variant b)); [destruct (mem i (b_rm b))|destruct (mem i (b_add b))]; simpl; try exact Hb.
      * apply (proj2 (Hmono (b_add b) (fun j Hj => Hj))).
      * apply (proj1 (Hmono (remove_first i (b_add b)) (fun j Hj => remove_first_sub i _ j Hj))).
  - (* Close *)
    simpl in Hr. unfold step. destruct (has_pending_changes b) eqn:HP; [|exact Hb].
    pose proof (wf_pre b Wf) as Hpre.
    pose proof (run_strat_post s _ _ _ Hr Hpre (b_rm b) (last_variant b) eq_refl) as Hpost.
    pose proof (run_strat_end s (b_ds b) (last_variant b) (b_add b) (b_rm b) Hr Hpre) as Hend.
    cbv zeta in Hpost, Hend.
    destruct (run_strat s (last_variant b) (b_add b) (b_rm b) (b_ds b)) as [dt ds2]. simpl in *.
    destruct Hpost as [Q1 Q2 [Q3a Q3b] Q4 Q5].
    set (n := length (b_ds b)).
    assert (HW : W (mkBuilder ds2 (b_vs b ++ [dt]) [] []) = W b + sumw (b_ds b) (b_add b)).
    { unfold W, nonpending. simpl. rewrite Q3a.
      assert (Hall : filter (fun _ : nat => true) (seq 0 (length (b_ds b))) = seq 0 (length (b_ds b))).
      { generalize (seq 0 (length (b_ds b))). induction l as [|x l IH]; simpl; congruence. }
      rewrite Hall. rewrite (sumw_meta (b_ds b) ds2) by (split; auto).
      rewrite (sumw_perm _ _ _ (partition_perm (fun i => negb (mem i (b_add b))) (seq 0 (length (b_ds b))))), sumw_app.
      f_equal. apply sumw_perm.
      rewrite (filter_ext_in (fun x => negb (negb (mem x (b_add b)))) (fun i => mem i (b_add b))) by (intros; apply negb_involutive).
      apply filter_mem_perm; [apply (wf_add_nd _ Wf)|]. intros i Hi. apply (wf_add _ Wf i Hi). }
    intros v Hv. rewrite HW. apply in_app_or in Hv. destruct Hv as [Hv|[<-|[]]].
    + rewrite (last_end_ext (b_ds b) ds2).
      * specialize (Hb v Hv). lia.
      * intros i Hi. destruct (Q3b i) as [Hsz _]. split; auto. apply Q4. intro Hin.
        destruct (wf_add _ Wf i Hin) as [_ Hno]. apply (Hno v Hv Hi).
    + etransitivity; [exact Hend|]. apply N.add_le_mono_r.
      etransitivity; [apply last_end_filter; apply last_variant_facts; auto|].
      unfold last_variant. destruct (b_vs b) as [|v0 vs'] eqn:Ev; [simpl; lia|].
      apply Hb. rewrite Ev. apply last_In. discriminate.
Qed.

Lemma run_from_bounded h : hist_ok h -> forall b, wf b -> bounded b -> bounded (run_from b h).
Proof.
  induction 1 as [|r h Hr Hh IH]; intros b Wf Hb; simpl; auto.
  apply IH; [apply step_facts; auto|apply step_bounded; auto].
Qed.

Theorem run_bounded h : hist_ok h -> bounded (run h).
Proof. intros H. apply (run_from_bounded h H _ wf_empty). intros v []. Qed.

(* ---------------------------------------------------------------- the bound in terms of the requests *)

Definition total (ds : defs) : N := fold_right (fun d acc => d_size d + d_align d + acc) 0 ds.
(* what the history asked for: the sum of size + alignment over its Add requests *)
Definition hbound (h : list req) : N :=
  fold_right (fun r acc => match r with Add _ _ sz a _ => sz + a + acc | _ => acc end) 0 h.

Lemma total_app ds1 ds2 : total (ds1 ++ ds2) = total ds1 + total ds2.
Proof. induction ds1 as [|d r IH]; simpl; [lia|]. rewrite IH. lia. Qed.

Lemma sumw_shift d ds l : sumw (d :: ds) (map S l) = sumw ds l.
Proof. induction l as [|i r IH]; simpl; auto. now rewrite IH. Qed.

Lemma sumw_seq_total ds : sumw ds (seq 0 (length ds)) = total ds.
Proof.
  induction ds as [|d r IH]; simpl; auto. rewrite <- seq_shift, sumw_shift, IH. reflexivity.
Qed.

Lemma W_le_total b : W b <= total (b_ds b).
Proof.
  unfold W, nonpending. rewrite <- sumw_seq_total.
  etransitivity; [apply (sumw_filter_mono _ _ (fun _ => true)); auto|].
  assert (H : forall l : list nat, filter (fun _ => true) l = l) by (induction l; simpl; congruence).
  rewrite H. lia.
Qed.

Lemma step_total b r : req_ok r -> wf b ->
  total (b_ds (fst (step b r))) <= total (b_ds b) + match r with Add _ _ sz a _ => sz + a | _ => 0 end.
Proof.
  intros Hr Wf. destruct r as [nm ty sz a u|i|s|nm|v nm]; simpl; try lia.
  - destruct (current_by_name b nm); simpl; [lia|]. rewrite total_app. simpl. lia.
  - destruct (b_vs b).
    + destruct (mem i (b_add b)); simpl; lia.
    + destruct (mem i (last_variant b)); [destruct (mem i (b_rm b))|destruct (mem i (b_add b))]; simpl; lia.
  - destruct (close_facts b s Hr Wf) as (_ & F & _ & _ & L). simpl in F, L.
    rewrite <- (sumw_seq_total (b_ds (fst _))), L, <- sumw_seq_total.
    rewrite (sumw_ext (b_ds b)); [lia|]. intros i Hi. apply in_seq in Hi.
    destruct (fr_meta _ _ F i ltac:(lia)) as (A1 & A2 & _). auto.
Qed.

Lemma run_from_total h : hist_ok h -> forall b, wf b -> total (b_ds (run_from b h)) <= total (b_ds b) + hbound h.
Proof.
  induction 1 as [|r h Hr Hh IH]; intros b Wf; simpl; [lia|].
  etransitivity; [apply IH; apply step_facts; auto|].
  pose proof (step_total b r Hr Wf). destruct r; lia.
Qed.

(* if the requested sizes and alignments add up to at most usize::MAX, nothing the builder places ends beyond it *)
Theorem fits_of_bound h : hist_ok h -> hbound h <= MAXU -> fits_usize (b_ds (run h)) (b_vs (run h)).
Proof.
  intros Hh Hb v i Hv Hi.
  destruct (wf_v _ (run_wf h Hh) v Hv) as (Hs & _).
  etransitivity; [apply (dend_le_last _ v 0 i Hs Hi)|].
  etransitivity; [apply (run_bounded h Hh v Hv)|].
  etransitivity; [apply W_le_total|].
  pose proof (run_from_total h Hh empty_builder wf_empty) as Ht. simpl in Ht. unfold run. lia.
Qed.
