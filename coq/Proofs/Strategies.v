From Coq Require Import List NArith Lia Bool Arith Sorting.Sorted Permutation.
From Truc.Model Require Import Layout.
From Truc.Proofs Require Import ArithP Sorted Basic Gaps Simple.
Import ListNotations.
Open Scope N_scope.

(* ---------- generic facts ---------- *)
Lemma insert_at_perm (l : list id) k x : Permutation (insert_at l k x) (x :: l).
Proof.
  unfold insert_at. rewrite <- (firstn_skipn k l) at 3.
  symmetry. apply Permutation_middle.
Qed.

Lemma getd_ext_size ds ds' i : getd ds' i = getd ds i -> size ds' i = size ds i /\ al ds' i = al ds i /\ off ds' i = off ds i.
Proof. unfold size, al, off. intros ->. auto. Qed.

(* meta-data (size, align, length) never change; offsets change only for listed ids *)
Definition same_meta (ds ds' : defs) : Prop :=
  length ds' = length ds /\ forall j, size ds' j = size ds j /\ al ds' j = al ds j.
Lemma same_meta_refl ds : same_meta ds ds. Proof. split; auto. Qed.
Lemma same_meta_trans a b c : same_meta a b -> same_meta b c -> same_meta a c.
Proof. intros [L1 M1] [L2 M2]. split; [congruence|]. intros j. destruct (M1 j), (M2 j). split; congruence. Qed.
Lemma same_meta_set ds i o : same_meta ds (set_off ds i o).
Proof. split; [apply set_off_length|]. intros j. split; [apply size_set|apply al_set]. Qed.

(* What every strategy must guarantee *)
Record post (ds : defs) (data0 add : list id) (data' : list id) (ds' : defs) : Prop := {
  p_sorted : sorted_from ds' 0 data';
  p_perm : Permutation data' (add ++ data0);
  p_meta : same_meta ds ds';
  p_frame : forall j, ~ In j add -> off ds' j = off ds j;
  p_align : forall i, In i add -> off ds' i mod al ds i = 0 }.

Definition pre (ds : defs) (data0 add : list id) : Prop :=
  sorted_from ds 0 data0 /\ NoDup add /\ (forall i, In i add -> ~ In i data0) /\
  (forall i, In i add -> (i < length ds)%nat /\ 1 <= al ds i).

(* a generic fold lemma: step-wise invariant J over (processed, state) *)
Section Fold.
Variables (S : Type) (sdata : S -> list id) (sdefs : S -> defs) (step : S -> id -> S) (inv : S -> Prop).
Variable ds0 : defs.
Variable data0 : list id.
Hypothesis step_ok : forall st i,
  inv st -> ~ In i (sdata st) -> (i < length (sdefs st))%nat -> 1 <= al (sdefs st) i ->
  inv (step st i) /\ Permutation (sdata (step st i)) (i :: sdata st) /\
  sorted_from (sdefs (step st i)) 0 (sdata (step st i)) /\
  same_meta (sdefs st) (sdefs (step st i)) /\
  (forall j, j <> i -> off (sdefs (step st i)) j = off (sdefs st) j) /\
  off (sdefs (step st i)) i mod al (sdefs st) i = 0.

Lemma fold_post : forall add st done,
  inv st -> sorted_from (sdefs st) 0 (sdata st) -> Permutation (sdata st) (done ++ data0) ->
  same_meta ds0 (sdefs st) ->
  (forall j, ~ In j done -> off (sdefs st) j = off ds0 j) ->
  (forall i, In i done -> off (sdefs st) i mod al ds0 i = 0) ->
  NoDup (done ++ add) -> (forall i, In i add -> ~ In i data0) ->
  (forall i, In i add -> (i < length ds0)%nat /\ 1 <= al ds0 i) ->
  let st' := fold_left step add st in
  sorted_from (sdefs st') 0 (sdata st') /\ Permutation (sdata st') ((done ++ add) ++ data0) /\
  same_meta ds0 (sdefs st') /\
  (forall j, ~ In j (done ++ add) -> off (sdefs st') j = off ds0 j) /\
  (forall i, In i (done ++ add) -> off (sdefs st') i mod al ds0 i = 0).
Proof.
  induction add as [|i add IH]; intros st done Hinv Hs Hp Hm Hfr Hal Hnd Hdis Hval; cbv zeta; simpl.
  - rewrite app_nil_r. repeat split; auto; apply Hm.
  - destruct Hm as [Hlen Hmeta].
    assert (Hi_notin : ~ In i (sdata st)).
    { intro Hin. eapply Permutation_in in Hin; [|exact Hp]. apply in_app_or in Hin. destruct Hin as [Hin|Hin].
      - apply NoDup_remove_2 in Hnd. apply Hnd. apply in_or_app; auto.
      - eapply Hdis; [left; reflexivity|exact Hin]. }
    destruct (Hval i (or_introl eq_refl)) as [Hi1 Hi2].
    destruct (Hmeta i) as [Hsz Hali].
    destruct (step_ok st i Hinv Hi_notin ltac:(lia) ltac:(rewrite Hali; auto)) as (I1 & I2 & I3 & I4 & I5 & I6).
    specialize (IH (step st i) (done ++ [i])).
    replace ((done ++ [i]) ++ add) with (done ++ i :: add) in IH by (rewrite <- app_assoc; reflexivity).
    apply IH; auto.
    + rewrite I2. rewrite Hp. rewrite <- app_assoc. simpl. apply Permutation_middle.
    + eapply same_meta_trans; [split; eauto|auto].
    + intros j Hj. rewrite I5; [apply Hfr|]; intro; apply Hj; apply in_or_app; subst; simpl; auto.
    + intros k Hk. apply in_app_or in Hk. destruct Hk as [Hk|[<-|[]]].
      * rewrite I5; auto. intro; subst. apply NoDup_remove_2 in Hnd. apply Hnd. apply in_or_app; auto.
      * rewrite <- Hali. auto.
    + intros k Hk. apply Hdis. right; auto.
    + intros k Hk. apply Hval. right; auto.
Qed.
End Fold.

(* ---------- append ---------- *)
Lemma append_step_ok st i :
  sorted_from (snd st) 0 (fst st) -> ~ In i (fst st) -> (i < length (snd st))%nat -> 1 <= al (snd st) i ->
  sorted_from (snd st) 0 (fst st) -> True /\
  let st' := append_step st i in
  sorted_from (snd st') 0 (fst st') /\ Permutation (fst st') (i :: fst st) /\
  same_meta (snd st) (snd st') /\ (forall j, j <> i -> off (snd st') j = off (snd st) j) /\
  off (snd st') i mod al (snd st) i = 0.
Proof.
  intros Hs Hn Hi Ha _. split; auto. cbv zeta. unfold append_step.
  pose proof (push_sorted (snd st) (fst st) i Hs Hn Hi Ha) as Hp.
  destruct (push_datum (fst st) (snd st) i) as [[[data' ds'] gs] ge].
  destruct Hp as (Hs' & -> & -> & Hge & Hle & Hmod & ->). simpl.
  repeat split; auto.
  - symmetry. apply Permutation_cons_append.
  - apply set_off_length.
  - apply size_set.
  - apply al_set.
  - intros j Hj. apply off_set_other; auto.
  - rewrite <- Hge. auto.
Qed.

Lemma append_post ds data0 add :
  pre ds data0 add ->
  let r := fold_left append_step add (data0, ds) in post ds data0 add (fst r) (snd r).
Proof.
  intros (Hs & Hnd & Hdis & Hval). cbv zeta.
  pose proof (fold_post (list id * defs) fst snd append_step (fun st => sorted_from (snd st) 0 (fst st)) ds data0) as F.
  specialize (F ltac:(intros st i H1 H2 H3 H4; destruct (append_step_ok st i H1 H2 H3 H4 H1) as [_ H]; cbv zeta in H; tauto)).
  specialize (F add (data0, ds) [] Hs Hs (Permutation_refl _) (same_meta_refl _)
                ltac:(auto) ltac:(intros ? []) Hnd Hdis Hval).
  cbv zeta in F. simpl in F. destruct F as (F1 & F2 & F3 & F4 & F5). constructor; auto.
Qed.

(* ---------- basic ---------- *)
Lemma basic_post ds data0 add :
  pre ds data0 add ->
  let st := fold_left basic_step add (mkB data0 ds O 0) in post ds data0 add (b_data st) (b_defs st).
Proof.
  intros (Hs & Hnd & Hdis & Hval). cbv zeta.
  pose proof (fold_post bstate b_data b_defs basic_step binv ds data0) as F.
  assert (Hstep : forall st i, binv st -> ~ In i (b_data st) -> (i < length (b_defs st))%nat -> 1 <= al (b_defs st) i ->
     binv (basic_step st i) /\ Permutation (b_data (basic_step st i)) (i :: b_data st) /\
     sorted_from (b_defs (basic_step st i)) 0 (b_data (basic_step st i)) /\
     same_meta (b_defs st) (b_defs (basic_step st i)) /\
     (forall j, j <> i -> off (b_defs (basic_step st i)) j = off (b_defs st) j) /\
     off (b_defs (basic_step st i)) i mod al (b_defs st) i = 0).
  { intros st i H1 H2 H3 H4. destruct (basic_step_inv st i H1 H2 H3 H4) as [Hb Hm].
    split; auto. split; [|split; [apply Hb|split; [|split; auto]]].
    - unfold basic_step. destruct (basic_walk _ _ _ _ _ _ _). simpl. apply insert_at_perm.
    - unfold basic_step. destruct (basic_walk _ _ _ _ _ _ _). simpl. apply same_meta_set.
    - intros j Hj. unfold basic_step. destruct (basic_walk _ _ _ _ _ _ _). simpl. apply off_set_other; auto. }
  specialize (F Hstep add (mkB data0 ds O 0) []).
  assert (Hb0 : binv (mkB data0 ds 0 0)).
  { split; auto. simpl. split; [lia|]. split; simpl; [lia|]. intros; lia. }
  specialize (F Hb0 Hs (Permutation_refl _) (same_meta_refl _) ltac:(auto) ltac:(intros ? []) Hnd Hdis Hval).
  cbv zeta in F. simpl in F. destruct F as (F1 & F2 & F3 & F4 & F5). constructor; auto.
Qed.

(* ---------- simple (fixed) ---------- *)
Lemma simple_step_full st i :
  sinv st -> ~ In i (s_data st) -> (i < length (s_defs st))%nat -> 1 <= al (s_defs st) i ->
  sinv (simple_step st i) /\ Permutation (s_data (simple_step st i)) (i :: s_data st) /\
  sorted_from (s_defs (simple_step st i)) 0 (s_data (simple_step st i)) /\
  same_meta (s_defs st) (s_defs (simple_step st i)) /\
  (forall j, j <> i -> off (s_defs (simple_step st i)) j = off (s_defs st) j) /\
  off (s_defs (simple_step st i)) i mod al (s_defs st) i = 0.
Proof.
  intros Hinv Hn Hi Ha. pose proof (simple_step_inv st i Hinv Hn Hi Ha) as Hinv'.
  split; auto. split; [|split; [apply Hinv'|]].
  - unfold simple_step. destruct (choose _ _); simpl; [apply insert_at_perm|].
    unfold push_datum. simpl. symmetry. apply Permutation_cons_append.
  - destruct Hinv as [Hs Hg]. unfold simple_step.
    destruct (choose _ _) as [f|] eqn:Ec; simpl.
    + assert (Hf : fit_ok (s_gaps st) (size (s_defs st) i) (al (s_defs st) i) f).
      { eapply choose_ok; [exact Ha| |exact Ec]. apply collect_fits_ok; auto. }
      split; [apply same_meta_set|]. split; [intros; apply off_set_other; auto|].
      rewrite off_set_same by auto. apply Hf.
    + unfold push_datum; simpl. split; [apply same_meta_set|]. split; [intros; apply off_set_other; auto|].
      rewrite off_set_same by auto. apply align_bytes_mod; auto.
Qed.

Lemma insert_by_size_perm ds i l : Permutation (insert_by_size ds i l) (i :: l).
Proof.
  induction l as [|j r IH]; simpl; auto. destruct (size ds j <? size ds i); auto.
  rewrite IH. apply perm_swap.
Qed.
Lemma sort_perm ds l : Permutation (sort_by_size_desc ds l) l.
Proof.
  unfold sort_by_size_desc.
  assert (H : forall acc, Permutation (fold_left (fun acc i => insert_by_size ds i acc) l acc) (acc ++ l)).
  { induction l as [|i r IH]; intros acc; simpl; [now rewrite app_nil_r|].
    rewrite IH. rewrite insert_by_size_perm. simpl. apply Permutation_middle. }
  apply (H []).
Qed.

Lemma simple_post ds data0 add :
  pre ds data0 add ->
  let st := fold_left simple_step (sort_by_size_desc ds add) (mkS data0 ds (initial_gaps false data0 ds 0 0)) in
  post ds data0 add (s_data st) (s_defs st).
Proof.
  intros (Hs & Hnd & Hdis & Hval). cbv zeta.
  set (add' := sort_by_size_desc ds add).
  assert (Hperm : Permutation add' add) by apply sort_perm.
  pose proof (fold_post sstate s_data s_defs simple_step sinv ds data0 simple_step_full add'
                (mkS data0 ds (initial_gaps false data0 ds 0 0)) []) as F.
  assert (H0 : sinv (mkS data0 ds (initial_gaps false data0 ds 0 0))).
  { split; auto. simpl. destruct (initial_gaps_ok ds data0 Hs [] data0 eq_refl) as (G1 & G2 & _). split; auto. }
  specialize (F H0 Hs (Permutation_refl _) (same_meta_refl _) ltac:(auto) ltac:(intros ? [])).
  simpl in F.
  specialize (F ltac:(eapply Permutation_NoDup; [symmetry; exact Hperm|exact Hnd])
                ltac:(intros i Hi; apply Hdis; eapply Permutation_in; eauto)
                ltac:(intros i Hi; apply Hval; eapply Permutation_in; eauto)).
  cbv zeta in F. destruct F as (F1 & F2 & F3 & F4 & F5). constructor; auto.
  - rewrite F2. apply Permutation_app_tail. auto.
  - intros j Hj. apply F4. intro; apply Hj. eapply Permutation_in; eauto.
  - intros i Hi. apply F5. eapply Permutation_in; [symmetry; exact Hperm|auto].
Qed.
