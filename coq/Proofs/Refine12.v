(* C12: the builder refines the set-level specification Spec12, step by step. *)
From Coq Require Import List NArith Lia Bool Arith Permutation.
From Truc.Model Require Import Layout Builder Spec12.
From Truc.Proofs Require Import Sorted Strategies Variants BuilderInv.
Import ListNotations.
Local Open Scope nat_scope.

(* ---------------------------------------------------------------- the C12 invariant *)

Definition names_nodup (ds : defs) (l : list id) : Prop := NoDup (map (fun i => d_name (getd ds i)) l).

Record inv12 (b : builder) : Prop := {
  i_wf : wf b;
  i_rm_nd : NoDup (b_rm b);
  i_rm : forall i, In i (b_rm b) -> In i (last_variant b);
  i_names_v : forall v, In v (b_vs b) -> names_nodup (b_ds b) v;
  i_names_c : names_nodup (b_ds b) (current_data b);
  i_cur_lt : forall i, In i (current_data b) -> (i < length (b_ds b))%nat }.

Definition spec_equiv (s1 s2 : spec) : Prop :=
  sp_names s1 = sp_names s2 /\ Permutation (sp_cur s1) (sp_cur s2) /\
  Forall2 (@Permutation id) (sp_closed s1) (sp_closed s2).

Lemma Forall2_perm_refl (l : list (list id)) : Forall2 (@Permutation id) l l.
Proof. induction l; constructor; auto. Qed.
Lemma spec_equiv_refl s : spec_equiv s s.
Proof. repeat split; auto. apply Forall2_perm_refl. Qed.

(* ---------------------------------------------------------------- list facts *)

Lemma forallb_filter_id' {A} (p : A -> bool) l : forallb p l = true -> filter p l = l.
Proof.
  induction l as [|x r IH]; simpl; auto. intros H. apply andb_prop in H. destruct H as [H1 H2].
  rewrite H1. f_equal. auto.
Qed.

Lemma mem_In i l : mem i l = true <-> In i l.
Proof.
  unfold mem. rewrite existsb_exists. split.
  - intros (x & Hx & E). apply Nat.eqb_eq in E. now subst.
  - intros H. exists i. split; auto. apply Nat.eqb_refl.
Qed.
Lemma mem_false i l : mem i l = false <-> ~ In i l.
Proof.
  rewrite <- mem_In. destruct (mem i l); split; intros H.
  - discriminate. - exfalso; apply H; reflexivity. - intro; discriminate. - reflexivity.
Qed.

Lemma find_none_existsb {A} (p : A -> bool) l : find p l = None <-> existsb p l = false.
Proof.
  induction l as [|x r IH]; simpl; [tauto|]. destruct (p x); simpl; [split; discriminate|auto].
Qed.
Lemma find_ext {A} (p q : A -> bool) l : (forall x, In x l -> p x = q x) -> find p l = find q l.
Proof.
  induction l as [|x r IH]; simpl; intros H; auto. rewrite (H x) by auto.
  destruct (q x); auto.
Qed.
Lemma existsb_ext_in {A} (p q : A -> bool) l : (forall x, In x l -> p x = q x) -> existsb p l = existsb q l.
Proof.
  induction l as [|x r IH]; simpl; intros H; auto. rewrite (H x) by auto. f_equal. auto.
Qed.

Lemma remove_first_filter i l : NoDup l -> remove_first i l = filter (fun j => negb (Nat.eqb j i)) l.
Proof.
  induction 1 as [|j r Hj Hn IH]; simpl; auto.
  destruct (Nat.eqb j i) eqn:E; simpl.
  - apply Nat.eqb_eq in E. subst. symmetry. apply forallb_filter_id'. apply forallb_forall.
    intros x Hx. destruct (Nat.eqb x i) eqn:E2; auto. apply Nat.eqb_eq in E2. subst. tauto.
  - f_equal. auto.
Qed.

Lemma filter_notin i l : ~ In i l -> filter (fun j => negb (Nat.eqb j i)) l = l.
Proof.
  intros H. apply forallb_filter_id'. apply forallb_forall. intros x Hx.
  destruct (Nat.eqb x i) eqn:E; auto. apply Nat.eqb_eq in E. subst. tauto.
Qed.

Lemma filter_filter {A} (p q : A -> bool) l : filter p (filter q l) = filter (fun x => q x && p x) l.
Proof. induction l as [|x r IH]; simpl; auto. destruct (q x); simpl; [destruct (p x); simpl; congruence|auto]. Qed.

Lemma mem_app i a b : mem i (a ++ b) = mem i a || mem i b.
Proof. unfold mem. apply existsb_app. Qed.

Lemma filter_ext_in' {A} (p q : A -> bool) l : (forall x, In x l -> p x = q x) -> filter p l = filter q l.
Proof. induction l as [|x r IH]; simpl; intros H; auto. rewrite (H x) by auto. rewrite IH; auto. Qed.

Lemma subset_refl l : subset l l = true.
Proof. unfold subset. apply forallb_forall. intros x Hx. apply mem_In; auto. Qed.
Lemma subset_false a b x : In x a -> ~ In x b -> subset a b = false.
Proof.
  intros Ha Hb. destruct (subset a b) eqn:E; auto. unfold subset in E. rewrite forallb_forall in E.
  specialize (E x Ha). apply mem_In in E. tauto.
Qed.

(* ---------------------------------------------------------------- names in the abstraction *)

Lemma name_of_abs b i : name_of (abs b) i = d_name (getd (b_ds b) i).
Proof. unfold name_of, abs, getd. simpl. change 0 with (d_name dummy). apply map_nth. Qed.

Lemma lookup_abs b l nm : sp_lookup (abs b) l nm = find_name (b_ds b) nm l.
Proof.
  unfold sp_lookup, find_name. apply find_ext. intros x _. simpl. rewrite map_length.
  now rewrite name_of_abs.
Qed.

Lemma find_name_none ds nm l : find_name ds nm l = None ->
  forall i, In i l -> (i < length ds)%nat -> d_name (getd ds i) <> nm.
Proof.
  unfold find_name. intros H i Hi Hlt E. apply find_none_existsb in H.
  apply Bool.not_true_iff_false in H. apply H.
  apply existsb_exists. exists i. split; auto. apply andb_true_intro. split.
  - apply Nat.ltb_lt; auto.
  - apply Nat.eqb_eq; auto.
Qed.

(* the current data, in terms of the lists *)
Lemma current_data_In b i : In i (current_data b) <->
  (In i (last_variant b) /\ ~ In i (b_rm b)) \/ In i (b_add b).
Proof.
  unfold current_data. rewrite in_app_iff, filter_In. rewrite negb_true_iff, mem_false. tauto.
Qed.

Lemma last_variant_In b i : In i (last_variant b) -> In (last_variant b) (b_vs b).
Proof.
  unfold last_variant. destruct (b_vs b) eqn:E; [simpl; tauto|]. intros _. apply last_In. discriminate.
Qed.

Lemma add_not_last b i : wf b -> In i (b_add b) -> ~ In i (last_variant b).
Proof.
  intros W Hi Hl. destruct (wf_add _ W i Hi) as [_ Hno]. apply (Hno _ (last_variant_In b i Hl) Hl).
Qed.

(* ---------------------------------------------------------------- rejected requests change nothing *)

Lemma rejected_unchanged b r e : snd (step b r) = RErr e -> fst (step b r) = b.
Proof.
  destruct r as [nm ty sz a u|i|s|nm|v nm]; simpl.
  - destruct (current_by_name b nm); simpl; auto. discriminate.
  - destruct (b_vs b).
    + destruct (mem i (b_add b)); simpl; auto. discriminate.
    + destruct (mem i (last_variant b)); [destruct (mem i (b_rm b))|destruct (mem i (b_add b))]; simpl; auto; discriminate.
  - destruct (has_pending_changes b); [destruct (run_strat _ _ _ _ _)|]; simpl; discriminate.
  - discriminate.
  - discriminate.
Qed.

Lemma lookup_unchanged b r o : snd (step b r) = RFound o -> fst (step b r) = b.
Proof.
  destruct r as [nm ty sz a u|i|s|nm|v nm]; simpl; auto.
  - destruct (current_by_name b nm); simpl; discriminate.
  - destruct (b_vs b).
    + destruct (mem i (b_add b)); simpl; discriminate.
    + destruct (mem i (last_variant b)); [destruct (mem i (b_rm b))|destruct (mem i (b_add b))]; simpl; discriminate.
  - destruct (has_pending_changes b); [destruct (run_strat _ _ _ _ _)|]; simpl; discriminate.
Qed.

(* ---------------------------------------------------------------- one step refines the spec *)

Lemma pending_iff b : has_pending_changes b = false <-> (b_vs b <> [] /\ b_rm b = [] /\ b_add b = []).
Proof.
  unfold has_pending_changes. destruct (b_vs b), (b_rm b), (b_add b); simpl; split; intros H;
    try discriminate; try reflexivity;
    try (destruct H as (H1 & H2 & H3); congruence);
    try (repeat split; try discriminate; reflexivity).
Qed.

Lemma filter_mem_nil (l : list id) : filter (fun d => negb (mem d [])) l = l.
Proof. apply forallb_filter_id'. apply forallb_forall. auto. Qed.

Lemma current_after_close ds vs dt : current_data (mkBuilder ds (vs ++ [dt]) [] []) = dt.
Proof. unfold current_data, last_variant. simpl. rewrite last_last. rewrite app_nil_r. apply filter_mem_nil. Qed.

Lemma last_variant_facts b : wf b ->
  sorted_from (b_ds b) 0 (last_variant b).
Proof.
  intros W. pose proof (wf_v _ W) as Wv. unfold last_variant. revert Wv.
  destruct (b_vs b) as [|v0 vs']; intros Wv; [simpl; auto|].
  apply Wv. apply last_In. discriminate.
Qed.

Lemma wf_pre b : wf b -> pre (b_ds b) (remove_data (last_variant b) (b_rm b)) (b_add b).
Proof.
  intros W. repeat split.
  - apply sorted_from_filter. apply last_variant_facts; auto.
  - apply (wf_add_nd _ W).
  - intros i Hi Hin. apply remove_data_sub in Hin. eapply add_not_last; eauto.
  - apply (wf_add _ W); auto.
  - apply (wf_al _ W). apply (wf_add _ W); auto.
Qed.

Lemma pending_set_neq b : inv12 b -> has_pending_changes b = true -> b_vs b <> [] ->
  set_eq (current_data b) (last_variant b) = false.
Proof.
  intros I HP Hne. pose proof (i_wf _ I) as W. unfold set_eq.
  destruct (b_rm b) as [|x rm'] eqn:Erm.
  - destruct (b_add b) as [|y add'] eqn:Eadd.
    + exfalso. assert (has_pending_changes b = false) by (apply pending_iff; auto). congruence.
    + rewrite (subset_false _ _ y); auto.
      * apply current_data_In. right. rewrite Eadd. left; auto.
      * apply (add_not_last b y W). rewrite Eadd. left; auto.
  - rewrite andb_comm. rewrite (subset_false _ _ x); auto.
    + apply (i_rm _ I). rewrite Erm. left; auto.
    + rewrite current_data_In. rewrite Erm. intros [[_ H]|H]; [apply H; left; auto|].
      apply (add_not_last b x W H). apply (i_rm _ I). rewrite Erm. left; auto.
Qed.

Lemma step_refines b r : req_ok r -> inv12 b ->
  snd (step b r) = snd (sp_step (abs b) r) /\
  spec_equiv (abs (fst (step b r))) (fst (sp_step (abs b) r)).
Proof.
  intros Hr I. pose proof (i_wf _ I) as W.
  destruct r as [nm ty sz a u|i|s|nm|v nm].
  - (* Add *)
    simpl. unfold current_by_name.
    assert (E : existsb (fun i => (i <? length (map d_name (b_ds b)))%nat && Nat.eqb (name_of (abs b) i) nm) (current_data b)
                = match find_name (b_ds b) nm (current_data b) with Some _ => true | None => false end).
    { unfold find_name. rewrite map_length.
      rewrite (existsb_ext_in _ (fun d => (d <? length (b_ds b))%nat && Nat.eqb (d_name (getd (b_ds b) d)) nm))
        by (intros x _; now rewrite name_of_abs).
      destruct (find _ _) eqn:F.
      - apply existsb_exists. apply find_some in F. eexists. exact F.
      - apply find_none_existsb in F. auto. }
    rewrite E. destruct (find_name (b_ds b) nm (current_data b)); simpl.
    + split; auto. apply spec_equiv_refl.
    + rewrite map_length. split; auto. unfold abs, current_data. simpl.
      repeat split; simpl.
      * now rewrite map_app.
      * rewrite app_assoc. apply Permutation_refl.
      * apply Forall2_perm_refl.
  - (* Remove *)
    assert (Hadd_nd := wf_add_nd _ W).
    assert (Hal : forall j, In j (b_add b) -> ~ In j (last_variant b)) by (intros; apply add_not_last; auto).
    simpl. destruct (b_vs b) eqn:Ev.
    + (* no variant yet: current = to_add *)
      assert (Hl : last_variant b = []) by (unfold last_variant; now rewrite Ev).
      assert (Hc : current_data b = b_add b) by (unfold current_data; now rewrite Hl).
      rewrite Hc. destruct (mem i (b_add b)) eqn:M; simpl.
      * split; auto. unfold abs, current_data, last_variant. simpl.
        rewrite remove_first_filter by auto. apply spec_equiv_refl.
      * split; auto. apply spec_equiv_refl.
    + rewrite <- Ev in *. clear Ev.
      destruct (mem i (last_variant b)) eqn:ML.
      * apply mem_In in ML. destruct (mem i (b_rm b)) eqn:MR; simpl.
        -- (* already removed *)
           apply mem_In in MR.
           assert (MC : mem i (current_data b) = false).
           { apply mem_false. rewrite current_data_In. intros [[_ H]|H]; [tauto|]. apply (Hal i H ML). }
           rewrite MC. simpl. destruct (b_vs b) eqn:Ev.
           { unfold last_variant in ML. rewrite Ev in ML. destruct ML. }
           rewrite <- Ev. assert (ML' : mem i (last (b_vs b) []) = true) by (apply mem_In; exact ML).
           rewrite ML'. split; auto. apply spec_equiv_refl.
        -- apply mem_false in MR.
           assert (MC : mem i (current_data b) = true) by (apply mem_In; rewrite current_data_In; tauto).
           rewrite MC. simpl. split; auto.
           unfold abs, current_data, last_variant. simpl. repeat split; simpl; [| apply Forall2_perm_refl].
           rewrite filter_app, filter_filter. rewrite (filter_notin i (b_add b)) by (intro H; apply (Hal i H ML)).
           apply Permutation_app_tail.
           rewrite (filter_ext_in' (fun d => negb (mem d (b_rm b ++ [i])))
                                   (fun x => negb (mem x (b_rm b)) && negb (Nat.eqb x i))); [apply Permutation_refl|].
           intros x _. rewrite mem_app. simpl. rewrite orb_false_r. now rewrite negb_orb.
      * apply mem_false in ML. destruct (mem i (b_add b)) eqn:MA; simpl.
        -- apply mem_In in MA.
           assert (MC : mem i (current_data b) = true) by (apply mem_In; rewrite current_data_In; tauto).
           rewrite MC. simpl. split; auto.
           unfold abs, current_data, last_variant. simpl. repeat split; simpl; [| apply Forall2_perm_refl].
           rewrite filter_app. rewrite remove_first_filter by auto.
           rewrite (filter_notin i (filter _ _)); [apply Permutation_refl|].
           intro H. apply filter_In in H. tauto.
        -- apply mem_false in MA.
           assert (MC : mem i (current_data b) = false) by (apply mem_false; rewrite current_data_In; tauto).
           rewrite MC. simpl. destruct (b_vs b) eqn:Ev.
           { split; auto. apply spec_equiv_refl. }
           rewrite <- Ev. assert (ML' : mem i (last (b_vs b) []) = false) by (apply mem_false; exact ML).
           rewrite ML'. split; auto. apply spec_equiv_refl.
  - (* Close *)
    simpl in Hr. destruct (close_facts b s Hr W) as (W' & F & EA & ER & _).
    unfold step in *. destruct (has_pending_changes b) eqn:HP.
    + (* a new variant *)
      assert (Hperm : Permutation (fst (run_strat s (last_variant b) (b_add b) (b_rm b) (b_ds b))) (current_data b)).
      { pose proof (wf_pre b W) as Hpre.
        destruct (run_strat_post s _ _ _ Hr Hpre (b_rm b) (last_variant b) eq_refl) as [_ Q2 _ _ _].
        rewrite Q2. unfold current_data, remove_data. apply Permutation_app_comm. }
      destruct (run_strat s (last_variant b) (b_add b) (b_rm b) (b_ds b)) as [dt ds'] eqn:ERS.
      simpl in Hperm. cbn [fst snd].
      assert (Hnames : map d_name ds' = map d_name (b_ds b)).
      { pose proof (run_strat_tags s (last_variant b) (b_add b) (b_rm b) (b_ds b)) as T. rewrite ERS in T. simpl in T.
        destruct F as [_ _ _ _]. simpl in *.
        destruct (close_facts b s Hr (i_wf _ I)) as (_ & _ & _ & _ & L). unfold step in L. rewrite HP, ERS in L. simpl in L.
        apply nth_ext with (d := 0) (d' := 0); [now rewrite !map_length|].
        intros n Hn. change 0 with (d_name dummy). rewrite !map_nth. apply T. }
      simpl. destruct (b_vs b) eqn:Ev.
      * split; [reflexivity|]. unfold spec_equiv, abs. rewrite current_after_close. simpl. repeat split; auto.
      * assert (SE : set_eq (current_data b) (last_variant b) = false).
        { apply pending_set_neq; auto. rewrite Ev. discriminate. }
        unfold last_variant in SE. rewrite Ev in SE. rewrite SE.
        split; [reflexivity|]. unfold spec_equiv, abs. rewrite current_after_close. simpl. repeat split; auto.
        constructor; [apply Permutation_refl|apply Forall2_app; [apply Forall2_perm_refl|constructor; auto]].
    + (* nothing pending *)
      apply pending_iff in HP. destruct HP as (Hne & Hrm & Hadd).
      assert (Hc : current_data b = last_variant b).
      { unfold current_data. rewrite Hrm, Hadd, app_nil_r. apply filter_mem_nil. }
      simpl. destruct (b_vs b) eqn:Ev; [congruence|]. rewrite <- Ev.
      rewrite Hc. unfold last_variant, set_eq. rewrite subset_refl. simpl.
      split; auto. apply spec_equiv_refl.
  - simpl. unfold current_by_name. rewrite lookup_abs. split; auto. apply spec_equiv_refl.
  - simpl. unfold variant_by_name. split; [|apply spec_equiv_refl].
    destruct (nth_error (b_vs b) v); auto. now rewrite lookup_abs.
Qed.

(* ---------------------------------------------------------------- the invariant is preserved *)

Lemma inv12_empty : inv12 empty_builder.
Proof.
  constructor.
  - apply wf_empty.
  - simpl. constructor.
  - simpl. intros ? [].
  - simpl. intros ? [].
  - unfold names_nodup, current_data. simpl. constructor.
  - unfold current_data. simpl. intros ? [].
Qed.

Lemma NoDup_map_filter {A B} (f : A -> B) (p : A -> bool) l : NoDup (map f l) -> NoDup (map f (filter p l)).
Proof.
  induction l as [|x r IH]; simpl; intros H; auto. inversion H; subst.
  destruct (p x); simpl; auto. constructor; auto.
  intro Hin. apply H2. apply in_map_iff in Hin. destruct Hin as (y & E & Hy). apply filter_In in Hy.
  apply in_map_iff. exists y. tauto.
Qed.

Lemma names_nodup_ext ds ds' l :
  (forall i, In i l -> d_name (getd ds' i) = d_name (getd ds i)) -> names_nodup ds l -> names_nodup ds' l.
Proof.
  unfold names_nodup. intros H Hn.
  rewrite (map_ext_in (fun i => d_name (getd ds' i)) (fun i => d_name (getd ds i))); auto.
Qed.

Lemma step_inv12 b r : req_ok r -> inv12 b -> inv12 (fst (step b r)).
Proof.
  intros Hr I. pose proof (i_wf _ I) as W.
  destruct (step_facts b r Hr W) as [W' F].
  destruct (step_refines b r Hr I) as [_ (EN & EC & EV)].
  assert (Hnames_old : forall i, (i < length (b_ds b))%nat ->
            d_name (getd (b_ds (fst (step b r))) i) = d_name (getd (b_ds b) i)).
  { intros i Hi. apply (fr_meta _ _ F i Hi). }
  assert (Hv_lt : forall v i, In v (b_vs b) -> In i v -> (i < length (b_ds b))%nat).
  { intros v i Hv Hi. destruct (wf_v _ W v Hv) as (_ & _ & H). apply H; auto. }
  destruct r as [nm ty sz a u|i|s|nm|v nm].
  - (* Add *)
    simpl in *. unfold current_by_name in *.
    destruct (find_name (b_ds b) nm (current_data b)) eqn:FN; simpl in *; [exact I|].
    constructor; simpl; auto.
    + apply (i_rm_nd _ I).
    + apply (i_rm _ I).
    + intros v Hv. eapply names_nodup_ext; [|apply (i_names_v _ I v Hv)].
      intros i Hi. apply Hnames_old. eapply Hv_lt; eauto.
    + unfold names_nodup, current_data, last_variant. simpl. rewrite app_assoc, map_app. simpl.
      apply NoDup_app_iff_fwd.
      * pose proof (i_names_c _ I) as Hc. unfold names_nodup, current_data, last_variant in Hc.
        erewrite map_ext_in; [exact Hc|].
        intros i Hi. simpl. apply Hnames_old. apply (i_cur_lt _ I). exact Hi.
      * constructor; [intros []|constructor].
      * intros x Hx [<-|[]]. apply in_map_iff in Hx. destruct Hx as (i & E & Hi).
        assert (Hlt : (i < length (b_ds b))%nat) by (apply (i_cur_lt _ I); exact Hi).
        rewrite Hnames_old in E by auto.
        match type of E with _ = d_name (getd (?l ++ [?d]) ?n) =>
          assert (Hnew : d_name (getd (l ++ [d]) n) = nm)
            by (unfold getd; rewrite app_nth2 by lia; rewrite Nat.sub_diag; reflexivity) end.
        rewrite Hnew in E. eapply find_name_none; eauto.
    + intros i Hi. unfold current_data, last_variant in Hi. simpl in Hi. rewrite app_assoc in Hi.
      rewrite app_length. simpl. apply in_app_or in Hi. destruct Hi as [Hi|[<-|[]]]; [|lia].
      pose proof (i_cur_lt _ I i Hi). lia.
  - (* Remove *)
    assert (Hcur : forall j, In j (current_data (fst (step b (Remove i)))) -> In j (current_data b)).
    { intros j Hj. eapply Permutation_in in Hj; [|exact EC]. simpl in Hj.
      destruct (mem i (current_data b)); simpl in Hj; auto. apply filter_In in Hj. tauto. }
    assert (Hds : b_ds (fst (step b (Remove i))) = b_ds b /\ b_vs (fst (step b (Remove i))) = b_vs b).
    { unfold step. destruct (b_vs b) eqn:Ev; [destruct (mem i (b_add b))|
        destruct (mem i (last_variant b)); [destruct (mem i (b_rm b))|destruct (mem i (b_add b))]]; simpl; auto. }
    destruct Hds as [Hds Hvs].
    assert (Hlast : last_variant (fst (step b (Remove i))) = last_variant b) by (unfold last_variant; now rewrite Hvs).
    constructor; auto.
    + simpl. destruct (b_vs b) eqn:Ev; [destruct (mem i (b_add b)); simpl; apply (i_rm_nd _ I)|].
      destruct (mem i (last_variant b)); [destruct (mem i (b_rm b)) eqn:MR|destruct (mem i (b_add b))]; simpl; try apply (i_rm_nd _ I).
      apply NoDup_app_iff_fwd; [apply (i_rm_nd _ I)|constructor; [intros []|constructor]|].
      intros x Hx [<-|[]]. apply mem_false in MR. auto.
    + rewrite Hlast. simpl. destruct (b_vs b) eqn:Ev; [destruct (mem i (b_add b)); simpl; apply (i_rm _ I)|].
      destruct (mem i (last_variant b)) eqn:ML; [destruct (mem i (b_rm b)) eqn:MR|destruct (mem i (b_add b))]; simpl; try apply (i_rm _ I).
      intros j Hj. apply in_app_or in Hj. destruct Hj as [Hj|[<-|[]]]; [apply (i_rm _ I); auto|apply mem_In; auto].
    + rewrite Hvs, Hds. apply (i_names_v _ I).
    + rewrite Hds. unfold names_nodup. eapply Permutation_NoDup; [apply Permutation_map; symmetry; exact EC|].
      simpl. destruct (mem i (current_data b)); simpl; [apply NoDup_map_filter|]; apply (i_names_c _ I).
    + rewrite Hds. intros j Hj. apply (i_cur_lt _ I). auto.
  - (* Close *)
    simpl in Hr. destruct (close_facts b s Hr W) as (_ & _ & EA & ER & L).
    assert (Hcur : Permutation (current_data (fst (step b (Close s)))) (current_data b)).
    { eapply Permutation_trans; [exact EC|]. simpl.
      destruct (b_vs b); simpl; auto. destruct (set_eq _ _); simpl; auto. }
    assert (Hn : forall l, (forall i, In i l -> (i < length (b_ds b))%nat) ->
                 names_nodup (b_ds b) l -> names_nodup (b_ds (fst (step b (Close s)))) l).
    { intros l Hl. apply names_nodup_ext. intros i Hi. apply Hnames_old; auto. }
    constructor; auto.
    + rewrite ER. constructor.
    + rewrite ER. intros ? [].
    + intros v Hv. destruct (fr_vs _ _ F) as [extra Hx].
      assert (Hcases : In v (b_vs b) \/ (b_vs (fst (step b (Close s))) = b_vs b ++ [v] /\
                        Permutation v (current_data b))).
      { simpl in *. destruct (has_pending_changes b) eqn:HP; simpl in *; [|left; auto].
        destruct (run_strat s (last_variant b) (b_add b) (b_rm b) (b_ds b)) as [dt ds'] eqn:ERS. simpl in *.
        apply in_app_or in Hv. destruct Hv as [Hv|[<-|[]]]; [left; auto|right]. split; auto.
        unfold current_data in Hcur at 1. unfold last_variant in Hcur. simpl in Hcur.
        rewrite last_last, app_nil_r, filter_mem_nil in Hcur. exact Hcur. }
      destruct Hcases as [Hold|[_ Hp]].
      * apply Hn; [intros; eapply Hv_lt; eauto|apply (i_names_v _ I); auto].
      * unfold names_nodup. eapply Permutation_NoDup; [apply Permutation_map; symmetry; exact Hp|].
        apply Hn; [apply (i_cur_lt _ I)|apply (i_names_c _ I)].
    + unfold names_nodup. eapply Permutation_NoDup; [apply Permutation_map; symmetry; exact Hcur|].
      apply Hn; [apply (i_cur_lt _ I)|apply (i_names_c _ I)].
    + intros i Hi. rewrite L. apply (i_cur_lt _ I). eapply Permutation_in; eauto.
  - simpl. exact I.
  - simpl. exact I.
Qed.

Lemma run_from_inv12 h : hist_ok h -> forall b, inv12 b -> inv12 (run_from b h).
Proof. induction 1 as [|r h Hr Hh IH]; intros b I; simpl; auto. apply IH. apply step_inv12; auto. Qed.

Theorem run_inv12 h : hist_ok h -> inv12 (run h).
Proof. intros H. apply (run_from_inv12 h H _ inv12_empty). Qed.
