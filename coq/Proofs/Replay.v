(* C20: replaying a definition into another builder (definition/convert.rs) yields an isomorphic definition.
   Part 1: what every built definition satisfies (identifiers are never reused, consecutive variants differ).
   Part 2: the three inner loops of the helper.  Part 3: the loop over the source variants. *)
From Coq Require Import List NArith Lia Bool Arith Permutation.
From Truc.Model Require Import Layout Builder Spec12.
From Truc.Proofs Require Import Variants Strategies BuilderInv Refine12.
Import ListNotations.
Local Open Scope nat_scope.

(* ---------------------------------------------------------------- part 1: chains of variants *)

Definition differ (p v : list id) : Prop := exists i, (In i p /\ ~ In i v) \/ (In i v /\ ~ In i p).

(* v follows prev: something changed, and what is new in v was in no earlier variant *)
Definition link (seen : list (list id)) (prev : option (list id)) (v : list id) : Prop :=
  match prev with
  | None => True
  | Some p => differ p v /\ forall i, In i v -> ~ In i p -> forall u, In u seen -> ~ In i u
  end.
Fixpoint chain (seen : list (list id)) (prev : option (list id)) (vs : list (list id)) : Prop :=
  match vs with [] => True | v :: rest => link seen prev v /\ chain (seen ++ [v]) (Some v) rest end.
Fixpoint lastopt (prev : option (list id)) (vs : list (list id)) : option (list id) :=
  match vs with [] => prev | v :: r => lastopt (Some v) r end.

Lemma chain_snoc vs : forall seen prev dt,
  chain seen prev (vs ++ [dt]) <-> chain seen prev vs /\ link (seen ++ vs) (lastopt prev vs) dt.
Proof.
  induction vs as [|v r IH]; intros seen prev dt; simpl.
  - rewrite app_nil_r. tauto.
  - rewrite IH. rewrite <- app_assoc. simpl. tauto.
Qed.

Lemma lastopt_last vs : forall prev, vs <> [] -> lastopt prev vs = Some (last vs []).
Proof.
  induction vs as [|v r IH]; intros prev H; [congruence|]. simpl lastopt.
  destruct r as [|w r']; [reflexivity|]. rewrite IH by discriminate. reflexivity.
Qed.
Lemma lastopt_snoc vs v : forall prev, lastopt prev (vs ++ [v]) = Some v.
Proof. induction vs as [|w r IH]; intros prev; simpl; auto. Qed.

Lemma forallb_false_ex {A} (p : A -> bool) l : forallb p l = false -> exists x, In x l /\ p x = false.
Proof.
  induction l as [|x r IH]; simpl; [discriminate|]. destruct (p x) eqn:E; simpl.
  - intros H. destruct (IH H) as (y & Hy & Ey). eauto.
  - intros _. eauto.
Qed.

Lemma set_neq_differ a b : set_eq a b = false -> differ b a.
Proof.
  unfold set_eq. intros H. apply andb_false_iff in H. destruct H as [H|H];
    apply forallb_false_ex in H; destruct H as (x & Hx & E); apply mem_false in E; exists x; tauto.
Qed.

Lemma differ_perm p v v' : Permutation v v' -> differ p v -> differ p v'.
Proof.
  intros P (i & H). exists i. destruct H as [[H1 H2]|[H1 H2]]; [left|right]; split; auto.
  - intro H. apply H2. eapply Permutation_in; [symmetry; exact P|exact H].
  - eapply Permutation_in; eauto.
Qed.

(* a step of the builder keeps the chain *)
Lemma step_chain b r : req_ok r -> inv12 b -> chain [] None (b_vs b) -> chain [] None (b_vs (fst (step b r))).
Proof.
  intros Hr I C. pose proof (i_wf _ I) as W.
  destruct r as [nm ty sz a u|i|s|nm|v nm]; simpl; auto.
  - destruct (current_by_name b nm); simpl; auto.
  - destruct (b_vs b) eqn:Ev.
    + destruct (mem i (b_add b)); simpl; rewrite ?Ev; auto.
    + rewrite <- Ev in *. destruct (mem i (last_variant b)); [destruct (mem i (b_rm b))|destruct (mem i (b_add b))]; simpl; auto.
  - simpl in Hr. destruct (has_pending_changes b) eqn:HP; [|exact C].
    assert (Hperm : Permutation (fst (run_strat s (last_variant b) (b_add b) (b_rm b) (b_ds b))) (current_data b)).
    { pose proof (wf_pre b W) as Hpre.
      destruct (run_strat_post s _ _ _ Hr Hpre (b_rm b) (last_variant b) eq_refl) as [_ Q2 _ _ _].
      rewrite Q2. unfold current_data, remove_data. apply Permutation_app_comm. }
    destruct (run_strat s (last_variant b) (b_add b) (b_rm b) (b_ds b)) as [dt ds'] eqn:ERS.
    simpl in Hperm. simpl. apply chain_snoc. split; [exact C|]. simpl.
    destruct (b_vs b) eqn:Ev; [exact Logic.I|]. rewrite <- Ev in *.
    rewrite lastopt_last by (rewrite Ev; discriminate). simpl. split.
    + apply differ_perm with (v := current_data b); [symmetry; exact Hperm|].
      apply set_neq_differ. apply pending_set_neq; auto. rewrite Ev. discriminate.
    + intros i Hi Hl u Hu Hiu.
      assert (Hc : In i (current_data b)) by (eapply Permutation_in; eauto).
      apply current_data_In in Hc. destruct Hc as [[Hc _]|Hc]; [unfold last_variant in Hc; tauto|].
      destruct (wf_add _ W i Hc) as [_ Hno]. exact (Hno u Hu Hiu).
Qed.

(* what the helper needs of its source *)
Record src_ok (ds : defs) (vs : list (list id)) : Prop := {
  so_nd : forall v, In v vs -> NoDup v;
  so_lt : forall v i, In v vs -> In i v -> i < length ds;
  so_al : forall i, i < length ds -> (1 <= al ds i)%N;
  so_names : forall v, In v vs -> names_nodup ds v;
  so_chain : chain [] None vs }.

Lemma run_from_chain h : hist_ok h -> forall b, inv12 b -> chain [] None (b_vs b) -> chain [] None (b_vs (run_from b h)).
Proof.
  induction 1 as [|r h Hr Hh IH]; intros b I C; simpl; auto.
  apply IH; [apply step_inv12; auto|apply step_chain; auto].
Qed.

Theorem run_src_ok h : hist_ok h -> src_ok (b_ds (run h)) (b_vs (run h)).
Proof.
  intros Hh. pose proof (run_inv12 h Hh) as I. pose proof (i_wf _ I) as W.
  constructor.
  - intros v Hv. apply (wf_v _ W v Hv).
  - intros v i Hv Hi. destruct (wf_v _ W v Hv) as (_ & _ & H). apply (H i Hi).
  - apply (wf_al _ W).
  - apply (i_names_v _ I).
  - apply (run_from_chain h Hh _ inv12_empty). exact Logic.I.
Qed.

(* ---------------------------------------------------------------- part 2: the inner loops *)

Definition mget (m : list (id * id)) (d : id) : id := match assoc m d with Some x => x | None => 0 end.

Definition same5 (x y : datum) : Prop :=
  d_name x = d_name y /\ d_ty x = d_ty y /\ d_size x = d_size y /\ d_align x = d_align y /\ d_uninit x = d_uninit y.

Lemma assoc_set_same m k v : assoc (assoc_set m k v) k = Some v.
Proof. unfold assoc_set. simpl. now rewrite Nat.eqb_refl. Qed.
Lemma assoc_filter_other m k k' : k' <> k -> assoc (filter (fun kv => negb (Nat.eqb (fst kv) k)) m) k' = assoc m k'.
Proof.
  intros Hne. induction m as [|[a b] r IH]; simpl; auto.
  destruct (Nat.eqb a k) eqn:E; simpl.
  - apply Nat.eqb_eq in E. subst. destruct (Nat.eqb k k') eqn:E'; auto. apply Nat.eqb_eq in E'. congruence.
  - rewrite IH. reflexivity.
Qed.
Lemma assoc_set_other m k v k' : k' <> k -> assoc (assoc_set m k v) k' = assoc m k'.
Proof.
  intros Hne. unfold assoc_set. simpl. destruct (Nat.eqb k k') eqn:E; [apply Nat.eqb_eq in E; congruence|].
  now apply assoc_filter_other.
Qed.

(* what a step may do to the datum definitions, as far as the helper cares *)
Record mframe (b b' : builder) : Prop := {
  mf_len : length (b_ds b) <= length (b_ds b');
  mf_meta : forall i, i < length (b_ds b) -> same5 (getd (b_ds b) i) (getd (b_ds b') i) }.
Lemma same5_refl x : same5 x x.
Proof. unfold same5. auto. Qed.
Lemma same5_trans x y z : same5 x y -> same5 y z -> same5 x z.
Proof. unfold same5. intros (A1 & A2 & A3 & A4 & A5) (B1 & B2 & B3 & B4 & B5). repeat split; congruence. Qed.
Lemma mframe_refl b : mframe b b.
Proof. constructor; auto. intros. apply same5_refl. Qed.
Lemma mframe_trans a b c : mframe a b -> mframe b c -> mframe a c.
Proof.
  intros [L1 M1] [L2 M2]. constructor; [lia|]. intros i Hi.
  eapply same5_trans; [apply M1; auto|apply M2; lia].
Qed.

(* Parts 2 and 3 are stated over an abstract invariant of the TARGET builder and an abstract class of closing
   strategies, instantiated below for the native builder (inv12, the four shipped strategies) and for the
   generic builder (a set-level invariant, the two generic strategies). *)
Section Abstract.
Variable Inv : builder -> Prop.
Variable okS : strat -> Prop.
Definition rok (r : req) : Prop :=
  match r with Add _ _ _ a _ => (1 <= a)%N | Close s => okS s | _ => True end.
Hypothesis H_empty : Inv empty_builder.
Hypothesis H_step : forall b r, rok r -> Inv b -> Inv (fst (step b r)).
Hypothesis H_frame : forall b r, rok r -> Inv b -> mframe b (fst (step b r)).
Hypothesis H_cur_lt : forall b i, Inv b -> In i (current_data b) -> i < length (b_ds b).
Hypothesis H_close : forall b s, okS s -> Inv b -> has_pending_changes b = true ->
  exists dt ds', step b (Close s) = (mkBuilder ds' (b_vs b ++ [dt]) [] [], RVariant (length (b_vs b))) /\
                 Permutation dt (current_data b).

(* the removals: every mapped identifier is in the target's last variant and not yet removed *)
Lemma conv_removes_ok m : forall rm b,
  Inv b -> b_add b = [] ->
  (forall d, In d rm -> exists d', assoc m d = Some d' /\ In d' (last_variant b) /\ ~ In d' (b_rm b)) ->
  NoDup (map (mget m) rm) ->
  exists b', conv_removes m b rm = COk b' /\ Inv b' /\ b_ds b' = b_ds b /\ b_vs b' = b_vs b /\
             b_add b' = [] /\ b_rm b' = b_rm b ++ map (mget m) rm.
Proof.
  induction rm as [|d r IH]; intros b I Ha Hd Hn; cbn [conv_removes].
  - exists b. rewrite app_nil_r. split; [reflexivity|]. split; [exact I|]. auto.
  - destruct (Hd d (or_introl eq_refl)) as (d' & Em & Hl & Hr). rewrite Em.
    assert (Eg : mget m d = d') by (unfold mget; now rewrite Em).
    pose proof (H_step b (Remove d') Logic.I I) as I1.
    assert (Es : step b (Remove d') = (mkBuilder (b_ds b) (b_vs b) (b_add b) (b_rm b ++ [d']), RUnit)).
    { simpl. destruct (b_vs b) eqn:Ev.
      - unfold last_variant in Hl. rewrite Ev in Hl. destruct Hl.
      - rewrite <- Ev. replace (mem d' (last_variant b)) with true by (symmetry; apply mem_In; auto).
        replace (mem d' (b_rm b)) with false by (symmetry; apply mem_false; auto). reflexivity. }
    rewrite Es in *. simpl in I1.
    set (b1 := mkBuilder (b_ds b) (b_vs b) (b_add b) (b_rm b ++ [d'])) in *.
    inversion Hn as [|x l Hx Hn']; subst x l.
    destruct (IH b1 I1 Ha) as (b' & E & I' & E1 & E2 & E3 & E4).
    + intros e He. destruct (Hd e (or_intror He)) as (e' & Em' & Hl' & Hr'). exists e'. split; [auto|]. split; [exact Hl'|].
      simpl. intro H. apply in_app_or in H. destruct H as [H|[H|[]]]; [tauto|].
      apply Hx. rewrite Eg, H. apply in_map_iff. exists e. split; auto. unfold mget. now rewrite Em'.
    + exact Hn'.
    + exists b'. split; [exact E|]. split; [exact I'|]. cbn [b_ds b_vs b_add b_rm b1 map] in *. rewrite E4, Eg, <- app_assoc. auto.
Qed.

Lemma find_name_none_intro ds nm l :
  (forall c, In c l -> c < length ds -> d_name (getd ds c) <> nm) -> find_name ds nm l = None.
Proof.
  intros H. unfold find_name. apply find_none_existsb. apply not_true_is_false. intro E.
  apply existsb_exists in E. destruct E as (c & Hc & E). apply andb_prop in E. destruct E as [E1 E2].
  apply Nat.ltb_lt in E1. apply Nat.eqb_eq in E2. exact (H c Hc E1 E2).
Qed.

Definition sname (src : defs) (d : id) := d_name (getd src d).

(* the additions *)
Lemma conv_adds_ok src : forall add m b,
  Inv b ->
  (forall d, In d add -> d < length src /\ (1 <= al src d)%N) ->
  NoDup add -> NoDup (map (sname src) add) ->
  (forall d c, In d add -> In c (current_data b) -> d_name (getd (b_ds b) c) <> sname src d) ->
  exists m' b', conv_adds src m b add = COk (m', b') /\ Inv b' /\ mframe b b' /\
    b_vs b' = b_vs b /\ b_rm b' = b_rm b /\ b_add b' = b_add b ++ map (mget m') add /\
    (forall k, ~ In k add -> assoc m' k = assoc m k) /\
    (forall d, In d add -> exists i, assoc m' d = Some i /\ length (b_ds b) <= i < length (b_ds b') /\
                                     same5 (getd src d) (getd (b_ds b') i)) /\
    NoDup (map (mget m') add).
Proof.
  induction add as [|d r IH]; intros m b I Hlt Hnd Hnn Hfresh; cbn [conv_adds].
  - exists m, b. rewrite app_nil_r. split; [reflexivity|]. split; [exact I|]. split; [apply mframe_refl|].
    split; [reflexivity|]. split; [reflexivity|]. split; [reflexivity|]. split; [auto|]. split; [intros d []|constructor].
  - destruct (Hlt d (or_introl eq_refl)) as [Hd Hal].
    replace (length src <=? d) with false by (symmetry; apply Nat.leb_gt; exact Hd).
    set (x := getd src d).
    assert (Hr : rok (Add (d_name x) (d_ty x) (d_size x) (d_align x) (d_uninit x))) by exact Hal.
    pose proof (H_step b _ Hr I) as I1. pose proof (H_frame b _ Hr I) as F1.
    assert (Hnone : current_by_name b (d_name x) = None).
    { apply find_name_none_intro. intros c Hc _. apply (Hfresh d c (or_introl eq_refl) Hc). }
    cbn [step] in *. rewrite Hnone in *. cbn [fst] in I1, F1.
    set (i := length (b_ds b)) in *.
    set (nd := mkDatum (d_name x) (d_ty x) (d_size x) (d_align x) (d_uninit x) MAXU) in *.
    set (b1 := mkBuilder (b_ds b ++ [nd]) (b_vs b) (b_add b ++ [i]) (b_rm b)) in *.
    inversion Hnd as [|y l Hy Hnd']; subst y l. inversion Hnn as [|y l Hny Hnn']; subst y l.
    assert (Hnew : getd (b_ds b ++ [nd]) i = nd).
    { unfold getd, i. rewrite app_nth2 by lia. now rewrite Nat.sub_diag. }
    destruct (IH (assoc_set m d i) b1 I1) as (m' & b' & E & I' & F' & E1 & E2 & E3 & Hout & Hin & Hnd2).
    + intros e He. apply Hlt. now right.
    + exact Hnd'.
    + exact Hnn'.
    + intros e c He Hc. unfold b1, current_data, last_variant in Hc. simpl in Hc.
      rewrite app_assoc in Hc. apply in_app_or in Hc. destruct Hc as [Hc|[<-|[]]].
      * assert (Hc' : In c (current_data b)) by exact Hc.
        simpl. rewrite getd_app_old by (apply (H_cur_lt _ c I Hc')). apply Hfresh; auto. now right.
      * simpl. rewrite Hnew. simpl. intro Eq. apply Hny. apply in_map_iff. exists e. split; auto.
    + exists m', b'. split; [exact E|]. split; [exact I'|].
      assert (Hmd : assoc m' d = Some i) by (rewrite Hout by exact Hy; apply assoc_set_same).
      split; [eapply mframe_trans; [exact F1|exact F']|].
      split; [rewrite E1; reflexivity|]. split; [rewrite E2; reflexivity|].
      split; [rewrite E3; simpl; rewrite <- app_assoc; simpl; unfold mget at 2; now rewrite Hmd|].
      split; [intros k Hk; rewrite Hout by (intro Hq; apply Hk; now right); apply assoc_set_other; intro Hq; apply Hk; left; congruence|].
      pose proof (mf_len _ _ F') as Hlen. simpl in Hlen. rewrite app_length in Hlen. simpl in Hlen.
      split.
      * intros e [<-|He].
        -- exists i. split; [exact Hmd|]. split; [unfold i; lia|].
           pose proof (mf_meta _ _ F' i) as S5. simpl in S5. rewrite Hnew in S5.
           apply S5. rewrite app_length. simpl. unfold i. lia.
        -- destruct (Hin e He) as (j & Ej & Hj & S5). exists j. split; [exact Ej|]. split; [|exact S5].
           simpl in Hj. rewrite app_length in Hj. simpl in Hj. unfold i. lia.
      * simpl. constructor; [|exact Hnd2]. unfold mget at 1. rewrite Hmd. intro Hc.
        apply in_map_iff in Hc. destruct Hc as (e & Ee & He). destruct (Hin e He) as (j & Ej & Hj & _).
        unfold mget in Ee. rewrite Ej in Ee. simpl in Hj. rewrite app_length in Hj. simpl in Hj. unfold i in *. lia.
Qed.

(* ---------------------------------------------------------------- part 3: the loop over the source variants *)

Lemma Permutation_filter' {A} (f : A -> bool) l l' : Permutation l l' -> Permutation (filter f l) (filter f l').
Proof.
  induction 1 as [|x l l' P IH|x y l|l l' l'' P1 IH1 P2 IH2]; simpl; auto.
  - destruct (f x); auto.
  - destruct (f x), (f y); auto. apply perm_swap.
  - eapply Permutation_trans; eauto.
Qed.

Lemma filter_map_comm {A B} (g : A -> B) (f : B -> bool) l : filter f (map g l) = map g (filter (fun x => f (g x)) l).
Proof. induction l as [|x r IH]; simpl; auto. destruct (f (g x)); simpl; congruence. Qed.

Lemma NoDup_map_inj {A B} (f : A -> B) l :
  (forall x y, In x l -> In y l -> f x = f y -> x = y) -> NoDup l -> NoDup (map f l).
Proof.
  intros Hinj. induction 1 as [|x r Hx Hn IH]; simpl; constructor.
  - intro H. apply in_map_iff in H. destruct H as (y & E & Hy).
    assert (y = x) by (apply Hinj; simpl; auto). subst. tauto.
  - apply IH. intros a b Ha Hb. apply Hinj; simpl; auto.
Qed.

Lemma NoDup_map_eq {A B} (f : A -> B) l x y : NoDup (map f l) -> In x l -> In y l -> f x = f y -> x = y.
Proof.
  induction l as [|z r IH]; simpl; intros Hn Hx Hy E; [tauto|]. inversion Hn as [|? ? Hz Hn']; subst.
  destruct Hx as [->|Hx], Hy as [->|Hy]; auto.
  - exfalso. apply Hz. rewrite E. now apply in_map.
  - exfalso. apply Hz. rewrite <- E. now apply in_map.
Qed.

Lemma Forall2_last {A B} (R : A -> B -> Prop) da db : forall l l', Forall2 R l l' -> l' <> [] -> R (last l da) (last l' db).
Proof.
  induction 1 as [|x y l l' Hxy H IH]; intros Hne; [congruence|].
  destruct H as [|x' y' l l' Hxy' H]; [exact Hxy|]. apply IH. discriminate.
Qed.

Lemma Forall2_length' {A B} (R : A -> B -> Prop) l l' : Forall2 R l l' -> length l = length l'.
Proof. induction 1; simpl; congruence. Qed.
Lemma Forall2_impl_in' {A B} (R R' : A -> B -> Prop) l l' :
  (forall x y, In y l' -> R x y -> R' x y) -> Forall2 R l l' -> Forall2 R' l l'.
Proof. intros H. induction 1 as [|x y l l' Hxy F IH]; constructor; [apply H; simpl; auto|apply IH; intros; apply H; simpl; auto]. Qed.

(* splitting v against p *)
Lemma split_perm (p v : list id) : NoDup p -> NoDup v ->
  Permutation (filter (fun e => mem e v) p ++ filter (fun d => negb (mem d p)) v) v.
Proof.
  intros Hp Hv. apply NoDup_Permutation; auto.
  - apply NoDup_app_iff_fwd.
    + apply NoDup_filter; auto.
    + apply NoDup_filter; auto.
    + intros x H1 H2. apply filter_In in H1, H2. destruct H1 as [H1 _], H2 as [_ H2].
      apply negb_true_iff, mem_false in H2. tauto.
  - intros x. rewrite in_app_iff, !filter_In, negb_true_iff, mem_false, mem_In. split.
    + intros [[_ H]|[H _]]; auto.
    + intros H. destruct (in_dec Nat.eq_dec x p); auto.
Qed.

Record tinv (src : defs) (seen : list (list id)) (m : list (id * id)) (b : builder) : Prop := {
  t_inv : Inv b;
  t_add : b_add b = [];
  t_rm : b_rm b = [];
  t_vs : Forall2 (fun v' v => Permutation v' (map (mget m) v)) (b_vs b) seen;
  t_dom : forall v i, In v seen -> In i v ->
            exists i', assoc m i = Some i' /\ i' < length (b_ds b) /\ same5 (getd src i) (getd (b_ds b) i');
  t_inj : forall v1 v2 i1 i2, In v1 seen -> In v2 seen -> In i1 v1 -> In i2 v2 -> mget m i1 = mget m i2 -> i1 = i2 }.

Lemma same5_frame b b' x i : mframe b b' -> i < length (b_ds b) -> same5 x (getd (b_ds b) i) -> same5 x (getd (b_ds b') i).
Proof. intros F Hi S. eapply same5_trans; [exact S|apply (mf_meta _ _ F i Hi)]. Qed.

Definition pdata (prev : option (list id)) : list id := match prev with Some p => p | None => [] end.

Lemma lastopt_cases seen :
  (seen = [] /\ lastopt None seen = None) \/ (seen <> [] /\ lastopt None seen = Some (last seen []) /\ In (last seen []) seen).
Proof.
  destruct seen as [|x r]; [left; auto|right]. split; [discriminate|]. split.
  - apply lastopt_last. discriminate.
  - destruct (exists_last (l := x :: r) ltac:(discriminate)) as (l' & a & E). rewrite E, last_last. apply in_or_app. simpl. auto.
Qed.

Lemma conv_variants_ok src s :
  okS s -> (forall i, i < length src -> (1 <= al src i)%N) ->
  forall rest seen m vm b,
  (forall v, In v (seen ++ rest) -> NoDup v /\ (forall i, In i v -> i < length src) /\ names_nodup src v) ->
  chain seen (lastopt None seen) rest ->
  tinv src seen m b ->
  exists m' b',
    conv_variants src s (lastopt None seen) rest (length seen) m vm b
      = COk (vm ++ map (fun k => (k, k)) (seq (length seen) (length rest)), m', b') /\
    tinv src (seen ++ rest) m' b' /\
    (forall v i, In v seen -> In i v -> assoc m' i = assoc m i).
Proof.
  intros Hs Hal. induction rest as [|v rest IH]; intros seen m vm b Hsets Hch T.
  - exists m, b. simpl. rewrite !app_nil_r. split; [reflexivity|]. split; [exact T|auto].
  - destruct T as [I Ta Tr Tvs Tdom Tinj].
    destruct Hch as [Hlink Hch]. cbn [conv_variants].
    set (prev := lastopt None seen) in *. set (p := pdata prev).
    set (g := mget m).
    assert (Hsplit : match prev with
                     | Some p0 => (filter (fun d => negb (mem d p0)) v, filter (fun d => negb (mem d v)) p0)
                     | None => (v, [])
                     end = (filter (fun d => negb (mem d p)) v, filter (fun d => negb (mem d v)) p)).
    { unfold p. destruct prev; simpl; auto. now rewrite filter_mem_nil. }
    rewrite Hsplit. clear Hsplit.
    set (to_add := filter (fun d => negb (mem d p)) v). set (to_rm := filter (fun d => negb (mem d v)) p).
    destruct (Hsets v) as (Hvnd & Hvlt & Hvnames); [apply in_or_app; right; simpl; auto|].
    (* p is the last seen variant (or nothing) *)
    assert (Hp : (seen = [] /\ p = [] /\ prev = None) \/ (seen <> [] /\ In p seen /\ prev = Some p /\ p = last seen [])).
    { unfold p, prev. destruct (lastopt_cases seen) as [[E1 E2]|(E1 & E2 & E3)]; rewrite E2; simpl; [left; auto|right; auto]. }
    assert (Hpnd : NoDup p).
    { destruct Hp as [(_ & -> & _)|(_ & Hin & _)]; [constructor|]. apply (Hsets p). apply in_or_app. auto. }
    assert (Hpseen : forall e, In e p -> In p seen).
    { intros e He. destruct Hp as [(_ & E & _)|(_ & Hin & _)]; auto. rewrite E in He. destruct He. }
    assert (HL : Permutation (last_variant b) (map g p)).
    { destruct Hp as [(E1 & E2 & _)|(E1 & _ & _ & E2)].
      - rewrite E1 in Tvs. inversion Tvs as [E|]. unfold last_variant. rewrite <- E, E2. simpl. constructor.
      - unfold last_variant. rewrite E2. apply (Forall2_last _ [] [] _ _ Tvs E1). }
    assert (Hlen : length (b_vs b) = length seen) by (eapply Forall2_length'; eauto).
    (* what is new in v was never seen *)
    assert (Hnew : forall i, In i to_add -> forall u, In u seen -> ~ In i u).
    { intros i Hi u Hu. unfold to_add in Hi. apply filter_In in Hi. destruct Hi as [Hiv Hip].
      apply negb_true_iff, mem_false in Hip.
      destruct Hp as [(E & _)|(_ & _ & E & _)]; [rewrite E in Hu; destruct Hu|].
      unfold link in Hlink. fold prev in Hlink. rewrite E in Hlink. destruct Hlink as [_ Hf]. apply (Hf i Hiv Hip u Hu). }
    assert (Hginj : forall x y, In x p -> In y p -> g x = g y -> x = y).
    { intros x y Hx Hy. apply (Tinj p p x y (Hpseen x Hx) (Hpseen x Hx) Hx Hy). }
    (* --- removals *)
    destruct (conv_removes_ok m to_rm b I Ta) as (b1 & ER & I1 & D1 & V1 & A1 & R1).
    { intros d Hd. unfold to_rm in Hd. apply filter_In in Hd. destruct Hd as [Hd _].
      destruct (Tdom p d (Hpseen d Hd) Hd) as (d' & Em & _). exists d'. split; [exact Em|]. split.
      - eapply Permutation_in; [symmetry; exact HL|]. apply in_map_iff. exists d. split; auto. unfold g, mget. now rewrite Em.
      - rewrite Tr. intros []. }
    { apply NoDup_map_inj; [|apply NoDup_filter; exact Hpnd].
      intros x y Hx Hy. apply filter_In in Hx, Hy. apply Hginj; tauto. }
    rewrite ER. rewrite Tr in R1. simpl in R1.
    (* --- additions *)
    assert (Hcur1 : forall c, In c (current_data b1) -> exists e, In e p /\ In e v /\ c = g e).
    { intros c Hc. apply current_data_In in Hc. rewrite A1 in Hc. destruct Hc as [[Hc Hnr]|[]].
      unfold last_variant in Hc. rewrite V1 in Hc. fold (last_variant b) in Hc.
      eapply Permutation_in in Hc; [|exact HL]. apply in_map_iff in Hc. destruct Hc as (e & Ee & He).
      exists e. split; [exact He|]. split; [|now symmetry].
      destruct (mem e v) eqn:Ev; [now apply mem_In|]. exfalso. apply Hnr. rewrite R1, <- Ee.
      apply in_map. unfold to_rm. apply filter_In. split; auto. now rewrite Ev. }
    destruct (conv_adds_ok src to_add m b1 I1) as (m1 & b2 & EA & I2 & F2 & V2 & R2 & A2 & Hout & Hin & Hnd2).
    { intros d Hd. apply filter_In in Hd. destruct Hd as [Hd _]. split; [apply Hvlt; auto|apply Hal; apply Hvlt; auto]. }
    { apply NoDup_filter. exact Hvnd. }
    { unfold sname. apply NoDup_map_filter. exact Hvnames. }
    { intros d c Hd Hc. destruct (Hcur1 c Hc) as (e & Hep & Hev & ->).
      destruct (Tdom p e (Hpseen e Hep) Hep) as (e' & Em & _ & S5).
      assert (Ege : g e = e') by (unfold g, mget; now rewrite Em). rewrite Ege, D1.
      destruct S5 as (S1 & _). rewrite <- S1. unfold sname. intro Eq.
      apply filter_In in Hd. destruct Hd as [Hdv Hdp]. apply negb_true_iff, mem_false in Hdp.
      assert (e = d) by (apply (NoDup_map_eq _ v e d Hvnames Hev Hdv Eq)). subst. tauto. }
    rewrite EA. rewrite A1 in A2. simpl in A2.
    set (g1 := mget m1) in *.
    assert (Hagree : forall u i, In u seen -> In i u -> assoc m1 i = assoc m i).
    { intros u i Hu Hi. apply Hout. intro Hc. exact (Hnew i Hc u Hu Hi). }
    (* --- close *)
    assert (HP : has_pending_changes b2 = true).
    { unfold has_pending_changes. rewrite V2, V1, R2, R1, A2.
      destruct Hp as [(E & _)|(_ & _ & E & _)].
      - rewrite E in Tvs. inversion Tvs. reflexivity.
      - unfold link in Hlink. fold prev in Hlink. rewrite E in Hlink. destruct Hlink as [(i & Hd) _].
        destruct Hd as [[H1 H2]|[H1 H2]].
        + assert (Hi : In i to_rm) by (apply filter_In; split; auto; apply negb_true_iff, mem_false; auto).
          destruct to_rm; [destruct Hi|]. simpl. now rewrite orb_true_r.
        + assert (Hi : In i to_add) by (apply filter_In; split; auto; apply negb_true_iff, mem_false; auto).
          destruct to_add; [destruct Hi|]. simpl. now rewrite !orb_true_r. }
    destruct (H_close b2 s Hs I2 HP) as (dt & ds' & ES & Hperm).
    pose proof (H_step b2 (Close s) Hs I2) as I3.
    pose proof (H_frame b2 (Close s) Hs I2) as F3.
    rewrite ES in *. cbn [fst] in I3, F3.
    set (b3 := mkBuilder ds' (b_vs b2 ++ [dt]) [] []) in *.
    rewrite V2, V1, Hlen.
    (* the new variant is the image of v *)
    assert (Hdt : Permutation dt (map g1 v)).
    { eapply Permutation_trans; [exact Hperm|]. unfold current_data.
      assert (EL : last_variant b2 = last_variant b) by (unfold last_variant; now rewrite V2, V1).
      rewrite EL, R2, R1, A2.
      eapply Permutation_trans; [apply Permutation_app_tail; apply Permutation_filter'; exact HL|].
      rewrite filter_map_comm.
      rewrite (filter_ext_in' _ (fun e => mem e v) p).
      2:{ intros e He. destruct (mem e v) eqn:Ev.
          - apply negb_true_iff, mem_false. intro Hc. apply in_map_iff in Hc. destruct Hc as (e' & Eg' & He').
            apply filter_In in He'. destruct He' as [He' Hnv]. apply negb_true_iff, mem_false in Hnv.
            assert (e' = e) by (apply Hginj; auto). subst. apply mem_In in Ev. tauto.
          - apply negb_false_iff, mem_In. apply in_map. apply filter_In. split; auto. now rewrite Ev. }
      assert (Eg : map g (filter (fun e => mem e v) p) = map g1 (filter (fun e => mem e v) p)).
      { apply map_ext_in. intros e He. apply filter_In in He. destruct He as [He _].
        unfold g, g1, mget. now rewrite (Hagree p e (Hpseen e He) He). }
      rewrite Eg, <- map_app. apply Permutation_map. apply split_perm; auto. }
    (* --- the rest of the loop *)
    assert (Hlt12 : length (b_ds b) <= length (b_ds b2)) by (rewrite <- D1; apply (mf_len _ _ F2)).
    assert (F13 : mframe b1 b3) by (eapply mframe_trans; [exact F2|exact F3]).
    assert (T3 : tinv src (seen ++ [v]) m1 b3).
    { constructor; auto.
      - simpl. apply Forall2_app; [|constructor; [exact Hdt|constructor]].
        rewrite V2, V1. eapply Forall2_impl_in'; [|exact Tvs].
        intros v' u Hu Hperm'. replace (map (mget m1) u) with (map (mget m) u); [exact Hperm'|].
        apply map_ext_in. intros i Hi. unfold mget. now rewrite (Hagree u i Hu Hi).
      - intros u i Hu Hi. apply in_app_or in Hu. destruct Hu as [Hu|[<-|[]]].
        + destruct (Tdom u i Hu Hi) as (i' & Em & Hi' & S5). exists i'. rewrite (Hagree u i Hu Hi).
          split; [exact Em|]. pose proof (mf_len _ _ F13). split; [rewrite D1 in *; lia|].
          apply (same5_frame b1 b3); auto; rewrite D1; auto.
        + destruct (in_dec Nat.eq_dec i p) as [Hip|Hip].
          * destruct (Tdom p i (Hpseen i Hip) Hip) as (i' & Em & Hi' & S5). exists i'. rewrite (Hagree p i (Hpseen i Hip) Hip).
            split; [exact Em|]. pose proof (mf_len _ _ F13). split; [rewrite D1 in *; lia|].
            apply (same5_frame b1 b3); auto; rewrite D1; auto.
          * assert (Hia : In i to_add) by (apply filter_In; split; auto; apply negb_true_iff, mem_false; auto).
            destruct (Hin i Hia) as (j & Ej & Hj & S5). exists j. split; [exact Ej|].
            pose proof (mf_len _ _ F3). split; [simpl in *; lia|]. apply (same5_frame b2 b3); auto; lia.
      - (* injectivity: old images are below length (b_ds b), new ones at or above *)
        assert (Hold : forall u i, In u seen -> In i u -> mget m1 i = mget m i /\ mget m i < length (b_ds b)).
        { intros u i Hu Hi. unfold mget at 1 2. rewrite (Hagree u i Hu Hi).
          destruct (Tdom u i Hu Hi) as (i' & Em & Hi' & _). unfold mget. rewrite Em. auto. }
        assert (Hnewi : forall i, In i to_add -> length (b_ds b) <= mget m1 i).
        { intros i Hi. destruct (Hin i Hi) as (j & Ej & Hj & _). unfold mget. rewrite Ej. rewrite D1 in Hj. lia. }
        assert (Hcls : forall u i, In u (seen ++ [v]) -> In i u -> (exists u', In u' seen /\ In i u') \/ In i to_add).
        { intros u i Hu Hi. apply in_app_or in Hu. destruct Hu as [Hu|[<-|[]]]; [left; eauto|].
          destruct (in_dec Nat.eq_dec i p) as [Hip|Hip]; [left; exists p; split; [exact (Hpseen i Hip)|exact Hip]|right].
          apply filter_In. split; auto. apply negb_true_iff, mem_false; auto. }
        intros v1 v2 i1 i2 H1 H2 Hi1 Hi2 E.
        destruct (Hcls v1 i1 H1 Hi1) as [(u1 & Hu1 & Hiu1)|Ha1], (Hcls v2 i2 H2 Hi2) as [(u2 & Hu2 & Hiu2)|Ha2].
        + destruct (Hold u1 i1 Hu1 Hiu1) as [E1 _], (Hold u2 i2 Hu2 Hiu2) as [E2 _].
          apply (Tinj u1 u2); auto. congruence.
        + destruct (Hold u1 i1 Hu1 Hiu1) as [E1 L1]. pose proof (Hnewi i2 Ha2). lia.
        + destruct (Hold u2 i2 Hu2 Hiu2) as [E2 L2]. pose proof (Hnewi i1 Ha1). lia.
        + apply (NoDup_map_eq (mget m1) to_add); auto. }
    destruct (IH (seen ++ [v]) m1 (vm ++ [(length seen, length seen)]) b3) as (m' & b' & EC & T' & Hag').
    { intros u Hu. apply Hsets. rewrite <- app_assoc in Hu. exact Hu. }
    { rewrite lastopt_snoc. exact Hch. }
    { exact T3. }
    rewrite lastopt_snoc, app_length in EC. simpl in EC. rewrite Nat.add_1_r in EC.
    exists m', b'. split.
    + rewrite EC. rewrite <- app_assoc. reflexivity.
    + split; [rewrite <- app_assoc in T'; exact T'|].
      intros u i Hu Hi. rewrite (Hag' u i (in_or_app _ _ _ (or_introl Hu)) Hi). apply (Hagree u i Hu Hi).
Qed.

(* ---------------------------------------------------------------- the helper on a fresh builder *)

Lemma tinv_empty src : tinv src [] [] empty_builder.
Proof.
  constructor; simpl; auto; [intros v i []|intros v1 v2 i1 i2 []].
Qed.

Theorem convert_iso_abs ds vs s : src_ok ds vs -> okS s ->
  exists m tgt,
    convert (ds, vs) s empty_builder = COk (map (fun k => (k, k)) (seq 0 (length vs)), m, tgt) /\
    b_add tgt = [] /\ b_rm tgt = [] /\ Inv tgt /\
    Forall2 (fun v' v => Permutation v' (map (mget m) v)) (b_vs tgt) vs /\
    (forall v i, In v vs -> In i v ->
       exists i', assoc m i = Some i' /\ i' < length (b_ds tgt) /\ same5 (getd ds i) (getd (b_ds tgt) i')) /\
    (forall v1 v2 i1 i2, In v1 vs -> In v2 vs -> In i1 v1 -> In i2 v2 -> mget m i1 = mget m i2 -> i1 = i2).
Proof.
  intros [Hnd Hlt Hal Hnames Hch] Hs.
  destruct (conv_variants_ok ds s Hs Hal vs [] [] [] empty_builder) as (m & tgt & E & [I Ta Tr Tvs Tdom Tinj] & _).
  - intros v Hv. simpl in Hv. split; [apply Hnd; auto|]. split; [intros i Hi; apply (Hlt v i Hv Hi)|apply Hnames; auto].
  - exact Hch.
  - apply tinv_empty.
  - exists m, tgt. unfold convert. simpl in *. rewrite E. auto 10.
Qed.
End Abstract.

(* ---------------------------------------------------------------- native targets *)

(* closing with pending changes *)
Lemma close_pending b s : native s -> inv12 b -> has_pending_changes b = true ->
  exists dt ds', step b (Close s) = (mkBuilder ds' (b_vs b ++ [dt]) [] [], RVariant (length (b_vs b))) /\
                 Permutation dt (current_data b).
Proof.
  intros Hs I HP. pose proof (i_wf _ I) as W.
  assert (Hperm : Permutation (fst (run_strat s (last_variant b) (b_add b) (b_rm b) (b_ds b))) (current_data b)).
  { pose proof (wf_pre b W) as Hpre.
    destruct (run_strat_post s _ _ _ Hs Hpre (b_rm b) (last_variant b) eq_refl) as [_ Q2 _ _ _].
    rewrite Q2. unfold current_data, remove_data. apply Permutation_app_comm. }
  cbn [step]. rewrite HP.
  destruct (run_strat s (last_variant b) (b_add b) (b_rm b) (b_ds b)) as [dt ds'] eqn:ERS.
  exists dt, ds'. split; [reflexivity|exact Hperm].
Qed.


Lemma frame_mframe b b' : frame b b' -> mframe b b'.
Proof.
  intros F. constructor; [apply (fr_len _ _ F)|]. intros i Hi.
  destruct (fr_meta _ _ F i Hi) as (B1 & B2 & B3 & B4 & B5). unfold size, al in *. unfold same5. repeat split; congruence.
Qed.

Theorem convert_iso ds vs s : src_ok ds vs -> native s ->
  exists m tgt,
    convert (ds, vs) s empty_builder = COk (map (fun k => (k, k)) (seq 0 (length vs)), m, tgt) /\
    b_add tgt = [] /\ b_rm tgt = [] /\ inv12 tgt /\
    Forall2 (fun v' v => Permutation v' (map (mget m) v)) (b_vs tgt) vs /\
    (forall v i, In v vs -> In i v ->
       exists i', assoc m i = Some i' /\ i' < length (b_ds tgt) /\ same5 (getd ds i) (getd (b_ds tgt) i')) /\
    (forall v1 v2 i1 i2, In v1 vs -> In v2 vs -> In i1 v1 -> In i2 v2 -> mget m i1 = mget m i2 -> i1 = i2).
Proof.
  apply (convert_iso_abs inv12 native inv12_empty).
  - intros b r Hr I. apply step_inv12; auto.
  - intros b r Hr I. apply frame_mframe. apply (step_facts b r Hr (i_wf _ I)).
  - intros b i I Hi. apply (i_cur_lt _ I i Hi).
  - intros b s0 Hs I HP. apply close_pending; auto.
Qed.
