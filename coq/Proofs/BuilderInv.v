(* The layout invariant of the builder, preserved by every request. *)
From Coq Require Import List NArith Lia Bool Arith Sorting.Sorted Permutation.
From Truc.Model Require Import Layout Builder.
From Truc.Proofs Require Import ArithP Sorted Basic Gaps Simple Strategies Variants.
Import ListNotations.
Open Scope N_scope.

(* hypotheses on a request: Rust alignments are >= 1; the closing strategy is one of the four
   shipped with the native builder *)
Definition req_ok (r : req) : Prop :=
  match r with
  | Add _ _ _ a _ => 1 <= a
  | Close s => native s
  | _ => True
  end.
Definition hist_ok (h : list req) : Prop := Forall req_ok h.

Definition vinv (ds : defs) (vs : list (list id)) : Prop :=
  forall v, In v vs -> sorted_from ds 0 v /\ NoDup v /\
     (forall i, In i v -> (i < length ds)%nat /\ off ds i mod al ds i = 0).

Record wf (b : builder) : Prop := {
  wf_v : vinv (b_ds b) (b_vs b);
  wf_al : forall i, (i < length (b_ds b))%nat -> 1 <= al (b_ds b) i;
  wf_add_nd : NoDup (b_add b);
  wf_add : forall i, In i (b_add b) ->
             (i < length (b_ds b))%nat /\ forall v, In v (b_vs b) -> ~ In i v }.

Lemma wf_empty : wf empty_builder.
Proof.
  constructor; simpl.
  - intros x [].
  - intros i Hi. lia.
  - constructor.
  - intros i [].
Qed.

Definition placed (b : builder) (i : id) : Prop := exists v, In v (b_vs b) /\ In i v.

(* what a step may change *)
Record frame (b b' : builder) : Prop := {
  fr_len : (length (b_ds b) <= length (b_ds b'))%nat;
  fr_meta : forall i, (i < length (b_ds b))%nat ->
              size (b_ds b') i = size (b_ds b) i /\ al (b_ds b') i = al (b_ds b) i /\
              d_name (getd (b_ds b') i) = d_name (getd (b_ds b) i) /\
              d_ty (getd (b_ds b') i) = d_ty (getd (b_ds b) i) /\
              d_uninit (getd (b_ds b') i) = d_uninit (getd (b_ds b) i);
  fr_off : forall i, placed b i -> off (b_ds b') i = off (b_ds b) i;
  fr_vs : exists extra, b_vs b' = b_vs b ++ extra }.

Lemma frame_refl b : frame b b.
Proof. constructor; auto. exists []. now rewrite app_nil_r. Qed.

Lemma placed_mono b b' i : frame b b' -> placed b i -> placed b' i.
Proof. intros [_ _ _ [e He]] (v & Hv & Hi). exists v. rewrite He. split; auto. apply in_or_app; auto. Qed.

Lemma frame_trans a b c : wf a -> frame a b -> frame b c -> frame a c.
Proof.
  intros Ha F1 F2. pose proof (placed_mono a b) as PM.
  destruct F1 as [L1 M1 O1 [e1 V1]]. destruct F2 as [L2 M2 O2 [e2 V2]].
  constructor.
  - lia.
  - intros i Hi. destruct (M1 i Hi) as (A1 & A2 & A3 & A4 & A5).
    destruct (M2 i ltac:(lia)) as (B1 & B2 & B3 & B4 & B5). repeat split; congruence.
  - intros i Hi. rewrite O2, O1; auto. apply PM; auto. constructor; auto. exists e1; auto.
  - exists (e1 ++ e2). rewrite V2, V1. now rewrite app_assoc.
Qed.

Lemma remove_first_sub i l x : In x (remove_first i l) -> In x l.
Proof.
  induction l as [|j r IH]; simpl; auto. destruct (Nat.eqb j i); simpl; intros H; auto.
  destruct H; auto.
Qed.
Lemma remove_first_NoDup i l : NoDup l -> NoDup (remove_first i l).
Proof.
  induction 1 as [|j r Hj Hn IH]; simpl; [constructor|].
  destruct (Nat.eqb j i); auto. constructor; auto. intro H. apply remove_first_sub in H. auto.
Qed.

Lemma getd_meta_set ds i o j :
  d_name (getd (set_off ds i o) j) = d_name (getd ds j) /\
  d_ty (getd (set_off ds i o) j) = d_ty (getd ds j) /\
  d_uninit (getd (set_off ds i o) j) = d_uninit (getd ds j).
Proof.
  revert i j; induction ds as [|d r IH]; intros i j; simpl; auto.
  destruct i, j; simpl; auto. unfold getd in IH. simpl. apply IH.
Qed.

(* names / type ids / uninit flags are never touched by a strategy *)
Definition same_tags (ds ds' : defs) : Prop :=
  forall j, d_name (getd ds' j) = d_name (getd ds j) /\ d_ty (getd ds' j) = d_ty (getd ds j) /\
            d_uninit (getd ds' j) = d_uninit (getd ds j).
Lemma same_tags_refl ds : same_tags ds ds. Proof. intros j; auto. Qed.
Lemma same_tags_trans a b c : same_tags a b -> same_tags b c -> same_tags a c.
Proof. intros H1 H2 j. destruct (H1 j) as (?&?&?), (H2 j) as (?&?&?). repeat split; congruence. Qed.
Lemma same_tags_set ds i o : same_tags ds (set_off ds i o).
Proof. intros j. apply getd_meta_set. Qed.

Lemma fold_tags {S} (sdefs : S -> defs) (step : S -> id -> S) :
  (forall st i, same_tags (sdefs st) (sdefs (step st i))) ->
  forall l st, same_tags (sdefs st) (sdefs (fold_left step l st)).
Proof.
  intros H l. induction l as [|i l IH]; intros st; simpl; [apply same_tags_refl|].
  eapply same_tags_trans; [apply H|apply IH].
Qed.

Lemma append_step_tags st i : same_tags (snd st) (snd (append_step st i)).
Proof. unfold append_step, push_datum. simpl. apply same_tags_set. Qed.
Lemma basic_step_tags st i : same_tags (b_defs st) (b_defs (basic_step st i)).
Proof.
  unfold basic_step. destruct (basic_walk _ _ _ _ _ _ _) as [dc bc]. simpl. apply same_tags_set.
Qed.
Lemma simple_step_tags st i : same_tags (s_defs st) (s_defs (simple_step st i)).
Proof.
  unfold simple_step. destruct (choose _ _); simpl; [apply same_tags_set|].
  unfold push_datum. simpl. apply same_tags_set.
Qed.

Lemma run_strat_tags s data add rm ds : same_tags ds (snd (run_strat s data add rm ds)).
Proof.
  destruct s; simpl.
  - unfold simple, simple_gen. simpl. apply (fold_tags s_defs simple_step simple_step_tags _ (mkS _ ds _)).
  - unfold basic. simpl. apply (fold_tags b_defs basic_step basic_step_tags _ (mkB _ ds _ _)).
  - unfold append_data. apply (fold_tags snd append_step append_step_tags _ (_, ds)).
  - unfold append_data_reverse, append_data. apply (fold_tags snd append_step append_step_tags _ (_, ds)).
  - unfold simple_unfixed, simple_gen. simpl. apply (fold_tags s_defs simple_step simple_step_tags _ (mkS _ ds _)).
  - apply same_tags_refl.
  - apply same_tags_refl.
Qed.

(* ------------------------------------------------------------------ Close *)

Lemma close_facts b s :
  native s -> wf b ->
  let b' := fst (step b (Close s)) in wf b' /\ frame b b' /\ b_add b' = [] /\ b_rm b' = [] /\
                                       length (b_ds b') = length (b_ds b).
Proof.
  intros Hs W. cbv zeta. unfold step. destruct (has_pending_changes b) eqn:Hp.
  2:{ simpl. unfold has_pending_changes in Hp.
      destruct (b_add b) eqn:Ea, (b_rm b) eqn:Er; try (rewrite ?orb_true_r in Hp; simpl in Hp; rewrite ?orb_true_r in Hp; discriminate).
      split; [exact W|]. split; [apply frame_refl|]. auto. }
  assert (Hlen_goal : True) by exact I.
  set (prev := last_variant b). set (ds := b_ds b).
  destruct W as [Wv Wal Wnd Wadd].
  assert (Hprev : sorted_from ds 0 prev /\ NoDup prev /\
                  (forall i, In i prev -> (i < length ds)%nat /\ off ds i mod al ds i = 0)).
  { unfold prev, last_variant. destruct (b_vs b) as [|v0 vs'] eqn:Ev.
    - simpl. repeat split; try constructor; destruct H.
    - apply Wv. apply last_In. discriminate. }
  destruct Hprev as (Hps & Hpn & Hpv).
  assert (Hprev_in : forall i, In i prev -> b_vs b <> [] /\ In prev (b_vs b)).
  { intros i Hi. unfold prev, last_variant in *. destruct (b_vs b) eqn:Ev; [destruct Hi|].
    split; [discriminate|]. apply last_In. discriminate. }
  assert (Hpre : pre ds (remove_data prev (b_rm b)) (b_add b)).
  { repeat split.
    - apply sorted_from_filter. exact Hps.
    - exact Wnd.
    - intros i Hi Hin. apply remove_data_sub in Hin. destruct (Hprev_in i Hin) as [_ Hm].
      destruct (Wadd i Hi) as [_ Hno]. apply (Hno prev Hm Hin).
    - apply Wadd; auto.
    - apply Wal. apply Wadd; auto. }
  pose proof (run_strat_post s ds _ (b_add b) Hs Hpre (b_rm b) prev eq_refl) as Hpost. cbv zeta in Hpost.
  pose proof (run_strat_tags s prev (b_add b) (b_rm b) ds) as Htags.
  fold prev ds. destruct (run_strat s prev (b_add b) (b_rm b) ds) as [dt ds2]. simpl in *.
  destruct Hpost as [Q1 Q2 [Q3a Q3b] Q4 Q5].
  assert (Hkeep : forall i, ~ In i (b_add b) -> off ds2 i = off ds i /\ size ds2 i = size ds i /\ al ds2 i = al ds i).
  { intros i Hi. destruct (Q3b i) as [Hsz Ha]. rewrite Hsz, Ha, Q4; auto. }
  assert (Hplaced_not_add : forall v i, In v (b_vs b) -> In i v -> ~ In i (b_add b)).
  { intros v i Hv Hi Hin. destruct (Wadd i Hin) as [_ Hno]. apply (Hno v Hv Hi). }
  split; [|split; [|auto]].
  - constructor; simpl.
    + intros v Hv. apply in_app_or in Hv. destruct Hv as [Hv|[<-|[]]].
      * destruct (Wv v Hv) as (V1 & V2 & V3). repeat split; auto.
        -- eapply sorted_from_ext; [|exact V1]. intros i Hi.
           destruct (Hkeep i (Hplaced_not_add v i Hv Hi)); tauto.
        -- rewrite Q3a. apply V3; auto.
        -- destruct (Hkeep i (Hplaced_not_add v i Hv H)) as (K1 & K2 & K3). rewrite K1, K3. apply V3; auto.
      * assert (Hmem : forall i, In i dt -> In i (b_add b) \/ In i prev).
        { intros i Hi. eapply Permutation_in in Hi; [|exact Q2]. apply in_app_or in Hi.
          destruct Hi as [Hi|Hi]; auto. right. eapply remove_data_sub; eauto. }
        repeat split; auto.
        -- eapply Permutation_NoDup; [symmetry; exact Q2|].
           apply NoDup_app_iff_fwd; auto.
           ++ apply NoDup_filter; auto.
           ++ intros i Hi Hin. apply remove_data_sub in Hin. destruct (Hprev_in i Hin) as [_ Hm].
              eapply Hplaced_not_add; eauto.
        -- rewrite Q3a. destruct (Hmem i H) as [Hi|Hi]; [apply Wadd; auto|apply Hpv; auto].
        -- destruct (Hmem i H) as [Hi|Hi].
           ++ destruct (Q3b i) as [_ Ha]. rewrite Ha. apply Q5; auto.
           ++ destruct (Hprev_in i Hi) as [_ Hm].
              destruct (Hkeep i (Hplaced_not_add prev i Hm Hi)) as (K1 & K2 & K3). rewrite K1, K3. apply Hpv; auto.
    + intros i Hi. rewrite Q3a in Hi. destruct (Q3b i) as [_ Ha]. rewrite Ha. apply Wal; auto.
    + constructor.
    + intros i [].
  - constructor; simpl.
    + rewrite Q3a. unfold ds. lia.
    + intros i Hi. destruct (Q3b i) as [Hsz Ha]. destruct (Htags i) as (T1 & T2 & T3). repeat split; auto.
    + intros i (v & Hv & Hi). apply Hkeep. eapply Hplaced_not_add; eauto.
    + eexists; reflexivity.
Qed.

(* ------------------------------------------------------------------ Add *)

Lemma add_facts b nm ty sz a u :
  1 <= a -> wf b ->
  let b' := fst (step b (Add nm ty sz a u)) in wf b' /\ frame b b'.
Proof.
  intros Ha W. cbv zeta. unfold step. destruct (current_by_name b nm); simpl.
  { split; [exact W|apply frame_refl]. }
  destruct W as [Wv Wal Wnd Wadd].
  set (n := length (b_ds b)). set (d := mkDatum nm ty sz a u MAXU).
  assert (Hold : forall j, (j < n)%nat -> getd (b_ds b ++ [d]) j = getd (b_ds b) j) by (intros; apply getd_app_old; auto).
  assert (Hnew : getd (b_ds b ++ [d]) n = d).
  { unfold getd, n. rewrite app_nth2 by lia. now rewrite Nat.sub_diag. }
  split.
  - constructor; simpl.
    + intros v Hv. destruct (Wv v Hv) as (V1 & V2 & V3). repeat split; auto.
      * eapply sorted_from_ext; [|exact V1]. intros i Hi. unfold off, size. rewrite Hold; auto. apply V3; auto.
      * rewrite app_length. simpl. destruct (V3 i H). lia.
      * destruct (V3 i H) as [L M]. unfold off, al in *. rewrite Hold; auto.
    + intros i Hi. rewrite app_length in Hi. simpl in Hi. unfold al.
      destruct (Nat.eq_dec i n) as [->|Hne]; [rewrite Hnew; simpl; auto|].
      rewrite Hold by (unfold n; lia). apply Wal. unfold n in *; lia.
    + apply NoDup_app_iff_fwd; auto; [constructor; [intros []|constructor]|].
      intros x Hx [<-|[]]. destruct (Wadd _ Hx). unfold n in *. lia.
    + intros i Hi. apply in_app_or in Hi. rewrite app_length. simpl. destruct Hi as [Hi|[<-|[]]].
      * destruct (Wadd i Hi). split; [lia|auto].
      * split; [unfold n; lia|]. intros v Hv Hin. destruct (Wv v Hv) as (_ & _ & V3).
        destruct (V3 _ Hin). unfold n in *. lia.
  - constructor; simpl.
    + rewrite app_length. lia.
    + intros i Hi. unfold size, al. rewrite Hold; auto.
    + intros i (v & Hv & Hi). unfold off. rewrite Hold; auto. destruct (Wv v Hv) as (_ & _ & V3). apply V3; auto.
    + exists []. now rewrite app_nil_r.
Qed.

(* ------------------------------------------------------------------ Remove *)

Lemma remove_facts b i :
  wf b -> let b' := fst (step b (Remove i)) in wf b' /\ frame b b'.
Proof.
  intros W. cbv zeta.
  assert (Hrm : wf (mkBuilder (b_ds b) (b_vs b) (remove_first i (b_add b)) (b_rm b))).
  { destruct W as [Wv Wal Wnd Wadd]. constructor; simpl; auto.
    - apply remove_first_NoDup; auto.
    - intros j Hj. apply Wadd. eapply remove_first_sub; eauto. }
  assert (Hrr : wf (mkBuilder (b_ds b) (b_vs b) (b_add b) (b_rm b ++ [i]))).
  { destruct W as [Wv Wal Wnd Wadd]. constructor; simpl; auto. }
  assert (F : forall x y, frame b (mkBuilder (b_ds b) (b_vs b) x y)).
  { intros. constructor; simpl; auto. exists []. now rewrite app_nil_r. }
  unfold step. destruct (b_vs b) eqn:Ev.
  - destruct (mem i (b_add b)); simpl; [split; [exact Hrm|apply F]|split; [auto|apply frame_refl]].
  - destruct (mem i (last_variant b)).
    + destruct (mem i (b_rm b)); simpl; [split; [auto|apply frame_refl]|split; [exact Hrr|apply F]].
    + destruct (mem i (b_add b)); simpl; [split; [exact Hrm|apply F]|split; [auto|apply frame_refl]].
Qed.

(* a step only ever appends definitions, and only an accepted Add does *)
Lemma step_new b r : req_ok r -> wf b ->
  forall i, (length (b_ds b) <= i < length (b_ds (fst (step b r))))%nat ->
  match r with Add _ _ _ a _ => al (b_ds (fst (step b r))) i = a | _ => False end.
Proof.
  intros Hr W i Hi. destruct r as [nm ty sz a u|j|s|nm|v nm]; simpl in *; try lia.
  - destruct (current_by_name b nm); simpl in *; [lia|].
    rewrite app_length in Hi. simpl in Hi. assert (i = length (b_ds b)) by lia. subst i.
    unfold al, getd. rewrite app_nth2 by lia. now rewrite Nat.sub_diag.
  - destruct (b_vs b).
    + destruct (mem j (b_add b)); simpl in *; lia.
    + destruct (mem j (last_variant b)); [destruct (mem j (b_rm b))|destruct (mem j (b_add b))]; simpl in *; lia.
  - destruct (close_facts b s Hr W) as (_ & _ & _ & _ & L). simpl in L. lia.
Qed.

(* ------------------------------------------------------------------ every request *)

Lemma step_facts b r : req_ok r -> wf b -> wf (fst (step b r)) /\ frame b (fst (step b r)).
Proof.
  intros Hr W. destruct r as [nm ty sz a u|i|s|nm|v nm].
  - apply add_facts; auto.
  - apply remove_facts; auto.
  - destruct (close_facts b s Hr W) as (A & B & _). auto.
  - simpl. split; [auto|apply frame_refl].
  - simpl. split; [auto|apply frame_refl].
Qed.

Lemma run_from_facts h : hist_ok h -> forall b, wf b -> wf (run_from b h) /\ frame b (run_from b h).
Proof.
  induction 1 as [|r h Hr Hh IH]; intros b W; simpl.
  - split; [auto|apply frame_refl].
  - destruct (step_facts b r Hr W) as [W1 F1]. destruct (IH _ W1) as [W2 F2].
    split; auto. eapply frame_trans; eauto.
Qed.

Theorem run_wf h : hist_ok h -> wf (run h).
Proof. intros H. apply (run_from_facts h H empty_builder wf_empty). Qed.

Lemma run_app h1 h2 : run (h1 ++ h2) = run_from (run h1) h2.
Proof. unfold run, run_from. apply fold_left_app. Qed.
