(* Records on the abstract machine, semantically: a buffer HOLDS a variant with a valuation when the
   values it owns are exactly the variant's fields.  Every generated operation maps records that hold
   to records that hold (C04, C05), destroys / hands back each value exactly once (C06) and never faults (C07). *)
From Coq Require Import List NArith Lia Bool Arith Permutation.
From Truc.Model Require Import Layout Builder Ir Gen Exec Ops.
From Truc.Proofs Require Import ExecP.
Import ListNotations.
Open Scope N_scope.

Lemma NoDup_filter_keep {X} (f : X -> bool) l : NoDup l -> NoDup (filter f l).
Proof.
  induction 1 as [|x l Hx Hn IH]; simpl; [constructor|].
  destruct (f x); auto. constructor; auto. intro H. apply filter_In in H. tauto.
Qed.

Lemma NoDup_app_l {X} (l1 l2 : list X) : NoDup (l1 ++ l2) -> NoDup l1.
Proof.
  induction l1 as [|x r IH]; simpl; intros H; [constructor|]. apply NoDup_cons_iff in H. destruct H as [H1 H2].
  constructor; auto. intro Hin. apply H1. apply in_or_app. auto.
Qed.

Section Holds.
Variable ds : defs.
Variable TI : nat -> tinfo.
Variable rt : runtime.
Variables (A cap : N).
Hypothesis RT : rt_ok rt = true.

Notation sz := (sz ds TI).
Notation al := (al ds TI).
Notation dr := (dr ds TI).
Notation layout_ok := (layout_ok ds TI A cap).

Definition entry := (N * nat * nat)%type.       (* offset, type, value *)
Definition e_off (e : entry) := fst (fst e).
Definition e_ty (e : entry) := snd (fst e).
Definition e_val (e : entry) := snd e.
Definition e_key (e : entry) : N * nat := (e_off e, e_ty e).

Fixpoint owned (l : list slot) : list entry :=
  match l with
  | [] => []
  | s :: r => match s_st s with Owned v => (s_off s, s_ty s, v) :: owned r | Moved => owned r end
  end.

Definition wf_slot (s : slot) : Prop := s_size s = ti_size (TI (s_ty s)) /\ s_drop s = ti_drop (TI (s_ty s)).

Definition entry_of (vals : nat -> nat) (i : nat) : entry := (of ds i, ty ds i, vals i).

(* the buffer owns exactly the fields of `data`, with the values `vals` *)
Record holds (al0 : N) (data : list nat) (vals : nat -> nat) (b : buf) : Prop := {
  h_align : b_align b = al0;
  h_cap : b_cap b = cap;
  h_wf : Forall wf_slot (b_slots b);
  h_owned : Permutation (owned (b_slots b)) (map (entry_of vals) data) }.

(* ---------------------------------------------------------------- take *)

Lemma owned_in_key l e : In e (owned l) -> In (e_key e) (map e_key (owned l)).
Proof. intros. now apply in_map. Qed.

Lemma take_spec off t v : forall l,
  NoDup (map e_key (owned l)) -> In (off, t, v) (owned l) -> Forall wf_slot l ->
  exists l', take off t l = Some (v, l') /\ Permutation ((off, t, v) :: owned l') (owned l) /\ Forall wf_slot l'.
Proof.
  induction l as [|s r IH]; simpl; intros Hnd Hin Hwf; [destruct Hin|].
  inversion Hwf as [|? ? Hs Hr]; subst.
  unfold key_match, is_owned. destruct (s_st s) as [v'|] eqn:Est; simpl in *.
  - destruct ((s_off s =? off) && Nat.eqb (s_ty s) t) eqn:K; simpl.
    + apply andb_prop in K. destruct K as [K1 K2]. apply N.eqb_eq in K1. apply Nat.eqb_eq in K2.
      assert (v' = v).
      { destruct Hin as [E|Hin]; [congruence|]. exfalso. apply NoDup_cons_iff in Hnd. destruct Hnd as [Hh _].
        apply Hh. replace (e_key (s_off s, s_ty s, v')) with (e_key (off, t, v)) by (unfold e_key; simpl; now rewrite K1, K2).
        now apply in_map. }
      subst v'. eexists. split; [reflexivity|]. simpl. rewrite K1, K2. split; [apply Permutation_refl|].
      constructor; auto. destruct Hs as [W1 W2]. unfold wf_slot. simpl. rewrite <- K2. auto.
    + destruct Hin as [E|Hin].
      { exfalso. inversion E; subst. rewrite N.eqb_refl, Nat.eqb_refl in K. discriminate. }
      apply NoDup_cons_iff in Hnd. destruct Hnd as [_ Hnd'].
      destruct (IH Hnd' Hin Hr) as (l' & -> & P & W). eexists. split; [reflexivity|]. simpl. rewrite Est. split.
      * rewrite perm_swap. now apply perm_skip.
      * constructor; auto.
  - rewrite andb_false_r.
    destruct (IH Hnd Hin Hr) as (l' & -> & P & W). eexists. split; [reflexivity|]. simpl. rewrite Est. split; auto.
Qed.

(* ---------------------------------------------------------------- store *)

Lemma rt_facts' : write_needs_align rt = false /\ write_ptr_unique rt = true /\ getmut_ptr_unique rt = true.
Proof. exact (rt_facts rt RT). Qed.

Lemma bwrite_spec b off t v :
  b_cap b = cap -> off + ti_size (TI t) <= cap -> Forall wf_slot (b_slots b) ->
  (forall e, In e (owned (b_slots b)) -> overlaps off (ti_size (TI t)) (e_off e) (ti_size (TI (e_ty e))) = false) ->
  exists b', bwrite TI rt b off t v = Ok b' /\ b_align b' = b_align b /\ b_cap b' = cap /\
             owned (b_slots b') = (off, t, v) :: owned (b_slots b) /\ Forall wf_slot (b_slots b').
Proof.
  intros Hc Hb Hwf Hno. destruct rt_facts' as (R1 & R2 & _).
  unfold bwrite. rewrite Hc, R1, R2. simpl.
  assert (Hb' : off + ti_size (TI t) <=? cap = true) by (apply N.leb_le; auto). rewrite Hb'. simpl.
  assert (Hslot : forall s, In s (b_slots b) -> is_owned s = true ->
                  overlaps off (ti_size (TI t)) (s_off s) (s_size s) = false).
  { intros s Hs Ho. rewrite Forall_forall in Hwf. destruct (Hwf s Hs) as [W1 _]. rewrite W1.
    unfold is_owned in Ho. destruct (s_st s) as [v'|] eqn:E; [|discriminate].
    apply (Hno (s_off s, s_ty s, v')).
    clear -Hs E. induction (b_slots b) as [|x l IH]; simpl in *; [tauto|]. destruct Hs as [->|Hs].
    - rewrite E. simpl; auto.
    - destruct (s_st x); simpl; auto. }
  assert (Hex : existsb (fun s => is_owned s && s_drop s && overlaps off (ti_size (TI t)) (s_off s) (s_size s)) (b_slots b) = false).
  { apply not_true_is_false. intro H. apply existsb_exists in H. destruct H as (s & Hs & H).
    apply andb_prop in H. destruct H as [H H3]. apply andb_prop in H. destruct H as [H1 H2].
    rewrite (Hslot s Hs H1) in H3. discriminate. }
  rewrite Hex. eexists. split; [reflexivity|]. simpl. repeat split; auto.
  - f_equal. clear -Hslot. induction (b_slots b) as [|s l IH]; simpl; auto.
    assert (IH' : owned (filter (fun s0 => negb (overlaps off (ti_size (TI t)) (s_off s0) (s_size s0))) l) = owned l).
    { apply IH. intros; apply Hslot; simpl; auto. }
    destruct (s_st s) as [v'|] eqn:E.
    + rewrite (Hslot s) by (simpl; auto; unfold is_owned; now rewrite E). simpl. rewrite E. now rewrite IH'.
    + destruct (overlaps _ _ _ _); simpl; auto. now rewrite E.
  - constructor; [split; reflexivity|]. apply Forall_forall. intros s Hs. apply filter_In in Hs.
    rewrite Forall_forall in Hwf. apply Hwf. tauto.
Qed.

(* ---------------------------------------------------------------- typed load of a field *)

Section Variant.
Variable data : list nat.
Hypothesis L : layout_ok data.

Lemma keys_nodup vals l : Permutation l (map (entry_of vals) data) -> NoDup (map e_key l).
Proof.
  intros P. eapply Permutation_NoDup; [apply Permutation_map; symmetry; exact P|].
  rewrite map_map. exact (lo_keys _ _ _ _ _ L).
Qed.

Lemma bread_holds a0 vals b i rest :
  In i data -> b_align b = a0 -> a0 mod al i = 0 -> b_cap b = cap -> Forall wf_slot (b_slots b) ->
  Permutation (owned (b_slots b)) (entry_of vals i :: rest) -> NoDup (map e_key (owned (b_slots b))) ->
  exists b', bread TI b (of ds i) (ty ds i) = Ok (Some (vals i), b') /\ b_align b' = a0 /\ b_cap b' = cap /\
             Forall wf_slot (b_slots b') /\ Permutation (owned (b_slots b')) rest.
Proof.
  intros Hi Ha Hal Hc Hwf P Hnd. unfold bread. rewrite Hc.
  assert (Hb : of ds i + ti_size (TI (ty ds i)) <=? cap = true) by (apply N.leb_le; apply (lo_cap _ _ _ _ _ L i Hi)).
  rewrite Hb. simpl.
  destruct (lo_al _ _ _ _ _ L i Hi) as (A1 & A2 & _). unfold aligned_ok. rewrite Ha.
  unfold ExecP.al in *. rewrite Hal, A2. simpl.
  assert (Hin : In (of ds i, ty ds i, vals i) (owned (b_slots b))).
  { eapply Permutation_in; [symmetry; exact P|]. simpl; auto. }
  destruct (take_spec _ _ _ _ Hnd Hin Hwf) as (l' & -> & P' & W).
  eexists. split; [reflexivity|]. simpl. repeat split; auto.
  apply Permutation_cons_inv with (a := entry_of vals i). unfold entry_of at 1. rewrite P'. exact P.
Qed.

(* ---------------------------------------------------------------- consequences for one variant *)

Lemma owned_slot_of vals l : owned (map (slot_of ds TI vals) l) = map (entry_of vals) l.
Proof. induction l as [|i r IH]; simpl; auto. now rewrite IH. Qed.

Lemma wf_slot_of vals l : Forall wf_slot (map (slot_of ds TI vals) l).
Proof. apply Forall_forall. intros s Hs. apply in_map_iff in Hs. destruct Hs as (i & <- & _). split; reflexivity. Qed.

(* the record built by the constructor holds the variant *)
Lemma record_of_holds vals : holds A data vals (record_of ds TI A cap data vals).
Proof.
  constructor; simpl; auto.
  - apply wf_slot_of.
  - rewrite owned_slot_of. apply Permutation_map. apply Permutation_sym. apply Permutation_rev.
Qed.

Lemma holds_keys a0 vals b : holds a0 data vals b -> NoDup (map e_key (owned (b_slots b))).
Proof. intros H. eapply keys_nodup. apply (h_owned _ _ _ _ H). Qed.

Lemma in_split_perm {X} (x : X) l : In x l -> exists r, Permutation l (x :: r).
Proof.
  intros H. apply in_split in H. destruct H as (l1 & l2 & ->). exists (l1 ++ l2).
  apply Permutation_sym. apply Permutation_middle.
Qed.

(* C04: accessors of ANY record that holds the variant (fresh, converted, cloned, ...) *)
Theorem get_holds vals b i m : holds A data vals b -> In i data ->
  op_get ds TI rt b i m = Ok (Some (vals i)).
Proof.
  intros H Hi. destruct rt_facts' as (_ & _ & R3). unfold op_get, bget. rewrite R3, andb_false_r.
  destruct (in_split_perm (entry_of vals i) (map (entry_of vals) data)) as (rest & Pr); [now apply in_map|].
  destruct (bread_holds A vals b i rest Hi (h_align _ _ _ _ H)) as (b' & -> & _); auto.
  - apply (lo_al _ _ _ _ _ L i Hi).
  - apply (h_cap _ _ _ _ H).
  - apply (h_wf _ _ _ _ H).
  - rewrite (h_owned _ _ _ _ H). exact Pr.
  - eapply holds_keys; eauto.
Qed.

(* a run of typed loads `let [_]f: T = unsafe { X.data.read(off) }` over the fields `todo` *)
Definition get_obj (o : obj) (e : env) := match o with OSelf => e_self e | OFrom => e_from e end.
Definition set_obj (o : obj) (e : env) (b : buf) (loc : list (nat * (option nat * nat))) : env :=
  match o with
  | OSelf => mkEnv (Some b) (e_from e) (e_mdrop e) (e_data e) (e_afrom e) (e_aplus e) loc (e_record e)
  | OFrom => mkEnv (e_self e) (Some b) (e_mdrop e) (e_data e) (e_afrom e) (e_aplus e) loc (e_record e)
  end.

Lemma reads_holds vals u o : forall todo e b ents out,
  (forall i, In i todo -> In i data) ->
  get_obj o e = Some b -> b_align b = A -> b_cap b = cap -> Forall wf_slot (b_slots b) ->
  Permutation (owned (b_slots b)) (map (entry_of vals) todo ++ ents) ->
  NoDup (map e_key (owned (b_slots b))) ->
  exists b', run_body TI rt A cap e (map (fun i => SRead u (nm ds i) (ty ds i) (of ds i) o) todo) out =
             Ok (set_obj o e b' (e_locals e ++ map (fun i => (nm ds i, (Some (vals i), ty ds i))) todo), out) /\
             b_align b' = A /\ b_cap b' = cap /\ Forall wf_slot (b_slots b') /\ Permutation (owned (b_slots b')) ents.
Proof.
  induction todo as [|i r IH]; intros e b ents out Hsub Hg Ha Hc Hwf P Hnd.
  - simpl. exists b. rewrite app_nil_r. repeat split; auto.
    destruct o, e; simpl in *; subst; reflexivity.
  - assert (Hi : In i data) by (apply Hsub; simpl; auto).
    destruct (bread_holds A vals b i (map (entry_of vals) r ++ ents) Hi Ha) as (b1 & Hr & A1 & C1 & W1 & P1); auto.
    { apply (lo_al _ _ _ _ _ L i Hi). }
    assert (Hnd1 : NoDup (map e_key (owned (b_slots b1)))).
    { eapply Permutation_NoDup; [apply Permutation_map; symmetry; exact P1|].
      eapply Permutation_NoDup in Hnd; [|apply Permutation_map; exact P]. simpl in Hnd. now apply NoDup_cons_iff in Hnd. }
    cbn [map run_body]. unfold step.
    replace (match o with OSelf => e_self e | OFrom => e_from e end) with (Some b) by (destruct o; simpl in Hg; auto).
    rewrite Hr.
    set (e1 := set_obj o e b1 (e_locals e ++ [(nm ds i, (Some (vals i), ty ds i))])).
    destruct (IH e1 b1 ents out) as (b' & Hrun & A2 & C2 & W2 & P2); auto.
    { intros j Hj. apply Hsub. simpl; auto. }
    { unfold e1. destruct o; reflexivity. }
    exists b'. repeat split; auto.
    replace (match o with
             | OSelf => _ | OFrom => _ end) with e1 by (unfold e1; destruct o; reflexivity).
    rewrite Hrun. f_equal. f_equal. unfold e1. destruct o; simpl; rewrite <- app_assoc; reflexivity.
Qed.

(* C04 / C06: unpack of ANY record that holds the variant returns its values and destroys nothing *)
Theorem unpack_holds v vals b : holds A data vals b ->
  op_unpack ds TI rt A cap v data b = Ok (OUnpacked (map (fun i => (nm ds i, Some (vals i))) data), []).
Proof.
  intros H. unfold op_unpack, run_fn, gen_unpack, item_body. rewrite run_body_app.
  destruct (reads_holds vals false OSelf data (mkEnv (Some b) None None None [] [] [] None) b [] ONone) as (b' & -> & _);
    auto; try apply H.
  { rewrite app_nil_r. apply (h_owned _ _ _ _ H). }
  { eapply holds_keys; eauto. }
  cbn [set_obj run_body step e_self e_locals app].
  assert (Hall : forallb (fun f => match lookup f (map (fun i => (nm ds i, (Some (vals i), ty ds i))) data) with Some _ => true | None => false end)
                   (map (nm ds) data) = true).
  { apply forallb_forall. intros f Hf. apply in_map_iff in Hf. destruct Hf as (i & <- & Hi).
    rewrite (lookup_locals ds vals i data Hi (lo_names _ _ _ _ _ L)). reflexivity. }
  rewrite Hall.
  assert (Hvals : map (fun f => (f, match lookup f (map (fun i => (nm ds i, (Some (vals i), ty ds i))) data) with Some (v0, _) => v0 | None => None end))
                    (map (nm ds) data) = map (fun i => (nm ds i, Some (vals i))) data).
  { rewrite map_map. apply map_ext_in. intros i Hi. now rewrite (lookup_locals ds vals i data Hi (lo_names _ _ _ _ _ L)). }
  rewrite Hvals. f_equal. f_equal.
  unfold scope_exit. simpl.
  rewrite (filter_none (fun l : nat * (option nat * nat) => negb (existsb (Nat.eqb (fst l)) (map (nm ds) data)))).
  - reflexivity.
  - intros x Hx. apply in_map_iff in Hx. destruct Hx as (i & <- & Hi). simpl.
    apply negb_false_iff. apply existsb_exists. exists (nm ds i). split; [now apply in_map|apply Nat.eqb_refl].
Qed.

(* C06: the generated Drop of ANY record that holds the variant destroys its droppable values, each once *)
Theorem drop_holds v vals b : holds A data vals b ->
  op_drop ds TI rt A cap v data b =
  Ok (ONone, droppable_of TI (rev (map (fun i => (nm ds i, (Some (vals i), ty ds i))) data))).
Proof.
  intros H. unfold op_drop, gen_drop, item_body.
  destruct (reads_holds vals true OSelf data (mkEnv (Some b) None None None [] [] [] None) b [] ONone) as (b' & -> & _);
    auto; try apply H.
  { rewrite app_nil_r. apply (h_owned _ _ _ _ H). }
  { eapply holds_keys; eauto. }
Qed.
End Variant.

(* ---------------------------------------------------------------- stores of added fields *)

Section Writes.
Variable Q : list nat.
Hypothesis LQ : layout_ok Q.

Definition set_args (s : src) (e : env) (d : buf) (args : list (nat * (nat * nat))) : env :=
  match s with
  | SFrom => mkEnv (e_self e) (e_from e) (e_mdrop e) (Some d) args (e_aplus e) (e_locals e) (e_record e)
  | SPlus => mkEnv (e_self e) (e_from e) (e_mdrop e) (Some d) (e_afrom e) args (e_locals e) (e_record e)
  end.
Definition get_args (s : src) (e : env) := match s with SFrom => e_afrom e | SPlus => e_aplus e end.

Lemma writes_holds pvals s : forall todo others e d out,
  e_data e = Some d -> get_args s e = args_of ds todo pvals ->
  NoDup todo -> (forall i, In i todo -> In i Q /\ ~ In i others) -> (forall j, In j others -> In j Q) ->
  b_cap d = cap -> Forall wf_slot (b_slots d) ->
  (forall x, In x (owned (b_slots d)) -> exists j, In j others /\ e_off x = of ds j /\ e_ty x = ty ds j) ->
  exists d', run_body TI rt A cap e (map (fun i => SWrite (of ds i) s (nm ds i)) todo) out = Ok (set_args s e d' [], out) /\
             b_align d' = b_align d /\ b_cap d' = cap /\ Forall wf_slot (b_slots d') /\
             Permutation (owned (b_slots d')) (map (entry_of pvals) todo ++ owned (b_slots d)).
Proof.
  induction todo as [|i r IH]; intros others e d out Hd Ha Hnd Hin Hoth Hc Hwf Hown.
  - simpl. exists d. repeat split; auto. destruct s, e; simpl in *; subst; reflexivity.
  - apply NoDup_cons_iff in Hnd. destruct Hnd as [Hir Hnd].
    destruct (Hin i (or_introl eq_refl)) as [HiQ Hio].
    destruct (bwrite_spec d (of ds i) (ty ds i) (pvals i) Hc) as (d1 & Hw & A1 & C1 & O1 & W1); auto.
    { apply (lo_cap _ _ _ _ _ LQ i HiQ). }
    { intros x Hx. destruct (Hown x Hx) as (j & Hj & E1 & E2). rewrite E1, E2.
      apply (no_overlap ds TI A cap Q LQ); auto. intro; subst; auto. }
    cbn [map run_body]. unfold step.
    replace (match s with SFrom => e_afrom e | SPlus => e_aplus e end) with (args_of ds (i :: r) pvals)
      by (destruct s; simpl in Ha; auto).
    rewrite (lookup_args_head ds), Hd, Hw. cbn [args_of map remove_key fst]. rewrite Nat.eqb_refl.
    set (e1 := set_args s e d1 (args_of ds r pvals)).
    destruct (IH (i :: others) e1 d1 out) as (d' & Hrun & A2 & C2 & W2 & P2); auto.
    { unfold e1. destruct s; reflexivity. }
    { unfold e1. destruct s; reflexivity. }
    { intros j Hj. destruct (Hin j (or_intror Hj)) as [H1 H2]. split; auto. intros [->|H]; auto. }
    { intros j [->|Hj]; auto. }
    { intros x Hx. rewrite O1 in Hx. destruct Hx as [<-|Hx]; [exists i; simpl; auto|].
      destruct (Hown x Hx) as (j & Hj & E). exists j. simpl; auto. }
    exists d'. repeat split; auto; try congruence.
    + replace (match s with SFrom => _ | SPlus => _ end) with e1 by (unfold e1; destruct s; reflexivity).
      rewrite Hrun. f_equal. f_equal. unfold e1. destruct s; reflexivity.
    + rewrite P2, O1. simpl. apply Permutation_sym. apply Permutation_middle.
Qed.
End Writes.

(* ---------------------------------------------------------------- C05: conversion to the next variant *)

Section Conv.
Variables (P Q minus plus carried : list nat).
Hypothesis LP : layout_ok P.
Hypothesis LQ : layout_ok Q.
Hypothesis PP : Permutation P (minus ++ carried).
Hypothesis PQ : Permutation Q (plus ++ carried).

(* the added fields a form actually stores: all of them, or only the mandatory ones *)
Definition written (uninit : bool) : list nat := filter (fun i => negb uninit || negb (un ds i)) plus.

Lemma minus_in_P i : In i minus -> In i P.
Proof. intros H. eapply Permutation_in; [symmetry; exact PP|]. apply in_or_app; auto. Qed.
Lemma plus_in_Q i : In i plus -> In i Q.
Proof. intros H. eapply Permutation_in; [symmetry; exact PQ|]. apply in_or_app; auto. Qed.
Lemma carried_in_Q i : In i carried -> In i Q.
Proof. intros H. eapply Permutation_in; [symmetry; exact PQ|]. apply in_or_app; auto. Qed.
Lemma plus_carried_nodup : NoDup (plus ++ carried).
Proof. eapply Permutation_NoDup; [exact PQ|]. apply (lo_nd _ _ _ _ _ LQ). Qed.
Lemma plus_not_carried i : In i plus -> ~ In i carried.
Proof.
  intros Hp Hc. pose proof plus_carried_nodup as H. apply in_split in Hp. destruct Hp as (l1 & l2 & E).
  rewrite E in H. rewrite <- app_assoc in H. simpl in H. apply NoDup_remove_2 in H. apply H.
  apply in_or_app. right. apply in_or_app. auto.
Qed.
Lemma minus_names_nodup : NoDup (map (nm ds) minus).
Proof.
  pose proof (lo_names _ _ _ _ _ LP) as H.
  eapply Permutation_NoDup in H; [|apply Permutation_map; exact PP]. rewrite map_app in H.
  now apply NoDup_app_l in H.
Qed.

Theorem conv_holds v prev uninit and_out vals pvals b :
  holds A P vals b ->
  exists b',
    op_conv ds TI rt A cap v prev minus plus uninit and_out b pvals =
      Ok (if and_out then OAndOut b' (map (fun i => (nm ds i, Some (vals i))) minus) else ORecord b',
          if and_out then [] else droppable_of TI (rev (map (fun i => (nm ds i, (Some (vals i), ty ds i))) minus))) /\
    b_align b' = A /\ b_cap b' = cap /\ Forall wf_slot (b_slots b') /\
    Permutation (owned (b_slots b')) (map (entry_of pvals) (written uninit) ++ map (entry_of vals) carried).
Proof.
  intros H. unfold op_conv, run_fn, gen_conv, item_body.
  change (filter (fun i => negb uninit || negb (un ds i)) plus) with (written uninit).
  set (e0 := mkEnv None (Some b) None None [] (args_of ds (written uninit) pvals) [] None).
  (* 1. the removed fields are read out of the previous record *)
  destruct (reads_holds P LP vals (negb and_out) OFrom minus e0 b (map (entry_of vals) carried) ONone) as (b1 & Hr & A1 & C1 & W1 & P1);
    try apply H; auto.
  { exact minus_in_P. }
  { rewrite (h_owned _ _ _ _ H). rewrite <- map_app. apply Permutation_map. exact PP. }
  { exact (holds_keys P LP A vals b H). }
  rewrite run_body_app, Hr. cbn [set_obj e_locals app].
  set (locs := map (fun i => (nm ds i, (Some (vals i), ty ds i))) minus).
  (* 2. the Copy check of the form that leaves fields uninitialised moves no value *)
  rewrite run_body_app.
  set (e1 := mkEnv None (Some b1) None None [] (args_of ds (written uninit) pvals) locs None).
  assert (Hsafe : forall l, run_body TI rt A cap e1 (if uninit then [SSafeFrom SPlus l (NUnpackedUninitSafeIn v) (typed_generics ds plus)] else []) ONone
                  = Ok (e1, ONone)) by (intros; destruct uninit; reflexivity).
  unfold e0. cbn [e_self e_mdrop e_data e_afrom e_aplus e_record]. fold e1. rewrite Hsafe.
  (* 3. the previous record is wrapped in ManuallyDrop and its buffer copied *)
  set (d := mkBuf 1 cap (b_slots b1)).
  set (e3 := mkEnv None None (Some b1) (Some d) [] (args_of ds (written uninit) pvals) locs None).
  match goal with |- context [run_body TI rt A cap e1 (SManuallyDrop :: SCopyBuf ?m :: ?rest) ONone] =>
    change (run_body TI rt A cap e1 (SManuallyDrop :: SCopyBuf m :: rest) ONone) with (run_body TI rt A cap e3 rest ONone) end.
  (* 4. the added fields are stored *)
  rewrite run_body_app.
  destruct (writes_holds Q LQ pvals SPlus (written uninit) carried e3 d ONone) as (d' & Hw & A2 & C2 & W2 & P2); auto.
  { apply NoDup_filter_keep. pose proof plus_carried_nodup as Hn. now apply NoDup_app_l in Hn. }
  { intros i Hi. unfold written in Hi. apply filter_In in Hi. destruct Hi as [Hi _].
    split; [apply plus_in_Q|apply plus_not_carried]; auto. }
  { exact carried_in_Q. }
  { intros x Hx. unfold d in Hx. simpl in Hx. eapply Permutation_in in Hx; [|exact P1].
    apply in_map_iff in Hx. destruct Hx as (j & <- & Hj). exists j. auto. }
  rewrite Hw. cbn [set_args]. unfold e3. cbn [e_self e_from e_mdrop e_data e_afrom e_aplus e_locals e_record].
  assert (Pfin : Permutation (owned (b_slots d')) (map (entry_of pvals) (written uninit) ++ map (entry_of vals) carried)).
  { rewrite P2. apply Permutation_app_head. unfold d. simpl. exact P1. }
  (* 5. the result *)
  destruct and_out.
  - exists (mkBuf A cap (b_slots d')). cbn [run_body step e_data e_record e_locals negb].
    assert (Hall : forallb (fun f => match lookup f locs with Some _ => true | None => false end) (map (nm ds) minus) = true).
    { apply forallb_forall. intros f Hf. apply in_map_iff in Hf. destruct Hf as (i & <- & Hi).
      unfold locs. rewrite (lookup_locals ds vals i minus Hi minus_names_nodup). reflexivity. }
    rewrite Hall.
    assert (Hvals : map (fun f => (f, match lookup f locs with Some (v0, _) => v0 | None => None end)) (map (nm ds) minus)
                    = map (fun i => (nm ds i, Some (vals i))) minus).
    { rewrite map_map. apply map_ext_in. intros i Hi. unfold locs. now rewrite (lookup_locals ds vals i minus Hi minus_names_nodup). }
    rewrite Hvals. split; [|repeat split; auto].
    f_equal. f_equal. unfold scope_exit. simpl.
    rewrite (filter_none (fun l : nat * (option nat * nat) => negb (existsb (Nat.eqb (fst l)) (map (nm ds) minus)))); [reflexivity|].
    intros x Hx. unfold locs in Hx. apply in_map_iff in Hx. destruct Hx as (i & <- & Hi). simpl.
    apply negb_false_iff. apply existsb_exists. exists (nm ds i). split; [now apply in_map|apply Nat.eqb_refl].
  - exists (mkBuf A cap (b_slots d')). cbn [run_body step e_data negb].
    split; [|repeat split; auto].
    f_equal. f_equal. unfold scope_exit. simpl. now rewrite !app_nil_r.
Qed.
End Conv.

(* ---------------------------------------------------------------- writes through a mutable accessor *)

Definition upd (vals : nat -> nat) (i x : nat) : nat -> nat := fun j => if Nat.eqb j i then x else vals j.

Section SetField.
Variable data : list nat.
Hypothesis L : layout_ok data.

Lemma owned_filter_key off t : forall l,
  owned (filter (fun s => negb (key_match off t s)) l) =
  filter (fun e => negb ((e_off e =? off) && Nat.eqb (e_ty e) t)) (owned l).
Proof.
  induction l as [|s r IH]; simpl; auto.
  destruct (key_match off t s) eqn:K; simpl.
  - unfold key_match, is_owned in K. destruct (s_st s) as [v|] eqn:E; [|rewrite andb_false_r in K; discriminate].
    rewrite andb_true_r in K. unfold e_off, e_ty. simpl. rewrite K. simpl. exact IH.
  - destruct (s_st s) as [v|] eqn:E; simpl; [|exact IH].
    unfold key_match, is_owned in K. rewrite E, andb_true_r in K. unfold e_off, e_ty. simpl. rewrite K. simpl. now rewrite IH.
Qed.

Lemma filter_perm {X} (p : X -> bool) l1 l2 : Permutation l1 l2 -> Permutation (filter p l1) (filter p l2).
Proof.
  induction 1; simpl; auto.
  - destruct (p x); auto.
  - destruct (p x), (p y); auto. apply perm_swap.
  - etransitivity; eauto.
Qed.

Theorem set_holds vals b i x : holds A data vals b -> In i data ->
  exists b', op_set ds TI rt b i x = Ok (b', if dr i then [vals i] else []) /\ holds A data (upd vals i x) b'.
Proof.
  intros H Hi. unfold op_set.
  change (bget TI rt b (of ds i) (ty ds i) true) with (op_get ds TI rt b i true).
  rewrite (get_holds data L vals b i true H Hi).
  eexists. split; [reflexivity|].
  destruct (in_split i data Hi) as (l1 & l2 & E).
  constructor; simpl.
  - apply (h_align _ _ _ _ H).
  - apply (h_cap _ _ _ _ H).
  - constructor; [split; reflexivity|]. apply Forall_forall. intros s Hs. apply filter_In in Hs.
    pose proof (h_wf _ _ _ _ H) as W. rewrite Forall_forall in W. apply W. tauto.
  - rewrite owned_filter_key.
    pose proof (h_owned _ _ _ _ H) as P. apply (filter_perm (fun e => negb ((e_off e =? of ds i) && Nat.eqb (e_ty e) (ty ds i)))) in P.
    rewrite P. rewrite E. rewrite !map_app. simpl.
    (* entries other than i's keep their key, hence survive the filter; i's entry is removed *)
    assert (Hkeep : forall l, (forall j, In j l -> In j data /\ j <> i) ->
              filter (fun e => negb ((e_off e =? of ds i) && Nat.eqb (e_ty e) (ty ds i))) (map (entry_of vals) l)
              = map (entry_of (upd vals i x)) l).
    { induction l as [|j r IH]; simpl; intros Hl; auto.
      destruct (Hl j (or_introl eq_refl)) as [Hj Hne].
      assert (K : (of ds j =? of ds i) && Nat.eqb (ty ds j) (ty ds i) = false).
      { apply not_true_is_false. intro K. apply andb_prop in K. destruct K as [K1 K2].
        apply N.eqb_eq in K1. apply Nat.eqb_eq in K2. apply Hne. apply (key_of_inj ds TI A cap data L); auto. }
      change ((e_off (entry_of vals j) =? of ds i) && Nat.eqb (e_ty (entry_of vals j)) (ty ds i)) with
             ((of ds j =? of ds i) && Nat.eqb (ty ds j) (ty ds i)).
      rewrite K. simpl. rewrite IH by (intros; apply Hl; simpl; auto).
      f_equal. unfold entry_of, upd. assert (E' : Nat.eqb j i = false) by (apply Nat.eqb_neq; auto). now rewrite E'. }
    pose proof (lo_nd _ _ _ _ _ L) as Hnd. rewrite E in Hnd.
    rewrite filter_app. simpl. unfold e_off at 2, e_ty at 2. simpl. rewrite N.eqb_refl, Nat.eqb_refl. simpl.
    rewrite !Hkeep.
    + replace (entry_of (upd vals i x) i) with (of ds i, ty ds i, x) by (unfold entry_of, upd; now rewrite (Nat.eqb_refl i)).
      apply Permutation_middle.
    + intros j Hj. split; [rewrite E; apply in_or_app; simpl; auto|]. intro; subst.
      apply NoDup_remove_2 in Hnd. apply Hnd. apply in_or_app; auto.
    + intros j Hj. split; [rewrite E; apply in_or_app; auto|]. intro; subst.
      apply NoDup_remove_2 in Hnd. apply Hnd. apply in_or_app; auto.
Qed.
End SetField.

(* ---------------------------------------------------------------- constructors, from `holds` *)

Section Constructors.
Variable data : list nat.
Hypothesis L : layout_ok data.

Theorem new_holds v vals :
  exists b, op_new ds TI rt A cap v data vals = Ok (ORecord b, []) /\ holds A data vals b.
Proof.
  exists (record_of ds TI A cap data vals). split; [apply (new_ok ds TI rt A cap RT data L)|apply record_of_holds].
Qed.

(* new_uninit stores the mandatory fields only: the record holds exactly those *)
Theorem new_uninit_holds v vals :
  exists b, op_new_uninit ds TI rt A cap v data vals = Ok (ORecord b, []) /\
            holds A (filter (fun i => negb (un ds i)) data) vals b.
Proof.
  unfold op_new_uninit, run_fn, gen_new_uninit, item_body.
  set (mand := filter (fun i => negb (un ds i)) data).
  set (d := mkBuf 1 cap []).
  set (e1 := mkEnv None None None (Some d) (args_of ds mand vals) [] [] None).
  match goal with |- context [run_body TI rt A cap ?e0 (SSafeFrom ?a ?b0 ?c ?t :: SNewBuf ?m :: ?rest) ONone] =>
    change (run_body TI rt A cap e0 (SSafeFrom a b0 c t :: SNewBuf m :: rest) ONone) with (run_body TI rt A cap e1 rest ONone) end.
  rewrite run_body_app.
  assert (H1 : NoDup mand) by (apply NoDup_filter_keep; apply (lo_nd _ _ _ _ _ L)).
  assert (H2 : forall i, In i mand -> In i data /\ ~ In i []).
  { intros i Hi. unfold mand in Hi. apply filter_In in Hi. split; [tauto|intros []]. }
  assert (H3 : forall j : nat, In j [] -> In j data) by (intros j []).
  assert (H4 : forall x, In x (owned (b_slots d)) -> exists j, In j [] /\ e_off x = of ds j /\ e_ty x = ty ds j) by (intros x []).
  destruct (writes_holds data L vals SFrom mand [] e1 d ONone eq_refl eq_refl H1 H2 H3 eq_refl (Forall_nil _) H4)
    as (d' & Hw & A2 & C2 & W2 & P2).
  rewrite Hw. exists (mkBuf A cap (b_slots d')). cbn [set_args run_body step e_data e1].
  split.
  - f_equal.
  - constructor; simpl; auto. rewrite P2. simpl. now rewrite app_nil_r.
Qed.
End Constructors.

(* ---------------------------------------------------------------- what Gen computes for two consecutive variants *)

Lemma minus_plus_spec : forall fuel p c m pl,
  minus_plus fuel p c = (m, pl) -> (length p + length c <= fuel)%nat ->
  exists car, Permutation p (m ++ car) /\ Permutation c (pl ++ car).
Proof.
  induction fuel as [|f IH]; intros p c m pl H Hl.
  - destruct p, c; simpl in Hl; try lia. simpl in H. inversion H; subst. exists []. split; constructor.
  - destruct p as [|x pr]; [simpl in H; inversion H; subst; exists []; rewrite !app_nil_r; split; apply Permutation_refl|].
    destruct c as [|y cr]; [simpl in H; inversion H; subst; exists []; rewrite !app_nil_r; split; apply Permutation_refl|].
    cbn [minus_plus] in H. simpl in Hl.
    destruct (x <? y)%nat eqn:E1.
    + destruct (minus_plus f pr (y :: cr)) as [m' pl'] eqn:E. inversion H; subst.
      destruct (IH _ _ _ _ E) as (car & Q1 & Q2); [simpl; lia|]. exists car. split; auto. simpl. now apply perm_skip.
    + destruct (y <? x)%nat eqn:E2.
      * destruct (minus_plus f (x :: pr) cr) as [m' pl'] eqn:E. inversion H; subst.
        destruct (IH _ _ _ _ E) as (car & Q1 & Q2); [simpl; lia|]. exists car. split; auto. simpl. now apply perm_skip.
      * assert (x = y) by (apply Nat.ltb_ge in E1; apply Nat.ltb_ge in E2; lia). subst y.
        destruct (IH _ _ _ _ H) as (car & Q1 & Q2); [lia|]. exists (x :: car). split.
        -- rewrite Q1. apply Permutation_middle.
        -- rewrite Q2. apply Permutation_middle.
Qed.

Lemma insert_sorted_perm i l : Permutation (insert_sorted i l) (i :: l).
Proof.
  induction l as [|j r IH]; simpl; auto. destruct (i <=? j)%nat; auto.
  rewrite IH. apply perm_swap.
Qed.
Lemma sort_ids_perm l : Permutation (sort_ids l) l.
Proof. induction l as [|i r IH]; simpl; auto. rewrite insert_sorted_perm. now apply perm_skip. Qed.

(* layout_ok does not depend on the order in which a variant lists its data *)
Lemma layout_ok_perm l1 l2 : Permutation l1 l2 -> layout_ok l1 -> layout_ok l2.
Proof.
  intros P [H1 H2 H3 H4 H5 H6]. constructor.
  - eapply Permutation_NoDup; eauto.
  - eapply Permutation_NoDup; [apply Permutation_map; exact P|auto].
  - intros i Hi. apply H3. eapply Permutation_in; [symmetry; exact P|auto].
  - intros i Hi. apply H4. eapply Permutation_in; [symmetry; exact P|auto].
  - intros i j Hi Hj. apply H5; eapply Permutation_in; try (symmetry; exact P); auto.
  - eapply Permutation_NoDup; [apply Permutation_map; exact P|auto].
Qed.
End Holds.
