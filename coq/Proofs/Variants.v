(* Facts about address-sorted variant lists and the contract of the four native strategies. *)
From Coq Require Import List NArith Lia Bool Arith Sorting.Sorted Permutation.
From Truc.Model Require Import Layout.
From Truc.Proofs Require Import ArithP Sorted Basic Gaps Simple Strategies.
Import ListNotations.
Open Scope N_scope.

(* sorted + distinct => pairwise disjoint *)
Lemma sorted_head_le ds lo l : sorted_from ds lo l -> forall b, In b l -> lo <= off ds b.
Proof.
  revert lo; induction l as [|a r IH]; simpl; intros lo H b Hb; [tauto|].
  destruct H as [H1 H2]. destruct Hb as [<-|Hb]; auto.
  specialize (IH _ H2 b Hb). pose proof (dend_ge ds a). lia.
Qed.

Lemma sorted_disjoint ds lo l : sorted_from ds lo l -> NoDup l ->
  forall a b, In a l -> In b l -> a <> b -> dend ds a <= off ds b \/ dend ds b <= off ds a.
Proof.
  revert lo; induction l as [|x r IH]; simpl; intros lo Hs Hnd a b Ha Hb Hab; [tauto|].
  destruct Hs as [H1 H2]. inversion Hnd; subst.
  destruct Ha as [<-|Ha], Hb as [<-|Hb]; try congruence.
  - left. eapply sorted_head_le; eauto.
  - right. eapply sorted_head_le; eauto.
  - eapply IH; eauto.
Qed.

(* sortedness only looks at members *)
Lemma sorted_from_ext ds ds' lo l :
  (forall i, In i l -> off ds' i = off ds i /\ size ds' i = size ds i) ->
  sorted_from ds lo l -> sorted_from ds' lo l.
Proof.
  revert lo; induction l as [|a r IH]; simpl; intros lo He Hs; auto.
  destruct Hs as [H1 H2]. destruct (He a (or_introl eq_refl)) as [E1 E2].
  unfold dend in *. rewrite E1, E2. split; auto.
Qed.

Lemma getd_app_old ds extra j : (j < length ds)%nat -> getd (ds ++ extra) j = getd ds j.
Proof. intros. unfold getd. apply app_nth1; auto. Qed.

Lemma getd_app_new ds extra k : (k < length extra)%nat -> getd (ds ++ extra) (length ds + k)%nat = nth k extra dummy.
Proof. intros. unfold getd. rewrite app_nth2 by lia. f_equal. lia. Qed.

(* the four strategies of the native builder (the two generic ones assign no offsets) *)
Definition native (s : strat) : Prop := s = SSimple \/ s = SBasic \/ s = SAppend \/ s = SAppendRev.

Lemma remove_data_sub data rm i : In i (remove_data data rm) -> In i data.
Proof. unfold remove_data. intros H. apply filter_In in H. tauto. Qed.

Lemma NoDup_filter {A} (f : A -> bool) l : NoDup l -> NoDup (filter f l).
Proof.
  induction 1 as [|x l Hx Hn IH]; simpl; [constructor|].
  destruct (f x); auto. constructor; auto. intro H. apply filter_In in H. tauto.
Qed.

Lemma run_strat_post s ds data0 add :
  native s -> pre ds data0 add ->
  forall rm data, data0 = remove_data data rm ->
  let r := run_strat s data add rm ds in post ds data0 add (fst r) (snd r).
Proof.
  intros Hf Hpre rm data ->. cbv zeta.
  destruct Hf as [->|[->|[->| ->]]]; simpl.
  - apply (simple_post ds _ add Hpre).
  - apply (basic_post ds _ add Hpre).
  - apply (append_post ds _ add Hpre).
  - unfold append_data_reverse, append_data.
    destruct Hpre as (P1 & P2 & P3 & P4).
    assert (Hpre' : pre ds (remove_data data rm) (rev add)).
    { repeat split; auto.
      - apply NoDup_rev; auto.
      - intros i Hi. apply P3. now apply in_rev.
      - apply P4. now apply in_rev.
      - apply P4. now apply in_rev. }
    destruct (append_post ds _ (rev add) Hpre') as [Q1 Q2 Q3 Q4 Q5]. constructor; auto.
    + rewrite Q2. apply Permutation_app_tail. symmetry. apply Permutation_rev.
    + intros j Hj. apply Q4. intro; apply Hj. now apply in_rev.
    + intros i Hi. apply Q5. now apply -> in_rev.
Qed.

Lemma NoDup_app_iff_fwd {A} (l1 l2 : list A) :
  NoDup l1 -> NoDup l2 -> (forall x, In x l1 -> ~ In x l2) -> NoDup (l1 ++ l2).
Proof.
  induction 1 as [|x l Hx Hn IH]; simpl; intros H2 Hd; auto.
  constructor.
  - intro H. apply in_app_or in H. destruct H as [H|H]; auto. eapply Hd; eauto.
  - apply IH; auto.
Qed.

Lemma last_In {A} (l : list A) d : l <> [] -> In (last l d) l.
Proof.
  induction l as [|a [|b r] IH]; intros H; try congruence; simpl; auto.
  right. apply IH. discriminate.
Qed.
