(* C11: the compile-time gate of a generated module (size / alignment assertions, Copy instantiations)
   forces the recorded type information to be the real one. *)
From Coq Require Import List NArith Lia Bool Arith Permutation.
From Truc.Model Require Import Layout Builder Ir Gen.
From Truc.Proofs Require Import Holds.
Import ListNotations.
Local Open Scope nat_scope.

(* the world a module is compiled in: real size, alignment and Copy-ness of every type name *)
Record world := mkWorld { w_size : nat -> N; w_align : nat -> N; w_copy : nat -> bool }.

Definition stmt_ok (w : world) (s : stmt) : bool :=
  match s with
  | SSafeFrom _ _ _ typed => forallb (w_copy w) typed     (* UnpackedUninitSafeRecord::<T..>::from : T: Copy *)
  | _ => true
  end.
Definition item_ok (w : world) (it : item) : bool :=
  match it with
  | IAssertSize t n => (w_size w t =? n)%N                (* const_assert_eq!(size_of::<T>(), n) *)
  | IAssertAlign t n => (w_align w t =? n)%N              (* const_assert_eq!(align_of::<T>(), n) *)
  | INew _ _ _ b | IConv _ _ _ _ _ b => forallb (stmt_ok w) b
  | _ => true
  end.
(* rustc accepts the module only if every assertion holds and every Copy bound is met
   (that it rejects otherwise is rustc's: engine E5) *)
Definition accepts (w : world) (items : list item) : bool := forallb (item_ok w) items.

(* ---------------------------------------------------------------- sets of pairs *)

Lemma pair_eqb_eq a b : pair_eqb a b = true <-> a = b.
Proof.
  unfold pair_eqb. destruct a as [a1 a2], b as [b1 b2]. simpl. rewrite andb_true_iff, Nat.eqb_eq, N.eqb_eq.
  split; [intros [-> ->]; auto|intros E; inversion E; auto].
Qed.

Lemma set_insert_In x y l : In y (set_insert x l) <-> y = x \/ In y l.
Proof.
  induction l as [|z r IH]; simpl.
  - split; intros [H|[]]; auto.
  - destruct (pair_eqb x z) eqn:E.
    + apply pair_eqb_eq in E. subst. simpl. split; [auto|intros [->|H]; auto].
    + destruct (pair_leb x z); simpl.
      * split; [intros [H|H]; auto|intros [H|H]; auto].
      * rewrite IH. split; [intros [H|[H|H]]; auto|intros [H|[H|H]]; auto].
Qed.
Lemma to_set_In y l : In y (to_set l) <-> In y l.
Proof.
  unfold to_set. induction l as [|x r IH]; simpl; [tauto|]. rewrite set_insert_In, IH. split; intros [H|H]; auto.
Qed.

(* ---------------------------------------------------------------- every datum of every variant is "plus" somewhere *)

Lemma minus_plus_cover fuel p c m pl i :
  minus_plus fuel p c = (m, pl) -> length p + length c <= fuel -> In i c -> In i pl \/ In i p.
Proof.
  intros H Hl Hi. destruct (minus_plus_spec _ _ _ _ _ H Hl) as (car & Q1 & Q2).
  eapply Permutation_in in Hi; [|exact Q2]. apply in_app_or in Hi. destruct Hi as [Hi|Hi]; auto.
  right. eapply Permutation_in; [symmetry; exact Q1|]. apply in_or_app. auto.
Qed.

Lemma sort_ids_In i l : In i (sort_ids l) <-> In i l.
Proof. split; intros H; eapply Permutation_in; try exact H; [apply sort_ids_perm|symmetry; apply sort_ids_perm]. Qed.

Lemma all_plus_covers : forall vs prev v i, In v vs -> In i v ->
  In i (all_plus vs prev) \/ match prev with Some pv => In i pv | None => False end.
Proof.
  induction vs as [|var rest IH]; intros prev v i Hv Hi; [destruct Hv|].
  cbn [all_plus].
  assert (Hvar : In i var -> In i (match prev with
                                   | Some pv => snd (minus_plus (length pv + length (sort_ids var)) (sort_ids pv) (sort_ids var))
                                   | None => sort_ids var end ++ all_plus rest (Some var))
                             \/ match prev with Some pv => In i pv | None => False end).
  { intros Hin. destruct prev as [pv|].
    - destruct (minus_plus (length pv + length (sort_ids var)) (sort_ids pv) (sort_ids var)) as [m pl] eqn:E.
      assert (Hl : length (sort_ids pv) + length (sort_ids var) <= length pv + length (sort_ids var)).
      { rewrite (Permutation_length (sort_ids_perm pv)). lia. }
      destruct (minus_plus_cover _ _ _ _ _ i E Hl (proj2 (sort_ids_In i var) Hin)) as [H|H].
      + left. apply in_or_app. left. exact H.
      + right. exact (proj1 (sort_ids_In i pv) H).
    - left. apply in_or_app. left. exact (proj2 (sort_ids_In i var) Hin). }
  destruct Hv as [->|Hv]; [auto|].
  destruct (IH (Some var) v i Hv Hi) as [H|H].
  - left. apply in_or_app. auto.
  - auto.
Qed.

(* ---------------------------------------------------------------- where the items are *)

Lemma in_gen_variants ds al cfg : forall vs k prev var n,
  nth_error vs n = Some var ->
  In (gen_new_uninit ds (k + n) (sort_ids var)) (gen_variants ds al k vs prev cfg).
Proof.
  induction vs as [|v0 rest IH]; intros k prev var n H; [destruct n; discriminate|].
  cbn [gen_variants]. destruct n as [|n]; simpl in H.
  - inversion H; subst. rewrite Nat.add_0_r. apply in_or_app. left.
    unfold gen_variant. destruct (match prev with Some _ => _ | None => _ end) as [minus plus].
    apply in_or_app. right. apply in_or_app. right. apply in_or_app. left. simpl. auto.
  - apply in_or_app. right. replace (k + S n) with (S k + n) by lia. apply IH; auto.
Qed.

Lemma typed_generics_In ds data i : In i data -> un ds i = true -> In (ty ds i) (typed_generics ds data).
Proof.
  intros Hi Hu. unfold typed_generics, indexed.
  apply In_nth with (d := 0) in Hi. destruct Hi as (k & Hk & E).
  apply in_map_iff. exists (k, i). split; auto. apply filter_In. split; [|exact Hu].
  assert (Hn : nth k (combine (seq 0 (length data)) data) (0, 0) = (k, i)).
  { rewrite combine_nth by (now rewrite seq_length). rewrite seq_nth by exact Hk. now rewrite E. }
  rewrite <- Hn. apply nth_In. rewrite combine_length, seq_length, Nat.min_id. exact Hk.
Qed.

(* ---------------------------------------------------------------- C11 *)

Theorem gate_sound (d : definition) cfg items w :
  gen d cfg = Some items -> accepts w items = true ->
  forall v i, In v (snd d) -> In i v ->
    d_size (getd (fst d) i) = w_size w (d_ty (getd (fst d) i)) /\
    d_align (getd (fst d) i) = w_align w (d_ty (getd (fst d) i)) /\
    (d_uninit (getd (fst d) i) = true -> w_copy w (d_ty (getd (fst d) i)) = true).
Proof.
  intros G Acc v i Hv Hi. unfold gen in G.
  destruct (negb (forallb (fun i0 => i0 <? length (fst d)) (concat (snd d)))); [discriminate|].
  destruct (max_size d) as [ms|]; [|discriminate]. inversion G; subst items; clear G.
  unfold accepts in Acc. rewrite forallb_forall in Acc.
  split; [|split].
  - (* size: i is a plus datum of some variant *)
    destruct (all_plus_covers (snd d) None v i Hv Hi) as [H|[]].
    assert (Hit : In (IAssertSize (d_ty (getd (fst d) i)) (d_size (getd (fst d) i)))
                     ([IMaxSize ms; IUninitStruct (max_type_align d)] ++ gen_variants (fst d) (max_type_align d) 0 (snd d) None cfg ++
                      map (fun p => IAssertSize (fst p) (snd p)) (to_set (map (fun i0 => (d_ty (getd (fst d) i0), d_size (getd (fst d) i0))) (all_plus (snd d) None))) ++
                      map (fun p => IAssertAlign (fst p) (snd p)) (to_set (map (fun i0 => (d_ty (getd (fst d) i0), d_align (getd (fst d) i0))) (concat (snd d)))))).
    { apply in_or_app. right. apply in_or_app. right. apply in_or_app. left.
      apply in_map_iff. exists (d_ty (getd (fst d) i), d_size (getd (fst d) i)). split; auto.
      apply to_set_In. apply in_map_iff. exists i. auto. }
    specialize (Acc _ Hit). simpl in Acc. apply N.eqb_eq in Acc. auto.
  - assert (Hit : In (IAssertAlign (d_ty (getd (fst d) i)) (d_align (getd (fst d) i)))
                     ([IMaxSize ms; IUninitStruct (max_type_align d)] ++ gen_variants (fst d) (max_type_align d) 0 (snd d) None cfg ++
                      map (fun p => IAssertSize (fst p) (snd p)) (to_set (map (fun i0 => (d_ty (getd (fst d) i0), d_size (getd (fst d) i0))) (all_plus (snd d) None))) ++
                      map (fun p => IAssertAlign (fst p) (snd p)) (to_set (map (fun i0 => (d_ty (getd (fst d) i0), d_align (getd (fst d) i0))) (concat (snd d)))))).
    { apply in_or_app. right. apply in_or_app. right. apply in_or_app. right.
      apply in_map_iff. exists (d_ty (getd (fst d) i), d_align (getd (fst d) i)). split; auto.
      apply to_set_In. apply in_map_iff. exists i. split; auto. apply in_concat. eauto. }
    specialize (Acc _ Hit). simpl in Acc. apply N.eqb_eq in Acc. auto.
  - intros Hu. apply In_nth_error in Hv. destruct Hv as (n & Hn).
    pose proof (in_gen_variants (fst d) (max_type_align d) cfg (snd d) 0 None v n Hn) as Hin.
    assert (Hit : In (gen_new_uninit (fst d) (0 + n) (sort_ids v))
                     ([IMaxSize ms; IUninitStruct (max_type_align d)] ++ gen_variants (fst d) (max_type_align d) 0 (snd d) None cfg ++
                      map (fun p => IAssertSize (fst p) (snd p)) (to_set (map (fun i0 => (d_ty (getd (fst d) i0), d_size (getd (fst d) i0))) (all_plus (snd d) None))) ++
                      map (fun p => IAssertAlign (fst p) (snd p)) (to_set (map (fun i0 => (d_ty (getd (fst d) i0), d_align (getd (fst d) i0))) (concat (snd d)))))).
    { apply in_or_app. right. apply in_or_app. left. exact Hin. }
    specialize (Acc _ Hit). unfold gen_new_uninit in Acc. cbn [item_ok forallb stmt_ok] in Acc.
    apply andb_prop in Acc. destruct Acc as [Acc _]. rewrite forallb_forall in Acc.
    apply Acc. apply typed_generics_In; [apply sort_ids_In; auto|exact Hu].
Qed.
