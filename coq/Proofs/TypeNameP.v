(* C17: the recorded name of a type of the grammar denotes that type; spellings agree. *)
From Coq Require Import List Bool Arith Lia.
From Truc.Model Require Import TypeName.
Import ListNotations.

(* ---- structural induction over the nested grammar *)
Section TyInd.
Variable P : rty -> Prop.
Hypothesis Hprim : forall p, P (TPrim p).
Hypothesis Hstr : P TStr.
Hypothesis Hstring : P TString.
Hypothesis Hbox : forall t, P t -> P (TBox t).
Hypothesis Hvec : forall t, P t -> P (TVec t).
Hypothesis Hopt : forall t, P t -> P (TOption t).
Hypothesis Hres : forall t e, P t -> P e -> P (TResult t e).
Hypothesis Htup : forall ts, Forall P ts -> P (TTuple ts).
Hypothesis Harr : forall t n, P t -> P (TArray t n).
Hypothesis Hsl : forall t, P t -> P (TSlice t).
Hypothesis Huser : forall path name args, Forall P args -> P (TUser path name args).

Fixpoint ty_ind' (t : rty) : P t :=
  match t with
  | TPrim p => Hprim p
  | TStr => Hstr
  | TString => Hstring
  | TBox a => Hbox a (ty_ind' a)
  | TVec a => Hvec a (ty_ind' a)
  | TOption a => Hopt a (ty_ind' a)
  | TResult a e => Hres a e (ty_ind' a) (ty_ind' e)
  | TTuple ts => Htup ts ((fix go (l : list rty) : Forall P l :=
                             match l with [] => Forall_nil P | x :: r => Forall_cons x (ty_ind' x) (go r) end) ts)
  | TArray a n => Harr a n (ty_ind' a)
  | TSlice a => Hsl a (ty_ind' a)
  | TUser path name args => Huser path name args ((fix go (l : list rty) : Forall P l :=
                             match l with [] => Forall_nil P | x :: r => Forall_cons x (ty_ind' x) (go r) end) args)
  end.
End TyInd.

(* a user type lives in one of the user's crates: its path starts with that crate's name *)
Fixpoint wf_ty (t : rty) : Prop :=
  match t with
  | TBox a | TVec a | TOption a | TArray a _ | TSlice a => wf_ty a
  | TResult a e => wf_ty a /\ wf_ty e
  | TTuple ts => (fix go (l : list rty) : Prop := match l with [] => True | x :: r => wf_ty x /\ go r end) ts
  | TUser path _ args => (exists k rest, path = IUser k :: rest) /\ (fix go (l : list rty) : Prop := match l with [] => True | x :: r => wf_ty x /\ go r end) args
  | _ => True
  end.

Lemma wf_list_forall l :
  (fix go (l : list rty) : Prop := match l with [] => True | x :: r => wf_ty x /\ go r end) l <-> Forall wf_ty l.
Proof.
  induction l as [|x r IH]; simpl; split; intros H; auto.
  - destruct H as [H1 H2]. constructor; auto. now apply IH.
  - inversion H; subst. split; auto. now apply IH.
Qed.

Lemma all_some_cons {A} (o : option A) l :
  all_some (o :: l) = match o, all_some l with Some x, Some xs => Some (x :: xs) | _, _ => None end.
Proof. reflexivity. Qed.

Lemma all_some_map {A B} (f : A -> option B) (g : A -> B) l :
  Forall (fun x => f x = Some (g x)) l -> all_some (map f l) = Some (map g l).
Proof.
  induction 1 as [|x r Hx Hr IH]; [reflexivity|]. cbn [map]. rewrite all_some_cons, Hx, IH. reflexivity.
Qed.

Lemma all_some_user' path : all_some (map (@user_seg (option rty)) (map (fun s => (s, @nil (option rty))) path)) = Some path.
Proof.
  induction path as [|s r IH]; [reflexivity|]. cbn [map]. rewrite all_some_cons, IH. reflexivity.
Qed.

Lemma in_scope_user {A} (s : nat) (rest : list (ident * list A)) a :
  map fst ((IUser s, a) :: rest) = IUser s :: map fst rest.
Proof. reflexivity. Qed.

Lemma resolve_path_user k modules name margs args : all_some margs = Some args ->
  resolve_path ((IUser k, []) :: map (fun x : ident => (x, @nil (option rty))) modules ++ [(name, margs)])
  = Some (TUser (IUser k :: modules) name args).
Proof.
  intros Ha. set (ms := map (fun x : ident => (x, @nil (option rty))) modules).
  assert (Hrev : rev ((IUser k, []) :: ms ++ [(name, margs)]) = (name, margs) :: rev ((IUser k, []) :: ms)).
  { change ((IUser k, []) :: ms ++ [(name, margs)]) with (((IUser k, []) :: ms) ++ [(name, margs)]).
    rewrite rev_app_distr. reflexivity. }
  unfold resolve_path. cbn [user_crate]. rewrite Hrev.
  assert (Hne : exists y ys, rev ((IUser k, @nil (option rty)) :: ms) = y :: ys).
  { simpl. destruct (rev ms); simpl; eauto. }
  destruct Hne as (y & ys & Ey). rewrite Ey. cbn [tl]. rewrite <- Ey, rev_involutive.
  change ((IUser k, []) :: ms) with (map (fun x : ident => (x, @nil (option rty))) (IUser k :: modules)).
  rewrite all_some_user', Ha. reflexivity.
Qed.

(* ---- the recorded name denotes the type *)
Theorem denotes : forall t, wf_ty t -> resolve (rewrite (std_ast t)) = Some t.
Proof.
  induction t using ty_ind'; intros W; try reflexivity.
  - simpl in *. rewrite (IHt W). reflexivity.
  - simpl in *. rewrite (IHt W). reflexivity.
  - simpl in *. rewrite (IHt W). reflexivity.
  - simpl in *. destruct W as [W1 W2]. rewrite (IHt1 W1), (IHt2 W2). reflexivity.
  - simpl in W. apply wf_list_forall in W. simpl. rewrite !map_map.
    rewrite (all_some_map (fun x => resolve (rewrite (std_ast x))) (fun x => x)).
    + now rewrite map_id.
    + rewrite Forall_forall in *. intros x Hx. apply H; auto.
  - simpl in *. rewrite (IHt W). reflexivity.
  - simpl in *. rewrite (IHt W). reflexivity.
  - simpl in W. destruct W as [Wp Wa]. apply wf_list_forall in Wa.
    destruct Wp as (k & modules & ->).
    cbn [std_ast rewrite map app].
    (* the path starts with a user crate: no pattern of the rewriter matches *)
    set (segs' := map (fun s => match s with (i, args0) => (i, map rewrite args0) end)
                      (map (fun s => (s, @nil past)) modules ++ [(name, map std_ast args)])).
    assert (Hsc : in_scope ((IUser k, []) :: segs') = false) by reflexivity.
    rewrite Hsc, andb_false_r.
    cbn [resolve map].
    unfold segs'. rewrite !map_app, !map_map. cbn [map].
    set (margs := map (fun x => resolve (rewrite (std_ast x))) args).
    assert (Hargs : all_some margs = Some args).
    { unfold margs. rewrite (all_some_map _ (fun x => x)); [now rewrite map_id|].
      rewrite Forall_forall in *. intros x Hx. apply H; auto. }
    apply resolve_path_user. rewrite !map_map. exact Hargs.
Qed.

(* ---- the short spelling and the compiler's spelling are recorded identically *)
Theorem spellings : forall t, rewrite (short_ast t) = rewrite (std_ast t).
Proof.
  induction t using ty_ind'; try reflexivity.
  - simpl. now rewrite IHt.
  - simpl. now rewrite IHt.
  - simpl. now rewrite IHt.
  - simpl. now rewrite IHt1, IHt2.
  - simpl. f_equal. rewrite !map_map. apply map_ext_in. intros x Hx. rewrite Forall_forall in H. auto.
  - simpl. now rewrite IHt.
  - simpl. now rewrite IHt.
  - cbn [short_ast std_ast rewrite]. rewrite !map_app. cbn [map]. rewrite !map_map.
    replace (map (fun x => rewrite (short_ast x)) args) with (map (fun x => rewrite (std_ast x)) args); [reflexivity|].
    apply map_ext_in. intros x Hx. rewrite Forall_forall in H. symmetry. auto.
Qed.

(* ---- whitespace between tokens is irrelevant *)
Lemma lex_blanks n : lex (repeat CBlank n) = [].
Proof. induction n; simpl; auto. Qed.
Lemma lex_app a b : lex (a ++ b) = lex a ++ lex b.
Proof. unfold lex. apply flat_map_app. Qed.
Theorem whitespace : forall toks ws, lex (spaced ws toks) = toks.
Proof.
  induction toks as [|k r IH]; intros ws; simpl.
  - apply lex_blanks.
  - rewrite lex_app, lex_blanks. simpl. now rewrite IH.
Qed.

(* ---- type tables *)
Lemma ident_eqb_refl i : ident_eqb i i = true.
Proof. destruct i; simpl; auto; apply Nat.eqb_refl. Qed.
Lemma token_eqb_refl k : token_eqb k k = true.
Proof. destruct k; simpl; auto; [apply ident_eqb_refl|apply Nat.eqb_refl]. Qed.
Lemma key_eqb_refl k : key_eqb k k = true.
Proof. induction k as [|x r IH]; simpl; auto. now rewrite token_eqb_refl, IH. Qed.

Lemma ident_eqb_eq i j : ident_eqb i j = true -> i = j.
Proof. destruct i, j; simpl; intros H; try discriminate; auto; apply Nat.eqb_eq in H; now subst. Qed.
Lemma token_eqb_eq a b : token_eqb a b = true -> a = b.
Proof.
  destruct a, b; simpl; intros H; try discriminate; auto.
  - apply ident_eqb_eq in H. now subst.
  - apply Nat.eqb_eq in H. now subst.
Qed.
Lemma key_eqb_eq a : forall b, key_eqb a b = true -> a = b.
Proof.
  induction a as [|x r IH]; intros [|y s] H; simpl in H; try discriminate; auto.
  apply andb_prop in H. destruct H as [H1 H2]. apply token_eqb_eq in H1. apply IH in H2. now subst.
Qed.

(* a registered type is found under its recorded name, under the short spelling and under the compiler's *)
Theorem table_lookup_spellings {I} : forall (tb tb' : table I) t info,
  table_add tb (recorded_name t) info = Some tb' ->
  table_get tb' (key_of (std_ast t)) = Some info /\ table_get tb' (key_of (short_ast t)) = Some info.
Proof.
  intros tb tb' t info H. unfold table_add in H. destruct (table_get tb (recorded_name t)); [discriminate|].
  inversion H; subst. unfold key_of. rewrite spellings. unfold recorded_name. simpl. now rewrite key_eqb_refl.
Qed.

(* registering another type does not change what the table answers for the keys it had *)
Theorem table_frame {I} : forall (tb tb' : table I) k info k',
  table_add tb k info = Some tb' -> k' <> k -> table_get tb' k' = table_get tb k'.
Proof.
  intros tb tb' k info k' H Hne. unfold table_add in H. destruct (table_get tb k); [discriminate|].
  inversion H; subst. simpl. destruct (key_eqb k k') eqn:E; auto. apply key_eqb_eq in E. congruence.
Qed.
