(* Facts about the generator model: C03b (one alignment for all record structs), C13b (generation does not panic). *)
From Coq Require Import List NArith Lia Bool Arith.
From Truc.Model Require Import Layout Builder Ir Gen.
From Truc.Proofs Require Import Variants BuilderInv LayoutThms Panics Bound.
Import ListNotations.
Local Open Scope nat_scope.

(* the alignments carried by the buffer-holding structs of a module: RecordUninitialized and every CappedRecordK *)
Definition struct_aligns (items : list item) : list N :=
  flat_map (fun it => match it with IRecordStruct _ a => [a] | IUninitStruct a => [a] | _ => [] end) items.

Lemma struct_aligns_app a b : struct_aligns (a ++ b) = struct_aligns a ++ struct_aligns b.
Proof. apply flat_map_app. Qed.

Lemma struct_aligns_none items :
  (forall it, In it items -> match it with IRecordStruct _ _ | IUninitStruct _ => False | _ => True end) ->
  struct_aligns items = [].
Proof.
  induction items as [|it r IH]; intros H; simpl; auto.
  rewrite IH by (intros x Hx; apply H; now right).
  specialize (H it (or_introl eq_refl)). destruct it; simpl; auto; contradiction.
Qed.

Lemma data_struct_aligns ds name pub k data : struct_aligns (data_struct ds name pub k data) = [].
Proof. destruct k; reflexivity. Qed.
Lemma three_structs_aligns ds a b c data : struct_aligns (three_structs ds a b c data) = [].
Proof. unfold three_structs. now rewrite !struct_aligns_app, !data_struct_aligns. Qed.
Lemma accessors_aligns ds v data : struct_aligns (gen_accessors ds v data) = [].
Proof. unfold gen_accessors. induction data as [|i r IH]; simpl; auto. Qed.
Lemma fragments_aligns ds v data cfg : struct_aligns (flat_map (gen_fragment ds v data) cfg) = [].
Proof. induction cfg as [|f r IH]; simpl; auto. rewrite struct_aligns_app, IH. destruct f; reflexivity. Qed.

Lemma gen_variant_aligns ds al v var prev cfg : struct_aligns (gen_variant ds al v var prev cfg) = [al].
Proof.
  unfold gen_variant. destruct (match prev with Some _ => _ | None => _ end) as [minus plus].
  rewrite !struct_aligns_app, three_structs_aligns, accessors_aligns, fragments_aligns.
  destruct prev as [[pid pv]|]; [rewrite !struct_aligns_app, three_structs_aligns|]; reflexivity.
Qed.

Lemma gen_variants_aligns ds al cfg : forall vs v prev, struct_aligns (gen_variants ds al v vs prev cfg) = repeat al (length vs).
Proof.
  induction vs as [|var rest IH]; intros v prev; simpl; auto.
  now rewrite struct_aligns_app, gen_variant_aligns, IH.
Qed.

Lemma map_assert_aligns_s l : struct_aligns (map (fun p : nat * N => IAssertSize (fst p) (snd p)) l) = [].
Proof. induction l; simpl; auto. Qed.
Lemma map_assert_aligns_a l : struct_aligns (map (fun p : nat * N => IAssertAlign (fst p) (snd p)) l) = [].
Proof. induction l; simpl; auto. Qed.

(* C03b: one buffer struct per variant plus RecordUninitialized, all with the definition-wide alignment *)
Theorem gen_one_alignment d cfg items : gen d cfg = Some items ->
  struct_aligns items = repeat (max_type_align d) (S (length (snd d))).
Proof.
  unfold gen. destruct (negb _); [discriminate|]. destruct (max_size d) as [ms|]; [|discriminate].
  intros H. apply (f_equal (option_map struct_aligns)) in H. cbv [option_map] in H. injection H as <-.
  rewrite !struct_aligns_app, gen_variants_aligns, map_assert_aligns_s, map_assert_aligns_a. simpl.
  now rewrite app_nil_r.
Qed.

(* C13b (generation): the generator does not panic on what the builder produces *)
Theorem gen_total h cfg : hist_ok h -> (hbound h <= MAXU)%N -> gen (b_ds (run h), b_vs (run h)) cfg <> None.
Proof.
  intros Hh Hb. unfold gen. cbn [fst snd].
  assert (Hids : forallb (fun i => i <? length (b_ds (run h))) (concat (b_vs (run h))) = true).
  { apply forallb_forall. intros i Hi. apply in_concat in Hi. destruct Hi as (v & Hv & Hi).
    destruct (wf_v _ (run_wf h Hh) v Hv) as (_ & _ & H). apply Nat.ltb_lt. apply (H i Hi). }
  rewrite Hids. simpl.
  pose proof (max_size_some _ _ (fits_of_bound h Hh Hb)) as Hm.
  destruct (max_size (b_ds (run h), b_vs (run h))); [discriminate|congruence].
Qed.
