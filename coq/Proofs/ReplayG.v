(* C20 for the generic builder: a set-level invariant of GenericRecordDefinitionBuilder closed by its two own
   strategies (generic/variant/dummy.rs: no offsets), instantiating the abstract development of Replay.v. *)
From Coq Require Import List NArith Lia Bool Arith Permutation.
From Truc.Model Require Import Layout Builder Spec12.
From Truc.Proofs Require Import Variants Strategies BuilderInv Refine12 Replay.
Import ListNotations.
Local Open Scope nat_scope.

Definition gstrat (s : strat) : Prop := s = SGAppend \/ s = SGAppendRev.

Record ginv (b : builder) : Prop := {
  g_v_nd : forall v, In v (b_vs b) -> NoDup v;
  g_v_lt : forall v i, In v (b_vs b) -> In i v -> i < length (b_ds b);
  g_add_nd : NoDup (b_add b);
  g_add : forall i, In i (b_add b) -> i < length (b_ds b) /\ forall v, In v (b_vs b) -> ~ In i v;
  g_rm_nd : NoDup (b_rm b);
  g_rm : forall i, In i (b_rm b) -> In i (last_variant b);
  g_names_c : names_nodup (b_ds b) (current_data b) }.

Lemma ginv_empty : ginv empty_builder.
Proof. constructor; simpl; try constructor; intros; tauto. Qed.

Lemma last_nd b : ginv b -> NoDup (last_variant b).
Proof.
  intros G. destruct (b_vs b) eqn:E.
  - unfold last_variant. rewrite E. constructor.
  - apply (g_v_nd _ G). unfold last_variant. rewrite E. apply last_In. discriminate.
Qed.
Lemma last_lt b i : ginv b -> In i (last_variant b) -> i < length (b_ds b).
Proof. intros G Hi. apply (g_v_lt _ G (last_variant b) i); auto. now apply last_variant_In with (i := i). Qed.

Lemma ginv_cur_lt b i : ginv b -> In i (current_data b) -> i < length (b_ds b).
Proof.
  intros G Hi. apply current_data_In in Hi. destruct Hi as [[Hi _]|Hi]; [now apply last_lt|apply (g_add _ G i Hi)].
Qed.

Lemma add_not_last_g b i : ginv b -> In i (b_add b) -> ~ In i (last_variant b).
Proof. intros G Hi Hl. destruct (g_add _ G i Hi) as [_ Hno]. exact (Hno _ (last_variant_In b i Hl) Hl). Qed.

(* removing i from the current data, whichever list it sits in *)
Lemma cur_after_rm b i : ginv b -> In i (last_variant b) -> ~ In i (b_rm b) ->
  current_data (mkBuilder (b_ds b) (b_vs b) (b_add b) (b_rm b ++ [i])) = filter (fun j => negb (Nat.eqb j i)) (current_data b).
Proof.
  intros G Hl Hr. unfold current_data, last_variant. simpl. fold (last_variant b).
  rewrite filter_app. rewrite (filter_notin i (b_add b)) by (intro H; exact (add_not_last_g b i G H Hl)).
  f_equal. rewrite filter_filter. apply filter_ext_in'. intros x Hx.
  unfold mem. rewrite existsb_app. simpl. rewrite orb_false_r.
  destruct (existsb (Nat.eqb x) (b_rm b)); simpl; auto.
Qed.
Lemma cur_after_cancel b i : ginv b -> In i (b_add b) ->
  current_data (mkBuilder (b_ds b) (b_vs b) (remove_first i (b_add b)) (b_rm b)) = filter (fun j => negb (Nat.eqb j i)) (current_data b).
Proof.
  intros G Ha. unfold current_data, last_variant. simpl. fold (last_variant b).
  rewrite filter_app, (remove_first_filter i _ (g_add_nd _ G)). f_equal.
  symmetry. apply filter_notin. intro H. apply filter_In in H. exact (add_not_last_g b i G Ha (proj1 H)).
Qed.

Lemma ginv_cancel b i : ginv b -> In i (b_add b) -> ginv (mkBuilder (b_ds b) (b_vs b) (remove_first i (b_add b)) (b_rm b)).
Proof.
  intros G Ha. constructor; simpl.
  - apply (g_v_nd _ G).
  - apply (g_v_lt _ G).
  - apply remove_first_NoDup, (g_add_nd _ G).
  - intros j Hj. apply (g_add _ G). eapply remove_first_sub; eauto.
  - apply (g_rm_nd _ G).
  - apply (g_rm _ G).
  - unfold names_nodup. rewrite cur_after_cancel by auto. apply NoDup_map_filter. apply (g_names_c _ G).
Qed.

Lemma ginv_step b r : rok gstrat r -> ginv b -> ginv (fst (step b r)).
Proof.
  intros Hr G. destruct r as [nm ty sz a u|i|s|nm|v nm]; simpl; auto.
  - (* Add *)
    destruct (current_by_name b nm) eqn:En; simpl; auto.
    set (n := length (b_ds b)). set (d := mkDatum nm ty sz a u MAXU).
    assert (Hold : forall j, j < n -> getd (b_ds b ++ [d]) j = getd (b_ds b) j) by (intros; apply getd_app_old; auto).
    assert (Hnew : getd (b_ds b ++ [d]) n = d) by (unfold getd, n; rewrite app_nth2 by lia; now rewrite Nat.sub_diag).
    constructor; simpl.
    + apply (g_v_nd _ G).
    + intros v i Hv Hi. rewrite app_length. simpl. pose proof (g_v_lt _ G v i Hv Hi). lia.
    + apply NoDup_app_iff_fwd; [apply (g_add_nd _ G)|constructor; [intros []|constructor]|].
      intros x Hx [Hq|[]]. subst x. destruct (g_add _ G n Hx) as [H _]. unfold n in H. lia.
    + intros i Hi. rewrite app_length. simpl. apply in_app_or in Hi. destruct Hi as [Hi|[<-|[]]].
      * destruct (g_add _ G i Hi). split; auto. lia.
      * split; [unfold n; lia|]. intros v Hv Hin. pose proof (g_v_lt _ G v n Hv Hin). unfold n in *. lia.
    + apply (g_rm_nd _ G).
    + intros i Hi. exact (g_rm _ G i Hi).
    + (* names *)
      assert (Hc : current_data (mkBuilder (b_ds b ++ [d]) (b_vs b) (b_add b ++ [n]) (b_rm b)) = current_data b ++ [n]).
      { unfold current_data, last_variant. simpl. now rewrite app_assoc. }
      unfold names_nodup. rewrite Hc, map_app. simpl. rewrite Hnew. simpl.
      replace (map (fun i => d_name (getd (b_ds b ++ [d]) i)) (current_data b))
        with (map (fun i => d_name (getd (b_ds b) i)) (current_data b)).
      2:{ apply map_ext_in. intros c Hc'. now rewrite Hold by (apply ginv_cur_lt; auto). }
      apply NoDup_app_iff_fwd; [apply (g_names_c _ G)|constructor; [intros []|constructor]|].
      intros x Hx [<-|[]]. apply in_map_iff in Hx. destruct Hx as (c & Ec & Hc').
      exact (find_name_none _ _ _ En c Hc' (ginv_cur_lt b c G Hc') Ec).
  - (* Remove *)
    destruct (b_vs b) eqn:Ev.
    + destruct (mem i (b_add b)) eqn:Ma; simpl; auto. rewrite <- Ev. apply ginv_cancel; auto. now apply mem_In.
    + rewrite <- Ev. destruct (mem i (last_variant b)) eqn:Ml.
      * destruct (mem i (b_rm b)) eqn:Mr; simpl; auto. apply mem_In in Ml. apply mem_false in Mr.
        constructor; simpl.
        -- apply (g_v_nd _ G).
        -- apply (g_v_lt _ G).
        -- apply (g_add_nd _ G).
        -- apply (g_add _ G).
        -- apply NoDup_app_iff_fwd; [apply (g_rm_nd _ G)|constructor; [intros []|constructor]|]. intros x Hx [<-|[]]. tauto.
        -- intros j Hj. apply in_app_or in Hj. destruct Hj as [Hj|[<-|[]]]; [apply (g_rm _ G j Hj)|exact Ml].
        -- unfold names_nodup. rewrite cur_after_rm by auto. apply NoDup_map_filter. apply (g_names_c _ G).
      * destruct (mem i (b_add b)) eqn:Ma; simpl; auto. apply ginv_cancel; auto. now apply mem_In.
  - (* Close *)
    simpl in Hr. destruct (has_pending_changes b); [|exact G].
    set (dt := fst (run_strat s (last_variant b) (b_add b) (b_rm b) (b_ds b))).
    assert (Hrs : run_strat s (last_variant b) (b_add b) (b_rm b) (b_ds b) = (dt, b_ds b) /\ Permutation dt (current_data b)).
    { unfold dt. destruct Hr as [->| ->]; simpl; unfold gen_append_data, gen_append_data_reverse, current_data, remove_data; simpl.
      - split; auto.
      - split; auto. apply Permutation_app_head. apply Permutation_sym, Permutation_rev. }
    destruct Hrs as [E P]. rewrite E. simpl.
    assert (Hin : forall i, In i dt -> In i (current_data b)) by (intros i Hi; eapply Permutation_in; eauto).
    constructor; simpl.
    + intros v Hv. apply in_app_or in Hv. destruct Hv as [Hv|[<-|[]]]; [apply (g_v_nd _ G v Hv)|].
      eapply Permutation_NoDup; [symmetry; exact P|]. unfold current_data.
      apply NoDup_app_iff_fwd; [apply NoDup_filter, last_nd; auto|apply (g_add_nd _ G)|].
      intros x Hx Ha. apply filter_In in Hx. exact (add_not_last_g b x G Ha (proj1 Hx)).
    + intros v i Hv Hi. apply in_app_or in Hv. destruct Hv as [Hv|[<-|[]]]; [apply (g_v_lt _ G v i Hv Hi)|].
      apply ginv_cur_lt; auto.
    + constructor.
    + intros i [].
    + constructor.
    + intros i [].
    + unfold names_nodup. rewrite current_after_close.
      eapply Permutation_NoDup; [apply Permutation_map; symmetry; exact P|apply (g_names_c _ G)].
Qed.

Lemma mframe_eq b b' : b_ds b' = b_ds b -> mframe b b'.
Proof. intros E. constructor; rewrite E; auto. intros. apply same5_refl. Qed.

Lemma remove_ds b i : b_ds (fst (step b (Remove i))) = b_ds b.
Proof.
  simpl. destruct (b_vs b); repeat match goal with |- context [if ?c then _ else _] => destruct c end; reflexivity.
Qed.

Lemma g_frame b r : rok gstrat r -> ginv b -> mframe b (fst (step b r)).
Proof.
  intros Hr G. destruct r as [nm ty sz a u|i|s|nm|v nm]; try (simpl; apply mframe_refl).
  - simpl. destruct (current_by_name b nm); simpl; [apply mframe_refl|]. constructor; simpl.
    + rewrite app_length. lia.
    + intros i Hi. rewrite getd_app_old by auto. apply same5_refl.
  - apply mframe_eq, remove_ds.
  - simpl in *. destruct (has_pending_changes b); [|apply mframe_refl].
    destruct Hr as [->| ->]; simpl; apply mframe_eq; reflexivity.
Qed.

Lemma g_close b s : gstrat s -> ginv b -> has_pending_changes b = true ->
  exists dt ds', step b (Close s) = (mkBuilder ds' (b_vs b ++ [dt]) [] [], RVariant (length (b_vs b))) /\
                 Permutation dt (current_data b).
Proof.
  intros Hs G HP. cbn [step]. rewrite HP.
  destruct Hs as [->| ->]; simpl; unfold gen_append_data, gen_append_data_reverse; eexists; eexists; (split; [reflexivity|]).
  - apply Permutation_refl.
  - unfold current_data, remove_data. apply Permutation_app_head. apply Permutation_sym, Permutation_rev.
Qed.

(* the helper replaying any built definition into a fresh GENERIC builder closed by either generic strategy *)
Theorem convert_iso_generic ds vs s : src_ok ds vs -> gstrat s ->
  exists m tgt,
    convert (ds, vs) s empty_builder = COk (map (fun k => (k, k)) (seq 0 (length vs)), m, tgt) /\
    b_add tgt = [] /\ b_rm tgt = [] /\ ginv tgt /\
    Forall2 (fun v' v => Permutation v' (map (mget m) v)) (b_vs tgt) vs /\
    (forall v i, In v vs -> In i v ->
       exists i', assoc m i = Some i' /\ i' < length (b_ds tgt) /\ same5 (getd ds i) (getd (b_ds tgt) i')) /\
    (forall v1 v2 i1 i2, In v1 vs -> In v2 vs -> In i1 v1 -> In i2 v2 -> mget m i1 = mget m i2 -> i1 = i2).
Proof.
  apply (convert_iso_abs ginv gstrat ginv_empty).
  - apply ginv_step.
  - apply g_frame.
  - intros b i G Hi. apply ginv_cur_lt; auto.
  - apply g_close.
Qed.
