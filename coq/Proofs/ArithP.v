From Coq Require Import List NArith Lia Bool Arith ZArith.
Import ListNotations.
Open Scope N_scope.

Ltac Zify.zify_post_hook ::= Z.div_mod_to_equations.

From Truc.Model Require Import Layout.

Lemma align_bytes_ge c al : 1 <= al -> c <= align_bytes c al.
Proof. unfold align_bytes. intros H. nia. Qed.

Lemma align_bytes_lt c al : 1 <= al -> align_bytes c al < c + al.
Proof. unfold align_bytes. intros H. nia. Qed.

Lemma align_bytes_mod c al : 1 <= al -> align_bytes c al mod al = 0.
Proof. unfold align_bytes. intros H. apply N.mod_mul. lia. Qed.

Lemma mul_div_mod a al : 1 <= al -> (a / al * al) mod al = 0.
Proof. intros. apply N.mod_mul. lia. Qed.

Lemma add_mod0 a b al : 1 <= al -> a mod al = 0 -> b mod al = 0 -> (a + b) mod al = 0.
Proof.
  intros H Ha Hb. rewrite N.add_mod by lia. rewrite Ha, Hb. simpl. apply N.mod_0_l. lia.
Qed.

Lemma align_bytes_idem b a : 1 <= a -> b mod a = 0 -> align_bytes b a = b.
Proof.
  intros Ha Hb. unfold align_bytes.
  apply N.div_exact in Hb; [|lia].
  rewrite Hb at 1. replace (a * (b / a) + a - 1) with ((a - 1) + (b / a) * a) by lia.
  rewrite N.div_add by lia. rewrite N.div_small by lia. lia.
Qed.
