From Coq Require Import List NArith Lia Bool Arith Sorting.Sorted.
From Truc.Model Require Import Layout.
From Truc.Proofs Require Import ArithP Sorted Basic.
Import ListNotations.
Open Scope N_scope.

Definition dg := mkGap 0 0 0.

Definition gap_ok (ds : defs) (data : list id) (g : gap) : Prop :=
  (g_idx g < length data)%nat /\ g_start g < g_end g /\
  last_end ds 0 (firstn (g_idx g) data) <= g_start g /\
  (forall j, nth_error data (g_idx g) = Some j -> g_end g <= off ds j).

Definition idx_lt (a b : gap) : Prop := (g_idx a < g_idx b)%nat.
Definition gaps_ok ds data gaps := Forall (gap_ok ds data) gaps /\ StronglySorted idx_lt gaps.

Definition fit_ok (gaps : list gap) (sz a : N) (f : fitted) : Prop :=
  (f_gap f < length gaps)%nat /\
  g_start (nth (f_gap f) gaps dg) + f_before f = f_start f /\
  f_end f = f_start f + sz /\
  f_end f + f_after f = g_end (nth (f_gap f) gaps dg) /\
  f_start f mod a = 0.

(* ---------- candidates ---------- *)
Lemma fit_datum_ok gaps gi g sz a fg f :
  1 <= a -> nth_error gaps gi = Some g ->
  fit_datum_to_gap gi g sz a = Some (fg, f) -> fit_ok gaps sz a f.
Proof.
  intros Ha Hg. unfold fit_datum_to_gap.
  destruct (align_bytes (g_start g) a + sz <=? g_end g) eqn:E; [|discriminate].
  apply N.leb_le in E. intros H; inversion H; subst; clear H.
  pose proof (align_bytes_ge (g_start g) a Ha).
  unfold fit_ok; simpl. erewrite nth_error_nth by eauto.
  repeat split; try lia.
  - apply nth_error_Some. congruence.
  - apply align_bytes_mod; auto.
Qed.

Lemma collect_fits_ok gaps sz a : 1 <= a -> forall gs gi,
  (forall k g, nth_error gs k = Some g -> nth_error gaps (gi + k) = Some g) ->
  Forall (fun kf => fit_ok gaps sz a (snd kf)) (collect_fits gs gi sz a).
Proof.
  intros Ha. induction gs as [|g rest IH]; intros gi Hsub; simpl; [constructor|].
  assert (Hrest : forall k g0, nth_error rest k = Some g0 -> nth_error gaps (S gi + k) = Some g0).
  { intros k g0 H. replace (S gi + k)%nat with (gi + S k)%nat by lia. apply Hsub. exact H. }
  assert (Hg : nth_error gaps gi = Some g).
  { replace gi with (gi + 0)%nat by lia. apply Hsub. reflexivity. }
  destruct (g_end g - g_start g <? sz); [apply IH; auto|].
  destruct (fit_datum_to_gap gi g sz a) as [[fg f]|] eqn:Ef; [|apply IH; auto].
  pose proof (fit_datum_ok _ _ _ _ _ _ _ Ha Hg Ef) as Hok.
  destruct ((f_before f =? 0) && (f_after f =? 0)).
  - constructor; auto.
  - constructor; auto.
Qed.

Lemma select_best_cases x fa y fb : select_best x fa y fb = fa \/ select_best x fa y fb = fb.
Proof. unfold select_best. destruct (first_wins x y); auto. Qed.

Lemma end_variant_ok gaps sz a f :
  1 <= a -> fit_ok gaps sz a f -> fit_ok gaps sz a (end_variant f (f_after f / a * a)).
Proof.
  intros Ha (H1 & H2 & H3 & H4 & H5). unfold fit_ok, end_variant; simpl.
  assert (f_after f / a * a <= f_after f) by nia.
  repeat split; try lia.
  apply add_mod0; auto. apply mul_div_mod; auto.
Qed.

Lemma select_start_or_end_ok gaps sz a f :
  1 <= a -> fit_ok gaps sz a f -> fit_ok gaps sz a (select_start_or_end f a).
Proof.
  intros Ha H. unfold select_start_or_end.
  destruct (0 <? f_after f / a * a); auto.
  destruct (select_best_cases (f_end f) f (f_start f + f_after f / a * a) (end_variant f (f_after f / a * a))) as [-> | ->]; auto.
  apply end_variant_ok; auto.
Qed.

Lemma choose_ok gaps sz a cands f :
  1 <= a -> Forall (fun kf => fit_ok gaps sz a (snd kf)) cands -> choose cands a = Some f -> fit_ok gaps sz a f.
Proof.
  intros Ha Hc. unfold choose. destruct (min_key cands) as [k|]; [|discriminate].
  assert (Hf : Forall (fit_ok gaps sz a) (map snd (filter (fun kf => fst kf =? k) cands))).
  { apply Forall_map. apply Forall_forall. intros x Hx. apply filter_In in Hx. destruct Hx as [Hx _].
    rewrite Forall_forall in Hc. apply Hc; auto. }
  destruct (map snd (filter (fun kf => fst kf =? k) cands)) as [|f0 fs]; [discriminate|].
  inversion Hf as [|? ? H0 Hfs]; subst. intros H; inversion H; subst; clear H.
  assert (Hgen : forall acc, fit_ok gaps sz a acc -> fit_ok gaps sz a (fold_left (choose_step a) fs acc)).
  { clear Hf H0. induction fs as [|x xs IH]; simpl; intros acc Hacc; auto.
    inversion Hfs; subst. apply IH; auto.
    unfold choose_step.
    destruct (select_best_cases (selection_value acc) acc (selection_value (select_start_or_end x a)) (select_start_or_end x a)) as [-> | ->]; auto.
    apply select_start_or_end_ok; auto. }
  apply Hgen. apply select_start_or_end_ok; auto.
Qed.

(* ---------- list helpers ---------- *)
Lemma last_end_nonempty ds lo lo' l : l <> [] -> last_end ds lo l = last_end ds lo' l.
Proof. destruct l; simpl; congruence. Qed.

Lemma firstn_insert_lt (l : list id) k x m : (m <= k)%nat -> (k <= length l)%nat ->
  firstn m (insert_at l k x) = firstn m l.
Proof.
  intros Hm Hk. unfold insert_at. rewrite firstn_app, firstn_length, Nat.min_l by auto.
  replace (m - k)%nat with 0%nat by lia. simpl. rewrite app_nil_r. rewrite firstn_firstn. now rewrite Nat.min_l by lia.
Qed.

Lemma nth_insert_lt (l : list id) k x m : (m < k)%nat -> (k <= length l)%nat ->
  nth_error (insert_at l k x) m = nth_error l m.
Proof.
  intros Hm Hk. unfold insert_at. rewrite nth_error_app1 by (rewrite firstn_length; lia).
  revert l k Hm Hk. induction m; intros [|y l] [|k] Hm Hk; simpl in *; try lia; auto.
  apply IHm; lia.
Qed.

Lemma nth_insert_gt (l : list id) k x m : (k <= m)%nat -> (k <= length l)%nat ->
  nth_error (insert_at l k x) (S m) = nth_error l m.
Proof.
  intros Hm Hk. unfold insert_at. rewrite nth_error_app2; rewrite firstn_length, Nat.min_l by auto; [|lia].
  replace (S m - k)%nat with (S (m - k)) by lia. simpl.
  rewrite <- (firstn_skipn k l) at 2. rewrite nth_error_app2; rewrite firstn_length, Nat.min_l by auto; auto.
Qed.

Lemma insert_at_length (l : list id) k x : length (insert_at l k x) = S (length l).
Proof. unfold insert_at. rewrite app_length. simpl. rewrite firstn_length, skipn_length. lia. Qed.

Lemma firstn_insert_gt ds' (l : list id) k x m lo : (k < m)%nat -> (m <= length l)%nat ->
  last_end ds' lo (firstn (S m) (insert_at l k x)) = last_end ds' lo (firstn m l).
Proof.
  intros Hk Hm.
  assert (E : firstn (S m) (insert_at l k x) = firstn k l ++ x :: firstn (m - k) (skipn k l)).
  { unfold insert_at. rewrite firstn_app, firstn_length, Nat.min_l by lia.
    rewrite firstn_firstn, Nat.min_r by lia. replace (S m - k)%nat with (S (m - k)) by lia. reflexivity. }
  assert (E2 : firstn m l = firstn k l ++ firstn (m - k) (skipn k l)).
  { rewrite <- (firstn_skipn k l) at 1. rewrite firstn_app, firstn_length, Nat.min_l by lia.
    rewrite firstn_firstn, Nat.min_r by lia. reflexivity. }
  rewrite E, E2, !last_end_app. simpl.
  apply last_end_nonempty.
  destruct (skipn k l) eqn:Es.
  - assert (length (skipn k l) = 0%nat) by now rewrite Es. rewrite skipn_length in H. lia.
  - destruct (m - k)%nat eqn:Em; [lia|]. simpl. discriminate.
Qed.

(* ---------- the step ---------- *)
Lemma gap_ok_set_other ds data g i o :
  ~ In i data -> gap_ok ds data g -> gap_ok (set_off ds i o) data g.
Proof.
  intros Hn (H1 & H2 & H3 & H4). repeat split; auto.
  - rewrite last_end_set_other; auto. intro; apply Hn; eapply In_firstn; eauto.
  - intros j Hj. rewrite off_set_other; auto. intro; subst. apply Hn. eapply nth_error_In; eauto.
Qed.

Lemma StronglySorted_app_inv {A} (R : A -> A -> Prop) l1 l2 :
  StronglySorted R (l1 ++ l2) -> StronglySorted R l1 /\ StronglySorted R l2 /\
  (forall x y, In x l1 -> In y l2 -> R x y).
Proof.
  induction l1 as [|a l1 IH]; simpl; intros H.
  - repeat split; auto. constructor. intros x y [].
  - inversion H as [|? ? Hs Hf]; subst. destruct (IH Hs) as (H1 & H2 & H3).
    rewrite Forall_app in Hf. destruct Hf as [Hf1 Hf2].
    repeat split; auto. constructor; auto.
    intros x y [->|Hx] Hy; auto. rewrite Forall_forall in Hf2; auto.
Qed.

Lemma StronglySorted_app {A} (R : A -> A -> Prop) l1 l2 :
  StronglySorted R l1 -> StronglySorted R l2 -> (forall x y, In x l1 -> In y l2 -> R x y) ->
  StronglySorted R (l1 ++ l2).
Proof.
  induction l1 as [|a l1 IH]; simpl; intros H1 H2 H3; auto.
  inversion H1; subst. constructor.
  - apply IH; auto.
  - rewrite Forall_app. split; auto. apply Forall_forall. intros y Hy. apply H3; auto.
Qed.

Lemma bump_sorted l : StronglySorted idx_lt l -> StronglySorted idx_lt (map bump l).
Proof.
  induction 1 as [|a l Hs IH Hf]; simpl; constructor; auto.
  apply Forall_map. eapply Forall_impl; [|exact Hf]. intros b Hb. unfold idx_lt in *; simpl; lia.
Qed.

Lemma simple_step_fit ds data gaps i f :
  sorted_from ds 0 data -> gaps_ok ds data gaps -> ~ In i data -> (i < length ds)%nat ->
  fit_ok gaps (size ds i) (al ds i) f ->
  let g := nth (f_gap f) gaps dg in
  let gb := if 0 <? f_before f then [mkGap (g_start g) (g_start g + f_before f) (g_idx g)] else [] in
  let ga := if 0 <? f_after f then [mkGap (f_end f) (g_end g) (S (g_idx g))] else [] in
  let gaps' := firstn (f_gap f) gaps ++ gb ++ ga ++ map bump (skipn (S (f_gap f)) gaps) in
  let data' := insert_at data (g_idx g) i in
  let ds' := set_off ds i (f_start f) in
  sorted_from ds' 0 data' /\ gaps_ok ds' data' gaps'.
Proof.
  intros Hs [Hg Hss] Hn Hi (Hf1 & Hf2 & Hf3 & Hf4 & Hf5). cbv zeta.
  set (g := nth (f_gap f) gaps dg) in *.
  assert (Hgin : In g gaps) by (apply nth_In; auto).
  assert (Hgok : gap_ok ds data g) by (rewrite Forall_forall in Hg; auto).
  destruct Hgok as (Hk & Hlt & Hlo & Hhi).
  assert (Hsplit : gaps = firstn (f_gap f) gaps ++ g :: skipn (S (f_gap f)) gaps).
  { rewrite <- (firstn_skipn (f_gap f) gaps) at 1. f_equal.
    clear -Hf1. revert Hf1. subst g. generalize (f_gap f) as n. induction gaps as [|x r IH]; intros [|n] H; simpl in *; try lia; auto.
    apply IH. lia. }
  rewrite Hsplit in Hss. apply StronglySorted_app_inv in Hss. destruct Hss as (Hss1 & Hss2 & Hss3).
  inversion Hss2 as [|? ? Hss4 Hss5]; subst. rewrite Forall_forall in Hss5.
  assert (Hbefore : forall x, In x (firstn (f_gap f) gaps) -> (g_idx x < g_idx g)%nat).
  { intros x Hx. apply Hss3; simpl; auto. }
  assert (Hafter : forall x, In x (skipn (S (f_gap f)) gaps) -> (g_idx g < g_idx x)%nat).
  { intros x Hx. apply Hss5; auto. }
  split.
  - apply sorted_insert; auto; try lia.
    intros j Hj. specialize (Hhi _ Hj). lia.
  - assert (Hlen : length (insert_at data (g_idx g) i) = S (length data)) by apply insert_at_length.
    assert (Hoff : off (set_off ds i (f_start f)) i = f_start f) by (apply off_set_same; auto).
    assert (Hend : dend (set_off ds i (f_start f)) i = f_end f) by (rewrite dend_set_same; auto; lia).
    split.
    + (* each gap ok *)
      rewrite !Forall_app. repeat split.
      * apply Forall_forall. intros x Hx. specialize (Hbefore _ Hx).
        assert (Hxok : gap_ok ds data x) by (rewrite Forall_forall in Hg; apply Hg; eapply In_firstn; eauto).
        destruct Hxok as (X1 & X2 & X3 & X4). repeat split; auto.
        -- rewrite Hlen. lia.
        -- rewrite firstn_insert_lt by lia. rewrite last_end_set_other; auto.
           intro; apply Hn; eapply In_firstn; eauto.
        -- intros j Hj. rewrite nth_insert_lt in Hj by lia.
           rewrite off_set_other; auto. intro; subst; apply Hn; eapply nth_error_In; eauto.
      * destruct (0 <? f_before f) eqn:Eb; constructor; [|constructor].
        apply N.ltb_lt in Eb. repeat split; cbn [g_idx g_start g_end].
        -- rewrite Hlen; lia.
        -- lia.
        -- rewrite firstn_insert_lt by lia. rewrite last_end_set_other; auto.
           intro; apply Hn; eapply In_firstn; eauto.
        -- intros j Hj. rewrite nth_insert_at in Hj by lia. inversion Hj; subst. rewrite Hoff. lia.
      * destruct (0 <? f_after f) eqn:Ea; constructor; [|constructor].
        apply N.ltb_lt in Ea. repeat split; cbn [g_idx g_start g_end].
        -- rewrite Hlen; lia.
        -- lia.
        -- assert (E : firstn (S (g_idx g)) (insert_at data (g_idx g) i) = firstn (g_idx g) data ++ [i]).
           { erewrite firstn_S_nth by (apply nth_insert_at; lia). rewrite firstn_insert_at by lia. reflexivity. }
           rewrite E, last_end_app. simpl. rewrite Hend. lia.
        -- intros j Hj. rewrite nth_insert_gt in Hj by lia.
           rewrite off_set_other; [apply Hhi; auto|]. intro; subst; apply Hn; eapply nth_error_In; eauto.
      * apply Forall_map. apply Forall_forall. intros x Hx. specialize (Hafter _ Hx).
        assert (Hxok : gap_ok ds data x) by (rewrite Forall_forall in Hg; apply Hg; eapply In_skipn; eauto).
        destruct Hxok as (X1 & X2 & X3 & X4). repeat split; cbn [bump g_idx g_start g_end]; auto.
        -- rewrite Hlen. lia.
        -- rewrite firstn_insert_gt by lia. rewrite last_end_set_other; auto.
           intro; apply Hn; eapply In_firstn; eauto.
        -- intros j Hj. rewrite nth_insert_gt in Hj by lia.
           rewrite off_set_other; auto. intro; subst; apply Hn; eapply nth_error_In; eauto.
    + (* strongly sorted *)
      assert (Hmapss : StronglySorted idx_lt (map bump (skipn (S (f_gap f)) gaps))) by (apply bump_sorted; auto).
      apply StronglySorted_app; auto.
      * apply StronglySorted_app.
        -- destruct (0 <? f_before f); repeat constructor.
        -- apply StronglySorted_app; auto.
           ++ destruct (0 <? f_after f); repeat constructor.
           ++ intros x y Hx Hy. destruct (0 <? f_after f); simpl in Hx; [|tauto]. destruct Hx as [<-|[]].
              apply in_map_iff in Hy. destruct Hy as (z & <- & Hz). specialize (Hafter _ Hz). unfold idx_lt; simpl; lia.
        -- intros x y Hx Hy. destruct (0 <? f_before f); simpl in Hx; [|tauto]. destruct Hx as [<-|[]].
           apply in_app_or in Hy. destruct Hy as [Hy|Hy].
           ++ destruct (0 <? f_after f); simpl in Hy; [|tauto]. destruct Hy as [<-|[]]. unfold idx_lt; simpl; lia.
           ++ apply in_map_iff in Hy. destruct Hy as (z & <- & Hz). specialize (Hafter _ Hz). unfold idx_lt; simpl; lia.
      * intros x y Hx Hy. specialize (Hbefore _ Hx).
        apply in_app_or in Hy. destruct Hy as [Hy|Hy]; [|apply in_app_or in Hy; destruct Hy as [Hy|Hy]].
        -- destruct (0 <? f_before f); simpl in Hy; [|tauto]. destruct Hy as [<-|[]]. unfold idx_lt; simpl; lia.
        -- destruct (0 <? f_after f); simpl in Hy; [|tauto]. destruct Hy as [<-|[]]. unfold idx_lt; simpl; lia.
        -- apply in_map_iff in Hy. destruct Hy as (z & <- & Hz). specialize (Hafter _ Hz). unfold idx_lt; simpl; lia.
Qed.
