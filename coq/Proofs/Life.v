(* C06: the life of one record between creation and end of life - any sequence of reads and writes through
   the generated accessors, then the generated Drop or unpack - accounts for every droppable value exactly once. *)
From Coq Require Import List NArith Arith Permutation Bool.
From Truc.Model Require Import Layout Builder Ir Gen Exec Ops.
From Truc.Proofs Require Import ExecP Holds.
Import ListNotations.

Inductive lop := LGet (i : nat) (mutable : bool) | LSet (i : nat) (x : nat).
Definition lop_field (o : lop) : nat := match o with LGet i _ | LSet i _ => i end.

Section Life.
Variable ds : defs.
Variable TI : nat -> tinfo.
Variable rt : runtime.
Variables (A cap : N).
Hypothesis RT : rt_ok rt = true.
Variable data : list nat.
Hypothesis L : layout_ok ds TI A cap data.

(* run a sequence of accessor operations; collect what the writes destroyed *)
Fixpoint life (r : buf) (ops : list lop) : res (buf * list nat) :=
  match ops with
  | [] => Ok (r, [])
  | LGet i m :: rest => match op_get ds TI rt r i m with Fault e => Fault e | Ok _ => life r rest end
  | LSet i x :: rest =>
      match op_set ds TI rt r i x with
      | Fault e => Fault e
      | Ok (r', d) => match life r' rest with Fault e => Fault e | Ok (r'', d') => Ok (r'', d ++ d') end
      end
  end.

(* the droppable values written by a sequence *)
Definition written_in (ops : list lop) : list nat :=
  flat_map (fun o => match o with LSet i x => if dr ds TI i then [x] else [] | LGet _ _ => [] end) ops.

Lemma upd_perm (vals : nat -> nat) i x : forall l, NoDup l -> In i l ->
  Permutation (vals i :: map (upd vals i x) l) (x :: map vals l).
Proof.
  induction l as [|j l IH]; intros Hn Hi; [destruct Hi|]. inversion Hn as [|? ? Hj Hn']; subst.
  destruct Hi as [->|Hi].
  - simpl. unfold upd at 1. cbv beta. rewrite (Nat.eqb_refl i).
    replace (map (upd vals i x) l) with (map vals l); [apply perm_swap|].
    apply map_ext_in. intros k Hk. unfold upd. destruct (Nat.eqb k i) eqn:E; auto. apply Nat.eqb_eq in E. subst. tauto.
  - simpl. assert (Hne : Nat.eqb j i = false) by (apply Nat.eqb_neq; intro; subst; tauto).
    unfold upd at 1. cbv beta. rewrite Hne.
    eapply Permutation_trans; [apply perm_swap|]. eapply Permutation_trans; [apply perm_skip; apply IH; auto|]. apply perm_swap.
Qed.

Lemma NoDup_filter' {X} (f : X -> bool) l : NoDup l -> NoDup (filter f l).
Proof. induction 1 as [|x l Hx Hn IH]; simpl; [constructor|]. destruct (f x); auto. constructor; auto. rewrite filter_In. tauto. Qed.

Theorem life_accounts : forall ops vals b,
  holds ds TI cap A data vals b -> Forall (fun o => In (lop_field o) data) ops ->
  exists b' vals' d, life b ops = Ok (b', d) /\ holds ds TI cap A data vals' b' /\
    Permutation (d ++ map vals' (filter (dr ds TI) data)) (map vals (filter (dr ds TI) data) ++ written_in ops).
Proof.
  induction ops as [|o ops IH]; intros vals b H HF.
  - exists b, vals, []. simpl. rewrite app_nil_r. auto.
  - inversion HF as [|? ? Hi HF']; subst. destruct o as [i m|i x]; simpl in Hi.
    + destruct (IH vals b H HF') as (b' & vals' & d & E & H' & P).
      exists b', vals', d. cbn [life]. rewrite (get_holds ds TI rt A cap RT data L vals b i m H Hi).
      split; [exact E|]. split; [exact H'|exact P].
    + destruct (set_holds ds TI rt A cap RT data L vals b i x H Hi) as (b1 & E1 & H1).
      destruct (IH (upd vals i x) b1 H1 HF') as (b' & vals' & d & E & H' & P).
      exists b', vals', ((if dr ds TI i then [vals i] else []) ++ d). cbn [life]. rewrite E1, E.
      split; [reflexivity|]. split; [exact H'|].
      rewrite <- app_assoc. eapply Permutation_trans; [apply Permutation_app_head; exact P|].
      cbn [written_in flat_map]. fold (written_in ops). rewrite !app_assoc. apply Permutation_app_tail.
      destruct (dr ds TI i) eqn:Ed.
      * assert (Hin : In i (filter (dr ds TI) data)) by (apply filter_In; auto).
        pose proof (upd_perm vals i x _ (NoDup_filter' _ _ (lo_nd _ _ _ _ _ L)) Hin) as Q.
        simpl. eapply Permutation_trans; [exact Q|]. change (x :: map vals (filter (dr ds TI) data)) with ([x] ++ map vals (filter (dr ds TI) data)).
        apply Permutation_app_comm.
      * simpl. rewrite app_nil_r. replace (map (upd vals i x) (filter (dr ds TI) data)) with (map vals (filter (dr ds TI) data)); auto.
        apply map_ext_in. intros k Hk. apply filter_In in Hk. unfold upd. destruct (Nat.eqb k i) eqn:E'; auto.
        apply Nat.eqb_eq in E'. subst. destruct Hk as [_ Hk]. congruence.
Qed.

(* ... and then the generated Drop: everything that ever entered the record is destroyed exactly once *)
Theorem life_then_drop : forall ops vals b v,
  holds ds TI cap A data vals b -> Forall (fun o => In (lop_field o) data) ops ->
  exists b' d dropped, life b ops = Ok (b', d) /\ op_drop ds TI rt A cap v data b' = Ok (ONone, dropped) /\
    Permutation (d ++ dropped) (map vals (filter (dr ds TI) data) ++ written_in ops).
Proof.
  intros ops vals b v H HF. destruct (life_accounts ops vals b H HF) as (b' & vals' & d & E & H' & P).
  exists b', d, (droppable_of TI (rev (map (fun i => (nm ds i, (Some (vals' i), ty ds i))) data))).
  split; [exact E|]. split; [apply (drop_holds ds TI rt A cap data L v vals' b' H')|].
  eapply Permutation_trans; [apply Permutation_app_head; apply droppable_tokens|exact P].
Qed.

(* ... or unpack: nothing more is destroyed and the droppable values handed back are the ones still owed *)
Theorem life_then_unpack : forall ops vals b v,
  holds ds TI cap A data vals b -> Forall (fun o => In (lop_field o) data) ops ->
  exists b' vals' d, life b ops = Ok (b', d) /\
    op_unpack ds TI rt A cap v data b' = Ok (OUnpacked (map (fun i => (nm ds i, Some (vals' i))) data), []) /\
    Permutation (d ++ map vals' (filter (dr ds TI) data)) (map vals (filter (dr ds TI) data) ++ written_in ops).
Proof.
  intros ops vals b v H HF. destruct (life_accounts ops vals b H HF) as (b' & vals' & d & E & H' & P).
  exists b', vals', d. split; [exact E|]. split; [apply (unpack_holds ds TI rt A cap data L v vals' b' H')|exact P].
Qed.
End Life.
