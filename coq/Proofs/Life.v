(* C06: the life of one record between creation and end of life - any sequence of reads and writes through
   the generated accessors, then the generated Drop or unpack - accounts for every droppable value exactly once. *)
From Coq Require Import List NArith Arith Permutation Bool.
From Truc.Model Require Import Layout Builder Ir Gen Exec Ops.
From Truc.Proofs Require Import ExecP Holds.
Import ListNotations.

Inductive lop := LGet (i : nat) (mutable : bool) | LSet (i : nat) (x : nat).
Definition lop_field (o : lop) : nat := match o with LGet i _ | LSet i _ => i end.

Section Life.
Variable ds : defs.
Variable TI : nat -> tinfo.
Variable rt : runtime.
Variables (A cap : N).
Hypothesis RT : rt_ok rt = true.
Variable data : list nat.
Hypothesis L : layout_ok ds TI A cap data.

(* run a sequence of accessor operations; collect what the writes destroyed *)
Fixpoint life (r : buf) (ops : list lop) : res (buf * list nat) :=
  match ops with
  | [] => Ok (r, [])
  | LGet i m :: rest => match op_get ds TI rt r i m with Fault e => Fault e | Ok _ => life r rest end
  | LSet i x :: rest =>
      match op_set ds TI rt r i x with
      | Fault e => Fault e
      | Ok (r', d) => match life r' rest with Fault e => Fault e | Ok (r'', d') => Ok (r'', d ++ d') end
      end
  end.

(* the droppable values written by a sequence *)
Definition written_in (ops : list lop) : list nat :=
  flat_map (fun o => match o with LSet i x => if dr ds TI i then [x] else [] | LGet _ _ => [] end) ops.

Lemma upd_perm (vals : nat -> nat) i x : forall l, NoDup l -> In i l ->
  Permutation (vals i :: map (upd vals i x) l) (x :: map vals l).
Proof.
  induction l as [|j l IH]; intros Hn Hi; [destruct Hi|]. inversion Hn as [|? ? Hj Hn']; subst.
  destruct Hi as [->|Hi].
  - simpl. unfold upd at 1. cbv beta. rewrite (Nat.eqb_refl i).
    replace (map (upd vals i x) l) with (map vals l); [apply perm_swap|].
    apply map_ext_in. intros k Hk. unfold upd. destruct (Nat.eqb k i) eqn:E; auto. apply Nat.eqb_eq in E. subst. tauto.
  - simpl. assert (Hne : Nat.eqb j i = false) by (apply Nat.eqb_neq; intro; subst; tauto).
    unfold upd at 1. cbv beta. rewrite Hne.
    eapply Permutation_trans; [apply perm_swap|]. eapply Permutation_trans; [apply perm_skip; apply IH; auto|]. apply perm_swap.
Qed.

Lemma NoDup_filter' {X} (f : X -> bool) l : NoDup l -> NoDup (filter f l).
Proof. induction 1 as [|x l Hx Hn IH]; simpl; [constructor|]. destruct (f x); auto. constructor; auto. rewrite filter_In. tauto. Qed.

(* the field values after a sequence: the last write to each field wins *)
Fixpoint apply_ops (vals : nat -> nat) (ops : list lop) : nat -> nat :=
  match ops with
  | [] => vals
  | LGet _ _ :: rest => apply_ops vals rest
  | LSet i x :: rest => apply_ops (upd vals i x) rest
  end.

Theorem life_accounts_vals : forall ops vals b,
  holds ds TI cap A data vals b -> Forall (fun o => In (lop_field o) data) ops ->
  exists b' d, life b ops = Ok (b', d) /\ holds ds TI cap A data (apply_ops vals ops) b' /\
    Permutation (d ++ map (apply_ops vals ops) (filter (dr ds TI) data)) (map vals (filter (dr ds TI) data) ++ written_in ops).
Proof.
  induction ops as [|o ops IH]; intros vals b H HF.
  - exists b, []. simpl. rewrite app_nil_r. auto.
  - inversion HF as [|? ? Hi HF']; subst. destruct o as [i m|i x]; simpl in Hi.
    + destruct (IH vals b H HF') as (b' & d & E & H' & P).
      exists b', d. cbn [life apply_ops]. rewrite (get_holds ds TI rt A cap RT data L vals b i m H Hi).
      split; [exact E|]. split; [exact H'|exact P].
    + destruct (set_holds ds TI rt A cap RT data L vals b i x H Hi) as (b1 & E1 & H1).
      destruct (IH (upd vals i x) b1 H1 HF') as (b' & d & E & H' & P).
      exists b', ((if dr ds TI i then [vals i] else []) ++ d). cbn [life apply_ops]. rewrite E1, E.
      split; [reflexivity|]. split; [exact H'|].
      rewrite <- app_assoc. eapply Permutation_trans; [apply Permutation_app_head; exact P|].
      cbn [written_in flat_map]. fold (written_in ops). rewrite !app_assoc. apply Permutation_app_tail.
      destruct (dr ds TI i) eqn:Ed.
      * assert (Hin : In i (filter (dr ds TI) data)) by (apply filter_In; auto).
        pose proof (upd_perm vals i x _ (NoDup_filter' _ _ (lo_nd _ _ _ _ _ L)) Hin) as Q.
        simpl. eapply Permutation_trans; [exact Q|]. change (x :: map vals (filter (dr ds TI) data)) with ([x] ++ map vals (filter (dr ds TI) data)).
        apply Permutation_app_comm.
      * simpl. rewrite app_nil_r. replace (map (upd vals i x) (filter (dr ds TI) data)) with (map vals (filter (dr ds TI) data)); auto.
        apply map_ext_in. intros k Hk. apply filter_In in Hk. unfold upd. destruct (Nat.eqb k i) eqn:E'; auto.
        apply Nat.eqb_eq in E'. subst. destruct Hk as [_ Hk]. congruence.
Qed.

Theorem life_accounts : forall ops vals b,
  holds ds TI cap A data vals b -> Forall (fun o => In (lop_field o) data) ops ->
  exists b' vals' d, life b ops = Ok (b', d) /\ holds ds TI cap A data vals' b' /\
    Permutation (d ++ map vals' (filter (dr ds TI) data)) (map vals (filter (dr ds TI) data) ++ written_in ops).
Proof.
  intros ops vals b H HF. destruct (life_accounts_vals ops vals b H HF) as (b' & d & E & H' & P).
  exists b', (apply_ops vals ops), d. auto.
Qed.

(* ... and then the generated Drop: everything that ever entered the record is destroyed exactly once *)
Theorem life_then_drop : forall ops vals b v,
  holds ds TI cap A data vals b -> Forall (fun o => In (lop_field o) data) ops ->
  exists b' d dropped, life b ops = Ok (b', d) /\ op_drop ds TI rt A cap v data b' = Ok (ONone, dropped) /\
    Permutation (d ++ dropped) (map vals (filter (dr ds TI) data) ++ written_in ops).
Proof.
  intros ops vals b v H HF. destruct (life_accounts ops vals b H HF) as (b' & vals' & d & E & H' & P).
  exists b', d, (droppable_of TI (rev (map (fun i => (nm ds i, (Some (vals' i), ty ds i))) data))).
  split; [exact E|]. split; [apply (drop_holds ds TI rt A cap data L v vals' b' H')|].
  eapply Permutation_trans; [apply Permutation_app_head; apply droppable_tokens|exact P].
Qed.

(* ... or unpack: nothing more is destroyed and the droppable values handed back are the ones still owed *)
Theorem life_then_unpack : forall ops vals b v,
  holds ds TI cap A data vals b -> Forall (fun o => In (lop_field o) data) ops ->
  exists b' vals' d, life b ops = Ok (b', d) /\
    op_unpack ds TI rt A cap v data b' = Ok (OUnpacked (map (fun i => (nm ds i, Some (vals' i))) data), []) /\
    Permutation (d ++ map vals' (filter (dr ds TI) data)) (map vals (filter (dr ds TI) data) ++ written_in ops).
Proof.
  intros ops vals b v H HF. destruct (life_accounts ops vals b H HF) as (b' & vals' & d & E & H' & P).
  exists b', vals', d. split; [exact E|]. split; [apply (unpack_holds ds TI rt A cap data L v vals' b' H')|exact P].
Qed.

(* ---- clone_from: every field of the target is assigned (through its mutable accessor) a value computed
   from the source; the target then holds exactly those values and its previous droppable values were
   destroyed, each once *)
Definition assign_all (f : nat -> nat) (l : list nat) : list lop := map (fun i => LSet i (f i)) l.

Lemma apply_ops_notin ops : forall vals i, (forall o, In o ops -> match o with LSet j _ => j <> i | LGet _ _ => True end) ->
  apply_ops vals ops i = vals i.
Proof.
  induction ops as [|o r IH]; intros vals i H; simpl; auto. destruct o as [j m|j x].
  - apply IH. intros o Ho. apply H. now right.
  - rewrite IH by (intros o Ho; apply H; now right). unfold upd.
    pose proof (H (LSet j x) (or_introl eq_refl)) as Hne. simpl in Hne.
    destruct (Nat.eqb i j) eqn:E; auto. apply Nat.eqb_eq in E. congruence.
Qed.

Lemma apply_assign_all f : forall l vals i, NoDup l -> In i l -> apply_ops vals (assign_all f l) i = f i.
Proof.
  induction l as [|j r IH]; intros vals i Hn Hi; [destruct Hi|]. inversion Hn as [|? ? Hj Hn']; subst. simpl.
  destruct Hi as [->|Hi].
  - rewrite apply_ops_notin.
    + unfold upd. now rewrite Nat.eqb_refl.
    + intros o Ho. unfold assign_all in Ho. apply in_map_iff in Ho. destruct Ho as (k & <- & Hk). intro; subst; tauto.
  - apply IH; auto.
Qed.

Lemma written_assign_all f l : written_in (assign_all f l) = map f (filter (dr ds TI) l).
Proof. induction l as [|i r IH]; simpl; auto. destruct (dr ds TI i); simpl; now rewrite IH. Qed.

Lemma holds_ext vals vals' b : (forall i, In i data -> vals i = vals' i) -> holds ds TI cap A data vals b -> holds ds TI cap A data vals' b.
Proof.
  intros He [H1 H2 H3 H4]. constructor; auto.
  replace (map (entry_of ds vals') data) with (map (entry_of ds vals) data); auto.
  apply map_ext_in. intros i Hi. unfold entry_of. now rewrite (He i Hi).
Qed.

Theorem assign_all_holds : forall f tvals t, holds ds TI cap A data tvals t ->
  exists t' d, life t (assign_all f data) = Ok (t', d) /\ holds ds TI cap A data f t' /\
               Permutation d (map tvals (filter (dr ds TI) data)).
Proof.
  intros f tvals t H. pose proof (lo_nd _ _ _ _ _ L) as Hnd.
  assert (HF : Forall (fun o => In (lop_field o) data) (assign_all f data)).
  { apply Forall_forall. intros o Ho. unfold assign_all in Ho. apply in_map_iff in Ho. destruct Ho as (k & <- & Hk). exact Hk. }
  destruct (life_accounts_vals (assign_all f data) tvals t H HF) as (t' & d & E & H' & P).
  exists t', d. split; [exact E|]. split.
  - apply (holds_ext (apply_ops tvals (assign_all f data))); auto. intros i Hi. now apply apply_assign_all.
  - rewrite written_assign_all in P.
    replace (map (apply_ops tvals (assign_all f data)) (filter (dr ds TI) data)) with (map f (filter (dr ds TI) data)) in P.
    + eapply Permutation_app_inv_r. exact P.
    + apply map_ext_in. intros i Hi. apply filter_In in Hi. symmetry. apply apply_assign_all; tauto.
Qed.
End Life.
