(* C12 for the generic builder: the request layer closed by the generic builder's own two strategies refines the
   same set-level specification (Spec12), under the set-level invariant ginv of ReplayG.v. *)
From Coq Require Import List NArith Lia Bool Arith Permutation.
From Truc.Model Require Import Layout Builder Spec12.
From Truc.Proofs Require Import Variants Strategies BuilderInv Refine12 Replay ReplayG.
Import ListNotations.
Local Open Scope nat_scope.

Lemma pending_set_neq_g b : ginv b -> has_pending_changes b = true -> b_vs b <> [] ->
  set_eq (current_data b) (last_variant b) = false.
Proof.
  intros G HP Hne. unfold set_eq.
  destruct (b_rm b) as [|x rm'] eqn:Erm.
  - destruct (b_add b) as [|y add'] eqn:Eadd.
    + exfalso. assert (has_pending_changes b = false) by (apply pending_iff; auto). congruence.
    + rewrite (subset_false _ _ y); auto.
      * apply current_data_In. right. rewrite Eadd. left; auto.
      * apply (add_not_last_g b y G). rewrite Eadd. left; auto.
  - rewrite andb_comm. rewrite (subset_false _ _ x); auto.
    + apply (g_rm _ G). rewrite Erm. left; auto.
    + rewrite current_data_In. rewrite Erm. intros [[_ H]|H]; [apply H; left; auto|].
      apply (add_not_last_g b x G H). apply (g_rm _ G). rewrite Erm. left; auto.
Qed.

Lemma step_refines_generic b r : rok gstrat r -> ginv b ->
  snd (step b r) = snd (sp_step (abs b) r) /\
  spec_equiv (abs (fst (step b r))) (fst (sp_step (abs b) r)).
Proof.
  intros Hr G.
  destruct r as [nm ty sz a u|i|s|nm|v nm].
  - (* Add *)
    simpl. unfold current_by_name.
    assert (E : existsb (fun i => (i <? length (map d_name (b_ds b)))%nat && Nat.eqb (name_of (abs b) i) nm) (current_data b)
                = match find_name (b_ds b) nm (current_data b) with Some _ => true | None => false end).
    { unfold find_name. rewrite map_length.
      rewrite (existsb_ext_in _ (fun d => (d <? length (b_ds b))%nat && Nat.eqb (d_name (getd (b_ds b) d)) nm))
        by (intros x _; now rewrite name_of_abs).
      destruct (find _ _) eqn:F.
      - apply existsb_exists. apply find_some in F. eexists. exact F.
      - apply find_none_existsb in F. auto. }
    rewrite E. destruct (find_name (b_ds b) nm (current_data b)); simpl.
    + split; auto. apply spec_equiv_refl.
    + rewrite map_length. split; auto. unfold abs, current_data. simpl.
      repeat split; simpl.
      * now rewrite map_app.
      * rewrite app_assoc. apply Permutation_refl.
      * apply Forall2_perm_refl.
  - (* Remove *)
    assert (Hadd_nd := g_add_nd _ G).
    assert (Hal : forall j, In j (b_add b) -> ~ In j (last_variant b)) by (intros j Hj; apply add_not_last_g; auto).
    simpl. destruct (b_vs b) eqn:Ev.
    + (* no variant yet: current = to_add *)
      assert (Hl : last_variant b = []) by (unfold last_variant; now rewrite Ev).
      assert (Hc : current_data b = b_add b) by (unfold current_data; now rewrite Hl).
      rewrite Hc. destruct (mem i (b_add b)) eqn:M; simpl.
      * split; auto. unfold abs, current_data, last_variant. simpl.
        rewrite remove_first_filter by auto. apply spec_equiv_refl.
      * split; auto. apply spec_equiv_refl.
    + rewrite <- Ev in *. clear Ev.
      destruct (mem i (last_variant b)) eqn:ML.
      * apply mem_In in ML. destruct (mem i (b_rm b)) eqn:MR; simpl.
        -- (* already removed *)
           apply mem_In in MR.
           assert (MC : mem i (current_data b) = false).
           { apply mem_false. rewrite current_data_In. intros [[_ H]|H]; [tauto|]. apply (Hal i H ML). }
           rewrite MC. simpl. destruct (b_vs b) eqn:Ev.
           { unfold last_variant in ML. rewrite Ev in ML. destruct ML. }
           rewrite <- Ev. assert (ML' : mem i (last (b_vs b) []) = true) by (apply mem_In; exact ML).
           rewrite ML'. split; auto. apply spec_equiv_refl.
        -- apply mem_false in MR.
           assert (MC : mem i (current_data b) = true) by (apply mem_In; rewrite current_data_In; tauto).
           rewrite MC. simpl. split; auto.
           unfold abs, current_data, last_variant. simpl. repeat split; simpl; [| apply Forall2_perm_refl].
           rewrite filter_app, filter_filter. rewrite (filter_notin i (b_add b)) by (intro H; apply (Hal i H ML)).
           apply Permutation_app_tail.
           rewrite (filter_ext_in' (fun d => negb (mem d (b_rm b ++ [i])))
                                   (fun x => negb (mem x (b_rm b)) && negb (Nat.eqb x i))); [apply Permutation_refl|].
           intros x _. rewrite mem_app. simpl. rewrite orb_false_r. now rewrite negb_orb.
      * apply mem_false in ML. destruct (mem i (b_add b)) eqn:MA; simpl.
        -- apply mem_In in MA.
           assert (MC : mem i (current_data b) = true) by (apply mem_In; rewrite current_data_In; tauto).
           rewrite MC. simpl. split; auto.
           unfold abs, current_data, last_variant. simpl. repeat split; simpl; [| apply Forall2_perm_refl].
           rewrite filter_app. rewrite remove_first_filter by auto.
           rewrite (filter_notin i (filter _ _)); [apply Permutation_refl|].
           intro H. apply filter_In in H. tauto.
        -- apply mem_false in MA.
           assert (MC : mem i (current_data b) = false) by (apply mem_false; rewrite current_data_In; tauto).
           rewrite MC. simpl. destruct (b_vs b) eqn:Ev.
           { split; auto. apply spec_equiv_refl. }
           rewrite <- Ev. assert (ML' : mem i (last (b_vs b) []) = false) by (apply mem_false; exact ML).
           rewrite ML'. split; auto. apply spec_equiv_refl.
  - (* Close *)
    simpl in Hr. cbn [step]. destruct (has_pending_changes b) eqn:HP.
    + assert (Hrs : run_strat s (last_variant b) (b_add b) (b_rm b) (b_ds b) = (fst (run_strat s (last_variant b) (b_add b) (b_rm b) (b_ds b)), b_ds b) /\
                    Permutation (fst (run_strat s (last_variant b) (b_add b) (b_rm b) (b_ds b))) (current_data b)).
      { destruct Hr as [->| ->]; simpl; unfold gen_append_data, gen_append_data_reverse, current_data, remove_data; simpl; split; auto.
        apply Permutation_app_head. apply Permutation_sym, Permutation_rev. }
      destruct Hrs as [E Hperm]. rewrite E. set (dt := fst (run_strat s (last_variant b) (b_add b) (b_rm b) (b_ds b))) in *.
      cbn [fst snd sp_step abs sp_closed sp_cur sp_names]. destruct (b_vs b) eqn:Ev.
      * split; [reflexivity|]. unfold spec_equiv, abs. rewrite current_after_close. simpl. repeat split; auto.
      * rewrite <- Ev in *. assert (SE : set_eq (current_data b) (last_variant b) = false).
        { apply pending_set_neq_g; auto. rewrite Ev. discriminate. }
        unfold last_variant in SE. rewrite SE.
        split; [reflexivity|]. unfold spec_equiv, abs. rewrite current_after_close. simpl. repeat split; auto.
        apply Forall2_app; [apply Forall2_perm_refl|constructor; auto].
    + apply pending_iff in HP. destruct HP as (Hne & Hrm & Hadd).
      assert (Hc : current_data b = last_variant b).
      { unfold current_data. rewrite Hrm, Hadd, app_nil_r. apply filter_mem_nil. }
      simpl. destruct (b_vs b) eqn:Ev; [congruence|]. rewrite <- Ev.
      rewrite Hc. unfold last_variant, set_eq. rewrite subset_refl. simpl.
      split; auto. apply spec_equiv_refl.
  - simpl. unfold current_by_name. rewrite lookup_abs. split; auto. apply spec_equiv_refl.
  - simpl. unfold variant_by_name. split; [|apply spec_equiv_refl].
    destruct (nth_error (b_vs b) v); auto. now rewrite lookup_abs.
Qed.


Lemma run_from_ginv h : Forall (rok gstrat) h -> forall b, ginv b -> ginv (run_from b h).
Proof. induction 1 as [|r h Hr Hh IH]; intros b G; simpl; auto. apply IH. apply ginv_step; auto. Qed.
