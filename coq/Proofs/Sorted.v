From Coq Require Import List NArith Lia Bool Arith.
From Truc.Model Require Import Layout.
From Truc.Proofs Require Import ArithP.
Import ListNotations.
Open Scope N_scope.

(* ---------- defs / set_off ---------- *)
Lemma set_off_length ds i o : length (set_off ds i o) = length ds.
Proof. revert i; induction ds as [|d r IH]; intros [|i]; simpl; auto. Qed.

Lemma getd_set_off_other ds i o j : j <> i -> getd (set_off ds i o) j = getd ds j.
Proof.
  unfold getd. revert i j; induction ds as [|d r IH]; intros i j H.
  - destruct i; reflexivity.
  - destruct i as [|i], j as [|j]; simpl; auto; try congruence.
Qed.

Lemma getd_set_off_same ds i o : (i < length ds)%nat -> getd (set_off ds i o) i = with_off (getd ds i) o.
Proof.
  unfold getd. revert i; induction ds as [|d r IH]; intros [|i] H; simpl in *; try lia; auto.
  apply IH. lia.
Qed.

Lemma off_set_other ds i o j : j <> i -> off (set_off ds i o) j = off ds j.
Proof. intros; unfold off; now rewrite getd_set_off_other. Qed.
Lemma size_set ds i o j : size (set_off ds i o) j = size ds j.
Proof.
  unfold size. destruct (Nat.eq_dec j i) as [->|H].
  - destruct (Nat.lt_ge_cases i (length ds)).
    + now rewrite getd_set_off_same.
    + unfold getd. rewrite !nth_overflow; auto. rewrite set_off_length; lia.
  - now rewrite getd_set_off_other.
Qed.
Lemma al_set ds i o j : al (set_off ds i o) j = al ds j.
Proof.
  unfold al. destruct (Nat.eq_dec j i) as [->|H].
  - destruct (Nat.lt_ge_cases i (length ds)).
    + now rewrite getd_set_off_same.
    + unfold getd. rewrite !nth_overflow; auto. rewrite set_off_length; lia.
  - now rewrite getd_set_off_other.
Qed.
Lemma off_set_same ds i o : (i < length ds)%nat -> off (set_off ds i o) i = o.
Proof. intros; unfold off; now rewrite getd_set_off_same. Qed.
Lemma dend_set_other ds i o j : j <> i -> dend (set_off ds i o) j = dend ds j.
Proof. intros; unfold dend; now rewrite off_set_other, size_set. Qed.
Lemma dend_set_same ds i o : (i < length ds)%nat -> dend (set_off ds i o) i = o + size ds i.
Proof. intros; unfold dend; now rewrite off_set_same, size_set. Qed.

(* ---------- sortedness ---------- *)
Fixpoint sorted_from (ds : defs) (lo : N) (data : list id) : Prop :=
  match data with
  | [] => True
  | i :: r => lo <= off ds i /\ sorted_from ds (dend ds i) r
  end.

Lemma dend_ge ds i : off ds i <= dend ds i.
Proof. unfold dend; lia. Qed.

Lemma sorted_from_mono ds lo lo' l : lo' <= lo -> sorted_from ds lo l -> sorted_from ds lo' l.
Proof. destruct l; simpl; auto. intros H [H1 H2]; split; auto; lia. Qed.

Lemma sorted_from_le_last ds lo l : sorted_from ds lo l -> lo <= last_end ds lo l.
Proof.
  revert lo; induction l as [|i r IH]; simpl; intros lo H; [lia|].
  destruct H as [H1 H2]. specialize (IH _ H2). pose proof (dend_ge ds i). lia.
Qed.

Lemma last_end_app ds lo l1 l2 : last_end ds lo (l1 ++ l2) = last_end ds (last_end ds lo l1) l2.
Proof. revert lo; induction l1; simpl; auto. Qed.

Lemma sorted_from_app ds lo l1 l2 :
  sorted_from ds lo (l1 ++ l2) <-> sorted_from ds lo l1 /\ sorted_from ds (last_end ds lo l1) l2.
Proof.
  revert lo; induction l1 as [|i r IH]; simpl; intros lo; [tauto|].
  rewrite IH. tauto.
Qed.

Lemma sorted_from_filter ds lo l f : sorted_from ds lo l -> sorted_from ds lo (filter f l).
Proof.
  revert lo; induction l as [|i r IH]; simpl; intros lo H; auto.
  destruct H as [H1 H2]. destruct (f i); simpl.
  - split; auto.
  - apply IH. eapply sorted_from_mono; [|exact H2]. pose proof (dend_ge ds i). lia.
Qed.

Lemma sorted_from_set_other ds lo l i o : ~ In i l -> sorted_from (set_off ds i o) lo l <-> sorted_from ds lo l.
Proof.
  revert lo; induction l as [|j r IH]; simpl; intros lo H; [tauto|].
  assert (j <> i) by tauto. rewrite off_set_other, dend_set_other by auto. rewrite IH by tauto. tauto.
Qed.

Lemma last_end_set_other ds lo l i o : ~ In i l -> last_end (set_off ds i o) lo l = last_end ds lo l.
Proof.
  revert lo; induction l as [|j r IH]; simpl; intros lo H; auto.
  assert (j <> i) by tauto. rewrite dend_set_other by auto. apply IH; tauto.
Qed.

(* ---------- push_datum ---------- *)
Lemma push_sorted ds data i :
  sorted_from ds 0 data -> ~ In i data -> (i < length ds)%nat -> 1 <= al ds i ->
  let '(data', ds', gs, ge) := push_datum data ds i in
  sorted_from ds' 0 data' /\ data' = data ++ [i] /\ gs = end_of data ds /\ ge = off ds' i /\ gs <= ge
  /\ ge mod al ds i = 0 /\ ds' = set_off ds i ge.
Proof.
  intros Hs Hn Hi Ha. unfold push_datum.
  set (e := end_of data ds). set (o := align_bytes e (al ds i)).
  assert (He : e <= o) by (apply align_bytes_ge; auto).
  repeat split; auto.
  - apply sorted_from_app. split.
    + apply sorted_from_set_other; auto.
    + simpl. split; auto. rewrite last_end_set_other by auto. rewrite off_set_same by auto. exact He.
  - now rewrite off_set_same.
  - apply align_bytes_mod; auto.
Qed.

(* ---------- insertion ---------- *)
Lemma In_firstn {A} (x : A) k l : In x (firstn k l) -> In x l.
Proof. intros H. rewrite <- (firstn_skipn k l). apply in_or_app; auto. Qed.
Lemma In_skipn {A} (x : A) k l : In x (skipn k l) -> In x l.
Proof. intros H. rewrite <- (firstn_skipn k l). apply in_or_app; auto. Qed.

Lemma insert_at_split {A} (l : list A) k x : insert_at l k x = firstn k l ++ [x] ++ skipn k l.
Proof. reflexivity. Qed.

Lemma sorted_insert ds lo data k i o :
  sorted_from ds lo data -> ~ In i data -> (i < length ds)%nat ->
  last_end ds lo (firstn k data) <= o ->
  (forall j, nth_error data k = Some j -> o + size ds i <= off ds j) ->
  sorted_from (set_off ds i o) lo (insert_at data k i).
Proof.
  intros Hs Hn Hi Hlo Hhi.
  rewrite <- (firstn_skipn k data) in Hs. apply sorted_from_app in Hs. destruct Hs as [Hs1 Hs2].
  assert (Hn1 : ~ In i (firstn k data)) by (intro; apply Hn; eapply In_firstn; eauto).
  assert (Hn2 : ~ In i (skipn k data)) by (intro; apply Hn; eapply In_skipn; eauto).
  unfold insert_at. apply sorted_from_app. split.
  - apply sorted_from_set_other; auto.
  - simpl. rewrite last_end_set_other by auto. rewrite off_set_same, dend_set_same by auto. split; auto.
    apply sorted_from_set_other; auto.
    destruct (skipn k data) as [|j r] eqn:E; simpl; auto.
    simpl in Hs2. destruct Hs2 as [_ Hs2]. split; auto.
    apply Hhi. rewrite <- (firstn_skipn k data) at 1.
    rewrite nth_error_app2 by (rewrite firstn_length; lia).
    rewrite E. rewrite firstn_length.
    destruct (Nat.le_ge_cases k (length data)).
    + rewrite Nat.min_l by auto. now rewrite Nat.sub_diag.
    + rewrite skipn_all2 in E by auto. discriminate.
Qed.
