From Coq Require Import List Arith Lia Bool.
From Truc.Model Require Import VecConv.
Import ListNotations.

Section Proofs.
Variables (T U E P St : Type).
Variable conv : St -> T -> option U -> St * option U * outcome U E P.
Notation cell := (cell T U).
Notation CT := (@CT T U). Notation CU := (@CU T U). Notation Dead := (@Dead T U).

Definition layout (outs : list U) (k : nat) (rest : list T) : list cell :=
  map CU outs ++ repeat Dead k ++ map CT rest.

Lemma update_mid (l1 l2 : list cell) y x : update T U (l1 ++ y :: l2) (length l1) x = l1 ++ x :: l2.
Proof. induction l1; simpl; auto. now rewrite IHl1. Qed.
Lemma nth_mid (l1 l2 : list cell) y : nth_error (l1 ++ y :: l2) (length l1) = Some y.
Proof. induction l1; simpl; auto. Qed.

Lemma repeat_cons_app {A} (x : A) k l : repeat x k ++ x :: l = x :: repeat x k ++ l.
Proof. induction k; simpl; auto. now rewrite IHk. Qed.

Lemma outs_of_app l1 l2 : outs_of T U (l1 ++ l2) = outs_of T U l1 ++ outs_of T U l2.
Proof. unfold outs_of. apply flat_map_app. Qed.
Lemma ins_of_app l1 l2 : ins_of T U (l1 ++ l2) = ins_of T U l1 ++ ins_of T U l2.
Proof. unfold ins_of. apply flat_map_app. Qed.
Lemma outs_of_CU outs : outs_of T U (map CU outs) = outs.
Proof. induction outs; simpl; auto. now rewrite IHouts. Qed.
Lemma ins_of_CT rest : ins_of T U (map CT rest) = rest.
Proof. induction rest; simpl; auto. now rewrite IHrest. Qed.

Lemma layout_length outs k rest : length (layout outs k rest) = length outs + k + length rest.
Proof. unfold layout. rewrite !app_length, !map_length, repeat_length. lia. Qed.

Lemma firstn_layout outs k rest : firstn (length outs) (layout outs k rest) = map CU outs.
Proof.
  unfold layout. rewrite <- (map_length CU outs) at 1. rewrite firstn_app, Nat.sub_diag. simpl. rewrite app_nil_r.
  apply firstn_all.
Qed.

Lemma skipn_layout outs k rest : skipn (length outs + k) (layout outs k rest) = map CT rest.
Proof.
  unfold layout. rewrite app_assoc.
  assert (H : length outs + k = length (map CU outs ++ repeat Dead k)) by (rewrite app_length, map_length, repeat_length; lia).
  rewrite H. rewrite skipn_app, Nat.sub_diag, skipn_all. reflexivity.
Qed.

Lemma pre_len outs k : length (map CU outs ++ repeat Dead k) = length outs + k.
Proof. rewrite app_length, map_length, repeat_length; lia. Qed.

Lemma nth_layout_in outs k t r : nth_error (layout outs k (t :: r)) (length outs + k) = Some (CT t).
Proof. unfold layout. rewrite app_assoc. simpl. rewrite <- pre_len. apply nth_mid. Qed.

Lemma update_layout_in outs k t r :
  update T U (layout outs k (t :: r)) (length outs + k) Dead = layout outs (S k) r.
Proof.
  unfold layout. rewrite app_assoc. simpl map. rewrite <- pre_len. rewrite update_mid.
  rewrite <- app_assoc. rewrite repeat_cons_app. reflexivity.
Qed.

Lemma len_CU (outs : list U) : length (map CU outs) = length outs.
Proof. apply map_length. Qed.

Lemma nth_layout_last outs0 u k rest :
  nth_error (layout (outs0 ++ [u]) k rest) (length outs0) = Some (CU u).
Proof.
  unfold layout. rewrite map_app. simpl. rewrite <- !app_assoc. simpl. rewrite <- len_CU. apply nth_mid.
Qed.

Lemma update_layout_last outs0 u u' k rest :
  update T U (layout (outs0 ++ [u]) k rest) (length outs0) (CU u') = layout (outs0 ++ [u']) k rest.
Proof.
  unfold layout. rewrite !map_app. simpl. rewrite <- !app_assoc. simpl. rewrite <- len_CU. apply update_mid.
Qed.

Lemma nth_layout_dead outs k rest : nth_error (layout outs (S k) rest) (length outs) = Some Dead.
Proof. unfold layout. simpl. rewrite <- len_CU. apply nth_mid. Qed.

Lemma update_layout_dead outs u k rest :
  update T U (layout outs (S k) rest) (length outs) (CU u) = layout (outs ++ [u]) k rest.
Proof.
  unfold layout. rewrite map_app. simpl. rewrite <- !app_assoc. simpl. rewrite <- len_CU. apply update_mid.
Qed.

Lemma last_opt_snoc (outs0 : list U) u : last_opt U (outs0 ++ [u]) = Some u.
Proof. unfold last_opt. rewrite rev_app_distr. reflexivity. Qed.

Lemma cleanup_layout fl outs k rest : free_on_failure fl = true ->
  cleanup T U fl (layout outs k rest) (length outs) (length outs + k) []
  = map (@DropU T U) outs ++ map (@DropT T U) rest ++ [@FreeBuf T U].
Proof.
  intros F. unfold cleanup. rewrite firstn_layout, skipn_layout, outs_of_CU, ins_of_CT, F. reflexivity.
Qed.

(* The refinement: the two-index in-place loop equals the plain fold. *)
Theorem loop_refines fl : flags_ok fl = true -> forall rest outs k s log,
  loop T U E P St conv fl (length rest) (layout outs k rest) (length outs) (length outs + k) s log
  = spec T U E P St conv rest outs s log.
Proof.
  intros OK. unfold flags_ok in OK. apply andb_prop in OK. destruct OK as [OK SP].
  apply andb_prop in OK. destruct OK as [OK F]. apply andb_prop in OK. destruct OK as [_ INC].
  assert (PP : forall p, panic_payload E P fl p = FPanic p) by (intros; unfold panic_payload; now rewrite SP).
  induction rest as [|t r IH]; intros outs k s log.
  - simpl. rewrite layout_length. simpl.
    replace (length outs + k <? length outs + k + 0) with false by (symmetry; apply Nat.ltb_ge; lia).
    now rewrite firstn_layout, outs_of_CU.
  - cbn [length loop spec]. rewrite INC, ?PP.
    rewrite layout_length. cbn [length].
    replace (length outs + k <? length outs + k + S (length r)) with true by (symmetry; apply Nat.ltb_lt; lia).
    rewrite nth_layout_in, update_layout_in.
    destruct outs as [|u0 outs0] using rev_ind.
    + (* no previous output *)
      cbn [length last_opt rev]. simpl last_opt.
      destruct (conv s t None) as [[s' prev'] out] eqn:Ec.
      destruct out as [u| |e|p].
      * pose proof (nth_layout_dead [] k r) as Hd. pose proof (update_layout_dead [] u k r) as Hu.
        cbn [length] in Hd, Hu. rewrite Hd, Hu.
        apply (IH ([] ++ [u]) k s').
      * apply (IH [] (S k) s').
      * pose proof (cleanup_layout fl [] (S k) r F) as Hc. cbn [length] in Hc.
        replace (0 + S k) with (S (0 + k)) in Hc by lia. rewrite Hc, ?PP. reflexivity.
      * pose proof (cleanup_layout fl [] (S k) r F) as Hc. cbn [length] in Hc.
        replace (0 + S k) with (S (0 + k)) in Hc by lia. rewrite Hc, ?PP. reflexivity.
    + (* previous output u0 *)
      clear IHouts0. rewrite app_length. cbn [length]. replace (length outs0 + 1) with (S (length outs0)) by lia.
      rewrite nth_layout_last, last_opt_snoc.
      destruct (conv s t (Some u0)) as [[s' prev'] out] eqn:Ec.
      assert (Hc2 : (match prev' with Some u' => update T U (layout (outs0 ++ [u0]) (S k) r) (length outs0) (CU u')
                                 | None => layout (outs0 ++ [u0]) (S k) r end)
                    = layout (set_last U (outs0 ++ [u0]) prev') (S k) r).
      { destruct prev' as [u'|]; simpl; auto. rewrite update_layout_last. now rewrite removelast_last. }
      rewrite Hc2.
      assert (Hlen : length (set_last U (outs0 ++ [u0]) prev') = S (length outs0)).
      { destruct prev'; simpl; [rewrite removelast_last|]; rewrite app_length; simpl; lia. }
      set (outs' := set_last U (outs0 ++ [u0]) prev') in *.
      destruct out as [u| |e|p].
      * rewrite <- Hlen. rewrite nth_layout_dead, update_layout_dead.
        replace (S (length outs')) with (length (outs' ++ [u])) by (rewrite app_length; simpl; lia).
        replace (S (length outs' + k)) with (length (outs' ++ [u]) + k) by (rewrite app_length; simpl; lia).
        apply IH.
      * rewrite <- Hlen. replace (S (length outs' + k)) with (length outs' + S k) by lia. apply IH.
      * rewrite <- Hlen. replace (S (length outs' + k)) with (length outs' + S k) by lia.
        rewrite cleanup_layout by auto. rewrite ?PP. reflexivity.
      * rewrite <- Hlen. replace (S (length outs' + k)) with (length outs' + S k) by lia.
        rewrite cleanup_layout by auto. rewrite ?PP. reflexivity.
Qed.

Theorem loop_run_refines fl input s0 : flags_ok fl = true ->
  loop T U E P St conv fl (length input) (map CT input) 0 0 s0 [] = spec T U E P St conv input [] s0 [].
Proof.
  intros F. change (map CT input) with (layout [] 0 input). apply (loop_refines fl F input [] 0 s0 []).
Qed.
End Proofs.
