From Coq Require Import List NArith Lia Bool Arith Sorting.Sorted Permutation.
From Truc.Model Require Import Layout.
From Truc.Proofs Require Import ArithP Sorted Basic Gaps.
Import ListNotations.
Open Scope N_scope.

(* ---------- push case of simple_step ---------- *)
Lemma simple_step_push ds data gaps i :
  sorted_from ds 0 data -> gaps_ok ds data gaps -> ~ In i data -> (i < length ds)%nat -> 1 <= al ds i ->
  let '(data', ds', gs, ge) := push_datum data ds i in
  let gaps' := if gs <? ge then gaps ++ [mkGap gs ge (length data' - 1)] else gaps in
  sorted_from ds' 0 data' /\ gaps_ok ds' data' gaps'.
Proof.
  intros Hs [Hg Hss] Hn Hi Ha.
  pose proof (push_sorted ds data i Hs Hn Hi Ha) as Hp.
  destruct (push_datum data ds i) as [[[data' ds'] gs] ge].
  destruct Hp as (Hs' & -> & -> & Hge & Hle & Hmod & ->). cbv zeta.
  split; auto.
  assert (Hold : Forall (gap_ok (set_off ds i ge) (data ++ [i])) gaps).
  { apply Forall_forall. intros x Hx. rewrite Forall_forall in Hg. destruct (Hg _ Hx) as (X1 & X2 & X3 & X4).
    repeat split; auto.
    - rewrite app_length; simpl; lia.
    - rewrite firstn_app. replace (g_idx x - length data)%nat with 0%nat by lia. simpl. rewrite app_nil_r.
      rewrite last_end_set_other; auto. intro; apply Hn; eapply In_firstn; eauto.
    - intros j Hj. rewrite nth_error_app1 in Hj by auto. rewrite off_set_other; auto.
      intro; subst; apply Hn; eapply nth_error_In; eauto. }
  destruct (end_of data ds <? ge) eqn:E; [|split; auto].
  apply N.ltb_lt in E. split.
  - rewrite Forall_app. split; auto. constructor; [|constructor].
    rewrite app_length. simpl. replace (length data + 1 - 1)%nat with (length data) by lia.
    repeat split; cbn [g_idx g_start g_end].
    + rewrite app_length; simpl; lia.
    + lia.
    + rewrite firstn_app, Nat.sub_diag. simpl. rewrite app_nil_r, firstn_all.
      rewrite last_end_set_other; auto. unfold end_of. lia.
    + intros j Hj. rewrite nth_error_app2, Nat.sub_diag in Hj by lia. simpl in Hj. inversion Hj; subst.
      rewrite <- Hge. lia.
  - apply StronglySorted_app; auto.
    + repeat constructor.
    + intros x y Hx [<-|[]]. rewrite Forall_forall in Hg. destruct (Hg _ Hx) as (X1 & _).
      unfold idx_lt; cbn [g_idx]. rewrite app_length; simpl. lia.
Qed.

(* ---------- initial gaps (no ZST skipping) ---------- *)
Lemma initial_gaps_ok ds data : sorted_from ds 0 data ->
  forall pre rest, data = pre ++ rest ->
  Forall (gap_ok ds data) (initial_gaps false rest ds (length pre) (last_end ds 0 pre)) /\
  StronglySorted idx_lt (initial_gaps false rest ds (length pre) (last_end ds 0 pre)) /\
  Forall (fun g => (length pre <= g_idx g)%nat) (initial_gaps false rest ds (length pre) (last_end ds 0 pre)).
Proof.
  intros Hs pre rest. revert pre. induction rest as [|i r IH]; intros pre E; simpl.
  - repeat split; constructor.
  - assert (E' : data = (pre ++ [i]) ++ r) by (rewrite <- app_assoc; exact E).
    specialize (IH _ E'). rewrite app_length, last_end_app in IH. simpl in IH.
    replace (length pre + 1)%nat with (S (length pre)) in IH by lia.
    destruct IH as (I1 & I2 & I3).
    destruct (last_end ds 0 pre <? off ds i) eqn:El.
    + apply N.ltb_lt in El. repeat split.
      * constructor; auto. repeat split; cbn [g_idx g_start g_end].
        -- subst data. rewrite app_length; simpl; lia.
        -- auto.
        -- subst data. rewrite firstn_app, Nat.sub_diag, firstn_all. simpl. rewrite app_nil_r. lia.
        -- intros j Hj. subst data. rewrite nth_error_app2, Nat.sub_diag in Hj by lia. simpl in Hj.
           inversion Hj; subst. lia.
      * constructor; auto. (* I3 is convertible with the needed Forall: lt n m = S n <= m *)
      * constructor; [cbn [g_idx]; lia|]. eapply Forall_impl; [|exact I3]. intros g Hg. cbn beta in *. lia.
    + repeat split; auto. eapply Forall_impl; [|exact I3]. intros g Hg. cbn beta in *. lia.
Qed.

(* ---------- state invariant of the simple loop ---------- *)
Definition sinv (st : sstate) : Prop :=
  sorted_from (s_defs st) 0 (s_data st) /\ gaps_ok (s_defs st) (s_data st) (s_gaps st).

Lemma simple_step_inv st i :
  sinv st -> ~ In i (s_data st) -> (i < length (s_defs st))%nat -> 1 <= al (s_defs st) i ->
  sinv (simple_step st i).
Proof.
  intros [Hs Hg] Hn Hi Ha. unfold simple_step.
  destruct (choose _ _) as [f|] eqn:Ec.
  - assert (Hf : fit_ok (s_gaps st) (size (s_defs st) i) (al (s_defs st) i) f).
    { eapply choose_ok; [exact Ha| |exact Ec]. apply collect_fits_ok; auto. }
    pose proof (simple_step_fit _ _ _ _ _ Hs Hg Hn Hi Hf) as H. cbv zeta in H.
    unfold sinv; simpl. exact H.
  - pose proof (simple_step_push _ _ _ _ Hs Hg Hn Hi Ha) as H.
    destruct (push_datum (s_data st) (s_defs st) i) as [[[data' ds'] gs] ge].
    cbv zeta in H. unfold sinv; simpl. exact H.
Qed.
