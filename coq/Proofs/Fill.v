(* C04: the fields a constructor left uninitialised (new_uninit / From<UnpackedUninitRecord>) can then be written
   through their mutable accessors; once all of them are, the record holds the whole variant. *)
From Coq Require Import List NArith Arith Permutation Bool Lia.
From Truc.Model Require Import Layout Builder Ir Gen Exec Ops.
From Truc.Proofs Require Import ExecP Holds Life.
Import ListNotations.

Section Fill.
Variable ds : defs.
Variable TI : nat -> tinfo.
Variable rt : runtime.
Variables (A cap : N).
Hypothesis RT : rt_ok rt = true.
Variable data : list nat.
Hypothesis L : layout_ok ds TI A cap data.

Lemma take_none off t : forall l, (forall e, In e (owned l) -> e_key e <> (off, t)) -> take off t l = None.
Proof.
  induction l as [|s r IH]; simpl; intros H; auto.
  unfold key_match, is_owned. destruct (s_st s) as [v|] eqn:E; simpl in *.
  - assert (K : (s_off s =? off)%N && Nat.eqb (s_ty s) t = false).
    { apply not_true_is_false. intro K. apply andb_prop in K. destruct K as [K1 K2].
      apply N.eqb_eq in K1. apply Nat.eqb_eq in K2. apply (H (s_off s, s_ty s, v)); auto. unfold e_key, e_off, e_ty. simpl. congruence. }
    rewrite K. simpl. rewrite IH; auto.
  - rewrite andb_false_r. rewrite IH; auto.
Qed.

Lemma owned_filter_nokey off t : forall l, (forall e, In e (owned l) -> e_key e <> (off, t)) ->
  owned (filter (fun s => negb (key_match off t s)) l) = owned l.
Proof.
  induction l as [|s r IH]; simpl; intros H; auto.
  unfold key_match at 1, is_owned. destruct (s_st s) as [v|] eqn:E; simpl in *.
  - assert (K : (s_off s =? off)%N && Nat.eqb (s_ty s) t = false).
    { apply not_true_is_false. intro K. apply andb_prop in K. destruct K as [K1 K2].
      apply N.eqb_eq in K1. apply Nat.eqb_eq in K2. apply (H (s_off s, s_ty s, v)); auto. unfold e_key, e_off, e_ty. simpl. congruence. }
    rewrite K. simpl. rewrite E. f_equal. apply IH; auto.
  - rewrite andb_false_r. simpl. rewrite E. apply IH; auto.
Qed.

(* writing a field the record does not hold yet (plain data: no drop glue) *)
Theorem set_fresh_holds D vals b i x :
  holds ds TI cap A D vals b -> (forall j, In j D -> In j data) -> In i data -> ~ In i D -> dr ds TI i = false ->
  exists b', op_set ds TI rt b i x = Ok (b', []) /\ holds ds TI cap A (i :: D) (upd vals i x) b'.
Proof.
  intros H HD Hi Hni Hdr. destruct (rt_facts rt RT) as (_ & _ & R3).
  assert (Hkeys : forall e, In e (owned (b_slots b)) -> e_key e <> (of ds i, ty ds i)).
  { intros e He Hk. eapply Permutation_in in He; [|exact (h_owned _ _ _ _ _ _ _ H)].
    apply in_map_iff in He. destruct He as (j & <- & Hj). unfold e_key, entry_of, e_off, e_ty in Hk. simpl in Hk.
    inversion Hk. apply Hni. replace i with j; auto. apply (key_of_inj ds TI A cap data L); auto. }
  unfold op_set, bget. rewrite R3, andb_false_r. unfold bread.
  rewrite (h_cap _ _ _ _ _ _ _ H).
  assert (Hb : (of ds i + ti_size (TI (ty ds i)) <=? cap)%N = true) by (apply N.leb_le; apply (lo_cap _ _ _ _ _ L i Hi)).
  rewrite Hb. simpl.
  destruct (lo_al _ _ _ _ _ L i Hi) as (A1 & A2 & A3). unfold aligned_ok. rewrite (h_align _ _ _ _ _ _ _ H).
  unfold ExecP.al in *. rewrite A3, A2. simpl.
  rewrite (take_none _ _ _ Hkeys). unfold dr in Hdr. rewrite Hdr.
  eexists. split; [reflexivity|]. constructor; simpl.
  - first [reflexivity|apply (h_align _ _ _ _ _ _ _ H)].
  - first [reflexivity|apply (h_cap _ _ _ _ _ _ _ H)].
  - constructor; [split; [reflexivity|simpl; congruence]|]. apply Forall_forall. intros s Hs. apply filter_In in Hs.
    pose proof (h_wf _ _ _ _ _ _ _ H) as W. rewrite Forall_forall in W. apply W. tauto.
  - rewrite (owned_filter_nokey _ _ _ Hkeys).
    replace (entry_of ds (upd vals i x) i) with (of ds i, ty ds i, x) by (unfold entry_of, upd; now rewrite (Nat.eqb_refl i)).
    apply perm_skip. rewrite (h_owned _ _ _ _ _ _ _ H).
    replace (map (entry_of ds (upd vals i x)) D) with (map (entry_of ds vals) D); auto.
    apply map_ext_in. intros j Hj. unfold entry_of, upd.
    assert (E : Nat.eqb j i = false) by (apply Nat.eqb_neq; intro; subst; tauto). now rewrite E.
Qed.

(* filling a list of missing fields, one write each *)
Theorem fill_holds : forall U D vals b f,
  holds ds TI cap A D vals b -> (forall j, In j D -> In j data) ->
  NoDup U -> (forall i, In i U -> In i data /\ ~ In i D /\ dr ds TI i = false) ->
  exists b' vals', life ds TI rt b (assign_all f U) = Ok (b', []) /\ holds ds TI cap A (rev U ++ D) vals' b' /\
                   (forall i, In i U -> vals' i = f i) /\ (forall j, ~ In j U -> vals' j = vals j).
Proof.
  induction U as [|i U IH]; intros D vals b f H HD Hn HU.
  - exists b, vals. simpl. split; auto. split; auto. split; [intros i []|auto].
  - inversion Hn as [|? ? Hi Hn']; subst.
    destruct (HU i (or_introl eq_refl)) as (Hid & Hni & Hdr).
    destruct (set_fresh_holds D vals b i (f i) H HD Hid Hni Hdr) as (b1 & E1 & H1).
    destruct (IH (i :: D) (upd vals i (f i)) b1 f H1) as (b' & vals' & E & H' & Hf & Ho).
    + intros j [<-|Hj]; auto.
    + exact Hn'.
    + intros j Hj. destruct (HU j (or_intror Hj)) as (J1 & J2 & J3). split; auto. split; auto.
      intros [<-|Hq]; [tauto|tauto].
    + exists b', vals'. cbn [assign_all map life]. fold (assign_all f U). rewrite E1, E. split; [reflexivity|]. split.
      * simpl. rewrite <- app_assoc. exact H'.
      * split.
        -- intros j [<-|Hj]; [|apply Hf; auto]. rewrite Ho by exact Hi. unfold upd. now rewrite Nat.eqb_refl.
        -- intros j Hj. rewrite Ho by (intro Hq; apply Hj; now right). unfold upd.
           assert (E' : Nat.eqb j i = false) by (apply Nat.eqb_neq; intro; subst; apply Hj; now left). now rewrite E'.
Qed.

Lemma holds_perm D D' vals b : Permutation D D' -> holds ds TI cap A D vals b -> holds ds TI cap A D' vals b.
Proof.
  intros P [H1 H2 H3 H4]. constructor; auto. eapply Permutation_trans; [exact H4|]. now apply Permutation_map.
Qed.

Lemma split_un_perm (p : nat -> bool) l : Permutation (rev (filter p l) ++ filter (fun i => negb (p i)) l) l.
Proof.
  eapply Permutation_trans; [apply Permutation_app_tail; symmetry; apply Permutation_rev|].
  induction l as [|x r IH]; simpl; auto. destruct (p x); simpl.
  - now apply perm_skip.
  - eapply Permutation_trans; [symmetry; apply Permutation_middle|]. now apply perm_skip.
Qed.
End Fill.
