(* Extraction of the executable model to OCaml (volume tier of the correspondence engines).
   Only ExtrOcamlBasic: bool, option, list, prod, unit, sumbool become OCaml types;
   nat, positive, N stay the Coq datatypes.  No Extract Constant. *)
From Coq Require Import List NArith Extraction ExtrOcamlBasic.
From Truc.Model Require Import Layout Builder Observe VecConv VecScript Ir Gen TypeName.
Extraction Language OCaml.
Definition n_to_uint (n : N) := N.to_uint n.
Definition gen_of_history (h : list req) (cfg : list fragment) : option (option (list item)) :=
  match Builder.build (Builder.run h) with None => None | Some d => Some (gen d cfg) end.
Extraction "model.ml" observe n_to_uint N.of_nat N.succ observe_vec gen_of_history recorded_name short_ast key_of.
