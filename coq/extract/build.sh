#!/bin/sh
# builds the extracted model + driver into $1 (default /verif/.cache/extract)
set -e
OUT=${1:-/verif/.cache/extract}
mkdir -p "$OUT"
cd "$OUT"
cp /verif/coq/extract/Extract.v /verif/coq/extract/driver.ml .
coqc -noglob -Q /verif/coq/Model Truc.Model Extract.v >/dev/null
ocamlfind ocamlopt -O2 -w -a model.mli model.ml driver.ml -o model_driver 2>/dev/null || ocamlfind ocamlopt -w -a model.mli model.ml driver.ml -o model_driver
