(* Reads request histories (harness text format, one per line) on stdin and prints the model's
   observation of each on stdout, in the format of the harness' observations.txt. *)
open Model

let rec nat_of_int n = if n <= 0 then O else S (nat_of_int (n - 1))

(* decimal string -> N, by Horner with the extracted N arithmetic *)
let n_ten = N.of_nat (nat_of_int 10)
let n_of_string (s : string) : n =
  let acc = ref N0 in
  String.iter (fun c ->
    let d = Char.code c - 48 in
    acc := N.add (N.mul !acc n_ten) (N.of_nat (nat_of_int d))) s;
  !acc

let string_of_n (x : n) : string =
  let b = Buffer.create 20 in
  let rec go (u : uint) = match u with
    | Nil -> ()
    | D0 r -> Buffer.add_char b '0'; go r
    | D1 r -> Buffer.add_char b '1'; go r
    | D2 r -> Buffer.add_char b '2'; go r
    | D3 r -> Buffer.add_char b '3'; go r
    | D4 r -> Buffer.add_char b '4'; go r
    | D5 r -> Buffer.add_char b '5'; go r
    | D6 r -> Buffer.add_char b '6'; go r
    | D7 r -> Buffer.add_char b '7'; go r
    | D8 r -> Buffer.add_char b '8'; go r
    | D9 r -> Buffer.add_char b '9'; go r in
  go (n_to_uint x);
  if Buffer.length b = 0 then "0" else Buffer.contents b

let strat_of_int = function
  | 0 -> SSimple | 1 -> SBasic | 2 -> SAppend | 3 -> SAppendRev
  | _ -> failwith "strategy"

let parse_req (t : string) : req =
  match String.split_on_char ':' t with
  | ["A"; nm; sz; al; u; _entry] ->
      let szi = int_of_string sz and ali = int_of_string al in
      Add (nat_of_int (int_of_string nm), nat_of_int (szi * 32 + ali),
           n_of_string sz, n_of_string al, (u <> "0"))
  | ["R"; i] -> Remove (nat_of_int (int_of_string i))
  | ["C"; s] -> Close (strat_of_int (int_of_string s))
  | ["LC"; n] -> LookupCur (nat_of_int (int_of_string n))
  | ["LV"; v; n] -> LookupVar (nat_of_int (int_of_string v), nat_of_int (int_of_string n))
  | _ -> failwith ("bad request " ^ t)

let builder_mode () =
  try
    while true do
      let line = input_line stdin in
      let toks = List.filter (fun s -> s <> "") (String.split_on_char ' ' line) in
      let h = List.map parse_req toks in
      let obs = observe h in
      print_endline
        (String.concat " | "
           (List.map (fun o -> String.concat "," (List.map string_of_n o)) obs))
    done
  with End_of_file -> ()

(* vector conversion cases: "<label> sT aT sU aU n c0 c1 ..." -> "<label> x,y,z,..." *)
let vec_mode () =
  try
    while true do
      let line = input_line stdin in
      match List.filter (fun s -> s <> "") (String.split_on_char ' ' line) with
      | label :: st :: at :: su :: au :: n :: sc ->
          let c = (((((n_of_string st, n_of_string at), n_of_string su), n_of_string au),
                    nat_of_int (int_of_string n)), List.map n_of_string sc) in
          print_endline (label ^ " " ^ String.concat "," (List.map string_of_n (observe_vec c)))
      | _ -> ()
    done
  with End_of_file -> ()

let () =
  if Array.length Sys.argv > 1 && Sys.argv.(1) = "vec" then vec_mode () else builder_mode ()
