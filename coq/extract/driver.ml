(* Reads request histories (harness text format, one per line) on stdin and prints the model's
   observation of each on stdout, in the format of the harness' observations.txt. *)
open Model

let rec nat_of_int n = if n <= 0 then O else S (nat_of_int (n - 1))

(* decimal string -> N, by Horner with the extracted N arithmetic *)
let n_ten = N.of_nat (nat_of_int 10)
let n_of_string (s : string) : n =
  let acc = ref N0 in
  String.iter (fun c ->
    let d = Char.code c - 48 in
    acc := N.add (N.mul !acc n_ten) (N.of_nat (nat_of_int d))) s;
  !acc

let string_of_n (x : n) : string =
  let b = Buffer.create 20 in
  let rec go (u : uint) = match u with
    | Nil -> ()
    | D0 r -> Buffer.add_char b '0'; go r
    | D1 r -> Buffer.add_char b '1'; go r
    | D2 r -> Buffer.add_char b '2'; go r
    | D3 r -> Buffer.add_char b '3'; go r
    | D4 r -> Buffer.add_char b '4'; go r
    | D5 r -> Buffer.add_char b '5'; go r
    | D6 r -> Buffer.add_char b '6'; go r
    | D7 r -> Buffer.add_char b '7'; go r
    | D8 r -> Buffer.add_char b '8'; go r
    | D9 r -> Buffer.add_char b '9'; go r in
  go (n_to_uint x);
  if Buffer.length b = 0 then "0" else Buffer.contents b

let strat_of_int = function
  | 0 -> SSimple | 1 -> SBasic | 2 -> SAppend | 3 -> SAppendRev | 4 -> SGAppend | 5 -> SGAppendRev
  | _ -> failwith "strategy"

let parse_req (t : string) : req =
  match String.split_on_char ':' t with
  | ["A"; nm; sz; al; u; _entry] ->
      let szi = int_of_string sz and ali = int_of_string al in
      Add (nat_of_int (int_of_string nm), nat_of_int (szi * 32 + ali),
           n_of_string sz, n_of_string al, (u <> "0"))
  | ["R"; i] -> Remove (nat_of_int (int_of_string i))
  | ["C"; s] -> Close (strat_of_int (int_of_string s))
  | ["LC"; n] -> LookupCur (nat_of_int (int_of_string n))
  | ["LV"; v; n] -> LookupVar (nat_of_int (int_of_string v), nat_of_int (int_of_string n))
  | _ -> failwith ("bad request " ^ t)

let builder_mode () =
  try
    while true do
      let line = input_line stdin in
      let toks = List.filter (fun s -> s <> "") (String.split_on_char ' ' line) in
      let h = List.map parse_req toks in
      let obs = observe h in
      print_endline
        (String.concat " | "
           (List.map (fun o -> String.concat "," (List.map string_of_n o)) obs))
    done
  with End_of_file -> ()

(* vector conversion cases: "<label> sT aT sU aU n c0 c1 ..." -> "<label> x,y,z,..." *)
let vec_mode () =
  try
    while true do
      let line = input_line stdin in
      match List.filter (fun s -> s <> "") (String.split_on_char ' ' line) with
      | label :: st :: at :: su :: au :: n :: sc ->
          let c = (((((n_of_string st, n_of_string at), n_of_string su), n_of_string au),
                    nat_of_int (int_of_string n)), List.map n_of_string sc) in
          print_endline (label ^ " " ^ String.concat "," (List.map string_of_n (observe_vec c)))
      | _ -> ()
    done
  with End_of_file -> ()

(* ---- generated modules: "<configs separated by ,>" on the command line, histories on stdin ---- *)
let rec int_of_nat = function O -> 0 | S n -> 1 + int_of_nat n
let sn = string_of_int
let nat_s n = sn (int_of_nat n)
let b01 b = if b then "1" else "0"
let sname_s = function
  | NUnpacked v -> "U" ^ nat_s v | NUnpackedUninit v -> "UU" ^ nat_s v | NUnpackedUninitSafe v -> "US" ^ nat_s v
  | NUnpackedIn v -> "UI" ^ nat_s v | NUnpackedUninitIn v -> "UUI" ^ nat_s v | NUnpackedUninitSafeIn v -> "USI" ^ nat_s v
  | NAndOut v -> "AO" ^ nat_s v | NCapped v -> "C" ^ nat_s v
let list_s f l = String.concat "," (List.map f l)
let src_s = function SFrom -> "from" | SPlus -> "plus"
let stmt_s = function
  | SNewBuf m -> "newbuf(" ^ b01 m ^ ")"
  | SWrite (off, s, f) -> "write(" ^ string_of_n off ^ "," ^ src_s s ^ "," ^ nat_s f ^ ")"
  | SRead (u, f, t, off, o) ->
      "read(" ^ b01 u ^ "," ^ nat_s f ^ "," ^ nat_s t ^ "," ^ string_of_n off ^ "," ^ (match o with OSelf -> "self" | OFrom -> "from") ^ ")"
  | SForgetSelf -> "forget"
  | SManuallyDrop -> "mdrop"
  | SCopyBuf m -> "copybuf(" ^ b01 m ^ ")"
  | SSafeFrom (s, used, safe, typed) -> "safefrom(" ^ src_s s ^ "," ^ b01 used ^ "," ^ sname_s safe ^ ",[" ^ list_s nat_s typed ^ "])"
  | SRetSelf -> "retself"
  | SRetUnpacked (n, fs) -> "retunpacked(" ^ sname_s n ^ ",[" ^ list_s nat_s fs ^ "])"
  | SLetRecord v -> "letrecord(C" ^ nat_s v ^ ")"
  | SRetAndOut (v, fs) -> "retandout(AO" ^ nat_s v ^ ",[" ^ list_s nat_s fs ^ "])"
let body_s b = "B[" ^ String.concat ";" (List.map stmt_s b) ^ "]"
let item_s = function
  | IMaxSize n -> "MAXSIZE " ^ string_of_n n
  | IUninitStruct a -> "UNINIT " ^ string_of_n a
  | IDataStruct (name, public, g, fields) ->
      "STRUCT " ^ sname_s name ^ (if public then " pub" else " priv") ^ " G[" ^ list_s nat_s g ^ "] F["
      ^ list_s (fun (n, ft) -> nat_s n ^ ":" ^ (match ft with FPlain t -> "P" ^ nat_s t | FPhantom i -> "H" ^ nat_s i)) fields ^ "]"
  | ISafeFromImpl (safe, g, unsafe_name, used, inits) ->
      "SAFEFROM " ^ sname_s safe ^ " G[" ^ list_s nat_s g ^ "] from=" ^ sname_s unsafe_name ^ " used=" ^ b01 used ^ " I["
      ^ list_s (fun (n, b) -> nat_s n ^ ":" ^ b01 b) inits ^ "]"
  | IRecordStruct (v, a) -> "RECORD " ^ nat_s v ^ " " ^ string_of_n a
  | IAlias v -> "ALIAS " ^ nat_s v
  | INew (v, uninit, used, body) -> "NEW " ^ nat_s v ^ " uninit=" ^ b01 uninit ^ " used=" ^ b01 used ^ " " ^ body_s body
  | IUnpack (v, body) -> "UNPACK " ^ nat_s v ^ " " ^ body_s body
  | IGet (v, f, t, off, m) -> "GET " ^ nat_s v ^ " " ^ nat_s f ^ " " ^ nat_s t ^ " " ^ string_of_n off ^ " " ^ b01 m
  | IDrop (v, body) -> "DROP " ^ nat_s v ^ " " ^ body_s body
  | IFromUnpacked (v, u) -> "FROMUNPACKED " ^ nat_s v ^ " " ^ b01 u
  | IOutStruct (v, fields) -> "OUT " ^ nat_s v ^ " F[" ^ list_s (fun (n, t) -> nat_s n ^ ":" ^ nat_s t) fields ^ "]"
  | IConv (v, prev, uninit, andout, used, body) ->
      "CONV " ^ nat_s v ^ " " ^ nat_s prev ^ " uninit=" ^ b01 uninit ^ " andout=" ^ b01 andout ^ " plusused=" ^ b01 used ^ " " ^ body_s body
  | IClone (v, fields) -> "CLONE " ^ nat_s v ^ " F[" ^ list_s (fun (n, c) -> nat_s n ^ ":" ^ b01 c) fields ^ "]"
  | ISerialize (v, fields) -> "SER " ^ nat_s v ^ " F[" ^ list_s nat_s fields ^ "]"
  | IDeserialize (v, fields) -> "DE " ^ nat_s v ^ " F[" ^ list_s (fun (n, t) -> nat_s n ^ ":" ^ nat_s t) fields ^ "]"
  | IAssertSize (t, n) -> "ASIZE " ^ nat_s t ^ " " ^ string_of_n n
  | IAssertAlign (t, n) -> "AALIGN " ^ nat_s t ^ " " ^ string_of_n n

let cfg_of_string s =
  List.filter_map (fun c -> match c with 'c' -> Some FClone | 's' -> Some FSerde | _ -> None)
    (List.init (String.length s) (String.get s))

let gen_mode cfgs =
  let k = ref 0 in
  try
    while true do
      let line = String.trim (input_line stdin) in
      if line <> "" && line.[0] <> '#' then begin
        let toks = List.filter (fun s -> s <> "") (String.split_on_char ' ' line) in
        let h = List.map parse_req toks in
        List.iter (fun cs ->
          let label = string_of_int !k ^ "/" ^ cs in
          match gen_of_history h (cfg_of_string cs) with
          | None -> print_endline ("== " ^ label ^ " NODEF")
          | Some None -> print_endline ("== " ^ label ^ " PANIC")
          | Some (Some items) ->
              print_endline ("== " ^ label ^ " OK");
              List.iter (fun i -> print_endline (item_s i)) items) cfgs;
        incr k
      end
    done
  with End_of_file -> ()

(* ---- type names: one type description per line -> the tokens of its recorded name, without blanks *)
let prims = [| "u8"; "u16"; "u32"; "u64"; "u128"; "usize"; "i8"; "i16"; "i32"; "i64"; "i128"; "isize"; "f32"; "f64"; "bool"; "char" |]
(* user identifiers are numbered as they are met *)
let user_tbl : (string, int) Hashtbl.t = Hashtbl.create 16
let user_rev : (int, string) Hashtbl.t = Hashtbl.create 16
let ident_of_string (s : string) : ident =
  match s with
  | "alloc" -> Ialloc | "boxed" -> Iboxed | "Box" -> IBox | "string" -> Istring | "String" -> IString
  | "vec" -> Ivec | "Vec" -> IVec | "core" -> Icore | "option" -> Ioption | "Option" -> IOption
  | "result" -> Iresult | "Result" -> IResult | "str" -> Istr
  | _ ->
      let n = match Hashtbl.find_opt user_tbl s with
        | Some n -> n
        | None -> let n = Hashtbl.length user_tbl in Hashtbl.add user_tbl s n; Hashtbl.add user_rev n s; n in
      IUser (nat_of_int n)
let ident_s = function
  | Ialloc -> "alloc" | Iboxed -> "boxed" | IBox -> "Box" | Istring -> "string" | IString -> "String"
  | Ivec -> "vec" | IVec -> "Vec" | Icore -> "core" | Ioption -> "option" | IOption -> "Option"
  | Iresult -> "result" | IResult -> "Result" | Istr -> "str"
  | IPrim p -> prims.(int_of_nat p)
  | IUser n -> (match Hashtbl.find_opt user_rev (int_of_nat n) with Some s -> s | None -> "user" ^ string_of_int (int_of_nat n))
let token_s = function
  | KId i -> ident_s i | KLt -> "<" | KGt -> ">" | KComma -> "," | KColon2 -> "::" | KLParen -> "(" | KRParen -> ")"
  | KLBrack -> "[" | KRBrack -> "]" | KSemi -> ";" | KNum n -> string_of_int (int_of_nat n)

(* P<n> | X | S | B(t) | V(t) | O(t) | L(t) | R(t,t) | A(t,n) | T(t,..) | U(seg.seg;Name;t,..) with identifiers by name *)
let parse_ty (s : string) : rty =
  let pos = ref 0 in
  let peek () = if !pos < String.length s then s.[!pos] else '\000' in
  let eat c = if peek () = c then incr pos else failwith (Printf.sprintf "expected %c at %d in %s" c !pos s) in
  let number () =
    let st = !pos in
    while (match peek () with '0'..'9' -> true | _ -> false) do incr pos done;
    int_of_string (String.sub s st (!pos - st)) in
  let word () =
    let st = !pos in
    while (match peek () with 'a'..'z' | 'A'..'Z' | '0'..'9' | '_' -> true | _ -> false) do incr pos done;
    String.sub s st (!pos - st) in
  let rec ty () =
    let c = peek () in incr pos;
    match c with
    | 'P' -> TPrim (nat_of_int (number ()))
    | 'X' -> TStr
    | 'S' -> TString
    | 'B' -> eat '('; let a = ty () in eat ')'; TBox a
    | 'V' -> eat '('; let a = ty () in eat ')'; TVec a
    | 'O' -> eat '('; let a = ty () in eat ')'; TOption a
    | 'L' -> eat '('; let a = ty () in eat ')'; TSlice a
    | 'R' -> eat '('; let a = ty () in eat ','; let e = ty () in eat ')'; TResult (a, e)
    | 'A' -> eat '('; let a = ty () in eat ','; let n = number () in eat ')'; TArray (a, nat_of_int n)
    | 'T' -> eat '('; let l = tys ')' in eat ')'; TTuple l
    | 'U' -> eat '(';
        let path = ref [word ()] in
        while peek () = '.' do incr pos; path := word () :: !path done;
        eat ';'; let name = word () in eat ';';
        let l = tys ')' in eat ')';
        TUser (List.rev_map ident_of_string !path, ident_of_string name, l)
    | _ -> failwith ("type description: " ^ s)
  and tys close =
    if peek () = close then [] else begin
      let first = ty () in
      let rest = ref [first] in
      while peek () = ',' do incr pos; rest := ty () :: !rest done;
      List.rev !rest
    end in
  let t = ty () in
  if !pos <> String.length s then failwith ("trailing input in " ^ s);
  t

let tyname_mode () =
  try
    while true do
      let line = input_line stdin in
      if String.length line > 0 then begin
        let t = parse_ty line in
        let name = String.concat "" (List.map token_s (recorded_name t)) in
        let short = String.concat "" (List.map token_s (key_of (short_ast t))) in
        print_endline (name ^ "|" ^ short)
      end
    done
  with End_of_file -> ()

let () =
  if Array.length Sys.argv > 1 && Sys.argv.(1) = "vec" then vec_mode ()
  else if Array.length Sys.argv > 2 && Sys.argv.(1) = "gen" then gen_mode (String.split_on_char ',' Sys.argv.(2))
  else if Array.length Sys.argv > 1 && Sys.argv.(1) = "tyname" then tyname_mode ()
  else builder_mode ()
