(* C14 - A record is sendable or shareable across threads only if all its fields are.
   REFUTED on the faithful model (known finding): the record struct only contains a byte buffer, so it is
   Send and Sync whatever it stores.  The converse half holds and is proved. *)
From Coq Require Import List Bool NArith.
From Truc.Model Require Import Layout Builder Ir Gen AutoTrait.
Import ListNotations.

(* target statement:  record_auto user (IRecordStruct v al) = forallb user (types of the variant's fields) *)

(* converse half: whenever all the field types are Send (Sync), the record is *)
Theorem C14_all_send : forall user v al (tys : list nat),
  forallb user tys = true -> record_auto user (IRecordStruct v al) = true.
Proof. intros. reflexivity. Qed.
Print Assumptions C14_all_send.

(* the "only if" half fails: a variant with a field whose type is not Send (an Rc) is still Send *)
Theorem C14_refuted : exists (user : nat -> bool) (d : definition) items,
  gen d [] = Some items /\
  (exists v i, In v (snd d) /\ In i v /\ user (d_ty (getd (fst d) i)) = false) /\
  forall it, In it items -> record_auto user it = true.
Proof.
  exists (fun t => negb (Nat.eqb t 7)), ([mkDatum 0 7 8 8 false 0], [[0%nat]]).
  eexists. split; [vm_compute; reflexivity|]. split.
  - exists [0%nat], 0%nat. simpl. auto.
  - intros it Hin. unfold record_auto, record_struct_fields. destruct it; reflexivity.
Qed.
Print Assumptions C14_refuted.
