(* C11 - Wrong type information or a non-Copy uninitialisable field cannot compile.   PARTIAL:
   the compile-time gate is modelled (Gate.accepts: every const_assert_eq! holds in the world the module is
   compiled in, every `T: Copy` instantiation is met); that rustc rejects a module whose gate fails is rustc's
   and is probed by engine E5; that the real generator emits these assertions is checked by engine E2. *)
From Coq Require Import List NArith.
From Truc.Model Require Import Layout Builder Ir Gen.
From Truc.Proofs Require Import Gate.
From Truc.Current Require Runtime.
Import ListNotations.

(* For every definition, every fragment selection and every world: if the generated module passes its own
   gate then, for every datum of every variant (introduced in the first or in a later variant, still present
   in the last variant or not), the recorded size and alignment are the real ones of its type, and a datum
   allowed to stay uninitialised has a Copy type. *)
Theorem C11 : forall (d : definition) cfg items w,
  gen d cfg = Some items -> accepts w items = true ->
  forall v i, In v (snd d) -> In i v ->
    d_size (getd (fst d) i) = w_size w (d_ty (getd (fst d) i)) /\
    d_align (getd (fst d) i) = w_align w (d_ty (getd (fst d) i)) /\
    (d_uninit (getd (fst d) i) = true -> w_copy w (d_ty (getd (fst d) i)) = true).
Proof. exact gate_sound. Qed.
Print Assumptions C11.

(* the generator of this run does emit alignment assertions (translator) *)
Theorem C11_current : Runtime.align_assertions = true.
Proof. reflexivity. Qed.

(* without the alignment assertions (the tree before the fix) a module records u64 with alignment 4 and
   passes the gate of a world where it is 8 *)
Example C11_refuted_unfixed :
  let d : definition := ([mkDatum 0 1 8 4 false 0], [[0%nat]]) in
  let w := mkWorld (fun _ => 8%N) (fun _ => 8%N) (fun _ => true) in
  match gen d [] with
  | Some items => accepts w (filter (fun it => match it with IAssertAlign _ _ => false | _ => true end) items) = true
                  /\ accepts w items = false
  | None => False
  end.
Proof. vm_compute. auto. Qed.
Print Assumptions C11_refuted_unfixed.

(* ---- what the gate buys: the whole chain, from requests to values read back.
   A history of valid requests (power-of-two alignments), the module generated from it passes its own gate
   in the world it is compiled in (sizes, alignments, Copy-ness of the real types; any drop glue), a capacity
   covering the published one: then a record built by `new` in any variant gives every value back - the type
   information the layout was computed from is, by the gate, the real one. *)
From Coq Require Import Lia.
From Truc.Model Require Import Exec Ops.
From Truc.Proofs Require Import BuilderInv LayoutThms ExecP Holds Link.
Theorem C11_gate_to_values : forall h cfg items w (drops : nat -> bool) rt cap m,
  hist_ok h -> pow2_hist h -> rt_ok rt = true ->
  let b := run h in let ds := b_ds b in
  gen (ds, b_vs b) cfg = Some items -> accepts w items = true ->
  let TI := fun t => mkTi (w_size w t) (w_align w t) (drops t) in
  max_size (ds, b_vs b) = Some m -> (m <= cap)%N ->
  forall v, In v (b_vs b) -> NoDup (map (fun i => (Gen.of ds i, Gen.ty ds i)) v) ->
  forall vid vals, exists r,
    op_new ds TI rt (max_type_align (ds, b_vs b)) cap vid v vals = Ok (ORecord r, []) /\
    forall i mode, In i v -> op_get ds TI rt r i mode = Ok (Some (vals i)).
Proof.
  intros h cfg items w drops rt cap m Hh Hp RT b ds G Acc TI Hm Hcap v Hv Hk vid vals.
  assert (HTI : forall v0 i, In v0 (b_vs b) -> In i v0 ->
            ti_size (TI (d_ty (getd ds i))) = d_size (getd ds i) /\ ti_align (TI (d_ty (getd ds i))) = d_align (getd ds i)).
  { intros v0 i Hv0 Hi. destruct (gate_sound (ds, b_vs b) cfg items w G Acc v0 i Hv0 Hi) as (E1 & E2 & _).
    simpl in E1, E2. unfold TI. simpl. split; congruence. }
  assert (L : layout_ok ds TI (max_type_align (ds, b_vs b)) cap v).
  { apply (layout_ok_of_run h Hh Hp TI HTI cap); eauto. }
  destruct (new_holds ds TI rt _ cap RT v L vid vals) as (r & E & H).
  exists r. split; [exact E|]. intros i mode Hi. exact (get_holds ds TI rt _ cap RT v L vals r i mode H Hi).
Qed.
Print Assumptions C11_gate_to_values.
