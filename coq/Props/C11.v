(* C11 - Wrong type information or a non-Copy uninitialisable field cannot compile.   PARTIAL:
   the compile-time gate is modelled (Gate.accepts: every const_assert_eq! holds in the world the module is
   compiled in, every `T: Copy` instantiation is met); that rustc rejects a module whose gate fails is rustc's
   and is probed by engine E5; that the real generator emits these assertions is checked by engine E2. *)
From Coq Require Import List NArith.
From Truc.Model Require Import Layout Builder Ir Gen.
From Truc.Proofs Require Import Gate.
From Truc.Current Require Runtime.
Import ListNotations.

(* For every definition, every fragment selection and every world: if the generated module passes its own
   gate then, for every datum of every variant (introduced in the first or in a later variant, still present
   in the last variant or not), the recorded size and alignment are the real ones of its type, and a datum
   allowed to stay uninitialised has a Copy type. *)
Theorem C11 : forall (d : definition) cfg items w,
  gen d cfg = Some items -> accepts w items = true ->
  forall v i, In v (snd d) -> In i v ->
    d_size (getd (fst d) i) = w_size w (d_ty (getd (fst d) i)) /\
    d_align (getd (fst d) i) = w_align w (d_ty (getd (fst d) i)) /\
    (d_uninit (getd (fst d) i) = true -> w_copy w (d_ty (getd (fst d) i)) = true).
Proof. exact gate_sound. Qed.
Print Assumptions C11.

(* the generator of this run does emit alignment assertions (translator) *)
Theorem C11_current : Runtime.align_assertions = true.
Proof. reflexivity. Qed.

(* without the alignment assertions (the tree before the fix) a module records u64 with alignment 4 and
   passes the gate of a world where it is 8 *)
Example C11_refuted_unfixed :
  let d : definition := ([mkDatum 0 1 8 4 false 0], [[0%nat]]) in
  let w := mkWorld (fun _ => 8%N) (fun _ => 8%N) (fun _ => true) in
  match gen d [] with
  | Some items => accepts w (filter (fun it => match it with IAssertAlign _ _ => false | _ => true end) items) = true
                  /\ accepts w items = false
  | None => False
  end.
Proof. vm_compute. auto. Qed.
Print Assumptions C11_refuted_unfixed.
