(* C10 - Vector conversion refuses element types of different size or alignment. *)
From Coq Require Import List NArith.
From Truc.Model Require Import VecConv.
From Truc.Proofs Require Import VecConvP VecConvThms.
From Truc.Current Require Runtime.
Import ListNotations.

Section C10.
Variables (T U E P St : Type).
Variable conv : St -> T -> option U -> St * option U * outcome U E P.
Variables (sizeT alT sizeU alU : N).

(* If the two element types differ in size or in alignment the conversion is refused: the converter is
   never called, nothing is read, and the input vector is dropped normally - each element exactly once,
   in order, then its buffer - for every length (0 included) and every converter. *)
Theorem C10 : forall fl input s0, flags_ok fl = true -> (sizeT <> sizeU \/ alT <> alU) ->
  run T U E P St conv sizeT alT sizeU alU fl input s0 = (Refused, map (@DropT T U) input ++ [FreeBuf]).
Proof. exact (run_refused T U E P St conv sizeT alT sizeU alU). Qed.

(* and only then *)
Theorem C10_converse : forall fl input s0, flags_ok fl = true -> sizeT = sizeU -> alT = alU ->
  run T U E P St conv sizeT alT sizeU alU fl input s0 = spec T U E P St conv input [] s0 [].
Proof. exact (run_not_refused T U E P St conv sizeT alT sizeU alU). Qed.
End C10.
Print Assumptions C10.
Print Assumptions C10_converse.

(* both assertions are present and precede `ManuallyDrop::new(input)` in convert.rs on this run *)
Theorem C10_current : guard_size Runtime.vec_flags = true /\ guard_align Runtime.vec_flags = true.
Proof. split; reflexivity. Qed.

(* without the alignment assertion a same-size pair of different alignment is converted *)
Example C10_refuted_without_guard :
  fst (run nat nat nat nat nat (fun s t _ => (s, None, Converted t)) 16 8 16 4 (mkFlags true false true true true) [1; 2] 0)
  = Done [1; 2] 0.
Proof. vm_compute. reflexivity. Qed.
