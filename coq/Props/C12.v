(* C12 - A variant is its predecessor minus removals plus additions; bad requests fail. *)
From Coq Require Import List NArith Lia Permutation.
From Truc.Model Require Import Layout Builder Spec12.
From Truc.Proofs Require Import Variants BuilderInv Refine12 Replay ReplayG Refine12G.
Import ListNotations.

(* Refinement: in every reachable state, every request gets the response the set-level specification
   Spec12.sp_step gives, and the resulting state abstracts to the specification's resulting state
   (names equal; current data and every closed variant equal as sets/permutations).  sp_step says:
   an accepted add receives the fresh identifier `number of identifiers handed out so far`;
   the current variant is the predecessor minus removals plus additions; a close snapshots it,
   or creates nothing and answers the last variant when nothing changed; requests with a clashing
   name / an absent or already removed datum are rejected. *)
Theorem C12_refines : forall h r, hist_ok h -> req_ok r ->
  let b := run h in
  snd (step b r) = snd (sp_step (abs b) r) /\
  spec_equiv (abs (fst (step b r))) (fst (sp_step (abs b) r)).
Proof. intros h r Hh Hr. exact (step_refines (run h) r Hr (run_inv12 h Hh)). Qed.
Print Assumptions C12_refines.

(* the same refinement for the GENERIC builder (same request layer, closed by its own two strategies, which
   assign no offsets): every history of requests whose closes use the generic strategies *)
Theorem C12_refines_generic : forall h r, Forall (rok gstrat) h -> rok gstrat r ->
  let b := run h in
  snd (step b r) = snd (sp_step (abs b) r) /\
  spec_equiv (abs (fst (step b r))) (fst (sp_step (abs b) r)).
Proof. intros h r Hh Hr. exact (step_refines_generic (run h) r Hr (run_from_ginv h Hh _ ginv_empty)). Qed.
Print Assumptions C12_refines_generic.

(* a rejected request (and a lookup) leaves the builder exactly as it was *)
Theorem C12_rejected_unchanged : forall b r e, snd (step b r) = RErr e -> fst (step b r) = b.
Proof. exact rejected_unchanged. Qed.
Print Assumptions C12_rejected_unchanged.

(* names are unique inside every closed variant and inside the current one *)
Theorem C12_unique_names : forall h, hist_ok h ->
  (forall v, In v (b_vs (run h)) -> NoDup (map (fun i => d_name (getd (b_ds (run h)) i)) v)) /\
  NoDup (map (fun i => d_name (getd (b_ds (run h)) i)) (current_data (run h))).
Proof. intros h Hh. split; [exact (i_names_v _ (run_inv12 h Hh))|exact (i_names_c _ (run_inv12 h Hh))]. Qed.
Print Assumptions C12_unique_names.

(* build() panics exactly when an addition or a removal is pending *)
Theorem C12_build : forall b, build b = None <-> (b_add b <> [] \/ b_rm b <> []).
Proof.
  intros b. unfold build. destruct (b_add b), (b_rm b); split; intros H; try discriminate; auto;
    try (destruct H as [H|H]; congruence); try (left; discriminate); try (right; discriminate).
Qed.
Print Assumptions C12_build.

Example C12_nonvacuous :
  let h := [Add 0 0 4 4 false; Add 1 0 2 2 false; Close SSimple; Remove 0%nat; Add 0 1 8 8 false] in
  hist_ok h /\
  snd (step (run h) (Add 0 2 1 1 false)) = RErr DuplicateName /\
  snd (step (run h) (Remove 0%nat)) = RErr AlreadyRemoved /\
  snd (step (run h) (Remove 7%nat)) = RErr NotInPrevious /\
  snd (step (run h) (Close SBasic)) = RVariant 1 /\
  current_data (run h) = [1; 2]%nat.
Proof.
  split; [repeat constructor; simpl; try lia; unfold native; tauto|]. vm_compute. auto.
Qed.
Print Assumptions C12_nonvacuous.
