(* C05 - Converting to the next variant keeps, adds and returns the right values.   PARTIAL (as C04). *)
From Coq Require Import List NArith Permutation.
From Truc.Model Require Import Layout Builder Ir Gen Exec Ops.
From Truc.Proofs Require Import ExecP Holds Life Chain.
From Truc.Current Require Runtime.
Import ListNotations.

Section C05.
Variable ds : defs.
Variable TI : nat -> tinfo.
Variable rt : runtime.
Variables (A cap : N).
Hypothesis RT : rt_ok rt = true.
(* two consecutive variants P (previous) and Q (next), what is removed, added and carried over *)
Variables (P Q minus plus carried : list nat).
Hypothesis LP : layout_ok ds TI A cap P.
Hypothesis LQ : layout_ok ds TI A cap Q.
Hypothesis PP : Permutation P (minus ++ carried).
Hypothesis PQ : Permutation Q (plus ++ carried).

(* For each of the four generated forms (uninit: only the mandatory added fields are supplied;
   and_out: the removed data are handed back), on ANY record b that holds P with values `vals`:
   the conversion never faults; the result holds exactly the supplied added fields with the supplied
   values `pvals` and every carried-over field with the value it had; the removed fields are handed back
   with the values they had (and_out) or destroyed exactly once inside the conversion (otherwise).
   An added field may reuse the bytes of a removed one: the removed fields are read before the stores. *)
Theorem C05 : forall v prev uninit and_out vals pvals b,
  holds ds TI cap A P vals b ->
  exists b',
    op_conv ds TI rt A cap v prev minus plus uninit and_out b pvals =
      Ok (if and_out then OAndOut b' (map (fun i => (nm ds i, Some (vals i))) minus) else ORecord b',
          if and_out then [] else droppable_of TI (rev (map (fun i => (nm ds i, (Some (vals i), ty ds i))) minus))) /\
    b_align b' = A /\ b_cap b' = cap /\ Forall (wf_slot TI) (b_slots b') /\
    Permutation (owned (b_slots b')) (map (entry_of ds pvals) (written ds plus uninit) ++ map (entry_of ds vals) carried).
Proof. exact (conv_holds ds TI rt A cap RT P Q minus plus carried LP LQ PP PQ). Qed.
End C05.
Print Assumptions C05.

(* the complete forms map "holds P" to "holds Q" (the shape later operations need): *)
Theorem C05_holds : forall ds TI rt A cap, rt_ok rt = true -> forall P Q minus plus carried,
  layout_ok ds TI A cap P -> layout_ok ds TI A cap Q ->
  Permutation P (minus ++ carried) -> Permutation Q (plus ++ carried) ->
  forall v prev and_out vals pvals b, holds ds TI cap A P vals b ->
  exists b',
    op_conv ds TI rt A cap v prev minus plus false and_out b pvals =
      Ok (if and_out then OAndOut b' (map (fun i => (nm ds i, Some (vals i))) minus) else ORecord b',
          if and_out then [] else droppable_of TI (rev (map (fun i => (nm ds i, (Some (vals i), ty ds i))) minus))) /\
    holds ds TI cap A Q (merge vals pvals plus) b'.
Proof. intros ds TI rt A cap RT. exact (conv_holds_full ds TI rt A cap RT). Qed.
Print Assumptions C05_holds.

(* the uninit forms: only the mandatory added fields are supplied; once each added field that may stay
   uninitialised (plain data, C11) has been written through its mutable accessor - nothing is destroyed by
   those writes - the record holds the whole next variant: supplied, written and carried-over values *)
Theorem C05_uninit_then_fill : forall ds TI rt A cap, rt_ok rt = true -> forall P Q minus plus carried,
  layout_ok ds TI A cap P -> layout_ok ds TI A cap Q ->
  Permutation P (minus ++ carried) -> Permutation Q (plus ++ carried) ->
  (forall i, In i plus -> un ds i = true -> dr ds TI i = false) ->
  forall v prev and_out vals pvals f b, holds ds TI cap A P vals b ->
  exists b' b'' vals',
    op_conv ds TI rt A cap v prev minus plus true and_out b pvals =
      Ok (if and_out then OAndOut b' (map (fun i => (nm ds i, Some (vals i))) minus) else ORecord b',
          if and_out then [] else droppable_of TI (rev (map (fun i => (nm ds i, (Some (vals i), ty ds i))) minus))) /\
    life ds TI rt b' (assign_all f (filter (un ds) plus)) = Ok (b'', []) /\
    holds ds TI cap A Q vals' b'' /\
    (forall i, In i Q -> vals' i = if mem i plus then (if un ds i then f i else pvals i) else vals i).
Proof. intros ds TI rt A cap RT. exact (conv_uninit_then_fill ds TI rt A cap RT). Qed.
Print Assumptions C05_uninit_then_fill.

(* the lists the generator computes for two consecutive variants are of that shape *)
Theorem C05_minus_plus : forall pv var m pl,
  minus_plus (length (sort_ids pv) + length (sort_ids var)) (sort_ids pv) (sort_ids var) = (m, pl) ->
  exists car, Permutation pv (m ++ car) /\ Permutation var (pl ++ car).
Proof.
  intros pv var m pl H. destruct (minus_plus_spec _ _ _ _ _ H (le_n _)) as (car & Q1 & Q2).
  exists car. split; [rewrite <- Q1|rewrite <- Q2]; symmetry; apply sort_ids_perm.
Qed.
Print Assumptions C05_minus_plus.

Theorem C05_current : rt_ok Runtime.exec_rt = true.
Proof. reflexivity. Qed.

(* non-vacuity: variant 0 = {a: u32@24 (copy), s: 24 bytes droppable @0}; variant 1 removes a, adds c: 2 bytes@24 *)
Definition ex_ds : defs := [mkDatum 0 1 4 4 true 24; mkDatum 1 2 24 8 false 0; mkDatum 2 3 2 2 true 24].
Definition ex_ti (t : nat) : tinfo :=
  match t with 1%nat => mkTi 4 4 false | 2%nat => mkTi 24 8 true | _ => mkTi 2 2 false end.
Example C05_nonvacuous :
  match op_new ex_ds ex_ti rt_fixed 8 28 0 [0; 1]%nat (fun i => (100 + i)%nat) with
  | Ok (ORecord r, _) =>
      op_conv ex_ds ex_ti rt_fixed 8 28 1 0 [0%nat] [2%nat] false true r (fun i => (200 + i)%nat)
  | _ => Fault (Static 0)
  end
  = Ok (OAndOut (mkBuf 8 28 [mkSlot 24 3 2 false (Owned 202); mkSlot 0 2 24 true (Owned 101)]) [(0%nat, Some 100%nat)], []).
Proof. vm_compute. reflexivity. Qed.
