(* C05 - Converting to the next variant keeps, adds and returns the right values.   PARTIAL (as C04). *)
From Coq Require Import List NArith Permutation.
From Truc.Model Require Import Layout Builder Ir Gen Exec Ops.
From Truc.Proofs Require Import ExecP Holds Life Chain.
From Truc.Current Require Runtime.
Import ListNotations.

Section C05.
Variable ds : defs.
Variable TI : nat -> tinfo.
Variable rt : runtime.
Variables (A cap : N).
Hypothesis RT : rt_ok rt = true.
(* two consecutive variants P (previous) and Q (next), what is removed, added and carried over *)
Variables (P Q minus plus carried : list nat).
Hypothesis LP : layout_ok ds TI A cap P.
Hypothesis LQ : layout_ok ds TI A cap Q.
Hypothesis PP : Permutation P (minus ++ carried).
Hypothesis PQ : Permutation Q (plus ++ carried).

(* For each of the four generated forms (uninit: only the mandatory added fields are supplied;
   and_out: the removed data are handed back), on ANY record b that holds P with values `vals`:
   the conversion never faults; the result holds exactly the supplied added fields with the supplied
   values `pvals` and every carried-over field with the value it had; the removed fields are handed back
   with the values they had (and_out) or destroyed exactly once inside the conversion (otherwise).
   An added field may reuse the bytes of a removed one: the removed fields are read before the stores. *)
Theorem C05 : forall v prev uninit and_out vals pvals b,
  holds ds TI cap A P vals b ->
  exists b',
    op_conv ds TI rt A cap v prev minus plus uninit and_out b pvals =
      Ok (if and_out then OAndOut b' (map (fun i => (nm ds i, Some (vals i))) minus) else ORecord b',
          if and_out then [] else droppable_of TI (rev (map (fun i => (nm ds i, (Some (vals i), ty ds i))) minus))) /\
    b_align b' = A /\ b_cap b' = cap /\ Forall (wf_slot TI) (b_slots b') /\
    Permutation (owned (b_slots b')) (map (entry_of ds pvals) (written ds plus uninit) ++ map (entry_of ds vals) carried).
Proof. exact (conv_holds ds TI rt A cap RT P Q minus plus carried LP LQ PP PQ). Qed.
End C05.
Print Assumptions C05.

(* the complete forms map "holds P" to "holds Q" (the shape later operations need): *)
Theorem C05_holds : forall ds TI rt A cap, rt_ok rt = true -> forall P Q minus plus carried,
  layout_ok ds TI A cap P -> layout_ok ds TI A cap Q ->
  Permutation P (minus ++ carried) -> Permutation Q (plus ++ carried) ->
  forall v prev and_out vals pvals b, holds ds TI cap A P vals b ->
  exists b',
    op_conv ds TI rt A cap v prev minus plus false and_out b pvals =
      Ok (if and_out then OAndOut b' (map (fun i => (nm ds i, Some (vals i))) minus) else ORecord b',
          if and_out then [] else droppable_of TI (rev (map (fun i => (nm ds i, (Some (vals i), ty ds i))) minus))) /\
    holds ds TI cap A Q (merge vals pvals plus) b'.
Proof. intros ds TI rt A cap RT. exact (conv_holds_full ds TI rt A cap RT). Qed.
Print Assumptions C05_holds.

(* the uninit forms: only the mandatory added fields are supplied; once each added field that may stay
   uninitialised (plain data, C11) has been written through its mutable accessor - nothing is destroyed by
   those writes - the record holds the whole next variant: supplied, written and carried-over values *)
Theorem C05_uninit_then_fill : forall ds TI rt A cap, rt_ok rt = true -> forall P Q minus plus carried,
  layout_ok ds TI A cap P -> layout_ok ds TI A cap Q ->
  Permutation P (minus ++ carried) -> Permutation Q (plus ++ carried) ->
  (forall i, In i plus -> un ds i = true -> dr ds TI i = false) ->
  forall v prev and_out vals pvals f b, holds ds TI cap A P vals b ->
  exists b' b'' vals',
    op_conv ds TI rt A cap v prev minus plus true and_out b pvals =
      Ok (if and_out then OAndOut b' (map (fun i => (nm ds i, Some (vals i))) minus) else ORecord b',
          if and_out then [] else droppable_of TI (rev (map (fun i => (nm ds i, (Some (vals i), ty ds i))) minus))) /\
    life ds TI rt b' (assign_all f (filter (un ds) plus)) = Ok (b'', []) /\
    holds ds TI cap A Q vals' b'' /\
    (forall i, In i Q -> vals' i = if mem i plus then (if un ds i then f i else pvals i) else vals i).
Proof. intros ds TI rt A cap RT. exact (conv_uninit_then_fill ds TI rt A cap RT). Qed.
Print Assumptions C05_uninit_then_fill.

(* the lists the generator computes for two consecutive variants are of that shape *)
Theorem C05_minus_plus : forall pv var m pl,
  minus_plus (length (sort_ids pv) + length (sort_ids var)) (sort_ids pv) (sort_ids var) = (m, pl) ->
  exists car, Permutation pv (m ++ car) /\ Permutation var (pl ++ car).
Proof.
  intros pv var m pl H. destruct (minus_plus_spec _ _ _ _ _ H (le_n _)) as (car & Q1 & Q2).
  exists car. split; [rewrite <- Q1|rewrite <- Q2]; symmetry; apply sort_ids_perm.
Qed.
Print Assumptions C05_minus_plus.

(* ---- a whole chain of conversions, functionally: a record holding variant P, carried through ANY number of
   conversions (each complete or uninit-then-filled, removed data handed back or not) with ANY reads and writes in
   between, ends as a record that holds the last variant with the values `uchain_vals` computes from the requests
   alone: per conversion an added field takes the supplied value (the written one if it was left uninitialised),
   every other field keeps its value; a write replaces the value of its field only.  No step faults.
   In particular a field that no conversion adds and no write touches reads back what it held at the start, however
   many variants it has been carried through (C05_chain_untouched). *)
From Truc.Proofs Require Import ChainU.
Theorem C05_chain_values : forall ds TI rt A cap, rt_ok rt = true ->
  forall (stages : list ustage) P vals b,
  layout_ok ds TI A cap P -> uchain_ok ds TI A cap P stages -> holds ds TI cap A P vals b ->
  exists bf d r, uchain_run ds TI rt A cap b stages = Ok (bf, d, r) /\
    holds ds TI cap A (ulast_data P stages) (uchain_vals ds vals stages) bf /\
    (layout_ok ds TI A cap (ulast_data P stages) ->
     forall i m, In i (ulast_data P stages) -> op_get ds TI rt bf i m = Ok (Some (uchain_vals ds vals stages i))).
Proof.
  intros ds TI rt A cap RT stages P vals b LP Hc H.
  destruct (uchain_values ds TI rt A cap RT stages P vals b LP Hc H) as (bf & d & r & E & Hf).
  exists bf, d, r. split; [exact E|]. split; [exact Hf|].
  intros LL i m Hi. exact (get_holds ds TI rt A cap RT _ LL _ bf i m Hf Hi).
Qed.
Print Assumptions C05_chain_values.

Theorem C05_chain_untouched : forall ds (stages : list ustage) vals i,
  Forall (fun u => ~ In i (s_plus (u_s u)) /\
                   forall o, In o (s_ops (u_s u)) -> match o with LSet j _ => j <> i | LGet _ _ => True end) stages ->
  uchain_vals ds vals stages i = vals i.
Proof. intros ds stages vals i. exact (uchain_vals_untouched ds i stages vals). Qed.
Print Assumptions C05_chain_untouched.

(* on a concrete chain (variant 0 = {a: droppable at 0}; variant 1 removes a, adds c - droppable, reusing a's bytes -
   and u - plain, allow_uninit; uninit conversion, u written, then c overwritten): the machine's reads agree with the
   closed form *)
Definition exc_ds : defs := [mkDatum 0 1 24 8 false 0; mkDatum 1 2 8 8 true 24; mkDatum 2 1 24 8 false 0].
Definition exc_ti (t : nat) : tinfo := if Nat.eqb t 1 then mkTi 24 8 true else mkTi 8 8 false.
Definition exc_stage : ustage :=
  mkUStage (mkStage [2; 1]%nat [0%nat] [2; 1]%nat [] false (fun i => (200 + i)%nat) [LSet 2 9; LGet 1 false]%nat 1 0) true (fun _ => 55%nat).
Example C05_chain_nonvacuous :
  match op_new exc_ds exc_ti rt_fixed 8 32 0 [0%nat] (fun i => (100 + i)%nat) with
  | Ok (ORecord r, _) =>
      match uchain_run exc_ds exc_ti rt_fixed 8 32 r [exc_stage] with
      | Ok (bf, _, _) => Some (op_get exc_ds exc_ti rt_fixed bf 2 false, op_get exc_ds exc_ti rt_fixed bf 1 true)
      | _ => None
      end
  | _ => None
  end = Some (Ok (Some 9%nat), Ok (Some 55%nat)) /\
  uchain_vals exc_ds (fun i => (100 + i)%nat) [exc_stage] 2%nat = 9%nat /\
  uchain_vals exc_ds (fun i => (100 + i)%nat) [exc_stage] 1%nat = 55%nat.
Proof. repeat split; vm_compute; reflexivity. Qed.

(* ---- the conversion applied to a whole Vec, in place (the library's main use; C03 "vectors of them can be converted
   in place", C08).  `convert_vec_in_place(v, |record, _| Converted(RecordQ::from((record, plus_k))))` on a Vec of
   records that hold variant P: for EVERY vector length, the function (two cursors over one buffer, model VecConv;
   `flags_ok` is what C08_current establishes for convert.rs) calls the generated conversion (model Gen run on the
   machine Exec) once per element, in order, and returns a vector in which the k-th record holds variant Q with the
   carried-over values of the k-th input and the values supplied for it; the removed droppable fields of every element
   are destroyed exactly once, by the conversions; the function itself drops nothing and releases nothing (its log
   consists of the calls only, so the result is the input's allocation); nothing faults.  Both record types have one
   size and alignment (sz, al): C03b. *)
From Truc.Model Require VecConv.
From Truc.Proofs Require VecConvThms VecRecords.
Theorem C05_vec_in_place : forall ds TI rt A cap, rt_ok rt = true ->
  forall P Q minus plus carried,
  layout_ok ds TI A cap P -> layout_ok ds TI A cap Q ->
  Permutation P (minus ++ carried) -> Permutation Q (plus ++ carried) ->
  forall v prev pv fl (sz al : N) (inputs : list ((nat -> nat) * buf)),
  VecConv.flags_ok fl = true ->
  Forall (fun x => holds ds TI cap A P (fst x) (snd x)) inputs ->
  exists outs destroyed calls,
    VecConv.run buf buf unit fault (nat * list nat)
      (VecRecords.rconv ds TI rt A cap minus plus v prev pv) sz al sz al fl (map snd inputs) (0%nat, []) =
      (VecConv.Done outs (length inputs, destroyed), calls) /\
    Forall (VecConvThms.is_call buf buf) calls /\
    VecConvThms.call_inputs buf buf calls = map snd inputs /\
    VecRecords.outs_ok ds TI A cap Q plus pv 0%nat inputs outs /\
    Permutation destroyed (VecRecords.removed_tokens ds TI minus inputs).
Proof.
  intros ds TI rt A cap RT P Q minus plus carried LP LQ PP PQ v prev pv fl sz al inputs OK HF.
  exact (VecRecords.vec_of_records ds TI rt A cap RT P Q minus plus carried LP LQ PP PQ v prev pv fl sz al inputs OK HF).
Qed.
Print Assumptions C05_vec_in_place.

(* ... with ANY of the four conversion forms as converter: the uninit forms are followed by one write per added field
   that was left out (plain fields only), the returning forms hand the removed data to the converter, which keeps them
   (`back`).  Every output holds Q with the closed-form values `vals_after`; what was destroyed plus what was handed back
   is exactly the removed droppable fields of every element *)
Theorem C05_vec_in_place_forms : forall ds TI rt A cap, rt_ok rt = true ->
  forall P Q minus plus carried,
  layout_ok ds TI A cap P -> layout_ok ds TI A cap Q ->
  Permutation P (minus ++ carried) -> Permutation Q (plus ++ carried) ->
  forall v prev (uninit and_out : bool),
  (uninit = true -> forall i, In i plus -> un ds i = true -> dr ds TI i = false) ->
  forall pv fv fl (sz al : N) (inputs : list ((nat -> nat) * buf)),
  VecConv.flags_ok fl = true ->
  Forall (fun x => holds ds TI cap A P (fst x) (snd x)) inputs ->
  exists outs destroyed back calls,
    VecConv.run buf buf unit fault (nat * list nat * list nat)
      (VecRecords.rconvg ds TI rt A cap Q minus plus carried v prev uninit and_out pv fv) sz al sz al fl
      (map snd inputs) (0%nat, [], []) =
      (VecConv.Done outs (length inputs, destroyed, back), calls) /\
    Forall (VecConvThms.is_call buf buf) calls /\
    VecConvThms.call_inputs buf buf calls = map snd inputs /\
    VecRecords.outs_ok_g ds TI A cap Q plus uninit pv fv 0%nat inputs outs /\
    Permutation (destroyed ++ back) (flat_map (fun x => map (fst x) (filter (dr ds TI) minus)) inputs).
Proof.
  intros ds TI rt A cap RT P Q minus plus carried LP LQ PP PQ v prev uninit and_out Hpl pv fv fl sz al inputs OK HF.
  exact (VecRecords.vec_of_records_forms ds TI rt A cap RT P Q minus plus carried LP LQ PP PQ v prev uninit and_out Hpl
           pv fv fl sz al inputs OK HF).
Qed.
Print Assumptions C05_vec_in_place_forms.

(* ... and with a converter that uses the other feature of the function - mutable access to the most recently produced
   output: some elements are kept (converted to Q), the others are merged into the previous output (one of its fields is
   overwritten through the mutable accessor, which destroys the old value once) and dropped (their generated Drop).
   For every vector and every choice of kept elements, fields and values: no fault, every output still holds Q, and
   what the converter destroyed plus what the outputs own at the end (what their Drop would destroy) is exactly what the
   inputs owned plus what was supplied to the kept elements plus what was written *)
Theorem C05_vec_in_place_merge : forall ds TI rt A cap, rt_ok rt = true ->
  forall P Q minus plus carried,
  layout_ok ds TI A cap P -> layout_ok ds TI A cap Q ->
  Permutation P (minus ++ carried) -> Permutation Q (plus ++ carried) ->
  forall v prev pv (keep : nat -> bool) (wf wx : nat -> nat), (forall k, In (wf k) Q) ->
  forall fl (sz al : N) (inputs : list ((nat -> nat) * buf)),
  VecConv.flags_ok fl = true ->
  Forall (fun x => holds ds TI cap A P (fst x) (snd x)) inputs ->
  exists outs destroyed calls,
    VecConv.run buf buf unit fault (nat * list nat)
      (VecRecords.rconvm ds TI rt A cap P minus plus v prev pv keep wf wx) sz al sz al fl (map snd inputs) (0%nat, []) =
      (VecConv.Done outs (length inputs, destroyed), calls) /\
    Forall (VecConvThms.is_call buf buf) calls /\
    Forall (VecRecords.holdsQ ds TI A cap Q) outs /\
    Permutation (destroyed ++ VecRecords.outs_tokens ds TI rt A cap Q prev outs)
                (VecRecords.owned_tokens ds TI P inputs ++ VecRecords.entered_m ds TI plus pv keep wf wx 0%nat false inputs).
Proof.
  intros ds TI rt A cap RT P Q minus plus carried LP LQ PP PQ v prev pv keep wf wx WF fl sz al inputs OK HF.
  exact (VecRecords.vec_merge ds TI rt A cap RT P Q minus plus carried LP LQ PP PQ v prev pv keep wf wx WF fl sz al inputs OK HF).
Qed.
Print Assumptions C05_vec_in_place_merge.

(* ... and when the resulting vector is dropped: what the conversions destroyed plus what the generated Drop destroys for
   each output record is, as a multiset, everything the input records owned plus everything supplied - each once *)
Theorem C05_vec_in_place_then_drop : forall ds TI rt A cap, rt_ok rt = true ->
  forall P Q minus plus carried,
  layout_ok ds TI A cap P -> layout_ok ds TI A cap Q ->
  Permutation P (minus ++ carried) -> Permutation Q (plus ++ carried) ->
  forall v prev pv fl (sz al : N) (inputs : list ((nat -> nat) * buf)),
  VecConv.flags_ok fl = true ->
  Forall (fun x => holds ds TI cap A P (fst x) (snd x)) inputs ->
  exists outs destroyed calls douts,
    VecConv.run buf buf unit fault (nat * list nat)
      (VecRecords.rconv ds TI rt A cap minus plus v prev pv) sz al sz al fl (map snd inputs) (0%nat, []) =
      (VecConv.Done outs (length inputs, destroyed), calls) /\
    VecRecords.drop_all ds TI rt A cap prev Q outs = Ok douts /\
    Permutation (destroyed ++ douts)
                (VecRecords.owned_tokens ds TI P inputs ++ VecRecords.supplied ds TI plus pv 0%nat inputs).
Proof.
  intros ds TI rt A cap RT P Q minus plus carried LP LQ PP PQ v prev pv fl sz al inputs OK HF.
  exact (VecRecords.vec_of_records_then_drop ds TI rt A cap RT P Q minus plus carried LP LQ PP PQ v prev pv fl sz al inputs OK HF).
Qed.
Print Assumptions C05_vec_in_place_then_drop.

(* ... and when the converter gives up at element kf (it destroys that element - the generated Drop of P - and returns
   an error, which in this model carries everything the converter destroyed so far): the function has called the
   conversion once per earlier element; it then drops exactly the records already converted (each holds Q with its own
   values, so its generated Drop destroys each of its droppable values once: C06_drop) and the inputs not yet reached
   (untouched: they still hold P), releases the buffer once, and returns that error; what the converter destroyed is the
   removed droppable fields of the converted elements and the droppable fields of the failing one, each once (C09 for a
   vector of generated records: nothing leaks, nothing is destroyed twice). *)
Theorem C05_vec_in_place_fails : forall ds TI rt A cap, rt_ok rt = true ->
  forall P Q minus plus carried,
  layout_ok ds TI A cap P -> layout_ok ds TI A cap Q ->
  Permutation P (minus ++ carried) -> Permutation Q (plus ++ carried) ->
  forall v prev pv fl (sz al : N) pre valsf bf post,
  VecConv.flags_ok fl = true ->
  Forall (fun x => holds ds TI cap A P (fst x) (snd x)) (pre ++ (valsf, bf) :: post) ->
  exists outs_pre dconv calls,
    VecConv.run buf buf (list nat) fault (nat * list nat)
      (VecRecords.rconvf ds TI rt A cap P minus plus v prev pv (length pre)) sz al sz al fl
      (map snd (pre ++ (valsf, bf) :: post)) (0%nat, []) =
      (VecConv.Failed (VecConv.FErr dconv),
       calls ++ map (@VecConv.DropU buf buf) outs_pre ++ map (@VecConv.DropT buf buf) (map snd post) ++ [VecConv.FreeBuf]) /\
    Forall (VecConvThms.is_call buf buf) calls /\
    VecRecords.outs_ok ds TI A cap Q plus pv 0%nat pre outs_pre /\
    Permutation dconv (VecRecords.removed_tokens ds TI minus pre ++ map valsf (filter (dr ds TI) P)).
Proof.
  intros ds TI rt A cap RT P Q minus plus carried LP LQ PP PQ v prev pv fl sz al pre valsf bf post OK HF.
  exact (VecRecords.vec_of_records_fails ds TI rt A cap RT P Q minus plus carried LP LQ PP PQ v prev pv (length pre)
           fl sz al pre valsf bf post OK eq_refl HF).
Qed.
Print Assumptions C05_vec_in_place_fails.

(* ... globally: what the converter destroyed (dconv), plus what the generated Drop destroys for each record the function
   drops - the converted ones (douts) and the inputs not reached (dposts) - is, as a multiset, everything the input
   records owned plus the values supplied to the conversions that took place: each exactly once *)
Theorem C05_vec_in_place_fails_accounts : forall ds TI rt A cap, rt_ok rt = true ->
  forall P Q minus plus carried,
  layout_ok ds TI A cap P -> layout_ok ds TI A cap Q ->
  Permutation P (minus ++ carried) -> Permutation Q (plus ++ carried) ->
  forall v prev pv fl (sz al : N) pre valsf bf post,
  VecConv.flags_ok fl = true ->
  Forall (fun x => holds ds TI cap A P (fst x) (snd x)) (pre ++ (valsf, bf) :: post) ->
  exists outs_pre dconv calls douts dposts,
    VecConv.run buf buf (list nat) fault (nat * list nat)
      (VecRecords.rconvf ds TI rt A cap P minus plus v prev pv (length pre)) sz al sz al fl
      (map snd (pre ++ (valsf, bf) :: post)) (0%nat, []) =
      (VecConv.Failed (VecConv.FErr dconv),
       calls ++ map (@VecConv.DropU buf buf) outs_pre ++ map (@VecConv.DropT buf buf) (map snd post) ++ [VecConv.FreeBuf]) /\
    Forall (VecConvThms.is_call buf buf) calls /\
    VecRecords.drop_all ds TI rt A cap prev Q outs_pre = Ok douts /\
    VecRecords.drop_all ds TI rt A cap prev P (map snd post) = Ok dposts /\
    Permutation (dconv ++ douts ++ dposts)
                (VecRecords.owned_tokens ds TI P (pre ++ (valsf, bf) :: post) ++ VecRecords.supplied ds TI plus pv 0%nat pre).
Proof.
  intros ds TI rt A cap RT P Q minus plus carried LP LQ PP PQ v prev pv fl sz al pre valsf bf post OK HF.
  exact (VecRecords.vec_of_records_fails_accounts ds TI rt A cap RT P Q minus plus carried LP LQ PP PQ v prev pv (length pre)
           fl sz al pre valsf bf post OK eq_refl HF).
Qed.
Print Assumptions C05_vec_in_place_fails_accounts.

(* ... and a pipeline: the same vector taken through ANY number of variants, one convert_vec_in_place per step (each
   step with its own removed / added fields and per-element supplied values): every step succeeds, the vector keeps its
   length, and its k-th record holds the last variant with the values `pipeline_vals` computes from the requests alone *)
Theorem C05_vec_pipeline : forall ds TI rt A cap, rt_ok rt = true ->
  forall fl (sz al : N), VecConv.flags_ok fl = true ->
  forall (stages : list VecRecords.vstage) P (inputs : list ((nat -> nat) * buf)),
  layout_ok ds TI A cap P -> VecRecords.vstages_ok ds TI A cap P stages ->
  Forall (fun x => holds ds TI cap A P (fst x) (snd x)) inputs ->
  exists outs d,
    VecRecords.pipeline ds TI rt A cap fl sz al (map snd inputs) stages = Some (outs, d) /\
    length outs = length inputs /\
    Forall (fun x => holds ds TI cap A (VecRecords.last_variant P stages) (fst x) (snd x))
           (combine (VecRecords.pipeline_vals (map fst inputs) stages) outs).
Proof. intros ds TI rt A cap RT. exact (VecRecords.pipeline_ok ds TI rt A cap RT). Qed.
Print Assumptions C05_vec_pipeline.

(* a concrete vector: two records {a: droppable 24 bytes at 0, n: plain 8 bytes at 24}; the conversion removes a and
   adds c (droppable, reusing a's bytes); element k gets c = 500 + k *)
Definition exv_ds : defs := [mkDatum 0 1 24 8 false 0; mkDatum 1 2 8 8 false 24; mkDatum 2 1 24 8 false 0].
Definition exv_ti (t : nat) : tinfo := if Nat.eqb t 1 then mkTi 24 8 true else mkTi 8 8 false.
Example C05_vec_in_place_nonvacuous :
  match op_new exv_ds exv_ti rt_fixed 8 32 0 [0; 1]%nat (fun i => (100 + i)%nat),
        op_new exv_ds exv_ti rt_fixed 8 32 0 [0; 1]%nat (fun i => (200 + i)%nat) with
  | Ok (ORecord r1, _), Ok (ORecord r2, _) =>
      match VecConv.run buf buf unit fault (nat * list nat)
              (VecRecords.rconv exv_ds exv_ti rt_fixed 8 32 [0%nat] [2%nat] 1 0 (fun k _ => (500 + k)%nat))
              32 8 32 8 VecConv.flags_fixed [r1; r2] (0%nat, []) with
      | (VecConv.Done outs st, calls) =>
          Some (st, length calls,
                map (fun o => (op_get exv_ds exv_ti rt_fixed o 2 false, op_get exv_ds exv_ti rt_fixed o 1 false)) outs)
      | _ => None
      end
  | _, _ => None
  end = Some ((2%nat, [100; 200]%nat), 2%nat,
              [(Ok (Some 500%nat), Ok (Some 101%nat)); (Ok (Some 501%nat), Ok (Some 201%nat))]).
Proof. vm_compute. reflexivity. Qed.

(* the same vector with the converter giving up at the second element: the first (converted) record is dropped by the
   function, the buffer released, and the error lists what the converter destroyed: a of the first element (by its
   conversion), a of the second (by the Drop of the failing element) *)
Example C05_vec_in_place_fails_nonvacuous :
  match op_new exv_ds exv_ti rt_fixed 8 32 0 [0; 1]%nat (fun i => (100 + i)%nat),
        op_new exv_ds exv_ti rt_fixed 8 32 0 [0; 1]%nat (fun i => (200 + i)%nat) with
  | Ok (ORecord r1, _), Ok (ORecord r2, _) =>
      match VecConv.run buf buf (list nat) fault (nat * list nat)
              (VecRecords.rconvf exv_ds exv_ti rt_fixed 8 32 [0; 1]%nat [0%nat] [2%nat] 1 0 (fun k _ => (500 + k)%nat) 1)
              32 8 32 8 VecConv.flags_fixed [r1; r2] (0%nat, []) with
      | (VecConv.Failed (VecConv.FErr d), log) => Some (d, length log)
      | _ => None
      end
  | _, _ => None
  end = Some ([100; 200]%nat, 4%nat).
Proof. vm_compute. reflexivity. Qed.

(* ---- end to end: from a request history to the converted record.  For every history of valid requests with
   power-of-two alignments, ANY two variants P and Q of the definition it builds (the generator emits the conversion for
   consecutive ones), the removed / added data the generator computes for them (its merge of the two sorted identifier
   lists), real type information that agrees with the recorded one (C11), a capacity covering max_size, and no two
   zero-size data of one type at one offset in either variant: `layout_ok` holds for both variants (Link.v: the conclusions
   of C01, C02, C12) and the lists split them as the conversion needs, so the generated conversion maps every record
   that holds P to a record that holds Q with the merged values. *)
From Truc.Proofs Require Import BuilderInv LayoutThms Link.
Theorem C05_end_to_end : forall h TI rt cap mx, hist_ok h -> pow2_hist h -> rt_ok rt = true ->
  let b := run h in let ds := b_ds b in
  (forall v i, In v (b_vs b) -> In i v ->
     ti_size (TI (d_ty (getd ds i))) = d_size (getd ds i) /\ ti_align (TI (d_ty (getd ds i))) = d_align (getd ds i)) ->
  max_size (ds, b_vs b) = Some mx -> (mx <= cap)%N ->
  forall P Q, In P (b_vs b) -> In Q (b_vs b) ->
  (forall v, v = P \/ v = Q -> forall i j, In i v -> In j v -> i <> j -> Gen.ty ds i = Gen.ty ds j ->
     d_size (getd ds i) = 0%N -> Gen.of ds i <> Gen.of ds j) ->
  forall m pl, minus_plus (length (sort_ids P) + length (sort_ids Q)) (sort_ids P) (sort_ids Q) = (m, pl) ->
  forall v prev and_out vals pvals r,
  holds ds TI cap (max_type_align (ds, b_vs b)) P vals r ->
  exists r',
    op_conv ds TI rt (max_type_align (ds, b_vs b)) cap v prev m pl false and_out r pvals =
      Ok (if and_out then OAndOut r' (map (fun i => (nm ds i, Some (vals i))) m) else ORecord r',
          if and_out then [] else droppable_of TI (rev (map (fun i => (nm ds i, (Some (vals i), ty ds i))) m))) /\
    holds ds TI cap (max_type_align (ds, b_vs b)) Q (merge vals pvals pl) r'.
Proof.
  intros h TI rt cap mx Hh Hp RT b ds HTI Hm Hcap P Q HP HQ Hz m pl Hmp v prev and_out vals pvals r Hr.
  assert (LP : layout_ok ds TI (max_type_align (ds, b_vs b)) cap P).
  { apply (layout_ok_of_run_zst h Hh Hp TI HTI cap); eauto. intros i j. apply (Hz P); auto. }
  assert (LQ : layout_ok ds TI (max_type_align (ds, b_vs b)) cap Q).
  { apply (layout_ok_of_run_zst h Hh Hp TI HTI cap); eauto. intros i j. apply (Hz Q); auto. }
  destruct (C05_minus_plus P Q m pl Hmp) as (car & P1 & P2).
  exact (C05_holds ds TI rt _ cap RT P Q m pl car LP LQ P1 P2 v prev and_out vals pvals r Hr).
Qed.
Print Assumptions C05_end_to_end.

(* the uninit returning form as converter, on two records: u (plain, allow_uninit) is left out by the conversion and
   written by the converter, the removed a is handed back to it (nothing destroyed) *)
Definition exw_ds : defs := [mkDatum 0 1 24 8 false 0; mkDatum 1 2 8 8 false 24; mkDatum 2 1 24 8 false 0; mkDatum 3 2 8 8 true 32].
Example C05_vec_in_place_forms_nonvacuous :
  match op_new exw_ds exv_ti rt_fixed 8 40 0 [0; 1]%nat (fun i => (100 + i)%nat),
        op_new exw_ds exv_ti rt_fixed 8 40 0 [0; 1]%nat (fun i => (200 + i)%nat) with
  | Ok (ORecord r1, _), Ok (ORecord r2, _) =>
      match VecConv.run buf buf unit fault (nat * list nat * list nat)
              (VecRecords.rconvg exw_ds exv_ti rt_fixed 8 40 [2; 1; 3]%nat [0%nat] [2; 3]%nat [1%nat] 1 0 true true
                 (fun k _ => (500 + k)%nat) (fun k _ => (70 + k)%nat))
              40 8 40 8 VecConv.flags_fixed [r1; r2] (0%nat, [], []) with
      | (VecConv.Done outs st, calls) =>
          Some (st, length calls,
                map (fun o => (op_get exw_ds exv_ti rt_fixed o 2 false, op_get exw_ds exv_ti rt_fixed o 1 false,
                               op_get exw_ds exv_ti rt_fixed o 3 true)) outs)
      | _ => None
      end
  | _, _ => None
  end = Some ((2%nat, [], [100; 200]%nat), 2%nat,
              [(Ok (Some 500%nat), Ok (Some 101%nat), Ok (Some 70%nat)); (Ok (Some 501%nat), Ok (Some 201%nat), Ok (Some 71%nat))]).
Proof. vm_compute. reflexivity. Qed.

(* three records, the second merged into the first output (its droppable field c overwritten with 77) and dropped: the
   converter destroyed a of #0 (conversion), then c of output #0 (overwritten) and a of #1 (dropped), then a of #2 *)
Example C05_vec_in_place_merge_nonvacuous :
  match op_new exv_ds exv_ti rt_fixed 8 32 0 [0; 1]%nat (fun i => (100 + i)%nat),
        op_new exv_ds exv_ti rt_fixed 8 32 0 [0; 1]%nat (fun i => (200 + i)%nat),
        op_new exv_ds exv_ti rt_fixed 8 32 0 [0; 1]%nat (fun i => (300 + i)%nat) with
  | Ok (ORecord r1, _), Ok (ORecord r2, _), Ok (ORecord r3, _) =>
      match VecConv.run buf buf unit fault (nat * list nat)
              (VecRecords.rconvm exv_ds exv_ti rt_fixed 8 32 [0; 1]%nat [0%nat] [2%nat] 1 0 (fun k _ => (500 + k)%nat)
                 (fun k => negb (Nat.eqb k 1)) (fun _ => 2%nat) (fun _ => 77%nat))
              32 8 32 8 VecConv.flags_fixed [r1; r2; r3] (0%nat, []) with
      | (VecConv.Done outs st, calls) =>
          Some (st, length calls, map (fun o => op_get exv_ds exv_ti rt_fixed o 2 false) outs)
      | _ => None
      end
  | _, _, _ => None
  end = Some ((3%nat, [100; 500; 200; 300]%nat), 3%nat, [Ok (Some 77%nat); Ok (Some 502%nat)]).
Proof. vm_compute. reflexivity. Qed.

(* the hypotheses of the Vec theorems are met by that definition: both variants satisfy layout_ok and split as needed *)
Lemma exv_layout_P : layout_ok exv_ds exv_ti 8 32 [0; 1]%nat.
Proof.
  constructor.
  - repeat constructor; simpl; intuition discriminate.
  - repeat constructor; simpl; intuition discriminate.
  - intros i [<-|[<-|[]]]; vm_compute; discriminate.
  - intros i [<-|[<-|[]]]; vm_compute; repeat split; discriminate.
  - intros i j [<-|[<-|[]]] [<-|[<-|[]]] Hne _ _; try congruence; vm_compute; [left|right]; discriminate.
  - repeat constructor; simpl; intuition discriminate.
Qed.
Lemma exv_layout_Q : layout_ok exv_ds exv_ti 8 32 [2; 1]%nat.
Proof.
  constructor.
  - repeat constructor; simpl; intuition discriminate.
  - repeat constructor; simpl; intuition discriminate.
  - intros i [<-|[<-|[]]]; vm_compute; discriminate.
  - intros i [<-|[<-|[]]]; vm_compute; repeat split; discriminate.
  - intros i j [<-|[<-|[]]] [<-|[<-|[]]] Hne _ _; try congruence; vm_compute; [left|right]; discriminate.
  - repeat constructor; simpl; intuition discriminate.
Qed.
Example C05_vec_in_place_hypotheses :
  layout_ok exv_ds exv_ti 8 32 [0; 1]%nat /\ layout_ok exv_ds exv_ti 8 32 [2; 1]%nat /\
  Permutation [0; 1]%nat ([0%nat] ++ [1%nat]) /\ Permutation [2; 1]%nat ([2%nat] ++ [1%nat]) /\
  (forall k : nat, In 2%nat [2; 1]%nat).
Proof.
  split; [exact exv_layout_P|]. split; [exact exv_layout_Q|]. split; [apply Permutation_refl|]. split; [apply Permutation_refl|].
  intros _. now left.
Qed.

Theorem C05_current : rt_ok Runtime.exec_rt = true.
Proof. reflexivity. Qed.

(* non-vacuity: variant 0 = {a: u32@24 (copy), s: 24 bytes droppable @0}; variant 1 removes a, adds c: 2 bytes@24 *)
Definition ex_ds : defs := [mkDatum 0 1 4 4 true 24; mkDatum 1 2 24 8 false 0; mkDatum 2 3 2 2 true 24].
Definition ex_ti (t : nat) : tinfo :=
  match t with 1%nat => mkTi 4 4 false | 2%nat => mkTi 24 8 true | _ => mkTi 2 2 false end.
Example C05_nonvacuous :
  match op_new ex_ds ex_ti rt_fixed 8 28 0 [0; 1]%nat (fun i => (100 + i)%nat) with
  | Ok (ORecord r, _) =>
      op_conv ex_ds ex_ti rt_fixed 8 28 1 0 [0%nat] [2%nat] false true r (fun i => (200 + i)%nat)
  | _ => Fault (Static 0)
  end
  = Ok (OAndOut (mkBuf 8 28 [mkSlot 24 3 2 false (Owned 202); mkSlot 0 2 24 true (Owned 101)]) [(0%nat, Some 100%nat)], []).
Proof. vm_compute. reflexivity. Qed.
