(* C13 - Any definition the builder accepts can be displayed, generated and compiled.
   Part (a): Display, capacity and alignment never panic.  (Generation: C13g.v with the generator
   model; compilation is rustc's and is covered by execution, see DESIGN.md.) *)
From Coq Require Import List NArith Lia.
From Truc.Model Require Import Layout Builder Ir Gen.
From Truc.Proofs Require Import Variants BuilderInv LayoutThms Panics Bound GenP.
Import ListNotations.
Open Scope N_scope.

(* For every history (alignments >= 1, shipped strategies) whose data all end at or below usize::MAX,
   the panic-aware models of Display (None = "offset clash"/unknown datum/overflow) and of max_size
   (None = arithmetic overflow) return a value; max_type_align is total.
   The Display clause holds because every variant list is address-sorted INCLUDING zero-size data. *)
Theorem C13a : forall h, hist_ok h ->
  let b := run h in fits_usize (b_ds b) (b_vs b) ->
  display (b_ds b, b_vs b) <> None /\ max_size (b_ds b, b_vs b) <> None.
Proof.
  intros h Hh b Hf. split.
  - apply display_some; auto. apply run_wf; auto.
  - apply max_size_some; auto.
Qed.
Print Assumptions C13a.

(* The hypothesis of C13a is discharged from the requests alone: if the sizes and alignments the
   history asks for add up to at most usize::MAX (hbound), every datum of every variant ends at or
   below usize::MAX, whatever mixture of shipped strategies closed the variants (Proofs/Bound.v: each
   strategy places a new datum no further than the end of the live data plus size + alignment - 1). *)
Theorem C13a_requests : forall h, hist_ok h -> hbound h <= MAXU ->
  let b := run h in
  display (b_ds b, b_vs b) <> None /\ max_size (b_ds b, b_vs b) <> None.
Proof. intros h Hh Hb. apply C13a; auto. apply fits_of_bound; auto. Qed.
Print Assumptions C13a_requests.

(* part (b), generation: the generator model (None = panic: a variant naming an unknown datum, capacity
   overflow) answers for every definition the builder produces and every fragment selection.  That rustc
   accepts the module is rustc's: executed by E3 (all fragments) and E5 (5 selections). *)
Theorem C13b_gen : forall h cfg, hist_ok h -> hbound h <= MAXU -> gen (b_ds (run h), b_vs (run h)) cfg <> None.
Proof. exact gen_total. Qed.
Print Assumptions C13b_gen.

(* on the model of the code before the two fixes, both panics exist *)
Example C13a_refuted_unfixed :
  (let b := run [Add 0 0 4 4 false; Add 1 0 4 4 false; Add 2 1 8 8 false; Close SAppend;
                 Remove 1%nat; Add 3 2 0 1 false; Close SSimpleUnfixed; Add 4 0 4 4 false; Close SSimpleUnfixed] in
   display (b_ds b, b_vs b) = None) /\
  (let b := run [Add 0 0 4 4 false; Remove 0%nat; Close SSimple] in
   max_size_gen AllDefinitions (b_ds b, b_vs b) = None).
Proof. split; vm_compute; reflexivity. Qed.
Print Assumptions C13a_refuted_unfixed.

Example C13a_nonvacuous :
  let h := [Add 0 0 4 4 false; Add 1 0 4 4 false; Add 2 1 8 8 false; Close SAppend;
            Remove 1%nat; Add 3 2 0 1 false; Close SSimple; Add 4 0 4 4 false; Close SSimple] in
  hist_ok h /\ fits_usize (b_ds (run h)) (b_vs (run h)) /\
  display (b_ds (run h), b_vs (run h)) =
    Some [[DDatum 0; DDatum 1; DDatum 2]; [DDatum 0; DVoid 4; DDatum 3; DDatum 2];
          [DDatum 0; DDatum 4; DDatum 3; DDatum 2]]%nat.
Proof.
  split; [repeat (constructor; try (simpl; try lia; unfold native; tauto))|].
  split; [|vm_compute; reflexivity].
  intros v i Hv Hi. vm_compute in Hv.
  repeat (destruct Hv as [<-|Hv]; [simpl in Hi; repeat (destruct Hi as [<-|Hi]; [vm_compute; discriminate|]); destruct Hi|]).
  destruct Hv.
Qed.
Print Assumptions C13a_nonvacuous.
