(* C20 - Replaying a definition into another builder preserves variants and data.

   C20 (below) is the full statement for native targets: for every definition produced by a history of
   valid requests (any mixture of the four shipped strategies) and every native target strategy, the
   conversion helper of definition/convert.rs, run on a fresh builder with the callbacks every caller in
   the repository uses (copy_datum / remove_datum / close), succeeds - no request is refused, no map lookup
   panics - and returns the identity variant map (one target variant per source variant, in order), a
   single datum map m that is injective on the data of the definition, and a target whose k-th variant is
   the image under m of the k-th source variant, every pair of data having the same name, type, size,
   alignment and uninit flag.  (Variants are compared as sets: the order inside a variant is the layout
   order chosen by the target strategy.)
   C20_generic is the same statement for a fresh GENERIC builder closed by either of its own two strategies
   (which assign no offsets: the target invariant is set-level, Proofs/ReplayG.v).  Both instantiate one
   abstract development (Proofs/Replay.v, Section Abstract) over an invariant of the target builder.
   E1 replays every built definition into 4 native + 2 generic builders on every run, plus the C20 oracle. *)
From Coq Require Import List NArith Lia Permutation.
From Truc.Model Require Import Layout Builder.
From Truc.Proofs Require Import Variants BuilderInv Refine12 ConvertP Replay ReplayG.
Import ListNotations.

Theorem C20 : forall h s, hist_ok h -> native s ->
  let ds := b_ds (run h) in let vs := b_vs (run h) in
  exists m tgt,
    convert (ds, vs) s empty_builder = COk (map (fun k => (k, k)) (seq 0 (length vs)), m, tgt) /\
    b_add tgt = [] /\ b_rm tgt = [] /\
    Forall2 (fun v' v => Permutation v' (map (mget m) v)) (b_vs tgt) vs /\
    (forall v i, In v vs -> In i v ->
       exists i', assoc m i = Some i' /\ (i' < length (b_ds tgt))%nat /\ same5 (getd ds i) (getd (b_ds tgt) i')) /\
    (forall v1 v2 i1 i2, In v1 vs -> In v2 vs -> In i1 v1 -> In i2 v2 -> mget m i1 = mget m i2 -> i1 = i2).
Proof.
  intros h s Hh Hs ds vs.
  destruct (convert_iso ds vs s (run_src_ok h Hh) Hs) as (m & tgt & E & A & R & _ & V & D & J).
  exists m, tgt. auto 10.
Qed.
Print Assumptions C20.

Theorem C20_generic : forall h s, hist_ok h -> gstrat s ->
  let ds := b_ds (run h) in let vs := b_vs (run h) in
  exists m tgt,
    convert (ds, vs) s empty_builder = COk (map (fun k => (k, k)) (seq 0 (length vs)), m, tgt) /\
    b_add tgt = [] /\ b_rm tgt = [] /\
    Forall2 (fun v' v => Permutation v' (map (mget m) v)) (b_vs tgt) vs /\
    (forall v i, In v vs -> In i v ->
       exists i', assoc m i = Some i' /\ (i' < length (b_ds tgt))%nat /\ same5 (getd ds i) (getd (b_ds tgt) i')) /\
    (forall v1 v2 i1 i2, In v1 vs -> In v2 vs -> In i1 v1 -> In i2 v2 -> mget m i1 = mget m i2 -> i1 = i2).
Proof.
  intros h s Hh Hs ds vs.
  destruct (convert_iso_generic ds vs s (run_src_ok h Hh) Hs) as (m & tgt & E & A & R & _ & V & D & J).
  exists m, tgt. auto 10.
Qed.
Print Assumptions C20_generic.

(* what the proof rests on: identifiers are never reused and consecutive variants differ *)
Theorem C20_source : forall h, hist_ok h -> src_ok (b_ds (run h)) (b_vs (run h)).
Proof. exact run_src_ok. Qed.
Print Assumptions C20_source.

Theorem C20_partial : forall d s b vm m b', convert d s b = COk (vm, m, b') ->
  map fst vm = seq 0 (length (snd d)).
Proof. exact convert_keys. Qed.
Print Assumptions C20_partial.

(* bounded sweep (TEST): a definition with name reuse, a datum removed while pending, a zero-size datum,
   replayed with each target strategy gives the identity variant map and as many variants *)
Definition sample_history : list req :=
  [Add 0 0 4 4 false; Add 1 1 8 8 true; Add 9 2 1 1 false; Remove 2%nat; Close SSimple;
   Remove 0%nat; Add 0 3 0 1 false; Add 2 4 2 2 false; Close SBasic;
   Remove 1%nat; Close SAppend; Add 3 0 3 1 false; Close SAppendRev]%N.
Definition identity_map (r : cres (list (nat * nat) * list (nat * nat) * builder)) (n : nat) : bool :=
  match r with
  | COk (vm, _, b) => forallb (fun p => Nat.eqb (fst p) (snd p)) vm && Nat.eqb (length vm) n && Nat.eqb (length (b_vs b)) n
  | _ => false
  end.
Example C20_sample_test :
  let d := (b_ds (run sample_history), b_vs (run sample_history)) in
  forallb (fun s => identity_map (convert d s empty_builder) 4)
          [SSimple; SBasic; SAppend; SAppendRev; SGAppend; SGAppendRev] = true.
Proof. vm_compute. reflexivity. Qed.
Print Assumptions C20_sample_test.
