(* C20 - Replaying a definition into another builder preserves variants and data.
   FULL STATEMENT (target):  for every definition def = build (run h) with hist_ok h and every target
   strategy s, convert def s empty_builder = COk (vm, m, tgt) with vm = [(0,0); ...; (n-1,n-1)],
   length (b_vs tgt) = length (snd def), m injective on the data of def, and for every source variant k
   the k-th target variant is the image under m of the k-th source variant with equal names and type
   information.
   PROVED SO FAR (named _partial): the shape of the returned map.  The rest of the statement is
   decided on every run by the correspondence engine E1 (model = implementation on every replay,
   into 4 native + 2 generic targets) together with the C20 oracle evaluated on the implementation's
   results, and by the bounded sweep below (a test, not the unbounded claim). *)
From Coq Require Import List NArith Lia.
From Truc.Model Require Import Layout Builder.
From Truc.Proofs Require Import ConvertP.
Import ListNotations.

Theorem C20_partial : forall d s b vm m b', convert d s b = COk (vm, m, b') ->
  map fst vm = seq 0 (length (snd d)).
Proof. exact convert_keys. Qed.
Print Assumptions C20_partial.

(* bounded sweep (TEST): a definition with name reuse, a datum removed while pending, a zero-size datum,
   replayed with each target strategy gives the identity variant map and as many variants *)
Definition sample_history : list req :=
  [Add 0 0 4 4 false; Add 1 1 8 8 true; Add 9 2 1 1 false; Remove 2%nat; Close SSimple;
   Remove 0%nat; Add 0 3 0 1 false; Add 2 4 2 2 false; Close SBasic;
   Remove 1%nat; Close SAppend; Add 3 0 3 1 false; Close SAppendRev]%N.
Definition identity_map (r : cres (list (nat * nat) * list (nat * nat) * builder)) (n : nat) : bool :=
  match r with
  | COk (vm, _, b) => forallb (fun p => Nat.eqb (fst p) (snd p)) vm && Nat.eqb (length vm) n && Nat.eqb (length (b_vs b)) n
  | _ => false
  end.
Example C20_sample_test :
  let d := (b_ds (run sample_history), b_vs (run sample_history)) in
  forallb (fun s => identity_map (convert d s empty_builder) 4)
          [SSimple; SBasic; SAppend; SAppendRev; SGAppend; SGAppendRev] = true.
Proof. vm_compute. reflexivity. Qed.
Print Assumptions C20_sample_test.
