(* C03 - A datum never moves (part a); all record types of a definition have one size and alignment (part b:
   the generator gives every buffer-holding struct the same `repr(align)` and the same single field - C03b below;
   that rustc then gives them one size and alignment is rustc's, executed by E3 at 4 capacities). *)
From Coq Require Import List NArith Lia.
From Truc.Model Require Import Layout Builder Ir Gen.
From Truc.Proofs Require Import Variants BuilderInv LayoutThms GenP.
Import ListNotations.
Open Scope N_scope.

(* Once a datum belongs to a closed variant, no continuation of the history (any further adds,
   removes, closes with any of the four strategies, invalid requests) changes its offset; it also
   stays a member of that variant (closed variants are never edited). *)
Theorem C03a : forall h1 h2, hist_ok h1 -> hist_ok h2 ->
  forall d, (exists v, In v (b_vs (run h1)) /\ In d v) ->
    off (b_ds (run (h1 ++ h2))) d = off (b_ds (run h1)) d /\
    (exists v, In v (b_vs (run (h1 ++ h2))) /\ In d v).
Proof. exact offsets_stable. Qed.
Print Assumptions C03a.

(* closed variants are a prefix of the later list of variants *)
Theorem C03a_variants_append_only : forall h1 h2, hist_ok h1 -> hist_ok h2 ->
  exists extra, b_vs (run (h1 ++ h2)) = b_vs (run h1) ++ extra.
Proof.
  intros h1 h2 H1 H2. rewrite run_app.
  destruct (run_from_facts h2 H2 (run h1) (run_wf h1 H1)) as [_ F]. exact (fr_vs _ _ F).
Qed.
Print Assumptions C03a_variants_append_only.

Example C03a_nonvacuous :
  let h1 := [Add 0 0 4 4 false; Add 1 1 8 8 false; Close SSimple] in
  let h2 := [Remove 0%nat; Add 2 2 2 2 false; Close SBasic; Add 3 0 1 1 false; Close SSimple] in
  hist_ok h1 /\ hist_ok h2 /\ off (b_ds (run h1)) 1%nat = 0 /\ off (b_ds (run (h1 ++ h2))) 1%nat = 0 /\
  off (b_ds (run (h1 ++ h2))) 2%nat = 8.
Proof.
  split; [|split; [|vm_compute; auto]]; repeat (constructor; try (simpl; try lia; unfold native; tauto)).
Qed.
Print Assumptions C03a_nonvacuous.

(* part b, on the generator model: a generated module has exactly one buffer struct per variant plus
   RecordUninitialized, and every one of them carries the definition-wide alignment max_type_align -
   whatever data the individual variant holds *)
Theorem C03b : forall d cfg items, gen d cfg = Some items ->
  struct_aligns items = repeat (max_type_align d) (S (length (snd d))).
Proof. exact gen_one_alignment. Qed.
Print Assumptions C03b.

Example C03b_nonvacuous :
  let b := run [Add 0 0 8 8 false; Add 1 1 4 4 false; Close SSimple; Remove 0%nat; Close SSimple] in
  option_map struct_aligns (gen (b_ds b, b_vs b) []) = Some [8; 8; 8].
Proof. vm_compute. reflexivity. Qed.
