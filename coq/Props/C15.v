(* C15 - Serialising then deserialising a record gives an equal record.   PARTIAL: over an abstract format
   (Model/Serde.v); element order, types and the tuple length of the real generated code are tied by engine
   E2, real JSON / bincode round trips and malformed inputs at every position are executed by engine E3. *)
From Coq Require Import List Bool Arith Lia.
From Truc.Model Require Import Layout Builder Ir Gen Serde.
Import ListNotations.

Section C15.
Variable elem : Type.
Variables (enc : nat -> nat -> elem) (dec : nat -> elem -> option nat).
Hypothesis dec_enc : forall t x, dec t (enc t x) = Some x.

(* round trip: every field, in declaration order, comes back with the value it had *)
Theorem C15_roundtrip : forall fields vals,
  de elem dec fields (ser elem enc fields vals) = Some (map (fun f => (fst f, vals (fst f))) fields).
Proof.
  intros fields vals. unfold de, ser. rewrite map_length, Nat.eqb_refl.
  induction fields as [|f r IH]; simpl; auto. rewrite dec_enc, IH. reflexivity.
Qed.

(* too few or too many elements: rejected *)
Theorem C15_wrong_length : forall fields input, length input <> length fields -> de elem dec fields input = None.
Proof. intros fields input H. unfold de. apply Nat.eqb_neq in H. now rewrite H. Qed.

(* an undecodable element at any position: rejected *)
Theorem C15_bad_element : forall fields input k f x,
  nth_error fields k = Some f -> nth_error input k = Some x -> dec (snd f) x = None ->
  de elem dec fields input = None.
Proof.
  intros fields input k f x Hf Hx Hd. unfold de. destruct (Nat.eqb _ _); auto.
  revert input k Hf Hx. induction fields as [|g r IH]; intros input k Hf Hx; [destruct k; discriminate|].
  destruct input as [|y ys]; [destruct k; discriminate|]. simpl.
  destruct k as [|k]; simpl in *.
  - inversion Hf; inversion Hx; subst. now rewrite Hd.
  - destruct (dec (snd g) y); auto. now rewrite (IH ys k Hf Hx).
Qed.
End C15.
Print Assumptions C15_roundtrip.
Print Assumptions C15_wrong_length.
Print Assumptions C15_bad_element.

(* what the generator emits for a variant: serialize and deserialize list the same fields, all of them, in
   declaration (id) order, with their types *)
Theorem C15_gen_order : forall ds v data,
  gen_fragment ds v data FSerde =
  [ISerialize v (map (nm ds) data); IDeserialize v (map (fun i => (nm ds i, ty ds i)) data)].
Proof. reflexivity. Qed.
Print Assumptions C15_gen_order.
