(* C15 - Serialising then deserialising a record gives an equal record.   PARTIAL: over an abstract format
   (Model/Serde.v); element order, types and the tuple length of the real generated code are tied by engine
   E2, real JSON / bincode round trips and malformed inputs at every position are executed by engine E3. *)
From Coq Require Import List Bool Arith Lia.
From Truc.Model Require Import Layout Builder Ir Gen Serde.
Import ListNotations.

Section C15.
Variable elem : Type.
Variables (enc : nat -> nat -> elem) (dec : nat -> elem -> option nat).
Hypothesis dec_enc : forall t x, dec t (enc t x) = Some x.

(* round trip: every field, in declaration order, comes back with the value it had *)
Theorem C15_roundtrip : forall fields vals,
  de elem dec fields (ser elem enc fields vals) = Some (map (fun f => (fst f, vals (fst f))) fields).
Proof.
  intros fields vals. unfold de, ser. rewrite map_length, Nat.eqb_refl.
  induction fields as [|f r IH]; simpl; auto. rewrite dec_enc, IH. reflexivity.
Qed.

(* too few or too many elements: rejected *)
Theorem C15_wrong_length : forall fields input, length input <> length fields -> de elem dec fields input = None.
Proof. intros fields input H. unfold de. apply Nat.eqb_neq in H. now rewrite H. Qed.

(* an undecodable element at any position: rejected *)
Theorem C15_bad_element : forall fields input k f x,
  nth_error fields k = Some f -> nth_error input k = Some x -> dec (snd f) x = None ->
  de elem dec fields input = None.
Proof.
  intros fields input k f x Hf Hx Hd. unfold de. destruct (Nat.eqb _ _); auto.
  revert input k Hf Hx. induction fields as [|g r IH]; intros input k Hf Hx; [destruct k; discriminate|].
  destruct input as [|y ys]; [destruct k; discriminate|]. simpl.
  destruct k as [|k]; simpl in *.
  - inversion Hf; inversion Hx; subst. now rewrite Hd.
  - destruct (dec (snd g) y); auto. now rewrite (IH ys k Hf Hx).
Qed.
End C15.
Print Assumptions C15_roundtrip.
Print Assumptions C15_wrong_length.
Print Assumptions C15_bad_element.

(* what the generator emits for a variant: serialize and deserialize list the same fields, all of them, in
   declaration (id) order, with their types *)
Theorem C15_gen_order : forall ds v data,
  gen_fragment ds v data FSerde =
  [ISerialize v (map (nm ds) data); IDeserialize v (map (fun i => (nm ds i, ty ds i)) data)].
Proof. reflexivity. Qed.
Print Assumptions C15_gen_order.

(* ---- on the abstract machine: the generated Serialize reads every field of a record through its accessor, in
   declaration order, and encodes it; the generated Deserialize decodes one element per field and builds the record with
   the generated constructor.  For every record that holds the variant: serialisation faults nowhere and yields one
   element per field, deserialising those elements yields a record that holds the same values (an equal record),
   nothing is destroyed on the way; an input of another length never reaches the constructor. *)
From Coq Require Import NArith.
From Truc.Model Require Exec Ops.
From Truc.Proofs Require ExecP Holds SerdeRecords.
Theorem C15_record_roundtrip : forall ds TI rt A cap, Exec.rt_ok rt = true -> forall data, ExecP.layout_ok ds TI A cap data ->
  forall (elem : Type) (enc : nat -> nat -> elem) (dec : nat -> elem -> option nat),
  (forall t x, dec t (enc t x) = Some x) ->
  forall v vals r, Holds.holds ds TI cap A data vals r ->
  exists es r',
    SerdeRecords.ser_record ds TI rt elem enc data r = Exec.Ok es /\ length es = length data /\
    SerdeRecords.de_record ds TI rt A cap data elem dec v es = Some (Exec.Ok (Exec.ORecord r', [])) /\
    Holds.holds ds TI cap A data vals r'.
Proof.
  intros ds TI rt A cap RT data L elem enc dec Hde v vals r H.
  exact (SerdeRecords.record_roundtrip ds TI rt A cap RT data L elem enc dec Hde v vals r H).
Qed.
Print Assumptions C15_record_roundtrip.

Theorem C15_record_wrong_length : forall ds TI rt A cap data (elem : Type) (dec : nat -> elem -> option nat) v input,
  length input <> length data -> SerdeRecords.de_record ds TI rt A cap data elem dec v input = None.
Proof. intros. now apply SerdeRecords.record_de_wrong_length. Qed.
Print Assumptions C15_record_wrong_length.

(* (`rt_ok rt` - the facts of data.rs - is established for this tree by the obligation C04_current.) *)

(* a concrete record {a: type 1 at 0, n: type 2 at 24}, a format that tags each element with its type *)
Definition exs_ds : defs := [mkDatum 0 1 24 8 false 0; mkDatum 1 2 8 8 false 24].
Definition exs_ti (t : nat) : Exec.tinfo := if Nat.eqb t 1 then Exec.mkTi 24 8 true else Exec.mkTi 8 8 false.
Example C15_record_roundtrip_nonvacuous :
  match Ops.op_new exs_ds exs_ti Exec.rt_fixed 8 32 0 [0; 1]%nat (fun i => (100 + i)%nat) with
  | Exec.Ok (Exec.ORecord r, _) =>
      match SerdeRecords.ser_record exs_ds exs_ti Exec.rt_fixed (nat * nat) (fun t x => (t, x)) [0; 1]%nat r with
      | Exec.Ok es =>
          match SerdeRecords.de_record exs_ds exs_ti Exec.rt_fixed 8 32 [0; 1]%nat (nat * nat)
                  (fun t e => if Nat.eqb (fst e) t then Some (snd e) else None) 0 es with
          | Some (Exec.Ok (Exec.ORecord r', _)) => Some (es, Ops.op_get exs_ds exs_ti Exec.rt_fixed r' 0 false, Ops.op_get exs_ds exs_ti Exec.rt_fixed r' 1 false)
          | _ => None
          end
      | _ => None
      end
  | _ => None
  end = Some ([(1, 100); (2, 101)]%nat, Exec.Ok (Some 100%nat), Exec.Ok (Some 101%nat)).
Proof. vm_compute. reflexivity. Qed.
