(* C04 - A record gives back exactly the field values that were put into it.
   PARTIAL: the statements are about the abstract machine Exec (a model of the fragment of Rust the
   generated code uses) running the generator model's function bodies; that the real generator emits
   these bodies is checked by engine E2, what rustc/LLVM make of them (dev and release, stack / Box / Vec)
   by engine E3.  For all definitions, all variants satisfying `layout_ok` (the conclusions of C01, C02,
   C11 and C12 for that variant, plus: no two zero-size fields of one type share an offset), all
   capacities, all valuations of the fields by opaque tokens. *)
From Coq Require Import List NArith Arith Permutation.
From Truc.Model Require Import Layout Builder Ir Gen Exec Ops.
From Truc.Proofs Require Import ExecP Holds.
From Truc.Current Require Runtime.
Import ListNotations.

Section C04.
Variable ds : defs.                    (* the datum definitions: names, type ids, offsets *)
Variable TI : nat -> tinfo.            (* size / alignment / drop glue of every type id *)
Variable rt : runtime.                 (* facts of truc_runtime::data *)
Variables (A cap : N).                 (* alignment of the record structs, capacity *)
Hypothesis RT : rt_ok rt = true.
Variable data : list nat.              (* the variant's data *)
Hypothesis L : layout_ok ds TI A cap data.

(* `new` never faults, destroys nothing, and yields a record that holds exactly the values put in *)
Theorem C04_new : forall v vals,
  exists b, op_new ds TI rt A cap v data vals = Ok (ORecord b, []) /\ holds ds TI cap A data vals b.
Proof. exact (new_holds ds TI rt A cap RT data L). Qed.

(* every read accessor (shared or mutable) of ANY record that holds the variant - fresh, converted,
   written to - returns that field's value *)
Theorem C04_get : forall vals b i m, holds ds TI cap A data vals b -> In i data ->
  op_get ds TI rt b i m = Ok (Some (vals i)).
Proof. exact (get_holds ds TI rt A cap RT data L). Qed.

(* unpack returns every value, in declaration order, destroys nothing and forgets the record *)
Theorem C04_unpack : forall v vals b, holds ds TI cap A data vals b ->
  op_unpack ds TI rt A cap v data b = Ok (OUnpacked (map (fun i => (nm ds i, Some (vals i))) data), []).
Proof. exact (unpack_holds ds TI rt A cap data L). Qed.

(* a write through field i's mutable accessor: the record then holds x for i and the SAME value for every
   other field (frame); the previous value of i is destroyed exactly once when it has drop glue *)
Theorem C04_set_frame : forall vals b i x, holds ds TI cap A data vals b -> In i data ->
  exists b', op_set ds TI rt b i x = Ok (b', if dr ds TI i then [vals i] else []) /\
             holds ds TI cap A data (upd vals i x) b' /\
             upd vals i x i = x /\ (forall j, j <> i -> upd vals i x j = vals j).
Proof.
  intros vals b i x H Hi. destruct (set_holds ds TI rt A cap RT data L vals b i x H Hi) as (b' & E & H').
  exists b'. split; [exact E|]. split; [exact H'|]. split.
  - unfold upd. cbv beta. now rewrite (Nat.eqb_refl i).
  - intros j Hj. unfold upd. cbv beta. apply Nat.eqb_neq in Hj. now rewrite Hj.
Qed.

(* the constructor from the mandatory fields only: the record holds exactly those; the fields allowed to
   stay uninitialised can then be written (C04_set_frame on the variant extended field by field is the
   same argument; executed by E3) *)
Theorem C04_new_uninit : forall v vals,
  exists b, op_new_uninit ds TI rt A cap v data vals = Ok (ORecord b, []) /\
            holds ds TI cap A (filter (fun i => negb (un ds i)) data) vals b.
Proof. exact (new_uninit_holds ds TI rt A cap RT data L). Qed.
End C04.
Print Assumptions C04_new.
Print Assumptions C04_get.
Print Assumptions C04_unpack.
Print Assumptions C04_set_frame.
Print Assumptions C04_new_uninit.

(* the facts about data.rs the theorems need hold on the tree of this run (translator) *)
Theorem C04_current : rt_ok Runtime.exec_rt = true.
Proof. reflexivity. Qed.

(* non-vacuity + the defect that was fixed: with the runtime facts of the tree before the fix of data.rs
   the very first store of a constructor faults *)
Definition ex_ds : defs := [mkDatum 0 1 4 4 true 24; mkDatum 1 2 24 8 false 0].
Definition ex_ti (t : nat) : tinfo := match t with 1%nat => mkTi 4 4 false | _ => mkTi 24 8 true end.
Example C04_nonvacuous :
  op_new ex_ds ex_ti rt_fixed 8 28 0 [0; 1]%nat (fun i => (100 + i)%nat)
  = Ok (ORecord (mkBuf 8 28 [mkSlot 0 2 24 true (Owned 101); mkSlot 24 1 4 false (Owned 100)]), []) /\
  op_new ex_ds ex_ti rt_unfixed 8 28 0 [0; 1]%nat (fun i => (100 + i)%nat) = Fault Misaligned.
Proof. split; vm_compute; reflexivity. Qed.
