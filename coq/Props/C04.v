(* C04 - A record gives back exactly the field values that were put into it.
   PARTIAL: the statements are about the abstract machine Exec (a model of the fragment of Rust the
   generated code uses) running the generator model's function bodies; that the real generator emits
   these bodies is checked by engine E2, what rustc/LLVM make of them (dev and release, stack / Box / Vec)
   by engine E3.  For all definitions, all variants satisfying `layout_ok` (the conclusions of C01, C02,
   C11 and C12 for that variant, plus: no two zero-size fields of one type share an offset), all
   capacities, all valuations of the fields by opaque tokens. *)
From Coq Require Import List NArith Arith Permutation.
From Truc.Model Require Import Layout Builder Ir Gen Exec Ops.
From Truc.Proofs Require Import ExecP Holds Life Fill.
From Truc.Current Require Runtime.
Import ListNotations.

Section C04.
Variable ds : defs.                    (* the datum definitions: names, type ids, offsets *)
Variable TI : nat -> tinfo.            (* size / alignment / drop glue of every type id *)
Variable rt : runtime.                 (* facts of truc_runtime::data *)
Variables (A cap : N).                 (* alignment of the record structs, capacity *)
Hypothesis RT : rt_ok rt = true.
Variable data : list nat.              (* the variant's data *)
Hypothesis L : layout_ok ds TI A cap data.

(* `new` never faults, destroys nothing, and yields a record that holds exactly the values put in *)
Theorem C04_new : forall v vals,
  exists b, op_new ds TI rt A cap v data vals = Ok (ORecord b, []) /\ holds ds TI cap A data vals b.
Proof. exact (new_holds ds TI rt A cap RT data L). Qed.

(* every read accessor (shared or mutable) of ANY record that holds the variant - fresh, converted,
   written to - returns that field's value *)
Theorem C04_get : forall vals b i m, holds ds TI cap A data vals b -> In i data ->
  op_get ds TI rt b i m = Ok (Some (vals i)).
Proof. exact (get_holds ds TI rt A cap RT data L). Qed.

(* unpack returns every value, in declaration order, destroys nothing and forgets the record *)
Theorem C04_unpack : forall v vals b, holds ds TI cap A data vals b ->
  op_unpack ds TI rt A cap v data b = Ok (OUnpacked (map (fun i => (nm ds i, Some (vals i))) data), []).
Proof. exact (unpack_holds ds TI rt A cap data L). Qed.

(* a write through field i's mutable accessor: the record then holds x for i and the SAME value for every
   other field (frame); the previous value of i is destroyed exactly once when it has drop glue *)
Theorem C04_set_frame : forall vals b i x, holds ds TI cap A data vals b -> In i data ->
  exists b', op_set ds TI rt b i x = Ok (b', if dr ds TI i then [vals i] else []) /\
             holds ds TI cap A data (upd vals i x) b' /\
             upd vals i x i = x /\ (forall j, j <> i -> upd vals i x j = vals j).
Proof.
  intros vals b i x H Hi. destruct (set_holds ds TI rt A cap RT data L vals b i x H Hi) as (b' & E & H').
  exists b'. split; [exact E|]. split; [exact H'|]. split.
  - unfold upd. cbv beta. now rewrite (Nat.eqb_refl i).
  - intros j Hj. unfold upd. cbv beta. apply Nat.eqb_neq in Hj. now rewrite Hj.
Qed.

(* the constructor from the mandatory fields only: the record holds exactly those; the fields allowed to
   stay uninitialised can then be written (C04_set_frame on the variant extended field by field is the
   same argument; executed by E3) *)
Theorem C04_new_uninit : forall v vals,
  exists b, op_new_uninit ds TI rt A cap v data vals = Ok (ORecord b, []) /\
            holds ds TI cap A (filter (fun i => negb (un ds i)) data) vals b.
Proof. exact (new_uninit_holds ds TI rt A cap RT data L). Qed.

(* ... and then written: after new_uninit, one write through the mutable accessor of each may-be-uninitialised
   field (plain data: no drop glue - what the `T: Copy` bound of the gate enforces, C11) destroys nothing and
   leaves a record that holds the mandatory values AND the written ones, i.e. the whole variant (as a set) *)
Theorem C04_new_uninit_then_fill : forall v vals f,
  (forall i, In i data -> un ds i = true -> dr ds TI i = false) ->
  exists b0 b1 vals1,
    op_new_uninit ds TI rt A cap v data vals = Ok (ORecord b0, []) /\
    life ds TI rt b0 (assign_all f (filter (un ds) data)) = Ok (b1, []) /\
    holds ds TI cap A data vals1 b1 /\
    (forall i, In i data -> vals1 i = if un ds i then f i else vals i).
Proof.
  intros v vals f Hplain.
  destruct (new_uninit_holds ds TI rt A cap RT data L v vals) as (b0 & E0 & H0).
  pose proof (lo_nd _ _ _ _ _ L) as Hnd.
  destruct (fill_holds ds TI rt A cap RT data L (filter (un ds) data) (filter (fun i => negb (un ds i)) data) vals b0 f H0)
    as (b1 & vals1 & E1 & H1 & Hf & Ho).
  - intros j Hj. apply filter_In in Hj. tauto.
  - clear -Hnd. induction Hnd as [|x l Hx Hn IH]; simpl; [constructor|]. destruct (un ds x); auto. constructor; auto.
    rewrite filter_In. tauto.
  - intros i Hi. apply filter_In in Hi. destruct Hi as [Hi Hu]. split; auto. split; [|apply Hplain; auto].
    rewrite filter_In. rewrite Hu. simpl. intros [_ Hq]. discriminate.
  - exists b0, b1, vals1. split; [exact E0|]. split; [exact E1|].
    split; [exact (holds_perm ds TI A cap _ _ vals1 b1 (split_un_perm (un ds) data) H1)|].
    intros i Hi. destruct (un ds i) eqn:Eu.
    + apply Hf. apply filter_In. auto.
    + apply Ho. rewrite filter_In. rewrite Eu. intros [_ Hq]. discriminate.
Qed.
End C04.
Print Assumptions C04_new.
Print Assumptions C04_new_uninit_then_fill.
Print Assumptions C04_get.
Print Assumptions C04_unpack.
Print Assumptions C04_set_frame.
Print Assumptions C04_new_uninit.

(* the facts about data.rs the theorems need hold on the tree of this run (translator) *)
Theorem C04_current : rt_ok Runtime.exec_rt = true.
Proof. reflexivity. Qed.

(* non-vacuity + the defect that was fixed: with the runtime facts of the tree before the fix of data.rs
   the very first store of a constructor faults *)
Definition ex_ds : defs := [mkDatum 0 1 4 4 true 24; mkDatum 1 2 24 8 false 0].
Definition ex_ti (t : nat) : tinfo := match t with 1%nat => mkTi 4 4 false | _ => mkTi 24 8 true end.
Example C04_nonvacuous :
  op_new ex_ds ex_ti rt_fixed 8 28 0 [0; 1]%nat (fun i => (100 + i)%nat)
  = Ok (ORecord (mkBuf 8 28 [mkSlot 0 2 24 true (Owned 101); mkSlot 24 1 4 false (Owned 100)]), []) /\
  op_new ex_ds ex_ti rt_unfixed 8 28 0 [0; 1]%nat (fun i => (100 + i)%nat) = Fault Misaligned.
Proof. split; vm_compute; reflexivity. Qed.

(* ---- end to end: from a request history to the values read back.
   For every history of valid requests with power-of-two alignments, every variant v of the definition
   it builds, real type information that agrees with the recorded one (what passing the module's own
   gate forces: C11) and any capacity covering the published max_size, `layout_ok` holds (Proofs/Link.v:
   the conclusions of C01, C02, C12 for that variant), so a record built by `new` gives every value back. *)
From Truc.Proofs Require Import BuilderInv LayoutThms Link.
Theorem C04_end_to_end : forall h TI rt cap m, hist_ok h -> pow2_hist h -> rt_ok rt = true ->
  let b := run h in let ds := b_ds b in
  (forall v i, In v (b_vs b) -> In i v ->
     ti_size (TI (d_ty (getd ds i))) = d_size (getd ds i) /\ ti_align (TI (d_ty (getd ds i))) = d_align (getd ds i)) ->
  max_size (ds, b_vs b) = Some m -> (m <= cap)%N ->
  forall v, In v (b_vs b) -> NoDup (map (fun i => (Gen.of ds i, Gen.ty ds i)) v) ->
  forall vid vals, exists r,
    op_new ds TI rt (max_type_align (ds, b_vs b)) cap vid v vals = Ok (ORecord r, []) /\
    forall i mode, In i v -> op_get ds TI rt r i mode = Ok (Some (vals i)).
Proof.
  intros h TI rt cap m Hh Hp RT b ds HTI Hm Hcap v Hv Hk vid vals.
  assert (L : layout_ok ds TI (max_type_align (ds, b_vs b)) cap v).
  { apply (layout_ok_of_run h Hh Hp TI HTI cap); eauto. }
  destruct (C04_new ds TI rt _ cap RT v L vid vals) as (r & E & H).
  exists r. split; [exact E|]. intros i mode Hi. exact (C04_get ds TI rt _ cap RT v L vals r i mode H Hi).
Qed.
Print Assumptions C04_end_to_end.

(* the key hypothesis of C04_end_to_end in plainer words: data of one variant can only share (offset, type) when
   both are zero-size, so it is enough that no two zero-size data of ONE type sit at ONE offset of the variant
   (Link.keys_of_no_zst_twins: data of non-zero size are disjoint - C01 - and one type has one size - C11) *)
Theorem C04_end_to_end_zst : forall h TI rt cap m, hist_ok h -> pow2_hist h -> rt_ok rt = true ->
  let b := run h in let ds := b_ds b in
  (forall v i, In v (b_vs b) -> In i v ->
     ti_size (TI (d_ty (getd ds i))) = d_size (getd ds i) /\ ti_align (TI (d_ty (getd ds i))) = d_align (getd ds i)) ->
  max_size (ds, b_vs b) = Some m -> (m <= cap)%N ->
  forall v, In v (b_vs b) ->
  (forall i j, In i v -> In j v -> i <> j -> Gen.ty ds i = Gen.ty ds j -> d_size (getd ds i) = 0%N ->
               Gen.of ds i <> Gen.of ds j) ->
  forall vid vals, exists r,
    op_new ds TI rt (max_type_align (ds, b_vs b)) cap vid v vals = Ok (ORecord r, []) /\
    forall i mode, In i v -> op_get ds TI rt r i mode = Ok (Some (vals i)).
Proof.
  intros h TI rt cap m Hh Hp RT b ds HTI Hm Hcap v Hv Hz vid vals.
  apply (C04_end_to_end h TI rt cap m Hh Hp RT HTI Hm Hcap v Hv).
  apply (keys_of_no_zst_twins h Hh TI HTI v Hv). exact Hz.
Qed.
Print Assumptions C04_end_to_end_zst.

(* ... and `unpack` of the record built from a history hands every value back, in declaration order, destroying nothing *)
Theorem C04_end_to_end_unpack : forall h TI rt cap m, hist_ok h -> pow2_hist h -> rt_ok rt = true ->
  let b := run h in let ds := b_ds b in
  (forall v i, In v (b_vs b) -> In i v ->
     ti_size (TI (d_ty (getd ds i))) = d_size (getd ds i) /\ ti_align (TI (d_ty (getd ds i))) = d_align (getd ds i)) ->
  max_size (ds, b_vs b) = Some m -> (m <= cap)%N ->
  forall v, In v (b_vs b) ->
  (forall i j, In i v -> In j v -> i <> j -> Gen.ty ds i = Gen.ty ds j -> d_size (getd ds i) = 0%N ->
               Gen.of ds i <> Gen.of ds j) ->
  forall vid vals, exists r,
    op_new ds TI rt (max_type_align (ds, b_vs b)) cap vid v vals = Ok (ORecord r, []) /\
    op_unpack ds TI rt (max_type_align (ds, b_vs b)) cap vid v r =
      Ok (OUnpacked (map (fun i => (nm ds i, Some (vals i))) v), []).
Proof.
  intros h TI rt cap m Hh Hp RT b ds HTI Hm Hcap v Hv Hz vid vals.
  assert (L : layout_ok ds TI (max_type_align (ds, b_vs b)) cap v).
  { apply (layout_ok_of_run_zst h Hh Hp TI HTI cap); eauto. }
  destruct (C04_new ds TI rt _ cap RT v L vid vals) as (r & E & H).
  exists r. split; [exact E|]. exact (C04_unpack ds TI rt _ cap v L vid vals r H).
Qed.
Print Assumptions C04_end_to_end_unpack.
