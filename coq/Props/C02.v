(* C02 - Every datum is aligned, inside the published capacity, listed in address order. *)
From Coq Require Import List NArith Lia Sorting.Sorted.
From Truc.Model Require Import Layout Builder.
From Truc.Proofs Require Import Variants BuilderInv LayoutThms Panics Bound.
Import ListNotations.
Open Scope N_scope.

(* For every request history (alignments >= 1, the four shipped strategies in any mix), every variant v
   and every datum d of v:
   - the offset is a multiple of the alignment;
   - the datum ends at or below the capacity `max_size` publishes (whenever max_size returns);
   - with power-of-two alignments, the record alignment `max_type_align` is a multiple of d's;
   - the offsets of the non-zero-size data of v, in list order, are strictly increasing. *)
Theorem C02 : forall h, hist_ok h ->
  let s := run h in let ds := b_ds s in
  forall v d, In v (b_vs s) -> In d v ->
     off ds d mod al ds d = 0
  /\ (forall m, max_size (ds, b_vs s) = Some m -> off ds d + size ds d <= m)
  /\ (pow2_hist h -> max_type_align (ds, b_vs s) mod al ds d = 0)
  /\ StronglySorted N.lt (map (off ds) (filter (fun i => 0 <? size ds i) v)).
Proof.
  intros h Hh s ds v d Hv Hd. split; [|split; [|split]].
  - exact (aligned_all h Hh v d Hv Hd).
  - intros m Hm. exact (capacity_covers (ds, b_vs s) m Hm v d Hv Hd).
  - intros Hp. apply (record_align_multiple (ds, b_vs s)).
    + exact (run_pow2 h Hh Hp).
    + destruct (wf_v _ (run_wf h Hh) v Hv) as (_ & _ & H). apply H; auto.
  - exact (order_all h Hh v Hv).
Qed.
Print Assumptions C02.

(* the capacity clause without its proviso: when the sizes and alignments the history asks for add up to at
   most usize::MAX, max_size answers, every datum of every variant ends at or below the answer, and the
   answer itself is at most what was asked for (Proofs/Bound.v) *)
Theorem C02_capacity : forall h, hist_ok h -> hbound h <= MAXU ->
  let s := run h in let ds := b_ds s in
  exists m, max_size (ds, b_vs s) = Some m /\
            forall v d, In v (b_vs s) -> In d v -> off ds d + size ds d <= m.
Proof.
  intros h Hh Hb s ds.
  destruct (max_size (ds, b_vs s)) as [m|] eqn:E.
  - exists m. split; [reflexivity|]. intros v d Hv Hd. exact (capacity_covers (ds, b_vs s) m E v d Hv Hd).
  - exfalso. apply (max_size_some ds (b_vs s)); [apply fits_of_bound; auto|exact E].
Qed.
Print Assumptions C02_capacity.

(* the capacity function before the fix "max_size only considers data that belong to a variant"
   panics (None) on a datum added and removed while pending; with the fix it answers *)
Example C02_capacity_refuted_unfixed :
  let b := run [Add 0 0 4 4 false; Remove 0%nat; Close SSimple] in
  max_size_gen AllDefinitions (b_ds b, b_vs b) = None /\ max_size (b_ds b, b_vs b) = Some 0.
Proof. vm_compute. auto. Qed.
Print Assumptions C02_capacity_refuted_unfixed.

(* non-vacuity: the witness history of C01 has power-of-two alignments and a defined capacity *)
Example C02_nonvacuous :
  let h := [Add 0 0 4 4 false; Add 1 0 4 4 false; Add 2 1 8 8 false; Close SAppend;
            Remove 1%nat; Add 3 2 0 1 false; Close SSimple; Add 4 0 4 4 false; Close SSimple;
            Add 5 3 2 2 false; Close SBasic] in
  max_size (b_ds (run h), b_vs (run h)) = Some 18 /\ max_type_align (b_ds (run h), b_vs (run h)) = 8.
Proof. vm_compute. auto. Qed.
Print Assumptions C02_nonvacuous.
