(* C06 - Everything stored in a record is destroyed exactly once.   PARTIAL (as C04).
   Each generated operation accounts for every value: `new` moves every argument into the record and
   destroys nothing (C04_new); accessors move nothing; a write through a mutable accessor destroys the old
   value once (C04_set_frame); `unpack` hands every value back and destroys nothing (C04_unpack); the
   generated Drop destroys every droppable value once (below); a conversion keeps / stores / hands back /
   destroys as C05 says.  So along any sequence of operations from creation to end of life each value is
   destroyed exactly once or handed back exactly once. *)
From Coq Require Import List NArith Permutation.
From Truc.Model Require Import Layout Builder Ir Gen Exec Ops.
From Truc.Proofs Require Import ExecP Holds Life Chain.
From Truc.Current Require Runtime.
Import ListNotations.

Section C06.
Variable ds : defs.
Variable TI : nat -> tinfo.
Variable rt : runtime.
Variables (A cap : N).
Hypothesis RT : rt_ok rt = true.
Variable data : list nat.
Hypothesis L : layout_ok ds TI A cap data.

(* dropping ANY record that holds the variant: no fault, and the destroyed values are exactly the values
   of the fields whose type has drop glue - a permutation, so each exactly once *)
Theorem C06_drop : forall v vals b, holds ds TI cap A data vals b ->
  exists dropped, op_drop ds TI rt A cap v data b = Ok (ONone, dropped) /\
                  Permutation dropped (map vals (filter (dr ds TI) data)).
Proof.
  intros v vals b H. eexists. split; [apply (drop_holds ds TI rt A cap data L v vals b H)|].
  apply droppable_tokens.
Qed.

(* the removed fields of a conversion that does not return them are destroyed by it, each once *)
Theorem C06_conversion_drops : forall (minus : list nat) (vals : nat -> nat),
  Permutation (droppable_of TI (rev (map (fun i => (nm ds i, (Some (vals i), ty ds i))) minus)))
              (map vals (filter (dr ds TI) minus)).
Proof. intros. apply droppable_tokens. Qed.

(* the whole life of a record: after ANY sequence of reads and writes through the generated accessors,
   the generated Drop destroys what is left - the values destroyed on the way (d) plus those destroyed by
   Drop are, as a multiset, exactly the droppable values that entered the record (at creation or by a
   write): each once, none twice, none leaked.  No step faults. *)
Theorem C06_lifecycle_drop : forall ops vals b v,
  holds ds TI cap A data vals b -> Forall (fun o => In (lop_field o) data) ops ->
  exists b' d dropped, life ds TI rt b ops = Ok (b', d) /\ op_drop ds TI rt A cap v data b' = Ok (ONone, dropped) /\
    Permutation (d ++ dropped) (map vals (filter (dr ds TI) data) ++ written_in ds TI ops).
Proof. exact (life_then_drop ds TI rt A cap RT data L). Qed.

(* same life ended by unpack: nothing more is destroyed, what is handed back is exactly what is still owed *)
Theorem C06_lifecycle_unpack : forall ops vals b v,
  holds ds TI cap A data vals b -> Forall (fun o => In (lop_field o) data) ops ->
  exists b' vals' d, life ds TI rt b ops = Ok (b', d) /\
    op_unpack ds TI rt A cap v data b' = Ok (OUnpacked (map (fun i => (nm ds i, Some (vals' i))) data), []) /\
    Permutation (d ++ map vals' (filter (dr ds TI) data)) (map vals (filter (dr ds TI) data) ++ written_in ds TI ops).
Proof. exact (life_then_unpack ds TI rt A cap RT data L). Qed.
End C06.
Print Assumptions C06_drop.
Print Assumptions C06_lifecycle_drop.
Print Assumptions C06_lifecycle_unpack.
Print Assumptions C06_conversion_drops.

(* the whole life across variants: a record created in variant P, carried through ANY number of conversions
   (complete forms; removed data handed back or not), with ANY reads and writes on each variant in between,
   finally dropped: what was destroyed (d by writes and conversions, `dropped` by Drop) plus what conversions
   handed back (r) is, as a multiset, exactly what entered - at creation, by a write, or as an added field.
   No step faults. *)
Theorem C06_whole_life : forall ds TI rt A cap, rt_ok rt = true ->
  forall (stages : list stage) P vals b v,
  layout_ok ds TI A cap P -> chain_ok ds TI A cap P stages -> holds ds TI cap A P vals b ->
  layout_ok ds TI A cap (last_data P stages) ->
  exists bf d r dropped, chain_run ds TI rt A cap b stages = Ok (bf, d, r) /\
    op_drop ds TI rt A cap v (last_data P stages) bf = Ok (ONone, dropped) /\
    Permutation (d ++ dropped ++ r) (map vals (filter (dr ds TI) P) ++ entered ds TI stages).
Proof. intros ds TI rt A cap RT. exact (chain_then_drop ds TI rt A cap RT). Qed.
Print Assumptions C06_whole_life.

Theorem C06_current : rt_ok Runtime.exec_rt = true.
Proof. reflexivity. Qed.

(* a generated Drop that skipped a field would leak it; a conversion without ManuallyDrop would destroy the
   carried fields twice: both show on the machine (the unfixed bodies are not what Gen emits) *)
Definition ex_ds : defs := [mkDatum 0 1 24 8 false 0; mkDatum 1 1 24 8 false 24].
Definition ex_ti (t : nat) : tinfo := mkTi 24 8 true.
Example C06_nonvacuous :
  match op_new ex_ds ex_ti rt_fixed 8 48 0 [0; 1]%nat (fun i => (100 + i)%nat) with
  | Ok (ORecord r, _) => op_drop ex_ds ex_ti rt_fixed 8 48 0 [0; 1]%nat r
  | _ => Fault (Static 0)
  end = Ok (ONone, [101; 100]%nat).
Proof. vm_compute. reflexivity. Qed.

Example C06_lifecycle_nonvacuous :
  match op_new ex_ds ex_ti rt_fixed 8 48 0 [0; 1]%nat (fun i => (100 + i)%nat) with
  | Ok (ORecord r, _) =>
      match life ex_ds ex_ti rt_fixed r [LSet 0 7; LGet 1 false; LSet 0 8; LSet 1 9]%nat with
      | Ok (r', d) => match op_drop ex_ds ex_ti rt_fixed 8 48 0 [0; 1]%nat r' with Ok (_, dropped) => Some (d, dropped) | _ => None end
      | _ => None
      end
  | _ => None
  end = Some ([100; 7; 101], [9; 8])%nat.
Proof. vm_compute. reflexivity. Qed.

(* ... and with the UNINIT forms among the conversions: such a stage converts with only the mandatory added
   fields, then writes each added field that was left uninitialised (plain data only - what the generated gate
   C11 allows) through its mutable accessor, then goes on with any reads and writes.  Same accounting, no fault. *)
From Truc.Proofs Require Import ChainU.
Theorem C06_whole_life_uninit : forall ds TI rt A cap, rt_ok rt = true ->
  forall (stages : list ustage) P vals b v,
  layout_ok ds TI A cap P -> uchain_ok ds TI A cap P stages -> holds ds TI cap A P vals b ->
  layout_ok ds TI A cap (ulast_data P stages) ->
  exists bf d r dropped, uchain_run ds TI rt A cap b stages = Ok (bf, d, r) /\
    op_drop ds TI rt A cap v (ulast_data P stages) bf = Ok (ONone, dropped) /\
    Permutation (d ++ dropped ++ r) (map vals (filter (dr ds TI) P) ++ uentered ds TI stages).
Proof. intros ds TI rt A cap RT. exact (uchain_then_drop ds TI rt A cap RT). Qed.
Print Assumptions C06_whole_life_uninit.

(* it contains C06_whole_life: a chain of complete forms is a chain of stages with the flag off *)
Theorem C06_whole_life_uninit_extends : forall ds TI rt A cap stages b,
  uchain_run ds TI rt A cap b (map (fun s => mkUStage s false (fun _ => 0%nat)) stages) = chain_run ds TI rt A cap b stages.
Proof. exact uchain_of_chain. Qed.
Print Assumptions C06_whole_life_uninit_extends.

(* a concrete chain meeting the hypotheses: variant 0 = {a: droppable 24 bytes at 0}; variant 1 removes a and adds
   c (droppable, reusing a's bytes) and u (plain 8 bytes at 24, allow_uninit); the conversion is the uninit form,
   u is written afterwards, then c is overwritten, then the record is dropped *)
Definition exu_ds : defs := [mkDatum 0 1 24 8 false 0; mkDatum 1 2 8 8 true 24; mkDatum 2 1 24 8 false 0].
Definition exu_ti (t : nat) : tinfo := if Nat.eqb t 1 then mkTi 24 8 true else mkTi 8 8 false.
Definition exu_stage : ustage :=
  mkUStage (mkStage [2; 1]%nat [0%nat] [2; 1]%nat [] false (fun i => (200 + i)%nat) [LSet 2 9; LGet 1 false]%nat 1 0) true (fun _ => 55%nat).
Example C06_whole_life_uninit_nonvacuous :
  match op_new exu_ds exu_ti rt_fixed 8 32 0 [0%nat] (fun i => (100 + i)%nat) with
  | Ok (ORecord r, _) =>
      match uchain_run exu_ds exu_ti rt_fixed 8 32 r [exu_stage] with
      | Ok (bf, d, back) =>
          match op_drop exu_ds exu_ti rt_fixed 8 32 1 [2; 1]%nat bf with Ok (_, dropped) => Some (d, back, dropped) | _ => None end
      | _ => None
      end
  | _ => None
  end = Some ([100; 202], [], [9])%nat.
Proof. vm_compute. reflexivity. Qed.

(* ... and the hypotheses of the theorem are met by that chain *)
Lemma exu_layout_P : layout_ok exu_ds exu_ti 8 32 [0%nat].
Proof.
  constructor.
  - repeat constructor; simpl; tauto.
  - repeat constructor; simpl; tauto.
  - intros i [<-|[]]. vm_compute. discriminate.
  - intros i [<-|[]]. vm_compute. repeat split; discriminate.
  - intros i j [<-|[]] [<-|[]] Hne; congruence.
  - repeat constructor; simpl; tauto.
Qed.
Lemma exu_layout_Q : layout_ok exu_ds exu_ti 8 32 [2; 1]%nat.
Proof.
  constructor.
  - repeat constructor; simpl; intuition discriminate.
  - repeat constructor; simpl; intuition discriminate.
  - intros i [<-|[<-|[]]]; vm_compute; discriminate.
  - intros i [<-|[<-|[]]]; vm_compute; repeat split; discriminate.
  - intros i j [<-|[<-|[]]] [<-|[<-|[]]] Hne _ _; try congruence; vm_compute; [left|right]; discriminate.
  - repeat constructor; simpl; intuition discriminate.
Qed.
Example C06_whole_life_uninit_hypotheses :
  layout_ok exu_ds exu_ti 8 32 [0%nat] /\ uchain_ok exu_ds exu_ti 8 32 [0%nat] [exu_stage] /\
  layout_ok exu_ds exu_ti 8 32 (ulast_data [0%nat] [exu_stage]).
Proof.
  split; [exact exu_layout_P|]. split; [|exact exu_layout_Q].
  cbn [uchain_ok exu_stage u_s u_uninit s_Q s_minus s_plus s_carried s_ops].
  split; [exact exu_layout_Q|]. split; [apply Permutation_refl|]. split; [apply Permutation_refl|].
  split; [repeat constructor; simpl; tauto|]. split; [|exact I].
  intros _ i [<-|[<-|[]]]; vm_compute; congruence.
Qed.

(* ---- from the constructor to the destructor: the hypothesis `holds` of the whole-life theorem is what the
   constructors establish.  A record created by `new` (every field supplied) or by `new_uninit` followed by one
   write per field left out (plain fields only), carried through any chain of conversions (complete or uninit
   forms) with any reads and writes in between, then dropped: no step faults, and what was destroyed plus what
   conversions handed back is exactly what entered - the constructor's droppable arguments included. *)
Theorem C06_life_from_new : forall ds TI rt A cap, rt_ok rt = true ->
  forall (stages : list ustage) P vals v0 v,
  layout_ok ds TI A cap P -> uchain_ok ds TI A cap P stages -> layout_ok ds TI A cap (ulast_data P stages) ->
  exists r bf d back dropped,
    op_new ds TI rt A cap v0 P vals = Ok (ORecord r, []) /\
    uchain_run ds TI rt A cap r stages = Ok (bf, d, back) /\
    op_drop ds TI rt A cap v (ulast_data P stages) bf = Ok (ONone, dropped) /\
    Permutation (d ++ dropped ++ back) (map vals (filter (dr ds TI) P) ++ uentered ds TI stages).
Proof.
  intros ds TI rt A cap RT stages P vals v0 v LP Hc LL.
  destruct (new_holds ds TI rt A cap RT P LP v0 vals) as (r & E & H).
  destruct (uchain_then_drop ds TI rt A cap RT stages P vals r v LP Hc H LL) as (bf & d & back & dropped & E1 & E2 & Pm).
  exists r, bf, d, back, dropped. auto.
Qed.
Print Assumptions C06_life_from_new.

Theorem C06_life_from_new_uninit : forall ds TI rt A cap, rt_ok rt = true ->
  forall (stages : list ustage) P vals f v0 v,
  layout_ok ds TI A cap P -> uchain_ok ds TI A cap P stages -> layout_ok ds TI A cap (ulast_data P stages) ->
  (forall i, In i P -> un ds i = true -> dr ds TI i = false) ->
  exists r0 r bf d back dropped,
    op_new_uninit ds TI rt A cap v0 P vals = Ok (ORecord r0, []) /\
    life ds TI rt r0 (assign_all f (filter (un ds) P)) = Ok (r, []) /\
    uchain_run ds TI rt A cap r stages = Ok (bf, d, back) /\
    op_drop ds TI rt A cap v (ulast_data P stages) bf = Ok (ONone, dropped) /\
    Permutation (d ++ dropped ++ back) (map vals (filter (dr ds TI) P) ++ uentered ds TI stages).
Proof.
  intros ds TI rt A cap RT stages P vals f v0 v LP Hc LL Hplain.
  destruct (new_uninit_then_fill ds TI rt A cap RT P LP v0 vals f Hplain) as (r0 & r & vals1 & E0 & E1 & H & Hv).
  destruct (uchain_then_drop ds TI rt A cap RT stages P vals1 r v LP Hc H LL) as (bf & d & back & dropped & E2 & E3 & Pm).
  exists r0, r, bf, d, back, dropped. repeat (split; [assumption|]).
  (* the droppable fields are the ones supplied: vals1 = vals on them *)
  replace (map vals (filter (dr ds TI) P)) with (map vals1 (filter (dr ds TI) P)); [exact Pm|].
  apply map_ext_in. intros i Hi. apply filter_In in Hi. destruct Hi as [Hi Hd]. rewrite (Hv i Hi).
  destruct (un ds i) eqn:Eu; auto. rewrite (Hplain i Hi Eu) in Hd. discriminate.
Qed.
Print Assumptions C06_life_from_new_uninit.

(* the same life ended by unpack instead of Drop: nothing more is destroyed, every field of the last variant is handed
   back, and the droppable ones among them are exactly what is still owed *)
Theorem C06_whole_life_uninit_unpack : forall ds TI rt A cap, rt_ok rt = true ->
  forall (stages : list ustage) P vals b v,
  layout_ok ds TI A cap P -> uchain_ok ds TI A cap P stages -> holds ds TI cap A P vals b ->
  layout_ok ds TI A cap (ulast_data P stages) ->
  exists bf valsf d r, uchain_run ds TI rt A cap b stages = Ok (bf, d, r) /\
    op_unpack ds TI rt A cap v (ulast_data P stages) bf =
      Ok (OUnpacked (map (fun i => (nm ds i, Some (valsf i))) (ulast_data P stages)), []) /\
    Permutation (d ++ r ++ map valsf (filter (dr ds TI) (ulast_data P stages)))
                (map vals (filter (dr ds TI) P) ++ uentered ds TI stages).
Proof. intros ds TI rt A cap RT. exact (uchain_then_unpack ds TI rt A cap RT). Qed.
Print Assumptions C06_whole_life_uninit_unpack.

(* ---- the same from a request history: for every history of valid requests with power-of-two alignments, the stages of
   the chain are read off the consecutive variants of the definition the builder produced (`stages_follow`: stage k
   converts variant k to variant k+1 with the removed / added lists the generator computes for that pair, complete or
   uninit form, removed data handed back or not, any reads and writes on variant k+1 afterwards) and every layout
   hypothesis is derived from the history (Proofs/Link.v, LinkChain.v).  What remains assumed: real type information
   that agrees with the recorded one (what the module's own gate forces: C11), a capacity covering the published
   max_size, and no two zero-size data of one type at one offset.  Then: new, the whole chain through ALL the variants,
   Drop - no fault, and destroyed ++ handed back = entered. *)
From Truc.Proofs Require Import BuilderInv LayoutThms Link LinkChain.
Theorem C06_life_from_history : forall h TI rt cap mx, hist_ok h -> pow2_hist h -> rt_ok rt = true ->
  let b := run h in let ds := b_ds b in let A := max_type_align (ds, b_vs b) in
  (forall v i, In v (b_vs b) -> In i v ->
     ti_size (TI (d_ty (getd ds i))) = d_size (getd ds i) /\ ti_align (TI (d_ty (getd ds i))) = d_align (getd ds i)) ->
  max_size (ds, b_vs b) = Some mx -> (mx <= cap)%N ->
  (forall v, In v (b_vs b) -> forall i j, In i v -> In j v -> i <> j -> Gen.ty ds i = Gen.ty ds j ->
     d_size (getd ds i) = 0%N -> Gen.of ds i <> Gen.of ds j) ->
  forall P0 rest stages vals v0 v,
  b_vs b = P0 :: rest -> stages_follow h TI (b_vs b) stages ->
  exists r bf d back dropped,
    op_new ds TI rt A cap v0 P0 vals = Ok (ORecord r, []) /\
    uchain_run ds TI rt A cap r stages = Ok (bf, d, back) /\
    op_drop ds TI rt A cap v (last (b_vs b) P0) bf = Ok (ONone, dropped) /\
    Permutation (d ++ dropped ++ back) (map vals (filter (dr ds TI) P0) ++ uentered ds TI stages).
Proof.
  intros h TI rt cap mx Hh Hp RT b ds A HTI Hm Hcap Hz P0 rest stages vals v0 v Evs Hf.
  exact (life_from_history h Hh Hp TI HTI cap (ex_intro _ mx (conj Hm Hcap)) Hz rt RT P0 rest stages vals v0 v Evs Hf).
Qed.
Print Assumptions C06_life_from_history.

(* a concrete history meeting the hypotheses: {a: droppable 24 / 8}, then a removed, c (droppable) and u (plain,
   allow_uninit) added - the builder puts c on a's bytes; the one stage follows the two variants with the lists the
   generator computes *)
Definition exh : list req := [Add 0 1 24 8 false; Close SSimple; Remove 0%nat; Add 1 1 24 8 false; Add 2 2 8 8 true; Close SSimple].
Definition exh_ti (t : nat) : tinfo := if Nat.eqb t 1 then mkTi 24 8 true else mkTi 8 8 false.
Definition exh_stage : ustage :=
  mkUStage (mkStage [1; 2]%nat [0%nat] [1; 2]%nat [] false (fun i => (200 + i)%nat) [LSet 1 9; LGet 2 false]%nat 1 0) true (fun _ => 55%nat).
Example C06_life_from_history_nonvacuous :
  b_vs (run exh) = [[0]; [1; 2]]%nat /\ max_size (b_ds (run exh), b_vs (run exh)) = Some 32%N /\
  stages_follow exh exh_ti (b_vs (run exh)) [exh_stage] /\
  match op_new (b_ds (run exh)) exh_ti rt_fixed 8 32 0 [0%nat] (fun i => (100 + i)%nat) with
  | Ok (ORecord r, _) =>
      match uchain_run (b_ds (run exh)) exh_ti rt_fixed 8 32 r [exh_stage] with
      | Ok (bf, d, back) =>
          match op_drop (b_ds (run exh)) exh_ti rt_fixed 8 32 1 [1; 2]%nat bf with Ok (_, dropped) => Some (d, back, dropped) | _ => None end
      | _ => None
      end
  | _ => None
  end = Some ([100; 201], [], [9])%nat.
Proof.
  split; [vm_compute; reflexivity|]. split; [vm_compute; reflexivity|]. split; [|vm_compute; reflexivity].
  change (b_vs (run exh)) with [[0%nat]; [1; 2]%nat]. cbn [stages_follow exh_stage u_s u_uninit s_Q s_minus s_plus s_ops].
  split; [reflexivity|]. split; [vm_compute; reflexivity|]. split; [repeat constructor; simpl; tauto|].
  split; [|exact I]. intros _ i [<-|[<-|[]]]; vm_compute; congruence.
Qed.
