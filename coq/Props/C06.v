(* C06 - Everything stored in a record is destroyed exactly once.   PARTIAL (as C04).
   Each generated operation accounts for every value: `new` moves every argument into the record and
   destroys nothing (C04_new); accessors move nothing; a write through a mutable accessor destroys the old
   value once (C04_set_frame); `unpack` hands every value back and destroys nothing (C04_unpack); the
   generated Drop destroys every droppable value once (below); a conversion keeps / stores / hands back /
   destroys as C05 says.  So along any sequence of operations from creation to end of life each value is
   destroyed exactly once or handed back exactly once. *)
From Coq Require Import List NArith Permutation.
From Truc.Model Require Import Layout Builder Ir Gen Exec Ops.
From Truc.Proofs Require Import ExecP Holds.
From Truc.Current Require Runtime.
Import ListNotations.

Section C06.
Variable ds : defs.
Variable TI : nat -> tinfo.
Variable rt : runtime.
Variables (A cap : N).
Hypothesis RT : rt_ok rt = true.
Variable data : list nat.
Hypothesis L : layout_ok ds TI A cap data.

(* dropping ANY record that holds the variant: no fault, and the destroyed values are exactly the values
   of the fields whose type has drop glue - a permutation, so each exactly once *)
Theorem C06_drop : forall v vals b, holds ds TI cap A data vals b ->
  exists dropped, op_drop ds TI rt A cap v data b = Ok (ONone, dropped) /\
                  Permutation dropped (map vals (filter (dr ds TI) data)).
Proof.
  intros v vals b H. eexists. split; [apply (drop_holds ds TI rt A cap data L v vals b H)|].
  apply droppable_tokens.
Qed.

(* the removed fields of a conversion that does not return them are destroyed by it, each once *)
Theorem C06_conversion_drops : forall (minus : list nat) (vals : nat -> nat),
  Permutation (droppable_of TI (rev (map (fun i => (nm ds i, (Some (vals i), ty ds i))) minus)))
              (map vals (filter (dr ds TI) minus)).
Proof. intros. apply droppable_tokens. Qed.
End C06.
Print Assumptions C06_drop.
Print Assumptions C06_conversion_drops.

Theorem C06_current : rt_ok Runtime.exec_rt = true.
Proof. reflexivity. Qed.

(* a generated Drop that skipped a field would leak it; a conversion without ManuallyDrop would destroy the
   carried fields twice: both show on the machine (the unfixed bodies are not what Gen emits) *)
Definition ex_ds : defs := [mkDatum 0 1 24 8 false 0; mkDatum 1 1 24 8 false 24].
Definition ex_ti (t : nat) : tinfo := mkTi 24 8 true.
Example C06_nonvacuous :
  match op_new ex_ds ex_ti rt_fixed 8 48 0 [0; 1]%nat (fun i => (100 + i)%nat) with
  | Ok (ORecord r, _) => op_drop ex_ds ex_ti rt_fixed 8 48 0 [0; 1]%nat r
  | _ => Fault (Static 0)
  end = Ok (ONone, [101; 100]%nat).
Proof. vm_compute. reflexivity. Qed.
