(* C06 - Everything stored in a record is destroyed exactly once.   PARTIAL (as C04).
   Each generated operation accounts for every value: `new` moves every argument into the record and
   destroys nothing (C04_new); accessors move nothing; a write through a mutable accessor destroys the old
   value once (C04_set_frame); `unpack` hands every value back and destroys nothing (C04_unpack); the
   generated Drop destroys every droppable value once (below); a conversion keeps / stores / hands back /
   destroys as C05 says.  So along any sequence of operations from creation to end of life each value is
   destroyed exactly once or handed back exactly once. *)
From Coq Require Import List NArith Permutation.
From Truc.Model Require Import Layout Builder Ir Gen Exec Ops.
From Truc.Proofs Require Import ExecP Holds Life Chain.
From Truc.Current Require Runtime.
Import ListNotations.

Section C06.
Variable ds : defs.
Variable TI : nat -> tinfo.
Variable rt : runtime.
Variables (A cap : N).
Hypothesis RT : rt_ok rt = true.
Variable data : list nat.
Hypothesis L : layout_ok ds TI A cap data.

(* dropping ANY record that holds the variant: no fault, and the destroyed values are exactly the values
   of the fields whose type has drop glue - a permutation, so each exactly once *)
Theorem C06_drop : forall v vals b, holds ds TI cap A data vals b ->
  exists dropped, op_drop ds TI rt A cap v data b = Ok (ONone, dropped) /\
                  Permutation dropped (map vals (filter (dr ds TI) data)).
Proof.
  intros v vals b H. eexists. split; [apply (drop_holds ds TI rt A cap data L v vals b H)|].
  apply droppable_tokens.
Qed.

(* the removed fields of a conversion that does not return them are destroyed by it, each once *)
Theorem C06_conversion_drops : forall (minus : list nat) (vals : nat -> nat),
  Permutation (droppable_of TI (rev (map (fun i => (nm ds i, (Some (vals i), ty ds i))) minus)))
              (map vals (filter (dr ds TI) minus)).
Proof. intros. apply droppable_tokens. Qed.

(* the whole life of a record: after ANY sequence of reads and writes through the generated accessors,
   the generated Drop destroys what is left - the values destroyed on the way (d) plus those destroyed by
   Drop are, as a multiset, exactly the droppable values that entered the record (at creation or by a
   write): each once, none twice, none leaked.  No step faults. *)
Theorem C06_lifecycle_drop : forall ops vals b v,
  holds ds TI cap A data vals b -> Forall (fun o => In (lop_field o) data) ops ->
  exists b' d dropped, life ds TI rt b ops = Ok (b', d) /\ op_drop ds TI rt A cap v data b' = Ok (ONone, dropped) /\
    Permutation (d ++ dropped) (map vals (filter (dr ds TI) data) ++ written_in ds TI ops).
Proof. exact (life_then_drop ds TI rt A cap RT data L). Qed.

(* same life ended by unpack: nothing more is destroyed, what is handed back is exactly what is still owed *)
Theorem C06_lifecycle_unpack : forall ops vals b v,
  holds ds TI cap A data vals b -> Forall (fun o => In (lop_field o) data) ops ->
  exists b' vals' d, life ds TI rt b ops = Ok (b', d) /\
    op_unpack ds TI rt A cap v data b' = Ok (OUnpacked (map (fun i => (nm ds i, Some (vals' i))) data), []) /\
    Permutation (d ++ map vals' (filter (dr ds TI) data)) (map vals (filter (dr ds TI) data) ++ written_in ds TI ops).
Proof. exact (life_then_unpack ds TI rt A cap RT data L). Qed.
End C06.
Print Assumptions C06_drop.
Print Assumptions C06_lifecycle_drop.
Print Assumptions C06_lifecycle_unpack.
Print Assumptions C06_conversion_drops.

(* the whole life across variants: a record created in variant P, carried through ANY number of conversions
   (complete forms; removed data handed back or not), with ANY reads and writes on each variant in between,
   finally dropped: what was destroyed (d by writes and conversions, `dropped` by Drop) plus what conversions
   handed back (r) is, as a multiset, exactly what entered - at creation, by a write, or as an added field.
   No step faults. *)
Theorem C06_whole_life : forall ds TI rt A cap, rt_ok rt = true ->
  forall (stages : list stage) P vals b v,
  layout_ok ds TI A cap P -> chain_ok ds TI A cap P stages -> holds ds TI cap A P vals b ->
  layout_ok ds TI A cap (last_data P stages) ->
  exists bf d r dropped, chain_run ds TI rt A cap b stages = Ok (bf, d, r) /\
    op_drop ds TI rt A cap v (last_data P stages) bf = Ok (ONone, dropped) /\
    Permutation (d ++ dropped ++ r) (map vals (filter (dr ds TI) P) ++ entered ds TI stages).
Proof. intros ds TI rt A cap RT. exact (chain_then_drop ds TI rt A cap RT). Qed.
Print Assumptions C06_whole_life.

Theorem C06_current : rt_ok Runtime.exec_rt = true.
Proof. reflexivity. Qed.

(* a generated Drop that skipped a field would leak it; a conversion without ManuallyDrop would destroy the
   carried fields twice: both show on the machine (the unfixed bodies are not what Gen emits) *)
Definition ex_ds : defs := [mkDatum 0 1 24 8 false 0; mkDatum 1 1 24 8 false 24].
Definition ex_ti (t : nat) : tinfo := mkTi 24 8 true.
Example C06_nonvacuous :
  match op_new ex_ds ex_ti rt_fixed 8 48 0 [0; 1]%nat (fun i => (100 + i)%nat) with
  | Ok (ORecord r, _) => op_drop ex_ds ex_ti rt_fixed 8 48 0 [0; 1]%nat r
  | _ => Fault (Static 0)
  end = Ok (ONone, [101; 100]%nat).
Proof. vm_compute. reflexivity. Qed.

Example C06_lifecycle_nonvacuous :
  match op_new ex_ds ex_ti rt_fixed 8 48 0 [0; 1]%nat (fun i => (100 + i)%nat) with
  | Ok (ORecord r, _) =>
      match life ex_ds ex_ti rt_fixed r [LSet 0 7; LGet 1 false; LSet 0 8; LSet 1 9]%nat with
      | Ok (r', d) => match op_drop ex_ds ex_ti rt_fixed 8 48 0 [0; 1]%nat r' with Ok (_, dropped) => Some (d, dropped) | _ => None end
      | _ => None
      end
  | _ => None
  end = Some ([100; 7; 101], [9; 8])%nat.
Proof. vm_compute. reflexivity. Qed.
