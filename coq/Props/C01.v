From Coq Require Import List NArith.
From Truc.Model Require Import Layout Builder.
